#!/usr/bin/env python3
# generates checker/c07_mutants.go from readable before/after blocks
import json, os, sys
repo = os.environ.get("VERIF_REPO", "/tmp/hv/C07/repo")
home = os.environ.get("VERIF_HOME", "/tmp/hv/C07/verif")
HP = "proxy/http_proxy.go"
HH = "proxy/http_handler.go"
HD = "proxy/http_headers.go"
src = {f: open(os.path.join(repo, f)).read() for f in (HP, HH, HD)}

def between(f, a, b):
    s = src[f]
    i = s.index(a)
    j = s.index(b, i)
    return s[i:j]

URLBLOCK = between(HP, "\t// build the real target url that is passed to the proxy\n", "\tif err := addHeaders(")
NOROUTE = between(HP, "\tif t == nil {\n", "\tif t.AccessDeniedHTTP(r) {")
LOOKUP = between(HP, "\tt := p.Lookup(r)\n", "\tif t.AccessDeniedHTTP(r) {")
HOSTBLOCK = between(HP, "\tif t.Host == \"dst\" {\n", "\t//Add OpenTrace Headers to response\n")
TAIL = between(HP, "\taccept := r.Header.Get(\"Accept\")\n", "func key(code int) string {")
QUERY = between(HP, "\tif t.URL.RawQuery == \"\" || r.URL.RawQuery == \"\" {\n", "\t// TODO(fs): The HasPrefix check seems redundant")
STRIP = between(HP, "\tif t.StripPath != \"\" && strings.HasPrefix(r.URL.Path, t.StripPath) {\n", "\tif t.PrependPath != \"\" {\n")
PREPEND = between(HP, "\tif t.PrependPath != \"\" {\n", "\tif err := addHeaders(")
NEWPROXY = between(HH, "func newHTTPProxy(", "func httpProxyErrorHandler(")
RW = between(HP, "type responseWriter struct {", "func (rw *responseWriter) Flush() {")
KEYFN = "func key(code int) string {"

muts = []
def M(name, file, old, new, expect, more=None, all=False):
    assert old in src[file], name
    assert all or src[file].count(old) == 1, name + ": Old not unique"
    for o, n in (more or []):
        assert o in src[file], name + " more"
    muts.append(dict(Name=name, File=file, Old=old, New=new, Expect=expect, More=more or [], All=all))

LITERAL = """	// build the real target url that is passed to the proxy
	targetURL := &url.URL{
		Scheme:  t.URL.Scheme,
		Host:    t.URL.Host,
		Path:    r.URL.Path,
		RawPath: r.URL.RawPath,
	}
"""
assert URLBLOCK.startswith(LITERAL)

# ---------------------------------------------------------------- benign rewrites -----------------------------------
# B1: the whole construction of the upstream URL moves into a helper that returns it
B1_HELPER = "func upstreamURL(t *route.Target, r *http.Request) *url.URL {\n" + URLBLOCK.replace("targetURL", "u").replace("\t// build the real target url that is passed to the proxy\n", "") + "\treturn u\n}\n\n"
M("benign: upstream URL built by a helper that returns it", HP, URLBLOCK, "\ttargetURL := upstreamURL(t, r)\n\n", "", [(KEYFN, B1_HELPER + KEYFN)])

# B2: strip and prepend as methods-free string helpers that return an absolute path
B2_NEW = LITERAL + QUERY + """
	if t.StripPath != "" && strings.HasPrefix(r.URL.Path, t.StripPath) {
		targetURL.Path = absPath(targetURL.Path[len(t.StripPath):])
		if strings.HasPrefix(targetURL.RawPath, t.StripPath) {
			targetURL.RawPath = absRawPath(targetURL.RawPath[len(t.StripPath):])
		} else {
			targetURL.RawPath = ""
		}
	}

	if t.PrependPath != "" {
		targetURL.Path = absPath(t.PrependPath + targetURL.Path)
		if targetURL.RawPath != "" {
			targetURL.RawPath = absRawPath(t.PrependPath + targetURL.RawPath)
		}
	}

"""
B2_HELPERS = """// absPath ensures an absolute path (RFC 7230 section 5.3).
func absPath(p string) string {
	if strings.HasPrefix(p, "/") {
		return p
	}
	return "/" + p
}

// absRawPath is absPath for a RawPath, where empty means "default encoding".
func absRawPath(p string) string {
	if p == "" || strings.HasPrefix(p, "/") {
		return p
	}
	return "/" + p
}

"""
M("benign: strip/prepend through string helpers that return absolute paths", HP, URLBLOCK, B2_NEW, "", [(KEYFN, B2_HELPERS + KEYFN)])

# B3: local variables, the literal is built last
B3_NEW = """	// build the real target url that is passed to the proxy
	path, rawPath := r.URL.Path, r.URL.RawPath
	if t.StripPath != "" && strings.HasPrefix(path, t.StripPath) {
		path = path[len(t.StripPath):]
		if strings.HasPrefix(rawPath, t.StripPath) {
			rawPath = rawPath[len(t.StripPath):]
		} else {
			rawPath = ""
		}
		if !strings.HasPrefix(path, "/") {
			path = "/" + path
		}
		if rawPath != "" && !strings.HasPrefix(rawPath, "/") {
			rawPath = "/" + rawPath
		}
	}
	if t.PrependPath != "" {
		path = t.PrependPath + path
		if rawPath != "" {
			rawPath = t.PrependPath + rawPath
		}
		if !strings.HasPrefix(path, "/") {
			path = "/" + path
		}
		if rawPath != "" && !strings.HasPrefix(rawPath, "/") {
			rawPath = "/" + rawPath
		}
	}
	query := t.URL.RawQuery + "&" + r.URL.RawQuery
	if t.URL.RawQuery == "" || r.URL.RawQuery == "" {
		query = t.URL.RawQuery + r.URL.RawQuery
	}
	targetURL := &url.URL{
		Scheme:   t.URL.Scheme,
		Host:     t.URL.Host,
		Path:     path,
		RawPath:  rawPath,
		RawQuery: query,
	}

"""
M("benign: path, raw path and query computed in locals, URL literal built last", HP, URLBLOCK, B3_NEW, "")

# B4: the duplicated normalisation is done once, after both steps
ABSFIX = """		// ensure absolute path after stripping to maintain compliance with
		// section 5.3 of RFC7230 (https://tools.ietf.org/html/rfc7230#section-5.3)
		if !strings.HasPrefix(targetURL.Path, "/") {
			targetURL.Path = "/" + targetURL.Path
		}
		if targetURL.RawPath != "" && !strings.HasPrefix(targetURL.RawPath, "/") {
			targetURL.RawPath = "/" + targetURL.RawPath
		}
"""
assert URLBLOCK.count(ABSFIX) == 2
# NOTE: normalising only once is behaviour-preserving only if the prepend step does not depend on the intermediate
# normalisation: strip leaves "x" -> "/x"; prepend "/p" + "/x" vs "/p" + "x" differ. So the benign variant keeps the
# first normalisation and only moves the second one into a helper method on *url.URL-like wrapper.
B4_NEW = URLBLOCK.replace(ABSFIX, "\t\tnormalise(targetURL)\n")
B4_HELPER = """// normalise ensures absolute paths (RFC 7230 section 5.3).
func normalise(u *url.URL) {
	switch {
	case strings.HasPrefix(u.Path, "/"):
	default:
		u.Path = "/" + u.Path
	}
	if u.RawPath == "" || u.RawPath[0] == '/' {
		return
	}
	u.RawPath = "/" + u.RawPath
}

"""
M("benign: normalisation in a helper using switch / index test / early return", HP, URLBLOCK, B4_NEW, "", [(KEYFN, B4_HELPER + KEYFN)])

# B5: strings.TrimPrefix instead of slicing
B5_NEW = URLBLOCK.replace("targetURL.Path = targetURL.Path[len(t.StripPath):]", "targetURL.Path = strings.TrimPrefix(targetURL.Path, t.StripPath)").replace("targetURL.RawPath = targetURL.RawPath[len(t.StripPath):]", "targetURL.RawPath = strings.TrimPrefix(targetURL.RawPath, t.StripPath)")
M("benign: strings.TrimPrefix instead of slicing", HP, URLBLOCK, B5_NEW, "")

# B6: everything after the gates moves into a method
B6_OLD = between(HP, "\t//Add OpenTrace Headers to response\n", KEYFN)
B6_BODY = B6_OLD[:B6_OLD.rindex("}\n")]  # strip the closing brace of ServeHTTP
B6_NEW = "\tp.forward(w, r, t, span, requestURL, targetURL)\n}\n\nfunc (p *HTTPProxy) forward(w http.ResponseWriter, r *http.Request, t *route.Target, span opentracing.Span, requestURL, targetURL *url.URL) {\n" + B6_BODY + "}\n\n"
# opentracing import may be missing: use interface{ Finish() }-free variant: pass span as the type trace.InjectHeaders takes
M("benign: tail of ServeHTTP (handler choice, proxying, logging) extracted into a method", HP, B6_OLD, B6_NEW, "", [("import (\n", "import (\n\topentracing \"github.com/opentracing/opentracing-go\"\n")])

# B7: lookup + no-route answer in a helper that returns the target
B7_NEW = """	t := p.lookupOrAnswer(w, r)
	if t == nil {
		return
	}

"""
B7_HELPER = """// lookupOrAnswer returns the target of the request, or nil after the no-route response has been written.
func (p *HTTPProxy) lookupOrAnswer(w http.ResponseWriter, r *http.Request) *route.Target {
	if t := p.Lookup(r); t != nil {
		return t
	}
	status := p.Config.NoRouteStatus
	if status < 100 || status > 999 {
		status = http.StatusNotFound
	}
	w.WriteHeader(status)
	if html := noroute.GetHTML(); html != "" {
		w.Write([]byte(html))
	}
	return nil
}

"""
NOIO = ("\t\"io\"\n", "")
M("benign: lookup and no-route answer in a helper that returns the target", HP, LOOKUP, B7_NEW, "", [(KEYFN, B7_HELPER + KEYFN), NOIO])

# B8: no-route branch as a helper with a verdict
B8_NEW = """	t := p.Lookup(r)
	if p.noRoute(w, t) {
		return
	}

"""
B8_HELPER = """// noRoute answers a request without a route and reports whether it did.
func (p *HTTPProxy) noRoute(w http.ResponseWriter, t *route.Target) bool {
	if t != nil {
		return false
	}
	status := p.Config.NoRouteStatus
	if status < 100 || status > 999 {
		status = http.StatusNotFound
	}
	w.WriteHeader(status)
	html := noroute.GetHTML()
	if html != "" {
		io.WriteString(w, html)
	}
	return true
}

"""
M("benign: no-route branch in a helper that returns a verdict", HP, LOOKUP, B8_NEW, "", [(KEYFN, B8_HELPER + KEYFN)])

# B9: Director as a method of a small struct
B9_NEW = """type director struct {
	target *url.URL
}

// direct is a simplified director function based on the
// httputil.NewSingleHostReverseProxy().
func (d *director) direct(req *http.Request) {
	u := d.target
	req.URL.Scheme = u.Scheme
	req.URL.Host = u.Host
	req.URL.Path = u.Path
	req.URL.RawPath = u.RawPath
	req.URL.RawQuery = u.RawQuery
	if _, ok := req.Header["User-Agent"]; !ok {
		// explicitly disable User-Agent so it's not set to default value
		req.Header.Set("User-Agent", "")
	}
}

func newHTTPProxy(target *url.URL, tr http.RoundTripper, flush time.Duration) http.Handler {
	d := &director{target: target}
	return &httputil.ReverseProxy{
		Director:      d.direct,
		FlushInterval: flush,
		Transport:     tr,
		ErrorHandler:  httpProxyErrorHandler,
	}
}

"""
M("benign: Director as a bound method of a struct holding the target", HH, NEWPROXY, B9_NEW, "")

# B10: responseWriter embeds the wrapped writer
B10_NEW = """type responseWriter struct {
	http.ResponseWriter
	code int
	size int
}

func (rw *responseWriter) Write(b []byte) (n int, err error) {
	n, err = rw.ResponseWriter.Write(b)
	rw.size += n
	return
}

func (rw *responseWriter) WriteHeader(statusCode int) {
	rw.code = statusCode
	rw.ResponseWriter.WriteHeader(statusCode)
}

"""
M("benign: responseWriter embeds the wrapped writer, named results", HP, RW, B10_NEW, "",
  [("rw := &responseWriter{w: w}", "rw := &responseWriter{ResponseWriter: w}"),
   ("if fl, ok := rw.w.(http.Flusher); ok {", "if fl, ok := rw.ResponseWriter.(http.Flusher); ok {"),
   ("if hj, ok := rw.w.(http.Hijacker); ok {", "if hj, ok := rw.ResponseWriter.(http.Hijacker); ok {")])

# B11: host decision in a helper
B11_NEW = """	if host, ok := upstreamHost(t, targetURL); ok {
		r.Host = host
	}

"""
B11_HELPER = """// upstreamHost returns the Host header the route asks for; ok is false to keep the client's.
func upstreamHost(t *route.Target, u *url.URL) (host string, ok bool) {
	switch t.Host {
	case "":
		return "", false
	case "dst":
		return u.Host, true
	}
	return t.Host, true
}

"""
M("benign: Host decision in a helper, single store", HP, HOSTBLOCK, B11_NEW, "", [(KEYFN, B11_HELPER + KEYFN)])

# B12: header helper taking the header map and the key
B12_OLD = """	if r.Header.Get("X-Forwarded-Port") == "" {
		r.Header.Set("X-Forwarded-Port", localPort(r))
	}

	if r.Header.Get("X-Forwarded-Host") == "" && r.Host != "" {
		r.Header.Set("X-Forwarded-Host", r.Host)
	}
"""
B12_NEW = """	setIfAbsent(r.Header, "X-Forwarded-Port", localPort(r))
	if r.Host != "" {
		setIfAbsent(r.Header, "X-Forwarded-Host", r.Host)
	}
"""
B12_HELPER = """// setIfAbsent sets the header unless the client (or a proxy in front) sent it.
func setIfAbsent(h http.Header, key, value string) {
	if h.Get(key) == "" {
		h.Set(key, value)
	}
}

"""
M("benign: set-if-absent header helper taking map and key", HD, B12_OLD, B12_NEW, "", [("var tlsver = map[uint16]string{", B12_HELPER + "var tlsver = map[uint16]string{")])

# B13: query merge as a switch on lengths in a helper
B13_NEW = "\ttargetURL.RawQuery = joinQuery(t.URL, r.URL)\n\n"
B13_HELPER = """// joinQuery puts the route's query in front of the request's.
func joinQuery(route, req *url.URL) string {
	rq, q := route.RawQuery, req.RawQuery
	switch {
	case len(rq) == 0:
		return q
	case len(q) == 0:
		return rq
	default:
		return rq + "&" + q
	}
}

"""
M("benign: query merge as a switch over lengths in a helper taking the URLs", HP, QUERY, B13_NEW, "", [(KEYFN, B13_HELPER + KEYFN)])

# B17: flush interval chosen first, one constructor call
B17_OLD = """	case accept == "text/event-stream":
		// use the flush interval for SSE (server-sent events)
		// must be > 0s to be effective
		h = newHTTPProxy(targetURL, tr, p.Config.FlushInterval)

	default:
		h = newHTTPProxy(targetURL, tr, p.Config.GlobalFlushInterval)
	}
"""
B17_NEW = """	default:
		flush := p.Config.GlobalFlushInterval
		if accept == "text/event-stream" {
			// use the flush interval for SSE (server-sent events)
			// must be > 0s to be effective
			flush = p.Config.FlushInterval
		}
		h = newHTTPProxy(targetURL, tr, flush)
	}
"""
M("benign: flush interval chosen first, one constructor call", HP, B17_OLD, B17_NEW, "")

# B18: guard clause instead of nested block for strip; != instead of ==
B18_NEW = URLBLOCK.replace("""	if t.URL.RawQuery == "" || r.URL.RawQuery == "" {
		targetURL.RawQuery = t.URL.RawQuery + r.URL.RawQuery
	} else {
		targetURL.RawQuery = t.URL.RawQuery + "&" + r.URL.RawQuery
	}
""", """	if t.URL.RawQuery != "" && r.URL.RawQuery != "" {
		targetURL.RawQuery = t.URL.RawQuery + "&" + r.URL.RawQuery
	} else {
		targetURL.RawQuery = t.URL.RawQuery + r.URL.RawQuery
	}
""")
M("benign: query condition negated, branches swapped", HP, URLBLOCK, B18_NEW, "")

# B19: strip and prepend as helpers on the URL, normalisation stays with the caller
B19_NEW = LITERAL + QUERY + """
	if t.StripPath != "" && strings.HasPrefix(r.URL.Path, t.StripPath) {
		stripPrefix(targetURL, t.StripPath)
		ensureAbs(targetURL)
	}

	if t.PrependPath != "" {
		prependPrefix(targetURL, t.PrependPath)
		ensureAbs(targetURL)
	}

"""
B19_HELPERS = """// stripPrefix removes prefix from Path and RawPath. RawPath is dropped
// when the prefix is encoded differently.
func stripPrefix(u *url.URL, prefix string) {
	u.Path = u.Path[len(prefix):]
	if !strings.HasPrefix(u.RawPath, prefix) {
		u.RawPath = ""
		return
	}
	u.RawPath = u.RawPath[len(prefix):]
}

func prependPrefix(u *url.URL, prefix string) {
	u.Path = prefix + u.Path
	if u.RawPath != "" {
		u.RawPath = prefix + u.RawPath
	}
}

// ensureAbs ensures absolute paths (RFC 7230 section 5.3).
func ensureAbs(u *url.URL) {
	if !strings.HasPrefix(u.Path, "/") {
		u.Path = "/" + u.Path
	}
	if u.RawPath != "" && !strings.HasPrefix(u.RawPath, "/") {
		u.RawPath = "/" + u.RawPath
	}
}

"""
M("benign: strip and prepend as helpers on the URL, normalisation by the caller", HP, URLBLOCK, B19_NEW, "", [(KEYFN, B19_HELPERS + KEYFN)])

# B20: ServeHTTP is a thin wrapper around an unexported method
M("benign: ServeHTTP delegates to an unexported method", HP, "func (p *HTTPProxy) ServeHTTP(w http.ResponseWriter, r *http.Request) {\n\tif p.Lookup == nil {\n\t\tpanic(\"no lookup function\")\n\t}\n",
  "func (p *HTTPProxy) ServeHTTP(w http.ResponseWriter, r *http.Request) {\n\tif p.Lookup == nil {\n\t\tpanic(\"no lookup function\")\n\t}\n\tp.serve(w, r)\n}\n\nfunc (p *HTTPProxy) serve(w http.ResponseWriter, r *http.Request) {\n", "")

# B21: CutPrefix
B21_NEW = URLBLOCK.replace("""		targetURL.Path = targetURL.Path[len(t.StripPath):]
		if strings.HasPrefix(targetURL.RawPath, t.StripPath) {
			targetURL.RawPath = targetURL.RawPath[len(t.StripPath):]
		} else {
			targetURL.RawPath = ""
		}
""", """		targetURL.Path, _ = strings.CutPrefix(targetURL.Path, t.StripPath)
		if rest, ok := strings.CutPrefix(targetURL.RawPath, t.StripPath); ok {
			targetURL.RawPath = rest
		} else {
			targetURL.RawPath = ""
		}
""")
assert B21_NEW != URLBLOCK
M("benign: strings.CutPrefix instead of HasPrefix + slicing", HP, URLBLOCK, B21_NEW, "")

# B22: Write with named results and a deferred size update
M("benign: responseWriter.Write with named results and deferred accounting", HP, "\tn, err := rw.w.Write(b)\n\trw.size += n\n\treturn n, err\n", "\tdefer func() { rw.size += n }()\n\treturn rw.w.Write(b)\n", "",
  [("func (rw *responseWriter) Write(b []byte) (int, error) {", "func (rw *responseWriter) Write(b []byte) (n int, err error) {")])

# B23: URL as a local value, fields assigned one by one, address passed on
B23_NEW = URLBLOCK.replace(LITERAL, """	// build the real target url that is passed to the proxy
	var upstream url.URL
	upstream.Scheme = t.URL.Scheme
	upstream.Host = t.URL.Host
	upstream.Path = r.URL.Path
	upstream.RawPath = r.URL.RawPath
	targetURL := &upstream
""")
M("benign: URL as a local value with field assignments, address taken", HP, URLBLOCK, B23_NEW, "")

# B24: request-id and forwarding headers set by a method of HTTPProxy; Config reached through a pointer
B24_OLD = between(HP, "\tif p.Config.RequestID != \"\" {\n", "\t//Create Span\n")
B24_HELPER = """// tagRequest adds the request id header if one is configured.
func (p *HTTPProxy) tagRequest(h http.Header) {
	cfg := &p.Config
	if cfg.RequestID == "" {
		return
	}
	id := p.UUID
	if id == nil {
		id = uuid.NewUUID
	}
	h.Set(cfg.RequestID, id())
}

"""
M("benign: request id set by a method taking the header map, config through a pointer", HP, B24_OLD, "\tp.tagRequest(r.Header)\n\n", "", [(KEYFN, B24_HELPER + KEYFN)])

# B25: lookup, no-route answer and both gates in one helper with a (target, ok) result
GATES = between(HP, "\tt := p.Lookup(r)\n", "\t// build the request url since r.URL will get modified\n")
B25_NEW = """	t, ok := p.admit(w, r)
	if !ok {
		return
	}

"""
B25_HELPER = """// admit looks up the target of the request. It answers the request itself and
// returns false if there is no route or the request is not allowed.
func (p *HTTPProxy) admit(w http.ResponseWriter, r *http.Request) (*route.Target, bool) {
	t := p.Lookup(r)
	if t == nil {
		status := p.Config.NoRouteStatus
		if status < 100 || status > 999 {
			status = http.StatusNotFound
		}
		w.WriteHeader(status)
		html := noroute.GetHTML()
		if html != "" {
			io.WriteString(w, html)
		}
		return nil, false
	}
	if t.AccessDeniedHTTP(r) {
		http.Error(w, "access denied", http.StatusForbidden)
		return nil, false
	}
	if !t.Authorized(r, w, p.AuthSchemes) {
		http.Error(w, "authorization failed", http.StatusUnauthorized)
		return nil, false
	}
	return t, true
}

"""
M("benign: lookup, no-route answer and gates in one helper returning (target, ok)", HP, GATES, B25_NEW, "", [(KEYFN, B25_HELPER + KEYFN)])

# B26: newHTTPProxy inlined into ServeHTTP
B26_NEW = """	default:
		flush := p.Config.GlobalFlushInterval
		if accept == "text/event-stream" {
			// use the flush interval for SSE (server-sent events)
			// must be > 0s to be effective
			flush = p.Config.FlushInterval
		}
		h = &httputil.ReverseProxy{
			Director: func(req *http.Request) {
				req.URL.Scheme = targetURL.Scheme
				req.URL.Host = targetURL.Host
				req.URL.Path = targetURL.Path
				req.URL.RawPath = targetURL.RawPath
				req.URL.RawQuery = targetURL.RawQuery
				if _, ok := req.Header["User-Agent"]; !ok {
					// explicitly disable User-Agent so it's not set to default value
					req.Header.Set("User-Agent", "")
				}
			},
			FlushInterval: flush,
			Transport:     tr,
			ErrorHandler:  httpProxyErrorHandler,
		}
	}
"""
M("benign: reverse proxy literal inlined into ServeHTTP", HP, B17_OLD, B26_NEW, "", [("\t\"net/http\"\n", "\t\"net/http\"\n\t\"net/http/httputil\"\n")])

# B27: value receiver
M("benign: ServeHTTP with a value receiver", HP, "func (p *HTTPProxy) ServeHTTP(w http.ResponseWriter, r *http.Request) {", "func (p HTTPProxy) ServeHTTP(w http.ResponseWriter, r *http.Request) {", "")

# B28: host test with a disjunction and an early-exit style
M("benign: Host rewrite with the branches reordered and a conjunctive condition", HP, HOSTBLOCK, """	if h := t.Host; len(h) > 0 && h != "dst" {
		r.Host = h
	} else if h == "dst" {
		r.Host = targetURL.Host
	}

""", "")

# B29: every request header mutation of addHeaders goes through one small helper (a dozen call sites)
B29_HELPER = """// setHeader replaces the values of the request header key.
func setHeader(h http.Header, key, value string) {
	h.Set(key, value)
}

"""
M("benign: all header sets of addHeaders through one helper", HD, "r.Header.Set(", "setHeader(r.Header, ", "", [("var tlsver = map[uint16]string{", B29_HELPER + "var tlsver = map[uint16]string{")], all=True)

# ---------------------------------------------------------------- breaks ------------------------------------------
M("queries always joined with &", HP, QUERY, "\ttargetURL.RawQuery = t.URL.RawQuery + \"&\" + r.URL.RawQuery\n\n", "C07.Q1")
M("queries never separated", HP, QUERY, "\ttargetURL.RawQuery = t.URL.RawQuery + r.URL.RawQuery\n\n", "C07.Q1")
M("request query re-encoded", HP, QUERY, QUERY.replace("targetURL.RawQuery = t.URL.RawQuery + \"&\" + r.URL.RawQuery", "targetURL.RawQuery = t.URL.RawQuery + \"&\" + r.URL.Query().Encode()"), "C07.Q1")
M("query helper trims separators (seed 3 inside a helper)", HP, QUERY, "\ttargetURL.RawQuery = joinQuery(t.URL.RawQuery, r.URL.RawQuery)\n\n", "C07.Q1",
  [(KEYFN, "func joinQuery(a, b string) string {\n\treturn strings.Trim(a+\"&\"+b, \"&\")\n}\n\n" + KEYFN)])
M("query helper called with swapped arguments", HP, QUERY, "\ttargetURL.RawQuery = joinQuery(r.URL, t.URL)\n\n", "C07.Q1", [(KEYFN, B13_HELPER + KEYFN)])

# helper built URL, RawPath not stripped
X4_HELPER = B1_HELPER.replace("""		if strings.HasPrefix(u.RawPath, t.StripPath) {
			u.RawPath = u.RawPath[len(t.StripPath):]
		} else {
			u.RawPath = ""
		}
""", "")
assert X4_HELPER != B1_HELPER
M("URL helper strips Path but not RawPath", HP, URLBLOCK, "\ttargetURL := upstreamURL(t, r)\n\n", "C07.U1", [(KEYFN, X4_HELPER + KEYFN)])

# string helper that does not normalise
X2_HELPERS = B2_HELPERS.replace("""	if p == "" || strings.HasPrefix(p, "/") {
		return p
	}
	return "/" + p
""", "\treturn p\n")
assert X2_HELPERS != B2_HELPERS
M("raw path helper no longer normalises", HP, URLBLOCK, B2_NEW, "C07.U2", [(KEYFN, X2_HELPERS + KEYFN)])

# locals: prepend result not normalised
X3_NEW = B3_NEW.replace("""		path = t.PrependPath + path
		if rawPath != "" {
			rawPath = t.PrependPath + rawPath
		}
		if !strings.HasPrefix(path, "/") {
			path = "/" + path
		}
""", """		path = t.PrependPath + path
		if rawPath != "" {
			rawPath = t.PrependPath + rawPath
		}
""")
assert X3_NEW != B3_NEW
M("locals: prepended path not normalised", HP, URLBLOCK, X3_NEW, "C07.U2")
X3b_NEW = B3_NEW.replace("""		if strings.HasPrefix(rawPath, t.StripPath) {
			rawPath = rawPath[len(t.StripPath):]
		} else {
			rawPath = ""
		}
""", "")
assert X3b_NEW != B3_NEW
M("locals: raw path not stripped", HP, URLBLOCK, X3b_NEW, "C07.U1")

# normalise helper only fixes RawPath when Path needed fixing (seed 2 in another spelling)
X5_HELPER = """func normalise(u *url.URL) {
	if !strings.HasPrefix(u.Path, "/") {
		u.Path = "/" + u.Path
		if u.RawPath != "" && u.RawPath[0] != '/' {
			u.RawPath = "/" + u.RawPath
		}
	}
}

"""
M("normalise helper fixes RawPath only when Path needed fixing", HP, URLBLOCK, B4_NEW, "C07.U2", [(KEYFN, X5_HELPER + KEYFN)])

M("TrimPrefix on Path only", HP, URLBLOCK, URLBLOCK.replace("targetURL.Path = targetURL.Path[len(t.StripPath):]", "targetURL.Path = strings.TrimPrefix(targetURL.Path, t.StripPath)").replace("""		if strings.HasPrefix(targetURL.RawPath, t.StripPath) {
			targetURL.RawPath = targetURL.RawPath[len(t.StripPath):]
		} else {
			targetURL.RawPath = ""
		}
""", ""), "C07.U1")

# no-route helper with constant status / without page
M("no-route helper answers a constant status", HP, LOOKUP, B8_NEW, "C07.N1", [(KEYFN, B8_HELPER.replace("\tstatus := p.Config.NoRouteStatus\n\tif status < 100 || status > 999 {\n\t\tstatus = http.StatusNotFound\n\t}\n", "\tstatus := http.StatusNotFound\n") + KEYFN)])
M("no-route helper writes a fixed body", HP, LOOKUP, B8_NEW, "C07.N1", [(KEYFN, B8_HELPER.replace("\thtml := noroute.GetHTML()\n\tif html != \"\" {\n\t\tio.WriteString(w, html)\n\t}\n", "\tio.WriteString(w, \"no route\")\n") + KEYFN), ("\t\"github.com/fabiolb/fabio/noroute\"\n", "")])
M("no-route verdict helper lets nil targets through", HP, LOOKUP, B8_NEW, "C07.G1", [(KEYFN, B8_HELPER.replace("\treturn true\n}", "\treturn p.Config.NoRouteStatus == 0\n}") + KEYFN)])
M("lookup helper answers but ServeHTTP does not return", HP, LOOKUP, "\tt := p.lookupOrAnswer(w, r)\n\tif t == nil {\n\t\tt = &route.Target{URL: r.URL}\n\t}\n\n", "C07.G1", [(KEYFN, B7_HELPER + KEYFN), NOIO])

# forward helper called before the nil test
M("extracted tail is also run for requests without a route", HP, B6_OLD, B6_NEW, "C07.G1",
  [("import (\n", "import (\n\topentracing \"github.com/opentracing/opentracing-go\"\n"),
   ("\t\tif html != \"\" {\n\t\t\tio.WriteString(w, html)\n\t\t}\n\t\treturn\n\t}\n", "\t\tif html != \"\" {\n\t\t\tio.WriteString(w, html)\n\t\t}\n\t\tp.forward(w, r, &route.Target{URL: r.URL}, span, r.URL, r.URL)\n\t\treturn\n\t}\n")])

# header helper used with an unmanaged key
M("set-if-absent helper used for a client header", HD, B12_OLD, B12_NEW + "\tsetIfAbsent(r.Header, \"Accept-Encoding\", \"identity\")\n", "C07.H1", [("var tlsver = map[uint16]string{", B12_HELPER + "var tlsver = map[uint16]string{")])
M("header helper deletes a header named by the request", HD, B12_OLD, B12_OLD + "\tdropHeader(r.Header, r.Header.Get(\"Connection\"))\n", "C07.H1", [("var tlsver = map[uint16]string{", "func dropHeader(h http.Header, key string) {\n\th.Del(key)\n}\n\n" + "var tlsver = map[uint16]string{")])

# host helper ignoring the option
M("Host helper always answers the upstream host", HP, HOSTBLOCK, B11_NEW, "C07.H2", [(KEYFN, "func upstreamHost(t *route.Target, u *url.URL) (string, bool) {\n\treturn u.Host, true\n}\n\n" + KEYFN)])

# method director also rewrites Host / drops a header
M("method Director rewrites the Host header", HH, NEWPROXY, B9_NEW.replace("\treq.URL.RawQuery = u.RawQuery\n", "\treq.URL.RawQuery = u.RawQuery\n\treq.Host = u.Host\n"), "C07.D1")
M("method Director does not copy RawPath", HH, NEWPROXY, B9_NEW.replace("\treq.URL.RawPath = u.RawPath\n", ""), "C07.U1")
M("flush interval hard-wired", HH, "\t\tFlushInterval: flush,\n", "\t\tFlushInterval: time.Second,\n", "C07.D1")

# embedded writer variants
M("embedding responseWriter swallows informational status", HP, RW, B10_NEW.replace("\trw.code = statusCode\n\trw.ResponseWriter.WriteHeader(statusCode)\n", "\tif statusCode < 200 {\n\t\treturn\n\t}\n\trw.code = statusCode\n\trw.ResponseWriter.WriteHeader(statusCode)\n"), "C07.W1",
  [("rw := &responseWriter{w: w}", "rw := &responseWriter{ResponseWriter: w}"),
   ("if fl, ok := rw.w.(http.Flusher); ok {", "if fl, ok := rw.ResponseWriter.(http.Flusher); ok {"),
   ("if hj, ok := rw.w.(http.Hijacker); ok {", "if hj, ok := rw.ResponseWriter.(http.Hijacker); ok {")])

M("URL helpers: nothing normalises after prepend", HP, URLBLOCK, B19_NEW.replace("\t\tprependPrefix(targetURL, t.PrependPath)\n\t\tensureAbs(targetURL)\n", "\t\tprependPrefix(targetURL, t.PrependPath)\n"), "C07.U2", [(KEYFN, B19_HELPERS + KEYFN)])
M("URL helpers: prependPrefix forgets RawPath", HP, URLBLOCK, B19_NEW, "C07.U1", [(KEYFN, B19_HELPERS.replace("\tif u.RawPath != \"\" {\n\t\tu.RawPath = prefix + u.RawPath\n\t}\n", "") + KEYFN)])

M("(target, ok) helper reports ok for a request without a route", HP, GATES, B25_NEW, "C07.G1", [(KEYFN, B25_HELPER.replace("\t\t\tio.WriteString(w, html)\n\t\t}\n\t\treturn nil, false\n", "\t\t\tio.WriteString(w, html)\n\t\t}\n\t\treturn &route.Target{URL: r.URL}, true\n") + KEYFN)])

M("inlined reverse proxy: Director keeps the client's path", HP, B17_OLD, B26_NEW.replace("\t\t\t\treq.URL.RawPath = targetURL.RawPath\n", ""), "C07.U1", [("\t\"net/http\"\n", "\t\"net/http\"\n\t\"net/http/httputil\"\n")])

M("header helper with a dozen call sites, one of them for a client header", HD, "r.Header.Set(", "setHeader(r.Header, ", "C07.H1", [("var tlsver = map[uint16]string{", B29_HELPER + "var tlsver = map[uint16]string{"), ("\tfwd := r.Header.Get(\"Forwarded\")\n", "\tsetHeader(r.Header, \"Via\", \"fabio\")\n\tfwd := r.Header.Get(\"Forwarded\")\n")], all=True)

def q(s):
    return json.dumps(s, ensure_ascii=False)

out = ["package main", "", "// Generated from readable before/after blocks by /tmp/hv/C07/work/genmut.py (kept next to REPORT.md); the table may also be edited by hand.", "// Overlay mutants of C07 added while hardening the rules against behaviour-preserving refactoring (DESIGN 11.8):",
       "// benign rewrites of kinds that are not in the benign corpus (Expect \"\") and breaks that exercise every rewritten rule", "// in its refactored spelling.", "", "func init() {", "\tprops[\"C07\"].Mutants = append(props[\"C07\"].Mutants, c07moreMutants...)", "}", "", "var c07moreMutants = []mutant{"]
for m in muts:
    more = ""
    if m["More"]:
        more = ", More: []repl{" + ", ".join("{%s, %s}" % (q(o), q(n)) for o, n in m["More"]) + "}"
    if m["All"]:
        more += ", All: true"
    out.append("\t{Name: %s, File: %s, Old: %s, New: %s, Expect: %s%s}," % (q(m["Name"]), q(m["File"]), q(m["Old"]), q(m["New"]), q(m["Expect"]), more))
out.append("}")
open(os.path.join(home, "checker", "c07_mutants.go"), "w").write("\n".join(out) + "\n")
print(len(muts), "mutants written")

