#!/usr/bin/env python3
"""Generates checker/c01_mutants.go (the proactive-pass overlay mutants of C01) from readable specs.
Every Old text is verified to occur in the fabio file it applies to."""
import json, os, sys

REPO = os.environ.get("VERIF_REPO", "/tmp/hv/C01/repo")
OUT = os.environ.get("VERIF_HOME", "/tmp/hv/C01/verif") + "/checker/c01_mutants.go"

def read(f):
    return open(os.path.join(REPO, f)).read()

def between(f, start, end):
    s = read(f)
    i = s.index(start)
    j = s.index(end, i)
    return s[i:j]

muts = []

def M(name, file, repls, expect=""):
    s = read(file)
    for old, new in repls:
        if old not in s:
            print("OLD NOT FOUND in", file, "for", name, ":\n", old[:200], file=sys.stderr)
            sys.exit(1)
        s = s.replace(old, new, 1)
    muts.append((name, file, repls, expect))

P = "registry/consul/passing.go"
S = "registry/consul/service.go"
K = "registry/consul/kv.go"
MAIN = "main.go"

passing_fn = between(P, "func passingServices(", "// isServiceCheck returns true")
svc_doc = "// isServiceCheck returns true if the health check is a valid service check."

# ---------------------------------------------------------------------------------------------- passing.go, benign
M("benign: exclusion conditions as predicate helpers", P, [
    ('if c.CheckID == "serfHealth" && c.Status == "critical" {', 'if agentDown(c) {'),
    ('if c.CheckID == "_node_maintenance" {', 'if nodeMaintenance(c) {'),
    ('if c.CheckID == "_service_maintenance:"+svc.ServiceID && c.Status == "critical" {', 'if serviceMaintenance(c, svc) {'),
    (svc_doc, '''func agentDown(c *api.HealthCheck) bool {
	return c.CheckID == "serfHealth" && c.Status == "critical"
}

func nodeMaintenance(c *api.HealthCheck) bool { return c.CheckID == "_node_maintenance" }

func serviceMaintenance(c, svc *api.HealthCheck) bool {
	if c.CheckID != "_service_maintenance:"+svc.ServiceID {
		return false
	}
	return c.Status == "critical"
}

''' + svc_doc),
])

M("benign: isServiceCheck inlined", P, [
    ("\t\tif !isServiceCheck(svc) {\n\t\t\tcontinue\n\t\t}",
     '\t\tif svc.ServiceID == "" || svc.CheckID == "serfHealth" || svc.CheckID == "_node_maintenance" || strings.HasPrefix(svc.CheckID, "_service_maintenance:") {\n\t\t\tcontinue\n\t\t}'),
])

M("benign: hasStatus replaced by slices.Contains", P, [
    ('import (\n\t"log"\n', 'import (\n\t"log"\n\t"slices"\n'),
    ("if hasStatus(c, status) {", "if slices.Contains(status, c.Status) {"),
])

M("benign: labelled continue replaced by flag and break", P, [
    ("CHECKS:\n\tfor _, svc", "\tfor _, svc"),
    ("\t\tvar total, passing int\n", "\t\tvar total, passing int\n\t\tskip := false\n"),
    ("continue CHECKS", "skip = true\n\t\t\t\t\tbreak"),
    ("continue CHECKS", "skip = true\n\t\t\t\t\tbreak"),
    ("continue CHECKS", "skip = true\n\t\t\t\t\tbreak"),
    ("\t\tif passing == 0 {", "\t\tif skip {\n\t\t\tcontinue\n\t\t}\n\t\tif passing == 0 {"),
])

per_instance = '''func passingServices(checks []*api.HealthCheck, status []string, strict bool) []*api.HealthCheck {
	var p []*api.HealthCheck
	for _, svc := range checks {
		if isServiceCheck(svc) && instancePasses(svc, checks, status, strict) {
			p = append(p, svc)
		}
	}
	return p
}

// instancePasses decides whether one service instance is healthy.
func instancePasses(svc *api.HealthCheck, checks []*api.HealthCheck, status []string, strict bool) bool {
	total, passing := 0, 0
	for _, c := range checks {
		if svc.Node != c.Node {
			continue
		}
		if svc.ServiceID == c.ServiceID {
			total++
			if hasStatus(c, status) {
				passing++
			}
		}
		switch {
		case c.CheckID == "serfHealth" && c.Status == "critical":
			log.Printf("[DEBUG] consul: Skipping service %q since agent on node %q is down: %s", c.ServiceID, c.Node, c.Output)
			return false
		case c.CheckID == "_node_maintenance":
			log.Printf("[DEBUG] consul: Skipping service %q since node %q is in maintenance mode: %s", c.ServiceID, c.Node, c.Output)
			return false
		case c.CheckID == "_service_maintenance:"+svc.ServiceID && c.Status == "critical":
			log.Printf("[DEBUG] consul: Skipping service %q since it is in maintenance mode: %s", svc.ServiceID, c.Output)
			return false
		}
	}
	if passing == 0 {
		return false
	}
	return !strict || total == passing
}

'''
M("benign: per-instance decision in a boolean helper, switch form", P, [(passing_fn, per_instance)])

M("benign: final verdict in a helper", P, [
    ("\t\tif passing == 0 {\n\t\t\tcontinue\n\t\t}\n\t\tif strict && total != passing {\n\t\t\tcontinue\n\t\t}\n",
     "\t\tif !enoughPassing(total, passing, strict) {\n\t\t\tcontinue\n\t\t}\n"),
    (svc_doc, '''func enoughPassing(total, passing int, strict bool) bool {
	if passing < 1 {
		return false
	}
	if strict {
		return passing == total
	}
	return true
}

''' + svc_doc),
])

M("benign: health filter as a method of a rule type", P, [
    ("func passingServices(checks []*api.HealthCheck, status []string, strict bool) []*api.HealthCheck {\n\tvar p []*api.HealthCheck\n",
     '''type healthRule struct {
	status []string
	strict bool
}

func passingServices(checks []*api.HealthCheck, status []string, strict bool) []*api.HealthCheck {
	return healthRule{status, strict}.filter(checks)
}

func (r healthRule) filter(checks []*api.HealthCheck) []*api.HealthCheck {
	var p []*api.HealthCheck
'''),
    ("if hasStatus(c, status) {", "if hasStatus(c, r.status) {"),
    ("if strict && total != passing {", "if r.strict && total != passing {"),
])

M("benign: same-instance test in a helper, guard clauses", P, [
    ("\t\t\tif svc.Node == c.Node {\n\t\t\t\tif svc.ServiceID == c.ServiceID {\n\t\t\t\t\ttotal++",
     "\t\t\tif svc.Node != c.Node {\n\t\t\t\tcontinue\n\t\t\t}\n\t\t\t{\n\t\t\t\tif sameInstance(svc, c) {\n\t\t\t\t\ttotal++"),
    (svc_doc, '''func sameInstance(a, b *api.HealthCheck) bool {
	return a.Node == b.Node && a.ServiceID == b.ServiceID
}

''' + svc_doc),
])

M("benign: strict test nested, comparison reversed", P, [
    ("\t\tif strict && total != passing {\n\t\t\tcontinue\n\t\t}\n",
     "\t\tif strict {\n\t\t\tif passing < total {\n\t\t\t\tcontinue\n\t\t\t}\n\t\t}\n"),
])

# ---------------------------------------------------------------------------------------------- passing.go, breaking
M("helper form: agent failure only logged", P, [(passing_fn, per_instance.replace(
    'is down: %s", c.ServiceID, c.Node, c.Output)\n\t\t\treturn false', 'is down: %s", c.ServiceID, c.Node, c.Output)'))], "C01.F1")

M("helper form: strict mode ignored", P, [(passing_fn, per_instance.replace("return !strict || total == passing", "return !strict || total >= passing"))], "C01.F1")

M("helper form: passing counted for any status", P, [(passing_fn, per_instance.replace(
    "\t\t\tif hasStatus(c, status) {\n\t\t\t\tpassing++\n\t\t\t}", "\t\t\tpassing++"))], "C01.F2")

M("service check test weakened: node maintenance checks become instances", P, [
    ('\t\tc.CheckID != "_node_maintenance" &&\n', ""),
], "C01.F1")

M("predicate helper weakened: agent down only when output mentions it", P, [
    ('if c.CheckID == "serfHealth" && c.Status == "critical" {', 'if agentDown(c) {'),
    (svc_doc, '''func agentDown(c *api.HealthCheck) bool {
	return c.CheckID == "serfHealth" && c.Status == "critical" && strings.Contains(c.Output, "failed")
}

''' + svc_doc),
], "")  # placeholder, expectation fixed below

# ---------------------------------------------------------------------------------------------- service.go, benign
watch_loop_body = between(S, "\t\tif w.config.PollInterval != 0 {", "// makeConfig determines")
M("benign: watch loop body moved into a method", S, [
    (between(S, "func (w *ServiceMonitor) Watch(", "// makeConfig determines"), '''func (w *ServiceMonitor) Watch(updates chan string) {
	var lastIndex uint64
	for {
		lastIndex = w.watchOnce(updates, lastIndex)
	}
}

// watchOnce waits for the next change of the health state, publishes the
// configuration and returns the index to wait for.
func (w *ServiceMonitor) watchOnce(updates chan string, lastIndex uint64) uint64 {
	q := &api.QueryOptions{RequireConsistent: w.config.RequireConsistent, AllowStale: w.config.AllowStale}
	if w.config.PollInterval != 0 {
		time.Sleep(w.config.PollInterval)
	} else {
		q.WaitIndex = lastIndex
	}
	checks, meta, err := w.client.Health().State("any", q)
	if err != nil {
		log.Printf("[WARN] consul: Error fetching health state. %v", err)
		time.Sleep(time.Second)
		return lastIndex
	}
	log.Printf("[DEBUG] consul: Health changed to #%d", meta.LastIndex)
	updates <- w.makeConfig(w.healthy(checks))
	return meta.LastIndex
}

// healthy returns the checks of the tagged instances which are healthy.
func (w *ServiceMonitor) healthy(checks api.HealthChecks) []*api.HealthCheck {
	prefixedChecks := checksWithTagPrefix(w.config.TagPrefix, checks)
	log.Printf("[DEBUG] consul: only %d of %d checks have the configured tag prefix", len(prefixedChecks), len(checks))
	return passingServices(prefixedChecks, w.config.ServiceStatus, w.strict)
}

'''),
])

M("benign: health filter called by the builder", S, [
    ("\t\t// determine which services have passing health checks\n\t\tpassing := passingServices(prefixedChecks, w.config.ServiceStatus, w.strict)\n", ""),
    ("updates <- w.makeConfig(passing)", "updates <- w.makeConfig(prefixedChecks)"),
    ("func (w *ServiceMonitor) makeConfig(checks []*api.HealthCheck) string {\n",
     "func (w *ServiceMonitor) makeConfig(tagged []*api.HealthCheck) string {\n\t// determine which services have passing health checks\n\tchecks := passingServices(tagged, w.config.ServiceStatus, w.strict)\n"),
])

M("benign: reply meta carried instead of the index", S, [
    ("\tvar lastIndex uint64\n\tvar q *api.QueryOptions\n", "\tvar last *api.QueryMeta\n\tvar q *api.QueryOptions\n"),
    ("AllowStale: w.config.AllowStale, WaitIndex: lastIndex}", "AllowStale: w.config.AllowStale}\n\t\t\tif last != nil {\n\t\t\t\tq.WaitIndex = last.LastIndex\n\t\t\t}"),
    ("\t\tlastIndex = meta.LastIndex\n", "\t\tlast = meta\n"),
])

M("benign: instance key built by a helper", S, [
    ('fmt.Sprintf("%s.%s", check.Node, check.ServiceID)', "instanceKey(check.Node, check.ServiceID)"),
    ('passing[svc.Node+"."+svc.ServiceID]', "passing[instanceKey(svc.Node, svc.ServiceID)]"),
    ("// serviceConfig constructs the config", '''// instanceKey identifies a service instance cluster wide.
func instanceKey(node, id string) string {
	_ = fmt.Sprint
	return node + "." + id
}

// serviceConfig constructs the config'''),
])

M("benign: passing instances as a set of struct{}", S, [
    ("m := map[string]map[string]bool{}", "m := map[string]map[string]struct{}{}"),
    ("m[name] = map[string]bool{}", "m[name] = map[string]struct{}{}"),
    ("m[name][id] = true", "m[name][id] = struct{}{}"),
    ("func (w *ServiceMonitor) serviceConfig(name string, passing map[string]bool)", "func (w *ServiceMonitor) serviceConfig(name string, passing map[string]struct{})"),
])

M("benign: sort and join in a helper, slices.SortFunc", S, [
    ('import (\n\t"fmt"\n\t"log"\n', 'import (\n\t"fmt"\n\t"log"\n\t"slices"\n'),
    ("\t// sort config in reverse order to sort most specific config to the top\n\tsort.Sort(sort.Reverse(sort.StringSlice(config)))\n\n\treturn strings.Join(config, \"\\n\")\n",
     "\treturn render(config)\n"),
    ("// serviceConfig constructs the config", '''// render sorts the commands in reverse order to sort the most specific
// config to the top and joins them.
func render(config []string) string {
	_ = sort.Strings
	slices.SortFunc(config, func(a, b string) int { return strings.Compare(b, a) })
	return strings.Join(config, "\\n")
}

// serviceConfig constructs the config'''),
])

M("benign: worker goroutine as a method", S, [
    ("\t\tgo func() {\n\t\t\tsem <- 1\n\t\t\tcfgs <- w.serviceConfig(name, passing)\n\t\t\t<-sem\n\t\t}()\n", "\t\tgo w.worker(name, passing, sem, cfgs)\n"),
    ("// serviceConfig constructs the config", '''func (w *ServiceMonitor) worker(name string, passing map[string]bool, sem chan int, cfgs chan []string) {
	sem <- 1
	defer func() { <-sem }()
	cfgs <- w.serviceConfig(name, passing)
}

// serviceConfig constructs the config'''),
])

M("benign: workers collect under a mutex", S, [
    ('\t"strings"\n\t"time"\n', '\t"strings"\n\t"sync"\n\t"time"\n'),
    (between(S, "\tsem := make(chan int, n)\n", "\t// sort config in reverse order"), '''	var (
		mu     sync.Mutex
		wg     sync.WaitGroup
		config []string
	)
	sem := make(chan int, n)
	for name, passing := range m {
		name, passing := name, passing
		wg.Add(1)
		go func() {
			defer wg.Done()
			sem <- 1
			cfg := w.serviceConfig(name, passing)
			<-sem
			mu.Lock()
			config = append(config, cfg...)
			mu.Unlock()
		}()
	}
	wg.Wait()

'''),
])

M("benign: tag filter with predicate helpers", S, [
    ('\t\tif c.CheckID == "serfHealth" || c.CheckID == "_node_maintenance" || strings.HasPrefix(c.CheckID, "_service_maintenance") {\n\t\t\tchecksWithPrefix = append(checksWithPrefix, c)\n\t\t\tcontinue\n\t\t}\n\t\tfor _, t := range c.ServiceTags {\n\t\t\tif strings.HasPrefix(t, prefix) {\n\t\t\t\tchecksWithPrefix = append(checksWithPrefix, c)\n\t\t\t\tbreak\n\t\t\t}\n\t\t}\n',
     '\t\tif isNodeLevelCheck(c) || hasTagPrefix(c.ServiceTags, prefix) {\n\t\t\tchecksWithPrefix = append(checksWithPrefix, c)\n\t\t}\n'),
    ("// checksWithTagPrefix filters", '''func isNodeLevelCheck(c *api.HealthCheck) bool {
	switch c.CheckID {
	case "serfHealth", "_node_maintenance":
		return true
	}
	return strings.HasPrefix(c.CheckID, "_service_maintenance")
}

func hasTagPrefix(tags []string, prefix string) bool {
	for _, t := range tags {
		if strings.HasPrefix(t, prefix) {
			return true
		}
	}
	return false
}

// checksWithTagPrefix filters'''),
])

# ---------------------------------------------------------------------------------------------- service.go, breaking
M("method form: error edge without sleep", S, [
    (between(S, "func (w *ServiceMonitor) Watch(", "// makeConfig determines"), '''func (w *ServiceMonitor) Watch(updates chan string) {
	var lastIndex uint64
	for {
		lastIndex = w.watchOnce(updates, lastIndex)
	}
}

func (w *ServiceMonitor) watchOnce(updates chan string, lastIndex uint64) uint64 {
	q := &api.QueryOptions{RequireConsistent: w.config.RequireConsistent, AllowStale: w.config.AllowStale}
	if w.config.PollInterval != 0 {
		time.Sleep(w.config.PollInterval)
	} else {
		q.WaitIndex = lastIndex
	}
	checks, meta, err := w.client.Health().State("any", q)
	if err != nil {
		log.Printf("[WARN] consul: Error fetching health state. %v", err)
		return lastIndex
	}
	prefixedChecks := checksWithTagPrefix(w.config.TagPrefix, checks)
	updates <- w.makeConfig(passingServices(prefixedChecks, w.config.ServiceStatus, w.strict))
	return meta.LastIndex
}

'''),
], "C01.W3")

M("method form: tag filter bypassed", S, [
    (between(S, "func (w *ServiceMonitor) Watch(", "// makeConfig determines"), '''func (w *ServiceMonitor) Watch(updates chan string) {
	var lastIndex uint64
	for {
		lastIndex = w.watchOnce(updates, lastIndex)
	}
}

func (w *ServiceMonitor) watchOnce(updates chan string, lastIndex uint64) uint64 {
	q := &api.QueryOptions{RequireConsistent: w.config.RequireConsistent, AllowStale: w.config.AllowStale}
	if w.config.PollInterval != 0 {
		time.Sleep(w.config.PollInterval)
	} else {
		q.WaitIndex = lastIndex
	}
	checks, meta, err := w.client.Health().State("any", q)
	if err != nil {
		log.Printf("[WARN] consul: Error fetching health state. %v", err)
		time.Sleep(time.Second)
		return lastIndex
	}
	updates <- w.makeConfig(w.healthy(checks))
	return meta.LastIndex
}

func (w *ServiceMonitor) healthy(checks api.HealthChecks) []*api.HealthCheck {
	prefixedChecks := checksWithTagPrefix(w.config.TagPrefix, checks)
	log.Printf("[DEBUG] consul: only %d of %d checks have the configured tag prefix", len(prefixedChecks), len(checks))
	return passingServices(checks, w.config.ServiceStatus, w.strict)
}

'''),
], "C01.W1")

M("config sent only when the index moved", S, [
    ("\t\tupdates <- w.makeConfig(passing)\n", "\t\tif meta.LastIndex != lastIndex {\n\t\t\tupdates <- w.makeConfig(passing)\n\t\t}\n"),
], "C01.W2")

M("error reply publishes an empty configuration", S, [
    ('\t\t\tlog.Printf("[WARN] consul: Error fetching health state. %v", err)\n', '\t\t\tlog.Printf("[WARN] consul: Error fetching health state. %v", err)\n\t\t\tupdates <- ""\n'),
], "C01.W1")

M("key helper used by the writer only, reader keyed by address", S, [
    ('fmt.Sprintf("%s.%s", check.Node, check.ServiceID)', "instanceKey(check.Node, check.ServiceID)"),
    ('passing[svc.Node+"."+svc.ServiceID]', "passing[instanceKey(svc.Address, svc.ServiceID)]"),
    ("// serviceConfig constructs the config", '''func instanceKey(node, id string) string {
	_ = fmt.Sprint
	return node + "." + id
}

// serviceConfig constructs the config'''),
], "C01.K1")

M("helper form: commands joined unsorted", S, [
    ("\t// sort config in reverse order to sort most specific config to the top\n\tsort.Sort(sort.Reverse(sort.StringSlice(config)))\n\n\treturn strings.Join(config, \"\\n\")\n",
     "\treturn render(config)\n"),
    ("// serviceConfig constructs the config", '''func render(config []string) string {
	_ = sort.Strings
	return strings.Join(config, "\\n")
}

// serviceConfig constructs the config'''),
], "C01.M1")

M("workers append to a shared slice without a lock", S, [
    ('\t"strings"\n\t"time"\n', '\t"strings"\n\t"sync"\n\t"time"\n'),
    (between(S, "\tsem := make(chan int, n)\n", "\t// sort config in reverse order"), '''	var (
		wg     sync.WaitGroup
		config []string
	)
	sem := make(chan int, n)
	for name, passing := range m {
		name, passing := name, passing
		wg.Add(1)
		go func() {
			defer wg.Done()
			sem <- 1
			config = append(config, w.serviceConfig(name, passing)...)
			<-sem
		}()
	}
	wg.Wait()

'''),
], "C01.M2")

M("helper form: tag filter drops maintenance checks", S, [
    ('\t\tif c.CheckID == "serfHealth" || c.CheckID == "_node_maintenance" || strings.HasPrefix(c.CheckID, "_service_maintenance") {\n\t\t\tchecksWithPrefix = append(checksWithPrefix, c)\n\t\t\tcontinue\n\t\t}\n',
     '\t\tif isNodeLevelCheck(c) {\n\t\t\tchecksWithPrefix = append(checksWithPrefix, c)\n\t\t\tcontinue\n\t\t}\n'),
    ("// checksWithTagPrefix filters", '''func isNodeLevelCheck(c *api.HealthCheck) bool {
	switch c.CheckID {
	case "serfHealth", "_node_maintenance":
		return true
	}
	return false
}

// checksWithTagPrefix filters'''),
], "C01.F3")

# ---------------------------------------------------------------------------------------------- kv.go
M("benign: listKV renamed", K, [
    ("value, index, err := listKV(client, path, lastIndex,", "value, index, err := fetchKV(client, path, lastIndex,"),
    ("func listKV(client", "func fetchKV(client"),
])

M("benign: query options of the KV helpers built by a helper", K, [
    ("func listKV(client *api.Client, path string, waitIndex uint64, separator bool, requireConsistent bool, allowStale bool) (string, uint64, error) {\n\tq := &api.QueryOptions{RequireConsistent: requireConsistent, AllowStale: allowStale, WaitIndex: waitIndex}\n",
     "func listKV(client *api.Client, path string, waitIndex uint64, separator bool, requireConsistent bool, allowStale bool) (string, uint64, error) {\n\tq := blockingQuery(waitIndex, requireConsistent, allowStale)\n"),
    ("func listKeys(client", '''func blockingQuery(waitIndex uint64, requireConsistent, allowStale bool) *api.QueryOptions {
	q := new(api.QueryOptions)
	q.RequireConsistent = requireConsistent
	q.AllowStale = allowStale
	q.WaitIndex = waitIndex
	return q
}

func listKeys(client'''),
])

M("benign: kv error back-off in a helper", K, [
    ('\t\t\tlog.Printf("[WARN] consul: Error fetching config from %s. %v", path, err)\n\t\t\ttime.Sleep(time.Second)\n\t\t\tcontinue',
     '\t\t\tretryLater(path, err)\n\t\t\tcontinue'),
    ("func listKeys(client", '''func retryLater(path string, err error) {
	log.Printf("[WARN] consul: Error fetching config from %s. %v", path, err)
	time.Sleep(time.Second)
}

func listKeys(client'''),
])

M("kv watcher waits on index 0 every time", K, [
    ("value, index, err := listKV(client, path, lastIndex,", "value, index, err := listKV(client, path, 0,"),
], "C01.W3")

M("kv helper ignores the wait index", K, [
    ("func listKV(client *api.Client, path string, waitIndex uint64, separator bool, requireConsistent bool, allowStale bool) (string, uint64, error) {\n\tq := &api.QueryOptions{RequireConsistent: requireConsistent, AllowStale: allowStale, WaitIndex: waitIndex}\n",
     "func listKV(client *api.Client, path string, waitIndex uint64, separator bool, requireConsistent bool, allowStale bool) (string, uint64, error) {\n\tq := &api.QueryOptions{RequireConsistent: requireConsistent, AllowStale: allowStale}\n"),
], "C01.W3")

# ---------------------------------------------------------------------------------------------- main.go
M("benign: candidate text by concatenation", MAIN, [
    ("\t\t\ttableBuffer.Reset()\n\t\t\ttableBuffer.WriteString(svccfg)\n\t\t\ttableBuffer.WriteString(\"\\n\")\n\t\t\ttableBuffer.WriteString(mancfg)\n", ""),
    ("if nextTable = tableBuffer.String(); nextTable == lastTable {", "if nextTable = svccfg + \"\\n\" + mancfg; nextTable == lastTable {"),
    ("t, err := route.NewTable(tableBuffer)", "t, err := route.NewTable(bytes.NewBufferString(nextTable))"),
    ("\t\ttableBuffer = new(bytes.Buffer) // fix crash on reset before used (#650)\n", ""),
])

M("benign: candidate text written with Fprintf", MAIN, [
    ("\t\t\ttableBuffer.WriteString(svccfg)\n\t\t\ttableBuffer.WriteString(\"\\n\")\n\t\t\ttableBuffer.WriteString(mancfg)\n",
     "\t\t\tfmt.Fprintf(tableBuffer, \"%s\\n%s\", svccfg, mancfg)\n"),
])

M("benign: buffer filled by a helper", MAIN, [
    ("\t\t\ttableBuffer.Reset()\n\t\t\ttableBuffer.WriteString(svccfg)\n\t\t\ttableBuffer.WriteString(\"\\n\")\n\t\t\ttableBuffer.WriteString(mancfg)\n",
     "\t\t\tfillTableBuffer(tableBuffer, svccfg, mancfg)\n"),
    ("func watchNoRouteHTML(", '''// fillTableBuffer: manual config overrides service config - order matters
func fillTableBuffer(buf *bytes.Buffer, svccfg, mancfg string) {
	buf.Reset()
	buf.WriteString(svccfg)
	buf.WriteByte('\\n')
	buf.WriteString(mancfg)
}

func watchNoRouteHTML('''),
])

M("benign: update loop in a function that is given the channels", MAIN, [
    (between(MAIN, "\t\tsvc := registry.Default.WatchServices()\n\t\tman := registry.Default.WatchManual()\n", "func watchNoRouteHTML("),
     '''		updateTables(cfg, registry.Default.WatchServices(), registry.Default.WatchManual(), first)
	}
}

func updateTables(cfg *config.Config, svc, man chan string, first chan bool) {
	var (
		lastTable, svccfg, mancfg string
		once                      sync.Once
		tableBuffer               = new(bytes.Buffer)
	)
	for {
		select {
		case svccfg = <-svc:
		case mancfg = <-man:
		}
		tableBuffer.Reset()
		tableBuffer.WriteString(svccfg)
		tableBuffer.WriteString("\\n")
		tableBuffer.WriteString(mancfg)
		nextTable := tableBuffer.String()
		if nextTable == lastTable {
			continue
		}
		aliases, err := route.ParseAliases(nextTable)
		if err != nil {
			log.Printf("[WARN]: %s", err)
		}
		registry.Default.Register(aliases)
		t, err := route.NewTable(tableBuffer)
		if err != nil {
			log.Printf("[WARN] %s", err)
			continue
		}
		route.SetTable(t)
		logRoutes(t, lastTable, nextTable, cfg.Log.RoutesFormat)
		lastTable = nextTable
		once.Do(func() { close(first) })
	}
}

'''),
    ("\t\tnextTable   string\n", ""),
    ("\t\tlastTable   string\n", ""),
    ("\t\tsvccfg      string\n", ""),
    ("\t\tmancfg      string\n", ""),
    ("\t\ttableBuffer = new(bytes.Buffer) // fix crash on reset before used (#650)\n", ""),
])

M("concatenation form: manual text first", MAIN, [
    ("\t\t\ttableBuffer.Reset()\n\t\t\ttableBuffer.WriteString(svccfg)\n\t\t\ttableBuffer.WriteString(\"\\n\")\n\t\t\ttableBuffer.WriteString(mancfg)\n", ""),
    ("if nextTable = tableBuffer.String(); nextTable == lastTable {", "if nextTable = mancfg + \"\\n\" + svccfg; nextTable == lastTable {"),
    ("t, err := route.NewTable(tableBuffer)", "t, err := route.NewTable(bytes.NewBufferString(nextTable))"),
    ("\t\ttableBuffer = new(bytes.Buffer) // fix crash on reset before used (#650)\n", ""),
], "C01.B1")

M("helper form: buffer not reset", MAIN, [
    ("\t\t\ttableBuffer.Reset()\n\t\t\ttableBuffer.WriteString(svccfg)\n\t\t\ttableBuffer.WriteString(\"\\n\")\n\t\t\ttableBuffer.WriteString(mancfg)\n",
     "\t\t\tfillTableBuffer(tableBuffer, svccfg, mancfg)\n"),
    ("func watchNoRouteHTML(", '''func fillTableBuffer(buf *bytes.Buffer, svccfg, mancfg string) {
	buf.WriteString(svccfg)
	buf.WriteByte('\\n')
	buf.WriteString(mancfg)
}

func watchNoRouteHTML('''),
], "C01.B1")

M("helper form: service updates skipped while no manual config", MAIN, [
    ("\t\t\ttableBuffer.Reset()\n\t\t\ttableBuffer.WriteString(svccfg)\n\t\t\ttableBuffer.WriteString(\"\\n\")\n\t\t\ttableBuffer.WriteString(mancfg)\n",
     "\t\t\tif !fillTableBuffer(tableBuffer, svccfg, mancfg) {\n\t\t\t\tcontinue\n\t\t\t}\n"),
    ("func watchNoRouteHTML(", '''func fillTableBuffer(buf *bytes.Buffer, svccfg, mancfg string) bool {
	if mancfg == "" {
		return false
	}
	buf.Reset()
	buf.WriteString(svccfg)
	buf.WriteByte('\\n')
	buf.WriteString(mancfg)
	return true
}

func watchNoRouteHTML('''),
], "C01.B2")


# ---------------------------------------------------------------------------------------------- second batch
M("benign: hasStatus inlined as a loop", P, [
    ("\t\t\t\t\tif hasStatus(c, status) {\n\t\t\t\t\t\tpassing++\n\t\t\t\t\t}\n",
     "\t\t\t\t\tfor _, s := range status {\n\t\t\t\t\t\tif c.Status == s {\n\t\t\t\t\t\t\tpassing++\n\t\t\t\t\t\t\tbreak\n\t\t\t\t\t\t}\n\t\t\t\t\t}\n"),
])

M("benign: KV query issued by the watch loop itself", K, [
    ("\t\tvalue, index, err := listKV(client, path, lastIndex, separator, requireConsistent, allowStale)\n",
     "\t\tq := &api.QueryOptions{RequireConsistent: requireConsistent, AllowStale: allowStale, WaitIndex: lastIndex}\n\t\tkvpairs, meta, err := client.KV().List(path, q)\n"),
    ("\t\t\tcontinue\n\t\t}\n\n\t\tif value != lastValue || index != lastIndex {",
     "\t\t\tcontinue\n\t\t}\n\t\tvalue, index := joinKV(kvpairs, separator), meta.LastIndex\n\n\t\tif value != lastValue || index != lastIndex {"),
    ("func listKeys(client", """func joinKV(kvpairs api.KVPairs, separator bool) string {
	var s []string
	for _, kvpair := range kvpairs {
		val := strings.TrimSpace(string(kvpair.Value))
		if separator {
			val = "# --- " + kvpair.Key + "\\n" + val
		}
		s = append(s, val)
	}
	return strings.Join(s, "\\n\\n")
}

func listKeys(client"""),
])

M("benign: query failure handled by a predicate helper", S, [
    ('\t\tif err != nil {\n\t\t\tlog.Printf("[WARN] consul: Error fetching health state. %v", err)\n\t\t\ttime.Sleep(time.Second)\n\t\t\tcontinue\n\t\t}\n',
     "\t\tif failed(err) {\n\t\t\tcontinue\n\t\t}\n"),
    ("// makeConfig determines", """// failed reports whether the query failed; it logs the failure and waits a second.
func failed(err error) bool {
	if err == nil {
		return false
	}
	log.Printf("[WARN] consul: Error fetching health state. %v", err)
	time.Sleep(time.Second)
	return true
}

// makeConfig determines"""),
])

M("predicate helper form: failure not slept on", S, [
    ('\t\tif err != nil {\n\t\t\tlog.Printf("[WARN] consul: Error fetching health state. %v", err)\n\t\t\ttime.Sleep(time.Second)\n\t\t\tcontinue\n\t\t}\n',
     "\t\tif failed(err) {\n\t\t\tcontinue\n\t\t}\n"),
    ("// makeConfig determines", """func failed(err error) bool {
	if err == nil {
		return false
	}
	log.Printf("[WARN] consul: Error fetching health state. %v", err)
	_ = time.Second
	return true
}

// makeConfig determines"""),
], "C01.W3")

M("benign: updater state in a struct", MAIN, [
    ("\t\tsvccfg      string\n\t\tmancfg      string\n", "\t\tst          struct{ svccfg, mancfg string }\n"),
    ("\t\t\tcase svccfg = <-svc:\n\t\t\tcase mancfg = <-man:\n", "\t\t\tcase st.svccfg = <-svc:\n\t\t\tcase st.mancfg = <-man:\n"),
    ("\t\t\ttableBuffer.WriteString(svccfg)\n", "\t\t\ttableBuffer.WriteString(st.svccfg)\n"),
    ("\t\t\ttableBuffer.WriteString(mancfg)\n", "\t\t\ttableBuffer.WriteString(st.mancfg)\n"),
])

M("struct state form: text of the last table written too", MAIN, [
    ("\t\tsvccfg      string\n\t\tmancfg      string\n", "\t\tst          struct{ svccfg, mancfg string }\n"),
    ("\t\t\tcase svccfg = <-svc:\n\t\t\tcase mancfg = <-man:\n", "\t\t\tcase st.svccfg = <-svc:\n\t\t\tcase st.mancfg = <-man:\n"),
    ("\t\t\ttableBuffer.WriteString(svccfg)\n", "\t\t\ttableBuffer.WriteString(lastTable)\n\t\t\ttableBuffer.WriteString(st.svccfg)\n"),
    ("\t\t\ttableBuffer.WriteString(mancfg)\n", "\t\t\ttableBuffer.WriteString(st.mancfg)\n"),
], "C01.B1")

M("benign: config text trimmed before it is sent", S, [
    ("updates <- w.makeConfig(passing)", "updates <- strings.TrimSpace(w.makeConfig(passing))"),
])


tag_fn = between(S, "func checksWithTagPrefix(", "\n\treturn checksWithPrefix\n}")
M("benign: tag filter by slices.DeleteFunc", S, [
    ('import (\n\t"fmt"\n\t"log"\n', 'import (\n\t"fmt"\n\t"log"\n\t"slices"\n'),
    (tag_fn + "\n\treturn checksWithPrefix\n}", """func checksWithTagPrefix(prefix string, checks api.HealthChecks) api.HealthChecks {
	hasPrefix := func(tag string) bool { return strings.HasPrefix(tag, prefix) }
	return slices.DeleteFunc(slices.Clone(checks), func(c *api.HealthCheck) bool {
		if c.CheckID == "serfHealth" || c.CheckID == "_node_maintenance" || strings.HasPrefix(c.CheckID, "_service_maintenance") {
			return false
		}
		return !slices.ContainsFunc(c.ServiceTags, hasPrefix)
	})
}"""),
])
M("DeleteFunc form: agent checks dropped with the untagged", S, [
    ('import (\n\t"fmt"\n\t"log"\n', 'import (\n\t"fmt"\n\t"log"\n\t"slices"\n'),
    (tag_fn + "\n\treturn checksWithPrefix\n}", """func checksWithTagPrefix(prefix string, checks api.HealthChecks) api.HealthChecks {
	hasPrefix := func(tag string) bool { return strings.HasPrefix(tag, prefix) }
	return slices.DeleteFunc(slices.Clone(checks), func(c *api.HealthCheck) bool {
		if c.CheckID == "_node_maintenance" || strings.HasPrefix(c.CheckID, "_service_maintenance") {
			return false
		}
		return !slices.ContainsFunc(c.ServiceTags, hasPrefix)
	})
}"""),
], "C01.F3")


fetch_form = """func (w *ServiceMonitor) Watch(updates chan string) {
	var lastIndex uint64
	for {
		checks, index, ok := w.fetch(lastIndex)
		if !ok {
			continue
		}
		updates <- w.makeConfig(w.filter(checks))
		lastIndex = index
	}
}

// fetch waits for the next health state. It returns false after a failed query.
func (w *ServiceMonitor) fetch(lastIndex uint64) (api.HealthChecks, uint64, bool) {
	q := &api.QueryOptions{RequireConsistent: w.config.RequireConsistent, AllowStale: w.config.AllowStale}
	if w.config.PollInterval != 0 {
		time.Sleep(w.config.PollInterval)
	} else {
		q.WaitIndex = lastIndex
	}
	checks, meta, err := w.client.Health().State("any", q)
	if err != nil {
		log.Printf("[WARN] consul: Error fetching health state. %v", err)
		time.Sleep(time.Second)
		return nil, lastIndex, false
	}
	log.Printf("[DEBUG] consul: Health changed to #%d", meta.LastIndex)
	return checks, meta.LastIndex, true
}

func (w *ServiceMonitor) filter(checks api.HealthChecks) []*api.HealthCheck {
	prefixedChecks := checksWithTagPrefix(w.config.TagPrefix, checks)
	log.Printf("[DEBUG] consul: only %d of %d checks have the configured tag prefix", len(prefixedChecks), len(checks))
	return passingServices(prefixedChecks, w.config.ServiceStatus, w.strict)
}

"""
watch_fn = between(S, "func (w *ServiceMonitor) Watch(", "// makeConfig determines")
M("benign: watch split into fetch, filter and publish", S, [(watch_fn, fetch_form)])
M("fetch form: empty replies not published", S, [(watch_fn, fetch_form.replace("return checks, meta.LastIndex, true", "return checks, meta.LastIndex, len(checks) > 0"))], "C01.W2")
M("fetch form: failed query not slept on", S, [(watch_fn, fetch_form.replace("\t\ttime.Sleep(time.Second)\n\t\treturn nil, lastIndex, false", "\t\treturn nil, lastIndex, false"))], "C01.W3")

M("benign: accepted status values as a set", P, [
    ("func passingServices(checks []*api.HealthCheck, status []string, strict bool) []*api.HealthCheck {\n\tvar p []*api.HealthCheck\n",
     "func passingServices(checks []*api.HealthCheck, status []string, strict bool) []*api.HealthCheck {\n\tvar p []*api.HealthCheck\n\taccepted := make(map[string]bool, len(status))\n\tfor _, s := range status {\n\t\taccepted[s] = true\n\t}\n"),
    ("if hasStatus(c, status) {", "if accepted[c.Status] {"),
])

M("benign: builder split into grouping, fan-out and rendering", S, [
    (between(S, "func (w *ServiceMonitor) makeConfig(", "// serviceConfig constructs the config"), """func (w *ServiceMonitor) makeConfig(checks []*api.HealthCheck) string {
	config := w.collect(groupByService(checks))

	// sort config in reverse order to sort most specific config to the top
	sort.Sort(sort.Reverse(sort.StringSlice(config)))

	return strings.Join(config, "\\n")
}

// groupByService maps service name to the ids of the instances for which the health check is ok.
func groupByService(checks []*api.HealthCheck) map[string]map[string]bool {
	m := map[string]map[string]bool{}
	for _, check := range checks {
		// Make the node part of the id, because according to the Consul docs
		// the ServiceID is unique per agent but not cluster wide
		id := fmt.Sprintf("%s.%s", check.Node, check.ServiceID)
		ids := m[check.ServiceName]
		if ids == nil {
			ids = map[string]bool{}
			m[check.ServiceName] = ids
		}
		ids[id] = true
	}
	return m
}

// collect builds the route commands of all services with a bounded number of workers.
func (w *ServiceMonitor) collect(m map[string]map[string]bool) []string {
	n := w.config.ServiceMonitors
	if n <= 0 {
		n = 1
	}
	sem := make(chan int, n)
	cfgs := make(chan []string, len(m))
	for name, passing := range m {
		go func(name string, passing map[string]bool) {
			sem <- 1
			cfgs <- w.serviceConfig(name, passing)
			<-sem
		}(name, passing)
	}
	var config []string
	for range m {
		config = append(config, <-cfgs...)
	}
	return config
}

"""),
])


M("benign: sleeps written as timer receives", S, [
    ("\t\t\ttime.Sleep(w.config.PollInterval)\n", "\t\t\t<-time.After(w.config.PollInterval)\n"),
    ("\t\t\ttime.Sleep(time.Second)\n", "\t\t\t<-time.After(time.Second)\n"),
])
M("benign: filters applied through a local closure", S, [
    ("\t\tprefixedChecks := checksWithTagPrefix(w.config.TagPrefix, checks)\n", "\t\tselect_ := func(cs api.HealthChecks) []*api.HealthCheck {\n\t\t\treturn passingServices(checksWithTagPrefix(w.config.TagPrefix, cs), w.config.ServiceStatus, w.strict)\n\t\t}\n\t\tprefixedChecks := checksWithTagPrefix(w.config.TagPrefix, checks)\n"),
    ("\t\tpassing := passingServices(prefixedChecks, w.config.ServiceStatus, w.strict)\n", "\t\tpassing := select_(checks)\n"),
])


struct_key = [
    ("// ServiceMonitor generates fabio configurations from consul state.", "// instKey identifies a service instance cluster wide: the ServiceID is unique per agent only.\ntype instKey struct{ node, id string }\n\nvar _ = fmt.Sprint\n\n// ServiceMonitor generates fabio configurations from consul state."),
    ("m := map[string]map[string]bool{}", "m := map[string]map[instKey]bool{}"),
    ('name, id := check.ServiceName, fmt.Sprintf("%s.%s", check.Node, check.ServiceID)', "name, id := check.ServiceName, instKey{check.Node, check.ServiceID}"),
    ("m[name] = map[string]bool{}", "m[name] = map[instKey]bool{}"),
    ("func (w *ServiceMonitor) serviceConfig(name string, passing map[string]bool)", "func (w *ServiceMonitor) serviceConfig(name string, passing map[instKey]bool)"),
]
M("benign: instance key as a struct", S, struct_key + [('passing[svc.Node+"."+svc.ServiceID]', "passing[instKey{svc.Node, svc.ServiceID}]")])
M("struct key form: looked up by address", S, struct_key + [('passing[svc.Node+"."+svc.ServiceID]', "passing[instKey{svc.Address, svc.ServiceID}]")], "C01.K1")

# fix the placeholder expectation
for k, m in enumerate(muts):
    if m[0].startswith("predicate helper weakened"):
        muts[k] = (m[0], m[1], m[2], "C01.F1")

def q(s):
    return json.dumps(s, ensure_ascii=False)

with open(OUT, "w") as f:
    f.write("package main\n\n// Code generated by the C01 hardening pass (readable specs kept in the report). Overlay mutants of the proactive pass:\n")
    f.write("// benign rewrites (Expect \"\") of kinds that are not in the benign corpus, and breaking variants of the rewritten shapes.\n\n")
    f.write("var c01MoreMutants = []mutant{\n")
    for name, file, repls, expect in muts:
        f.write("\t{Name: %s, File: %s, Expect: %s,\n" % (q(name), q(file), q(expect)))
        f.write("\t\tOld: %s,\n\t\tNew: %s,\n" % (q(repls[0][0]), q(repls[0][1])))
        if len(repls) > 1:
            f.write("\t\tMore: []repl{\n")
            for old, new in repls[1:]:
                f.write("\t\t\t{%s, %s},\n" % (q(old), q(new)))
            f.write("\t\t}},\n")
        else:
            f.write("\t},\n")
    f.write("}\n")
print("wrote", OUT, len(muts), "mutants")
