#!/bin/bash
# usage: mkhv.sh CNN   - sandbox for a rule-writing / hardening agent: /tmp/hv/CNN/{verif,repo}
# (copy of /verif without .git, a detached worktree of /repo). Round 4: also copies the two new breaking patches of the
# property from /tmp/wt/CNN/SEED/{7,8} into the sandbox's seeded/ with a stub meta.json that makes devloop demand them.
set -eu
ID=$1
H=/tmp/hv/$ID
git -C /repo worktree remove --force $H/repo 2>/dev/null || true; rm -rf $H; git -C /repo worktree prune; mkdir -p $H
rsync -a --exclude .git --exclude bin --exclude evidence /verif/ $H/verif/
git -C /repo worktree add -q --detach $H/repo HEAD
: > $H/STATUS.txt
for k in 7 8; do
  S=/tmp/wt/$ID/SEED/$k
  [ -d $S ] || continue
  D=$H/verif/seeded/$ID-$k
  mkdir -p $D
  cp $S/patch.diff $D/
  [ -f $S/NOTES.md ] && cp $S/NOTES.md $D/
  [ -f $S/demo_path.txt ] && cp $S/demo_path.txt $D/
  for f in $S/*.go; do [ -f "$f" ] && cp $f $D/$(basename $f).txt; done
  printf '{"property": "%s", "seed": "%s", "reported_by": {"%s": ["(new in round 4: must be reported by %s)"]}}\n' $ID $k $ID $ID > $D/meta.json
  echo "== $ID-$k: what '$ID quick' prints today with seeded/$ID-$k/patch.diff applied" >> $H/STATUS.txt
  if [ -f /tmp/r4/$ID-$k.out ]; then
    if grep -q 'VIOLATED\|UNDECIDED' /tmp/r4/$ID-$k.out; then grep 'VIOLATED\|UNDECIDED' /tmp/r4/$ID-$k.out | cut -c1-600 >> $H/STATUS.txt
    else echo "   (nothing: the patch is not reported)" >> $H/STATUS.txt; fi
  fi
done
echo "sandbox $H ready"
