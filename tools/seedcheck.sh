#!/bin/bash
# Applies a seeded patch to /repo, runs every check's quick tier, reverts. Prints the properties that report.
#   usage: tools/seedcheck.sh <patch.diff>
set -u
P=$(readlink -f "$1")
cd /verif
if ! git -C /repo apply "$P"; then echo "patch does not apply"; exit 2; fi
trap 'git -C /repo checkout -- . ; git -C /repo clean -fdq -- . 2>/dev/null' EXIT
export VERIF_DIR=$(mktemp -d /tmp/seedev.XXXXXX)   # evidence of these runs is scratch, not /verif/evidence
cp /verif/known-findings.txt "$VERIF_DIR/"
for id in $(./bin/verifcheck list); do
  out=$(./bin/verifcheck $id quick 2>&1)
  rc=$?
  if [ $rc -ne 0 ]; then
    echo "== $id rc=$rc"
    echo "$out" | grep -E "VIOLATED|UNDECIDED|CANNOT" | cut -c1-260 | head -8
  fi
done
rm -rf "$VERIF_DIR"
