#!/bin/bash
# Applies a seeded patch to /repo (or $VERIF_REPO), runs every check's quick tier, reverts. Prints the properties that report.
#   usage: tools/seedcheck.sh <patch.diff>
set -u
# VERIF_REPO (default /repo) names the checkout the patch is applied to and the checks analyse: a scratch worktree of
# /repo lets the seed and refactoring regressions run side by side with the registered checks, which always use /repo.
P=$(readlink -f "$1")
R=${VERIF_REPO:-/repo}
export VERIF_REPO=$R
cd /verif
if ! git -C $R apply "$P"; then echo "patch does not apply"; exit 2; fi
trap 'git -C $R checkout -- . ; git -C $R clean -fdq -- . 2>/dev/null' EXIT
export VERIF_DIR=$(mktemp -d /tmp/seedev.XXXXXX)   # evidence of these runs is scratch, not /verif/evidence
cp /verif/known-findings.txt "$VERIF_DIR/"
# one load of the patched tree, then the rules of all 20 properties (same obligations as 20 separate quick runs,
# about 4 s instead of 60; known findings are left out as in the quick tier)
./bin/verifcheck allprops 2>&1 | cut -c1-260
rm -rf "$VERIF_DIR"
