#!/bin/bash
# Verifies a seeded change independently of its author, in a scratch worktree (removed afterwards):
#   usage: tools/seedverify.sh <seed-dir>     (dir with patch.diff, demo_path.txt, demo files)
# Prints: build ok?, suite stable-pass ok?, demo with change (expect FAIL), demo without (expect PASS).
set -u
SEED=$(readlink -f "$1")
export GOFLAGS=-mod=mod GOPROXY=off; unset GOWORK GOTOOLCHAIN GOSUMDB
WT=$(mktemp -d /tmp/seedwt.XXXXXX)
git -C /repo worktree add -q --detach "$WT" HEAD || exit 2
cleanup() { git -C /repo worktree remove --force "$WT" 2>/dev/null; rm -rf "$WT"; }
trap cleanup EXIT
cd "$WT"
if ! git apply "$SEED/patch.diff"; then echo "RESULT patch=does-not-apply"; exit 1; fi
if go build ./... 2>/tmp/seedbuild.err; then B=ok; else B=FAIL; fi
S=$(/verif/tools/baseline.sh "$WT" | head -1)
# place demo files
DEMO_CMD=""
if [ -f "$SEED/demo_path.txt" ]; then
  DEMO_CMD=$(grep -E '^\s*(go |cd )' "$SEED/demo_path.txt" | head -1)
fi
echo "RESULT build=$B suite=[$S]"
echo "$WT"
