#!/usr/bin/env python3
# Regenerates MANIFEST.json from the per-property table below and the list of
# properties the checker binary implements (bin/verifcheck list).
import json,subprocess,os
os.chdir('/verif')
impl=subprocess.run(['./run.sh','list'],capture_output=True,text=True).stdout.split()
props=[json.loads(l) for l in open('properties.jsonl')]
T={}  # id -> (level, technique, level text, level note)
def P(id,tech,text,note,level='other'):
    T[id]=(level,tech,text,note)

SUFFIX=" Sites are found by role inside regions (entry function + the same-package helpers it calls), not by the names of unexported functions; the complete rule list of the current build, including the rules added after the rounds of independently written breaking changes and refactorings, is the 'explanation' / 'rules' of the evidence file and DESIGN.md 11.6-11.13."
COMMON_NOTE="Trusted: Go type checker, x/tools go/ssa, the documented contracts of the standard library at the call boundaries named in the rule tables. The check decides structural necessary conditions on every path/call site of /repo's current source; it does not execute fabio."

P('C19','value-flow (wiring) rules on SSA + dominance',
  "Decides, for every path and call site, that the configured upstream limits are wired into every http.Transport the proxy can use (setter stores its parameter; NewTransport pairs each limit field with its config field; main sets the config before any transport is built; transports are NewTransport results selected per-route > skip-verify > default; the reverse proxy's error handler maps net.Error timeouts to 504). The 504-within-the-timeout behaviour itself is net/http's and is not decided.",
  COMMON_NOTE)

P('C12','gate dominance on the SSA control-flow graph + decision-structure rules',
  "Decides on every path that each upstream-contact site (and the redirect answer) in HTTPProxy.ServeHTTP is dominated by AccessDeniedHTTP()==false and Authorized()==true on the looked-up target, that every dial in every tcp.Handler is dominated by AccessDeniedTCP()==false on the target whose address is dialled, that the deny edges answer 403/401 and return, that the decision functions fail closed (nil peer IP with rules, unknown scheme, unparsable rule => deny-all) and that denyByIP's allow/deny structure and the X-Forwarded-For loop cannot admit early. CIDR arithmetic and credential comparison are library behaviour and not decided.",
  COMMON_NOTE)

P('C06','shared-state discipline: interprocedural freshness + must-hold locksets over the serving-reachable call graph; atomic-consistency and publish-after-build rules',
  "Decides, for every function reachable from a per-request entry point and for every schedule (no schedule is needed), the structural necessary conditions of race freedom: no unsynchronised store into a structure that lives across requests, no plain access to an atomically accessed field, round-robin index taken from the atomic RMW result, nothing written after a table is published, one table snapshot per lookup, glob-cache eviction/size/double-check structure, no MustCompile/zero modulus on the lookup path. Exact per-target pick counts under interleavings are arithmetic over histories and are not decided beyond these necessary conditions.",
  COMMON_NOTE)

P('C13','shared-state discipline (all schedules) + gate/ordering rules + interval-set analysis of one field + value-flow rules',
  "Decides that no per-request entry can write a shared route.Target (the 'simultaneous requests' clause, for every interleaving), that the redirect answer is behind the gates, uses the per-request location and is never followed by upstream contact, that Target.RedirectCode is in {0} ∪ [300,399] on every path of addTarget (interval-set analysis incl. the Atoi error edge), that $path/$host are replaced from the request URL with strip before prepend and the query copied only when the template has none, and that a skipped self-redirect cannot be returned. The text of the Location per template form is string content and is not decided.",
  COMMON_NOTE)

P('C02','atomic-holder usage rules, publish-after-build, shared-state discipline, error-edge reachability (NEG) on the CFG, partial-operation guards (E3) with regexp capture-group folding',
  "Decides on all paths and call sites: the active table is held in one atomic value used only via Load/Store in getter/setter/init; nothing writes a table after publication; no per-request entry writes a shared table/route/target; one snapshot per lookup; SetTable receives only constructor results and cannot be reached with a table from the constructor's error edge (or relies on nil-on-error + nil-ignored, both checked); the update loop's error edge keeps looping and does not advance the last-installed text; every partial operation reachable from the table constructors, the parsers and the lookup path (submatch/split indices, integer divisions, ring allocation, non-finite weights, MustCompile on the request path, nil definition list) is guarded. That glob/url/regexp themselves never panic is trusted.",
  COMMON_NOTE)
P('C04','must-pass-through (MPT) rules on the CFG incl. closure call sites, picker value-flow rules, branch-fact rules for the one-slot floor, non-zero divisor rules',
  "Decides the structural necessary conditions of weighted distribution on every path: each mutator of Route.Targets / Target.FixedWeight rebuilds the ring before returning (count-guarded skip accepted), pickers select from the ring with the index taken from the atomic RMW result, a positive weight gets >= 1 slot and only positive weights do, zero-slot targets are skipped, ring arithmetic and allocation are guarded, weights are finite. The arithmetic claims (weights sum to one, share within 1/10000, proportional scaling) range over floating-point values and are not decided.",
  COMMON_NOTE)

P('C18','sibling agreement over the implementations of proxy.Server.Shutdown, acquire/release pairing on all CFG paths, ordering and join (WaitGroup) rules, who-may-call rule for Serve',
  "Decides per implementation and per path the structural necessary conditions of a bounded, draining shutdown: every Shutdown(ctx) uses its context and makes no synchronous unbounded wait; proxy.Shutdown fans out with WithTimeout(Background, wait), joins correctly and releases the registry lock before waiting; main passes proxy.shutdownwait; every lock in proxy and proxy/tcp is released on all paths; tcp.Server closes listeners before and connections after the wait; only serve() and the composite server start servers; the exit callback deregisters, sleeps the grace period, then shuts down. Wall-clock bounds are timing and not decided.",
  COMMON_NOTE)

P('C11','publish-after-build and one-snapshot rules, branch-fact rules on getCertificate, key-canonicality value flow, loop-pacing analysis (every cycle of every condition-less loop), error-edge NEG rules for channel sends',
  "Decides structurally: index built before the atomic publish and nothing written after; one load of the set per handshake; fallback to the first certificate only without strict matching and (nil,nil) on a strict miss; every index lookup keyed by the lower-cased, dot-trimmed server name; every cycle of every watcher loop in package cert paced (incl. advancing Consul wait index); no certificate set sent from a loader's error edge; result order from the sorted name list; the updates goroutine applies every received set and is started before the config is returned. X.509 name matching beyond the exact/one-label wildcard index lookup depends on certificate contents and is not decided.",
  COMMON_NOTE)

P('C17','branch-fact (gate) rules, must-pass-through/ordering rules on the CFG, typestate of the pooled gzip.Writer and of the decide-once writer field',
  "Decides on every path of proxy/gzip: compression is chosen only under acceptsGzip and isCompressable (already-encoded responses refused, content-type expression consulted); on the compress edge Content-Length is removed and Content-Encoding set before the headers are sent, and only there; the status code is forwarded unchanged everywhere; the writer is decided once and never used undecided; the pooled gzip.Writer goes Get -> Reset(this response) -> use -> Close -> Put with the Close deferred in the handler and nothing after Put; Write forwards its argument unchanged; Vary is added on every path. That compress/gzip round-trips the bytes is library behaviour and not decided.",
  COMMON_NOTE)

P('C07','gate dominance, effect (who-may-write) rules on the request, value-flow and ordering rules on the target URL, sibling agreement of response-writer wrappers',
  "Decides on every path: no upstream contact without a route; the no-route edge answers with the configured status and page; the Director and ServeHTTP write only the URL parts and the managed forwarding headers of the request (method, body, other headers untouched), rewrite Host only under the route's host option, transform RawPath together with Path under strip/prepend and always normalise to an absolute path, put the route's query in front of the client's; response-writer wrappers forward unchanged. Body bytes, chunking and hop-by-hop handling are delegated to net/http/httputil and not decided.",
  COMMON_NOTE)
P('C08','control-dependence and value-flow (taint) rules on header writes, ordering (no path from Host rewrite to header derivation), sibling agreement of Upgrade tests',
  "Decides on every path of addHeaders/ServeHTTP: authoritative headers are Set from the connection independent of anything the client sent (TLS header Set/Del exhaustive over r.TLS), default headers only when absent and derived from the connection / requested host, forwarding headers derived before any Host rewrite, all Upgrade tests agree, the websocket X-Forwarded-For ends with the peer, HSTS only on TLS responses, request id always from the generator, host/port splits bracket-aware. Header text formats (Forwarded, protocol names) are string contents and not decided.",
  COMMON_NOTE)

P('C16','gate dominance on the interceptor, writer/reader agreement of the context key, value-flow (wiring) rules for director and server options, guarded-by and key-canonicality rules on the connection pool, check-then-act and loop-pacing rules',
  "The only check of gRPC proxying (no test exists). Decides structurally: handler only with a target and no lookup error, NotFound/Internal on the failure edges, context key and asserted type agree between interceptor and director, outgoing metadata is a copy of the incoming metadata of the same call, connection from the pool for the chosen target, server options wire codec/transparent handler/interceptor/size limits (not swapped), lookup by full method + single dsthost + configured strategy/matcher on one table snapshot, pool map only under its lock with canonical keys, insert re-checked under the write lock, cleanup paced with the lock released and vanished targets dropped. Message/metadata/status transparency is delegated to grpc-proxy/grpc-go and not decided.",
  COMMON_NOTE)

P('C01','value-flow chain rule with role discovery of the filter stages, NEG reachability within one loop iteration against recognised exclusion conditions, control-dependence of counters, loop pacing incl. wait-index advance, writer/reader key-shape agreement, ordering of buffer writes',
  "Decides the structure of the pipeline from the registry reply to the installed text on every path: the sent text is builder(healthFilter(tagFilter(reply))) of the same iteration and nothing else is carried across snapshots; each Consul query blocks on an advancing index and its error edge sleeps; in the health filter the append is unreachable, within an iteration, from every exclusion edge (agent down, node/service maintenance on the same node), is dominated by isServiceCheck and passing >= 1, and no edge into it carries strict && total != passing; counters are control-dependent on same node/service id (and accepted status); the tag filter keeps node and maintenance checks; written and looked-up instance keys have the same shape; command lists are sorted before joining; the updater resets the buffer and writes service before manual text, both only from the registry channels. Consul's semantics, quiescence and the if-and-only-if over histories are not decided.",
  COMMON_NOTE)

P('C09','typestate of buffered readers over connections, join-completeness (receives vs. started goroutines on every path), value-identity rules on relay loops, ordering rules on the upstream connection, sibling agreement of the tunnel handlers',
  "Decides structural necessary conditions that each quantify over all segmentations and close orders: a connection wrapped by a buffered reader (bufio.NewReader / Hijack) is never the copy source, the reader is; every path to return receives as many copy completions as were started (four known findings: the tunnels return after the first direction ends, so a half-closing client loses the reply); relays write exactly buf[0:n] of the same iteration and fail on short writes; the PROXY line precedes every other upstream write and consumed bytes (ClientHello) are replayed whole before the tunnel starts; every dialling tcp.Handler supports the PROXY option; the tcp.conn wrapper forwards unchanged. Byte-for-byte delivery over real sockets is run-time behaviour and not decided.",
  COMMON_NOTE)

P('C10','compiler-proved bounds (go build -d=ssa/check_bce: every bounds check the prove pass cannot eliminate is reported) + difference-bound prover over branch facts (Bellman-Ford) + panic-source enumeration',
  "Proof for the stated clauses only: every index/slice expression of clientHelloBufferSize, readServerName and clientHelloMsg.unmarshal is proved in bounds by the Go compiler's prove pass (obligations counted from the AST; discharged = no compiler report), the functions contain no other panic source, the residual data[5:] of the SNI handler is discharged by result >= 10 on the nil-error path, the buffer size satisfies result - recordLength <= 5 and result <= 16389 on every nil-error return (never more than the first TLS record), and the handler allocates exactly that size, performs one consuming read into it and looks up the route only under the successfully parsed, non-empty name. Equality of the extracted name with crypto/tls's on well-formed hellos is semantic equivalence of two parsers and is NOT part of the claim.",
  "Trusted: soundness of the Go compiler's prove pass (bounds-check elimination), the checker's difference-bound prover, Go type checker and go/ssa, io.ReadFull's contract.", level='proof')

P('C15','table agreement over the flag registrations (AST + types), ordering/control-dependence rules on ParseFlags, partial-operation guards, config-int-to-sink value flow with range-check lookup, error-use (ERRUSE) rule',
  "Decides structurally: every flag's default is the default of the very field it sets (frozen reasoned exceptions), no variable is bound twice and names are unique case-insensitively; the command line is parsed and marked first, the fallback pass skips marked flags, consults the environment (prefixes FABIO_ then plain, upper-cased names) before the properties, and every source marks, assigns through FlagSet.Set and stops; Split/Index uses reachable from config.Load are guarded; int options reaching an allocation size, channel capacity or status code are range-checked in load or clamped at the use; constructors' nil results are not used after a merely logged error in start-up code. Equality of the resulting Config across sources for every value is flag.Value.Set's behaviour and not decided.",
  COMMON_NOTE)

P('C20','compiler bounds report (every check the prove pass cannot eliminate) matched against checker rules and a reviewed residual table, partial-operation guards, value-flow rule for UTC normalisation, table agreement (documentation vs. fields table vs. named formats), ordering/typestate of the pooled buffer, who-may-access rule for the response writer',
  "Decides structurally that logging cannot disturb a request and reports UTC: every compiler-unproved bounds check on the logging/formatter path is discharged by a guard rule or a reviewed per-symbol reason (anything new is reported), no other panic source exists there, all calendar fields with a fixed UTC suffix come from UTC() times, documented fields exist and the named formats use only known fields, ServeHTTP logs exactly once after the response with the event fully populated, package logger cannot reach the response writer, and the pooled buffer/ shared writer are used in order and under the mutex. Agreement of the hand-written formatters with strconv/fmt/time on every value is numeric/string equality over value domains and not decided.",
  COMMON_NOTE)

P('C03','sibling agreement of normaliser chains on both operands of every host comparison, interprocedural key canonicality, dominance of the per-host sort over the constructors\' success returns, ordering/first-match rules on the lookup loops',
  "Decides structural necessary conditions of most-specific matching: request host and pattern pass through the same normalisers (lower-casing, default-port removal) in both host matchers; every table access uses a canonical lower-cased key; both constructors sort every host's routes before returning and dispatch the same commands; host lists are returned through the reverse-host sort with all keys examined; host-less routes are tried last and the first host yielding a target decides; lookup lower-cases its key and returns at the first route the matcher accepts. That reversed-name order equals DNS specificity and the matchers' truth tables are string/third-party semantics and not decided.",
  COMMON_NOTE)
P('C05','interprocedural key-canonicality value flow (parameters, multi-value returns, slices), must-pass-through of the cleanup loops, table agreement between the add grammar regexp and the renderer, producer/consumer quoting agreement',
  "Decides structural necessary conditions of the command semantics: add, del and weight address the same lower-cased host entry (every table index is canonical); every Route.filter call in a table method is followed on all paths by the loops removing target-less routes and route-less hosts (no early exit, rebuild on every iteration); the renderer emits route add / weight / tags / opts in the order the grammar accepts; no producer escapes quoted fields the parser reads verbatim; route weight without a match fails. Equality with an independent model, idempotence and the weight round trip are value equality of data structures and not decided.",
  COMMON_NOTE)
P('C14','taint-to-text rule: catalog-derived command strings reach the command list only on the true edge of a validator whose structure is checked (route.Parse ok, exactly one definition, route add); producer/consumer quoting agreement; join completeness of the per-service goroutines; value-flow rule for the destination',
  "Decides that every command built from a service registration is validated by fabio's own parser as exactly one route add before it can enter the configuration text (an inexpressible registration is dropped on its own and cannot block or inject), that quoted fields are written as the parser reads them, that each service contributes exactly one result and a failing catalog query or empty result affects only that service, that non-finite weights cannot leave the parser, and that the destination is service address (node address as fallback) + service port with the scheme chosen by the proto option. That the parsed command denotes the registration for every value is string equality after a parse and not decided.",
  COMMON_NOTE)

checks=[]; na=[]
for p in props:
    id=p['id']
    if id in impl and id in T:
        level,tech,text,note=T[id]
        checks.append({
          "property_id":id,
          "quick_cmd":f"./run.sh {id} quick",
          "thorough_cmd":f"./run.sh {id} thorough",
          "evidence_file":f"evidence/{id}.json",
          "replay_cmd_template":"./run.sh explain {path}",
          "engine":"verifcheck",
          "level_claimed":{"category":level,"text":text+SUFFIX,"design_ref":f"DESIGN.md §5 {id}; §11.6-11.13"},
          "level_note":note,
          "technique":"static analysis: "+tech,
        })
    else:
        na.append({"property_id":id,"reason":"no static rule set armed for this property yet in this build of the checker (planned rules: DESIGN.md §5 "+id+"); not claimed until its rules exist and are silent on the unchanged tree"})
m={
 "version":1,
 "setup_cmd":"cd /verif && export GOFLAGS=-mod=mod GOPROXY=off && unset GOWORK GOTOOLCHAIN GOSUMDB && mkdir -p bin evidence && cd checker && go build -o ../bin/verifcheck .",
 "hooks":{"guard":"verif","enable":"none needed: the analysis reads /repo's source as it is; no instrumentation exists (guard name reserved, unused)",
          "baseline_off_cmd":"cd /repo && go test -mod=mod -vet=off -count=1 -timeout 25m ./...",
          "source_commits":[],"add_only":True},
 "engines":[{"name":"verifcheck","path":"checker/","serves_properties":[c['property_id'] for c in checks],
             "kind_free_text":"repository-specific static analyser (go/packages + go/ssa + dominators/CFG + custom call graph); one rule table per property; overlay-mutation self-check in the thorough tier"}],
 "checks":checks,
 "notes":"Technique family: static analysis only. Every check type-checks /repo's current working tree and decides structural obligations; exit 1 + VIOLATION for any undischarged or undecidable obligation not listed in known-findings.txt; exit 2 when the tree does not type-check. Repaired defects are 'fix:' commits in /repo, listed as 'fixed:' in known-findings.txt.",
 "not_applicable":na,
}
json.dump(m,open('MANIFEST.json','w'),indent=1)
print("checks",len(checks),"na",len(na))
