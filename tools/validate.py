#!/usr/bin/env python3-vt
# validates MANIFEST.json and every evidence file against the given schemas
import json,sys,glob,jsonschema
m=json.load(open('/verif/MANIFEST.json'))
jsonschema.validate(m,json.load(open('/root/.vp/MANIFEST.schema.json')))
es=json.load(open('/root/.vp/EVIDENCE.schema.json'))
ids=[c['property_id'] for c in m['checks']]
na=[n['property_id'] for n in m.get('not_applicable',[])]
allp=[json.loads(l)['id'] for l in open('/verif/properties.jsonl')]
missing=[p for p in allp if p not in ids and p not in na]
print('claimed',len(ids),'not_applicable',len(na),'unaccounted',missing)
for f in sorted(glob.glob('/verif/evidence/*.json')):
    jsonschema.validate(json.load(open(f)),es)
print('all valid')
