#!/usr/bin/env python3
"""Development loop for ONE property's rules: everything that must stay true while a rule is changed.

usage: tools/devloop.py <ID> [--fast] [--only seeds|benign|mutants|clean]

Environment (so that several sandboxes can work side by side):
  VERIF_HOME  checker sources, seeded/, benign/   (default /verif)
  VERIF_REPO  a checkout of fabio to analyse and to apply patches to (default /repo; NEVER point two loops at the same one)

Steps, each must come out as stated:
  build    go build of $VERIF_HOME/checker
  clean    <ID> quick on the unchanged tree                      -> exit 0, no VIOLATION
  mutants  the property's overlay mutants                        -> every seeded break reported by its expected rule, every benign rewrite silent
  seeds    every seeded/*/patch.diff that <ID> reported before   -> still reported by <ID> (rules may differ, listed)
  benign   every benign/*/patch.diff (all properties' corpora)   -> <ID> silent
Evidence of these runs goes to a scratch directory, never to $VERIF_HOME/evidence.
"""
import json, os, re, subprocess, sys, tempfile, shutil

pid = sys.argv[1]
only = None
if "--only" in sys.argv:
    only = sys.argv[sys.argv.index("--only") + 1]
home = os.environ.get("VERIF_HOME", "/verif")
repo = os.environ.get("VERIF_REPO", "/repo")
env = dict(os.environ, GOFLAGS="-mod=mod", GOPROXY="off", VERIF_REPO=repo)
for v in ("GOWORK", "GOTOOLCHAIN", "GOSUMDB"):
    env.pop(v, None)
scratch = tempfile.mkdtemp(prefix="devloop.")
shutil.copy(os.path.join(home, "known-findings.txt"), scratch)
env["VERIF_DIR"] = scratch
binp = os.path.join(home, "bin", "verifcheck")
bad = 0

def sh(cmd, cwd=None):
    p = subprocess.run(cmd, shell=isinstance(cmd, str), cwd=cwd, env=env, capture_output=True, text=True)
    return p.returncode, p.stdout + p.stderr

def reports(out):
    return sorted(set(m.group(2) + " [" + m.group(3) + "]" for m in re.finditer(r"(VIOLATED|UNDECIDED) (C\d+\.\w+) \[(.*?)\]", out)))

rc, out = sh("go build -o ../bin/verifcheck .", cwd=os.path.join(home, "checker"))
if rc != 0:
    print("BUILD FAILED\n" + out)
    sys.exit(2)
print("build ok")

if subprocess.run(["git", "-C", repo, "status", "--porcelain"], capture_output=True, text=True).stdout.strip():
    print("REPO NOT CLEAN:", repo, "- restoring"); sh(["git", "-C", repo, "checkout", "--", "."]); sh(["git", "-C", repo, "clean", "-fdq"])

if only in (None, "clean"):
    rc, out = sh([binp, pid, "quick"])
    r = reports(out)
    if rc != 0 or r:
        bad += 1
        print("clean tree: FAIL rc=%d" % rc); [print("   ", x) for x in r[:12]]
    else:
        print("clean tree: ok  ", out.strip().splitlines()[-1][:160])

if only in (None, "mutants"):
    rc, out = sh([binp, "mutants", pid])
    n = 0
    for line in out.splitlines():
        if "expect=" not in line:
            continue
        n += 1
        if not re.search(r"killed|silent", line):
            bad += 1
            print("mutant: FAIL ", line[:260])
    print("mutants: %d checked" % n)

def with_patch(patch, fn):
    rc, out = sh(["git", "-C", repo, "apply", patch])
    if rc != 0:
        return None
    try:
        return fn()
    finally:
        sh(["git", "-C", repo, "checkout", "--", "."]); sh(["git", "-C", repo, "clean", "-fdq"])

if only in (None, "seeds"):
    n = 0
    for d in sorted(os.listdir(os.path.join(home, "seeded"))):
        mp = os.path.join(home, "seeded", d, "meta.json")
        if not os.path.exists(mp):
            continue
        meta = json.load(open(mp))
        was = meta.get("reported_by", {}).get(pid)
        if not was:
            continue
        res = with_patch(os.path.join(home, "seeded", d, "patch.diff"), lambda: sh([binp, pid, "quick"]))
        if res is None:
            continue  # superseded patch
        n += 1
        rc, out = res
        r = reports(out)
        if rc == 0 or not r:
            bad += 1
            print("seed %s: NO LONGER REPORTED by %s (was: %s)" % (d, pid, "; ".join(was)[:200]))
        else:
            print("seed %s: reported  %s" % (d, "; ".join(r)[:200]))
    print("seeds: %d checked" % n)

if only in (None, "benign"):
    n = 0
    for d in sorted(os.listdir(os.path.join(home, "benign"))):
        pp = os.path.join(home, "benign", d, "patch.diff")
        if not os.path.exists(pp):
            continue
        res = with_patch(pp, lambda: sh([binp, pid, "quick"]))
        if res is None:
            print("benign %s: patch does not apply" % d); continue
        n += 1
        rc, out = res
        r = reports(out)
        if rc != 0 or r:
            bad += 1
            print("benign %s: FALSE ALARM" % d); [print("    ", x[:300]) for x in r[:10]]
            for line in out.splitlines():
                if "VIOLATED" in line or "UNDECIDED" in line:
                    print("       ", line.strip()[:420])
    print("benign: %d checked" % n)

shutil.rmtree(scratch, ignore_errors=True)
print("RESULT:", "ALL GOOD" if bad == 0 else "%d PROBLEM(S)" % bad)
sys.exit(0 if bad == 0 else 1)
