#!/usr/bin/env python3
# Re-runs every check against every seeded change and refreshes seeded/*/meta.json (reported_by, caught).
import json, os, re, subprocess, sys
rows=[]
for d in sorted(os.listdir('/verif/seeded')):
    mp=f'/verif/seeded/{d}/meta.json'
    if not os.path.exists(mp): continue
    meta=json.load(open(mp))
    out=subprocess.run(['/verif/tools/seedcheck.sh', f'/verif/seeded/{d}/patch.diff'],capture_output=True,text=True,cwd='/verif').stdout
    if 'patch does not apply' in out:
        meta['applies_now']=False
        if meta.get('caught_at_base'):
            meta['caught']=True; meta['caught_by_own_property']=True
        json.dump(meta,open(mp,'w'),indent=1)
        rows.append((d,meta.get('caught',False),'(no longer applies; at its base: '+','.join(sorted({r.split(' ')[0] for v in meta.get('caught_at_base',{}).values() for r in v}))+')'))
        print(d,'n/a',rows[-1][2]); continue
    meta['applies_now']=True
    caught={}; cur=None
    for line in out.splitlines():
        m=re.match(r'== (C\d+) rc=(\d+)',line)
        if m: cur=m.group(1); caught.setdefault(cur,[]); continue
        m=re.search(r'(VIOLATED|UNDECIDED) (C\d+\.\w+) \[(.*?)\]',line)
        if m and cur: caught[cur].append(m.group(2)+' ['+m.group(3)+']')
    meta['reported_by']={p:sorted(set(v)) for p,v in caught.items()}
    meta['caught']=bool(caught); meta['caught_by_own_property']=meta['property'] in caught
    json.dump(meta,open(mp,'w'),indent=1)
    rules=sorted({r.split(' ')[0] for v in caught.values() for r in v})
    rows.append((d,meta['caught'],','.join(rules)))
    print(d,'CAUGHT' if caught else 'missed',','.join(rules)[:120],flush=True)
print(sum(1 for r in rows if r[1]),'of',len(rows),'caught')
