#!/usr/bin/env python3
"""Independent verification of a seeded change (never trusts its author's notes).

usage: tools/seedverify.py <seed-dir> <property-id> <k>

In a scratch worktree of /repo (removed afterwards):
  1. git apply patch.diff, go build ./...
  2. fabio's suite: every stable-pass test of BASELINE.json still passes (tools/baseline.sh)
  3. demonstration WITH the change    -> must FAIL
  4. demonstration WITHOUT the change -> must PASS
Then runs every check's quick tier against /repo with the patch applied (evidence kept out of /verif)
and records which (property, rule) report. Writes /verif/seeded/<id>-<k>/{patch.diff, demo files, NOTES.md, meta.json}.
"""
import json, os, re, shutil, subprocess, sys, tempfile

seed, pid, k = os.path.abspath(sys.argv[1]), sys.argv[2], sys.argv[3]
env = dict(os.environ, GOFLAGS="-mod=mod", GOPROXY="off")
for v in ("GOWORK", "GOTOOLCHAIN", "GOSUMDB"):
    env.pop(v, None)

def sh(cmd, cwd, timeout=900):
    p = subprocess.run(cmd, shell=True, cwd=cwd, env=env, capture_output=True, text=True, timeout=timeout)
    return p.returncode, (p.stdout + p.stderr)

demo_txt = open(os.path.join(seed, "demo_path.txt")).read() if os.path.exists(os.path.join(seed, "demo_path.txt")) else ""
demos = [f for f in os.listdir(seed) if f.endswith(".go")]
# destination of each demo file: a path token ending in the file name that does not start with SEED
dest = {}
for f in demos:
    # explicit mapping "SEED/k/<f>  ->  <dest>"
    m = re.search(re.escape(f) + r"\s*->\s*([\w./-]+_test\.go|[\w./-]+\.go)", demo_txt)
    if m:
        dest[f] = m.group(1)
        continue
    for m in re.finditer(r"([\w./-]*/" + re.escape(f) + r")", demo_txt):
        p = m.group(1)
        if not p.startswith("SEED") and "/SEED/" not in p and not p.startswith("/"):
            dest[f] = p
            break
    if f not in dest and re.search(r"repo(sitory)? root", demo_txt):
        dest[f] = f
cmd = None
for line in demo_txt.splitlines():
    if "go test" in line or "go run" in line:
        cmd = line[line.index("go "):].strip().rstrip("`")
        cmd = cmd.split("   (")[0].strip()
        cmd = re.sub(r"^(run:|Run:)\s*", "", cmd)
        break
meta = {"property": pid, "seed": k, "source": seed, "demo_files": dest, "demo_cmd": cmd}
if not dest or not cmd:
    meta["verified"] = False
    meta["problem"] = "could not determine demo placement/command from demo_path.txt"
    print(json.dumps(meta, indent=1)); sys.exit(1)

wt = tempfile.mkdtemp(prefix="seedwt.", dir="/tmp")
os.rmdir(wt)
subprocess.run(["git", "-C", "/repo", "worktree", "add", "-q", "--detach", wt, "HEAD"], check=True)
try:
    rc, out = sh("git apply " + os.path.join(seed, "patch.diff"), wt)
    meta["applies"] = rc == 0
    if rc != 0:
        raise SystemExit("patch does not apply: " + out)
    rc, out = sh("go build ./...", wt)
    meta["builds"] = rc == 0
    rc, out = sh("/verif/tools/baseline.sh " + wt, wt)
    meta["suite_with_change"] = out.strip().splitlines()[0] if out.strip() else ""
    meta["suite_stable_ok"] = rc == 0
    if rc != 0:
        # one retry: the TCP integration tests bind fixed ports and flake when other jobs run
        rc2, out2 = sh("/verif/tools/baseline.sh " + wt, wt)
        meta["suite_with_change_retry"] = out2.strip().splitlines()[0] if out2.strip() else ""
        meta["suite_stable_ok"] = rc2 == 0
        if rc2 != 0:
            meta["suite_missing"] = [l.strip() for l in out2.splitlines() if "MISSING" in l][:10]
    for f, p in dest.items():
        os.makedirs(os.path.dirname(os.path.join(wt, p)), exist_ok=True)
        shutil.copy(os.path.join(seed, f), os.path.join(wt, p))
    rc, out = sh(cmd, wt)
    meta["demo_with_change"] = "FAIL" if rc != 0 else "PASS"
    meta["demo_with_change_tail"] = out.strip().splitlines()[-6:]
    sh("git checkout -- .", wt)
    rc, out = sh(cmd, wt)
    meta["demo_without_change"] = "PASS" if rc == 0 else "FAIL"
    if rc != 0:
        meta["demo_without_change_tail"] = out.strip().splitlines()[-6:]
finally:
    subprocess.run(["git", "-C", "/repo", "worktree", "remove", "--force", wt])
    shutil.rmtree(wt, ignore_errors=True)

meta["verified"] = bool(meta.get("builds") and meta.get("suite_stable_ok") and meta.get("demo_with_change") == "FAIL" and meta.get("demo_without_change") == "PASS")

# which checks report it?
rc, out = sh("/verif/tools/seedcheck.sh " + os.path.join(seed, "patch.diff"), "/verif")
caught = {}
cur = None
for line in out.splitlines():
    m = re.match(r"== (C\d+) rc=(\d+)", line)
    if m:
        cur = m.group(1); caught.setdefault(cur, [])
        continue
    m = re.search(r"(VIOLATED|UNDECIDED) (C\d+\.\w+) \[(.*?)\]", line)
    if m and cur:
        caught[cur].append(m.group(2) + " [" + m.group(3) + "]")
meta["reported_by"] = {p: sorted(set(v)) for p, v in caught.items()}
meta["caught"] = bool(caught)
meta["caught_by_own_property"] = pid in caught

dst = f"/verif/seeded/{pid}-{k}"
os.makedirs(dst, exist_ok=True)
shutil.copy(os.path.join(seed, "patch.diff"), dst)
for f in demos:
    shutil.copy(os.path.join(seed, f), os.path.join(dst, f + ".txt"))  # .txt: keep them out of any go build
if os.path.exists(os.path.join(seed, "NOTES.md")):
    shutil.copy(os.path.join(seed, "NOTES.md"), dst)
if demo_txt:
    open(os.path.join(dst, "demo_path.txt"), "w").write(demo_txt)
meta["ran"] = ["git apply patch.diff", "go build ./...", "tools/baseline.sh (stable-pass list of BASELINE.json)", cmd + "  # with and without the change", "tools/seedcheck.sh patch.diff  # every check's quick tier"]
json.dump(meta, open(os.path.join(dst, "meta.json"), "w"), indent=1)
print(pid, k, "verified=" + str(meta["verified"]), "demo:", meta.get("demo_with_change"), "/", meta.get("demo_without_change"),
      "suite_ok=" + str(meta.get("suite_stable_ok")), "caught_by=" + ",".join(sorted(caught)) if caught else "caught_by=NONE")
