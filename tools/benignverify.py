#!/usr/bin/env python3
"""Verification of a behaviour-preserving refactoring used to test the checks for false alarms.

usage: tools/benignverify.py <dir-with-patch.diff> <property-id> <k>

In a scratch worktree of /repo (removed afterwards): git apply, go build ./..., fabio's suite against the
stable-pass list of BASELINE.json. Then every check's quick tier against /repo with the patch applied
(tools/seedcheck.sh: applies, runs, reverts; evidence kept out of /verif). Writes
/verif/benign/<id>-r<k>/{patch.diff, NOTES.md, meta.json}; meta.json records which rules (if any) reported.
A report on a refactoring is a candidate false alarm: it is triaged by hand (meta.json "triage").
"""
import json, os, re, shutil, subprocess, sys, tempfile

src, pid, k = os.path.abspath(sys.argv[1]), sys.argv[2], sys.argv[3]
env = dict(os.environ, GOFLAGS="-mod=mod", GOPROXY="off")
for v in ("GOWORK", "GOTOOLCHAIN", "GOSUMDB"):
    env.pop(v, None)

def sh(cmd, cwd, timeout=900):
    p = subprocess.run(cmd, shell=True, cwd=cwd, env=env, capture_output=True, text=True, timeout=timeout)
    return p.returncode, (p.stdout + p.stderr)

patch = os.path.join(src, "patch.diff")
dst = f"/verif/benign/{pid}-r{k}"
meta = {"property": pid, "refactoring": k}
old = {}
if os.path.exists(os.path.join(dst, "meta.json")):
    old = json.load(open(os.path.join(dst, "meta.json")))
if "--recheck" not in sys.argv:
    wt = tempfile.mkdtemp(prefix="benignwt.", dir="/tmp")
    os.rmdir(wt)
    subprocess.run(["git", "-C", "/repo", "worktree", "add", "-q", "--detach", wt, "HEAD"], check=True)
    try:
        rc, out = sh("git apply " + patch, wt)
        meta["applies"] = rc == 0
        if rc == 0:
            rc, out = sh("go build ./...", wt)
            meta["builds"] = rc == 0
            rc, out = sh("/verif/tools/baseline.sh " + wt, wt)
            meta["suite"] = out.strip().splitlines()[0] if out.strip() else ""
            meta["suite_stable_ok"] = rc == 0
            if rc != 0:
                rc2, out2 = sh("/verif/tools/baseline.sh " + wt, wt)
                meta["suite_retry"] = out2.strip().splitlines()[0] if out2.strip() else ""
                meta["suite_stable_ok"] = rc2 == 0
                if rc2 != 0:
                    meta["suite_missing"] = [l.strip() for l in out2.splitlines() if "MISSING" in l][:10]
    finally:
        subprocess.run(["git", "-C", "/repo", "worktree", "remove", "--force", wt])
        shutil.rmtree(wt, ignore_errors=True)
else:
    for f in ("applies", "builds", "suite", "suite_stable_ok", "suite_retry", "suite_missing", "triage"):
        if f in old:
            meta[f] = old[f]

reported = {}
if meta.get("applies"):
    rc, out = sh("/verif/tools/seedcheck.sh " + patch, "/verif")
    cur = None
    for line in out.splitlines():
        m = re.match(r"== (C\d+) rc=(\d+)", line)
        if m:
            cur = m.group(1); reported.setdefault(cur, [])
            continue
        m = re.search(r"(VIOLATED|UNDECIDED|CANNOT\S*) (C\d+\.\w+) \[(.*?)\]", line)
        if m and cur:
            reported[cur].append(m.group(2) + " [" + m.group(3) + "]")
meta["reported_by"] = {p: sorted(set(v)) for p, v in reported.items()}
meta["silent"] = not reported
if "triage" in old and "triage" not in meta:
    meta["triage"] = old["triage"]

os.makedirs(dst, exist_ok=True)
if os.path.abspath(patch) != os.path.abspath(os.path.join(dst, "patch.diff")):
    shutil.copy(patch, dst)
    if os.path.exists(os.path.join(src, "NOTES.md")):
        shutil.copy(os.path.join(src, "NOTES.md"), dst)
json.dump(meta, open(os.path.join(dst, "meta.json"), "w"), indent=1)
print(pid, "r" + k, "applies=" + str(meta.get("applies")), "builds=" + str(meta.get("builds")), "suite_ok=" + str(meta.get("suite_stable_ok")),
      "SILENT" if not reported else "REPORTED: " + "; ".join(r for v in meta["reported_by"].values() for r in v)[:400])
