#!/bin/bash
# Runs fabio's pinned test suite (guard off; there are no hooks) on a tree and
# compares with the stable-pass list in /root/.vp/BASELINE.json.
# usage: tools/baseline.sh [repo-dir]
REPO=${1:-/repo}
export GOFLAGS=-mod=mod GOPROXY=off
unset GOWORK GOTOOLCHAIN GOSUMDB
OUT=$(mktemp /tmp/baseline.XXXXXX.json)
(cd "$REPO" && go test -mod=mod -json -vet=off -count=1 -timeout 25m ./... > "$OUT" 2>/dev/null)
python3 - "$OUT" <<'PY'
import json,sys
base=json.load(open('/root/.vp/BASELINE.json'))
stable=set(base['stable_pass'])
passed=set(); failed=set()
for line in open(sys.argv[1]):
    try: e=json.loads(line)
    except Exception: continue
    if 'Test' not in e: continue
    k=e['Package']+'::'+e['Test']
    if e.get('Action')=='pass': passed.add(k)
    elif e.get('Action')=='fail': failed.add(k)
missing=sorted(stable-passed)
print(f"passed={len(passed)} failed={len(failed)} stable={len(stable)} stable_missing={len(missing)}")
for m in missing: print("  MISSING", m, "(failed)" if m in failed else "(not run)")
sys.exit(1 if missing else 0)
PY
RC=$?
rm -f "$OUT"
exit $RC
