#!/bin/bash
# usage: mergeagent.sh CNN <transcript-file>   (copies the agent's cNN*.go into /verif/checker, saves its report)
set -u
ID=$1; T=${2:-}
nn=$(echo $ID | tr 'C' 'c')
export GOFLAGS=-mod=mod GOPROXY=off; unset GOWORK GOTOOLCHAIN GOSUMDB
if [ -f /tmp/hv/$ID/REPORT.md ]; then cp /tmp/hv/$ID/REPORT.md /verif/reports/hardening/$ID-${ROUND:-round4}.md; echo "report copied";
elif [ -n "$T" ]; then python3 /verif/tools/savereport.py "$T" /verif/reports/hardening/$ID-${ROUND:-round4}.md; fi
# remove files of this property that the agent deleted
for f in /verif/checker/${nn}*.go; do b=$(basename $f); [ -f /tmp/hv/$ID/verif/checker/$b ] || { echo "removed by agent: $b"; rm $f; }; done
cp /tmp/hv/$ID/verif/checker/${nn}*.go /verif/checker/
cd /verif/checker && gofmt -l . ; go build -o /verif/bin/verifcheck . && cd /verif && ./bin/verifcheck $ID quick | tail -1
