#!/usr/bin/env python3
"""Re-runs every check's quick tier against each kept refactoring (benign/*/patch.diff) and refreshes meta.json.
usage: tools/rebenign.py [id-prefix ...]"""
import json, os, subprocess, sys
base = "/verif/benign"
sel = sys.argv[1:]
silent = total = 0
for d in sorted(os.listdir(base)):
    if sel and not any(d.startswith(s) for s in sel):
        continue
    p = os.path.join(base, d)
    if not os.path.exists(os.path.join(p, "patch.diff")):
        continue
    pid, k = d.split("-r")
    out = subprocess.run(["python3", "/verif/tools/benignverify.py", p, pid, k, "--recheck"], capture_output=True, text=True).stdout.strip().splitlines()
    line = out[-1] if out else d + " ?"
    total += 1
    if "SILENT" in line:
        silent += 1
    print(line[:330])
print(f"{silent} of {total} silent")
