#!/usr/bin/env python3
"""Saves the final message of a sub-agent transcript (JSONL) as a report file. usage: savereport.py <transcript> <out.md>"""
import json, sys
last = None
for line in open(sys.argv[1]):
    try:
        d = json.loads(line)
    except Exception:
        continue
    m = d.get("message", {})
    if m.get("role") != "assistant":
        continue
    c = m.get("content")
    if isinstance(c, list):
        t = "\n".join(b.get("text", "") for b in c if b.get("type") == "text").strip()
        if t:
            last = t
    elif isinstance(c, str) and c.strip():
        last = c
open(sys.argv[2], "w").write((last or "") + "\n")
print(len(last or ""), "chars ->", sys.argv[2])
