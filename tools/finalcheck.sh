#!/bin/bash
# Full regression of the checker, everything side by side (about 1.5 h on 16 cores):
#   A  tools/rebenign.py   every refactoring of benign/ against every check   (scratch worktree /tmp/final/wtA)
#   B  tools/reseed.py     every breaking change of seeded/ against every check (scratch worktree /tmp/final/wtB)
#   C  verifcheck renames all, 4 shards                                        (reads /repo)
#   D  ./run.sh <id> thorough for all 20 (quick + overlay mutants + GOOS variants + VTA), writes evidence/  (reads /repo)
# Results in /tmp/final/*.out; nothing registered in MANIFEST.json depends on this script or on /tmp.
set -u
cd /verif
export GOFLAGS=-mod=mod GOPROXY=off; unset GOWORK GOTOOLCHAIN GOSUMDB
mkdir -p /tmp/final
(cd checker && go build -o ../bin/verifcheck .) || exit 2
for w in wtA wtB; do
  git -C /repo worktree remove --force /tmp/final/$w 2>/dev/null; rm -rf /tmp/final/$w; git -C /repo worktree prune
  git -C /repo worktree add -q --detach /tmp/final/$w HEAD
done
(VERIF_REPO=/tmp/final/wtA python3 tools/rebenign.py > /tmp/final/rebenign.out 2>&1; echo finished >> /tmp/final/rebenign.out) &
(VERIF_REPO=/tmp/final/wtB python3 tools/reseed.py > /tmp/final/reseed.out 2>&1; echo finished >> /tmp/final/reseed.out) &
for i in 0 1 2 3; do (VERIF_SHARD=$i/4 ./bin/verifcheck renames all > /tmp/final/renames.$i.out 2>&1; echo finished >> /tmp/final/renames.$i.out) & done
(for p in $(./bin/verifcheck list); do ./run.sh $p thorough > /tmp/final/thorough.$p.out 2>&1; echo "$p rc=$?" >> /tmp/final/thorough.summary; done; echo finished >> /tmp/final/thorough.summary) &
wait
git -C /repo worktree remove --force /tmp/final/wtA; git -C /repo worktree remove --force /tmp/final/wtB; git -C /repo worktree prune
echo all-finished > /tmp/final/done
