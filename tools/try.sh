#!/bin/bash
# usage: tools/try.sh <patch> <ID>...   applies the patch to /repo, runs the given checks (scratch evidence), reverts
P=$(readlink -f "$1"); shift
cd /verif
git -C /repo apply "$P" || exit 2
trap 'git -C /repo checkout -- . ; git -C /repo clean -fdq -- . 2>/dev/null' EXIT
D=$(mktemp -d); cp known-findings.txt $D/
for id in "$@"; do VERIF_DIR=$D ./bin/verifcheck $id quick | grep -v "^KNOWN" | cut -c1-600; done
rm -rf $D
