package main

// C05.W1: 'route weight' that matches no target fails.
//
// By role: a weight setter is any function of package route that (itself, in a closure, or in a helper) stores
// Target.FixedWeight of an existing target and returns its verdict as a single int (how many matched), bool
// (whether any matched) or slice of targets (the matching ones) - Route.setWeight and its inner closure today. Every function that calls a weight setter must
// either pass the verdict on (it is a weight setter itself: the obligation moves to its callers) or return a non-nil
// error on the branch where the verdict is zero / false.

import (
	"go/token"
	"go/types"

	"golang.org/x/tools/go/ssa"
)

// c05IsWeightStore: a store to FixedWeight of a target that already exists (not one under construction).
func c05IsWeightStore(i ssa.Instruction) bool {
	st, ok := i.(*ssa.Store)
	if !ok {
		return false
	}
	base, ok := fieldOf(st.Addr, "route.Target", "FixedWeight")
	if !ok {
		return false
	}
	_, fresh := base.(*ssa.Alloc)
	return !fresh
}

func c05IsErrorType(t types.Type) bool {
	n, ok := t.(*types.Named)
	return ok && n.Obj().Pkg() == nil && n.Obj().Name() == "error"
}

// c05VerdictKind: "int" / "bool" / "slice" (of targets) when fn returns exactly one value of that kind, "" otherwise.
func c05VerdictKind(fn *ssa.Function) string {
	res := fn.Signature.Results()
	if res.Len() != 1 {
		return ""
	}
	if sl, isSlice := res.At(0).Type().Underlying().(*types.Slice); isSlice && namedIs(sl.Elem(), "route.Target") {
		return "slice" // the matching targets themselves
	}
	b, ok := res.At(0).Type().Underlying().(*types.Basic)
	if !ok {
		return ""
	}
	switch {
	case b.Info()&types.IsInteger != 0:
		return "int"
	case b.Info()&types.IsBoolean != 0:
		return "bool"
	}
	return ""
}

// c05FlowsToReturn: the value reaches a return of its function through phis, arithmetic, conversions and local cells.
func c05FlowsToReturn(v ssa.Value) bool {
	seen := map[ssa.Value]bool{}
	var walk func(v ssa.Value, d int) bool
	walk = func(v ssa.Value, d int) bool {
		if seen[v] || d > 8 {
			return false
		}
		seen[v] = true
		refs := v.Referrers()
		if refs == nil {
			return false
		}
		for _, r := range *refs {
			switch y := r.(type) {
			case *ssa.Return:
				return true
			case *ssa.Phi:
				if walk(y, d+1) {
					return true
				}
			case *ssa.BinOp:
				if walk(y, d+1) {
					return true
				}
			case *ssa.UnOp:
				if walk(y, d+1) {
					return true
				}
			case *ssa.Convert:
				if walk(y, d+1) {
					return true
				}
			case *ssa.ChangeType:
				if walk(y, d+1) {
					return true
				}
			case *ssa.Store:
				// n (a cell: named result, captured variable) = verdict; loads of the cell
				if a, ok := y.Addr.(*ssa.Alloc); ok && y.Val == v {
					for _, r2 := range *a.Referrers() {
						if ld, ok := r2.(*ssa.UnOp); ok && ld.Op == token.MUL && walk(ld, d+1) {
							return true
						}
					}
				}
			}
		}
		return false
	}
	return walk(v, 0)
}

// c05ZeroVerdictFact: the branch condition says that the verdict of call is "nothing matched".
func c05ZeroVerdictFact(ft Fact, call *ssa.Call, kind string) bool {
	if kind == "bool" {
		return (ft.Cond == ssa.Value(call) || c05CarriesVerdict(ft.Cond, call)) && !ft.Truth
	}
	if kind == "slice" {
		ds, emptyWhenTrue, ok := c05EmptyTest(ft.Cond, 0)
		return ok && ds.field == "" && (ds.root == ssa.Value(call) || c05CarriesVerdict(ds.root, call)) && emptyWhenTrue == ft.Truth
	}
	subj, zeroWhenTrue, ok := c05CmpZero(ft.Cond)
	if !ok {
		// a boolean variable that carries "some matched": matched := false; if r != nil { matched = r.setWeight(..) > 0 }
		if c05IsBool(ft.Cond.Type()) {
			if _, isPhi := ft.Cond.(*ssa.Phi); isPhi {
				return c05CarriesVerdict(ft.Cond, call) && !ft.Truth
			}
		}
		return false
	}
	// the count itself, a copy of it held in a local cell, or a variable that carries it
	same := subj == ssa.Value(call)
	if ld, isLd := subj.(*ssa.UnOp); isLd && ld.Op == token.MUL && !same {
		if a, isA := ld.X.(*ssa.Alloc); isA {
			vals, okc := c05CellStores(a)
			same = okc && len(vals) == 1 && vals[0] == ssa.Value(call)
		}
	}
	if !same {
		same = c05CarriesVerdict(subj, call)
	}
	return same && zeroWhenTrue == ft.Truth
}

// c05CarriesVerdict: v is a count that holds the verdict of call whenever call was executed, and is zero otherwise:
// `n := 0; if r != nil { n = r.setWeight(..) }`, `n += r.setWeight(..)` over several routes. Every leaf reached
// through phis, sums, conversions and local variable cells is call, another count-returning call of the same callee,
// or the zero constant (0, false, nil); call is among them.
func c05CarriesVerdict(v ssa.Value, call *ssa.Call) bool {
	callee := unwrapCallee(&call.Call)
	seen := map[ssa.Value]bool{}
	found, ok := false, true
	var walk func(x ssa.Value, d int)
	walk = func(x ssa.Value, d int) {
		if x == nil || seen[x] || !ok {
			return
		}
		if d > 10 {
			ok = false
			return
		}
		seen[x] = true
		if x == ssa.Value(call) {
			found = true
			return
		}
		switch y := x.(type) {
		case *ssa.Const:
			k, isK := constInt(y)
			b, isB := constBool(y)
			if !(isK && k == 0) && !(isB && !b) && !isNilConst(y) {
				ok = false
			}
		case *ssa.Phi:
			for _, e := range y.Edges {
				walk(e, d+1)
			}
		case *ssa.BinOp:
			if subj, zeroWhenTrue, isCmp := c05CmpZero(y); isCmp {
				// matched := r.setWeight(..) > 0: true means "some matched"
				if zeroWhenTrue {
					ok = false
					return
				}
				walk(subj, d+1)
				return
			}
			if y.Op != token.ADD {
				ok = false
				return
			}
			walk(y.X, d+1)
			walk(y.Y, d+1)
		case *ssa.Convert:
			walk(y.X, d+1)
		case *ssa.ChangeType:
			walk(y.X, d+1)
		case *ssa.Call:
			if callee == nil || unwrapCallee(&y.Call) != callee {
				ok = false
			}
		case *ssa.UnOp:
			if y.Op != token.MUL {
				ok = false
				return
			}
			switch y.X.(type) {
			case *ssa.Alloc, *ssa.FreeVar:
				vals, okc := c05CellStores(y.X)
				if !okc || len(vals) == 0 {
					ok = false
					return
				}
				for _, sv := range vals {
					walk(sv, d+1)
				}
			default:
				ok = false
			}
		default:
			ok = false
		}
	}
	walk(v, 0)
	return ok && found
}

func runC05W1(c *Ctx) {
	const rule = "C05.W1"
	fns := c.fnsWhere("route", func(*ssa.Function) bool { return true })
	nStores := 0
	for _, f := range fns {
		eachInstr(f, func(i ssa.Instruction) {
			if c05IsWeightStore(i) {
				nStores++
			}
		})
	}
	setters := map[*ssa.Function]string{}
	for _, f := range fns {
		if kind := c05VerdictKind(f); kind != "" && mayExec(f, c05IsWeightStore, 0) {
			setters[f] = kind
		}
	}
	nExamined := 0
	for _, f := range fns {
		var calls []*ssa.Call
		eachInstr(f, func(i ssa.Instruction) {
			if call, ok := i.(*ssa.Call); ok {
				if sc := unwrapCallee(&call.Call); sc != nil && setters[sc] != "" {
					calls = append(calls, call)
				}
			}
		})
		if len(calls) == 0 {
			continue
		}
		forwards, errOnZero := false, false
		for _, call := range calls {
			if setters[f] != "" && c05FlowsToReturn(call) {
				forwards = true
			}
		}
		eachInstr(f, func(j ssa.Instruction) {
			r, isR := j.(*ssa.Return)
			if !isR {
				return
			}
			for _, res := range r.Results {
				if !c05IsErrorType(res.Type()) {
					continue
				}
				for _, df := range defsOf(res) {
					if isNilConst(df.Val) {
						continue
					}
					if df.Block == nil {
						df.Block = r.Block()
					}
					blocks := []*ssa.BasicBlock{df.Block}
					if df.Block != r.Block() {
						blocks = append(blocks, r.Block())
					}
					for _, b := range blocks {
						for _, ft := range factsAt(b) {
							for _, call := range calls {
								if c05ZeroVerdictFact(ft, call, setters[unwrapCallee(&call.Call)]) {
									errOnZero = true
								}
							}
						}
					}
				}
			}
		})
		if errOnZero {
			nExamined++
		}
		c.check(rule, fnKey(f)+"|no matching target is reported", calls[0].Pos(), forwards || errOnZero,
			"'route weight' that matches no target must fail with the no-match error (the count of matching targets returned by the weight setter must be examined, or handed on to a caller that examines it); silently succeeding hides a mistyped service or tag")
	}
	// the verdict is not a function result: a function that sets the weights itself (no count-returning closure or
	// helper in between) and reports errors must return one on a branch that says "none" (len(matched) == 0, n < 1)
	for _, f := range fns {
		if f.Parent() != nil || setters[f] != "" {
			continue
		}
		hasStore, hasSetter := false, false
		for _, g := range withAnon(f) {
			if g != f && setters[g] != "" {
				hasSetter = true
			}
			eachInstr(g, func(i ssa.Instruction) {
				if c05IsWeightStore(i) {
					hasStore = true
				}
			})
		}
		returnsErr := false
		res := f.Signature.Results()
		for k := 0; k < res.Len(); k++ {
			if c05IsErrorType(res.At(k).Type()) {
				returnsErr = true
			}
		}
		if !hasStore || hasSetter || !returnsErr {
			continue
		}
		errOnNone := false
		var pos token.Pos = f.Pos()
		eachInstr(f, func(j ssa.Instruction) {
			r, isR := j.(*ssa.Return)
			if !isR {
				return
			}
			for _, rv := range r.Results {
				if !c05IsErrorType(rv.Type()) {
					continue
				}
				for _, df := range defsOf(rv) {
					if isNilConst(df.Val) {
						continue
					}
					if df.Block == nil {
						df.Block = r.Block()
					}
					for _, b := range []*ssa.BasicBlock{df.Block, r.Block()} {
						for _, ft := range factsAt(b) {
							subj, zeroWhenTrue, ok := c05CmpZero(ft.Cond)
							if !ok || zeroWhenTrue != ft.Truth {
								continue
							}
							if bt, isB := subj.Type().Underlying().(*types.Basic); isB && bt.Info()&types.IsInteger != 0 {
								errOnNone = true
							}
						}
					}
				}
			}
		})
		if errOnNone {
			nExamined++
		}
		c.check(rule, fnKey(f)+"|no matching target is reported", pos, errOnNone,
			"'route weight' that matches no target must fail with the no-match error: the function that assigns the weights returns errors but none on a branch where the number of matching targets is zero")
	}
	c.atLeast(rule, "stores to Target.FixedWeight of existing targets", nStores, 1)
	c.atLeast(rule, "callers that turn 'no target matched' into an error", nExamined, 1)
}
