package main

// Rules of C09 added after the third round of independently authored breaking changes (DESIGN 11.10); wired in zzz_round3.go.

import (
	"go/token"
	"go/types"

	"golang.org/x/tools/go/ssa"
)

// ---- C09.B8: a buffer handed to a relay goroutine is not recycled by the function that started it ------------------

func runC09B8(c *Ctx) {
	n := 0
	for _, f := range c.fnsWhere("", func(fn *ssa.Function) bool {
		return rootPkg(fn) == c.spkg("proxy/tcp") || rootPkg(fn) == c.spkg("proxy")
	}) {
		var goArgs []ssa.Value
		eachInstr(f, func(i ssa.Instruction) {
			g, ok := i.(*ssa.Go)
			if !ok {
				return
			}
			for _, a := range g.Call.Args {
				if _, isSlice := a.Type().Underlying().(*types.Slice); isSlice {
					goArgs = append(goArgs, a)
				}
			}
			if mc, ok := g.Call.Value.(*ssa.MakeClosure); ok {
				for _, b := range mc.Bindings {
					goArgs = append(goArgs, b)
				}
			}
		})
		if len(goArgs) == 0 {
			continue
		}
		isPut := func(i ssa.Instruction) bool {
			cc := callCommon(i)
			return cc != nil && calleeName(cc) == "(*sync.Pool).Put"
		}
		eachInstr(f, func(i ssa.Instruction) {
			cc := callCommon(i)
			if cc == nil {
				return
			}
			var recycled []ssa.Value
			if isPut(i) && len(cc.Args) == 2 {
				recycled = append(recycled, stripIface(cc.Args[1]))
			} else if sc := cc.StaticCallee(); sc != nil && isRepoFn(sc) && mayExec(unwrap(sc), isPut, 1) {
				recycled = append(recycled, c09putArgs(unwrap(sc), cc.Args, isPut)...)
			}
			for _, r := range recycled {
				for _, g := range goArgs {
					shared := r == g || derives(g, func(v ssa.Value) bool { return v == r }) || derives(r, func(v ssa.Value) bool { return v == g })
					if shared {
						n++
						c.check("C09.B8", fnKey(f)+"|buffer of a running relay not recycled", i.Pos(), false,
							"a buffer handed to a copy goroutine is put back into a sync.Pool by the function that started the goroutine (deferred or not): the function returns when the FIRST direction finishes, the other copier is still reading into that buffer, and the next tunnel that takes it from the pool gets this connection's bytes written over its own — bytes of one client delivered into another tunnel")
					}
				}
			}
		})
	}
	c.ob("C09.B8", "proxy, proxy/tcp|relay buffers are not pooled across the relay's lifetime", token.NoPos, OK, "scanned go statements and sync.Pool.Put sites ("+itoa(n)+" shared)")
}

// c09putArgs: of the arguments of a call of helper h (which may put something into a sync.Pool), those that are what
// is put: when the Put sits in h itself, the arguments whose parameter the value put derives from (a helper
// `release(p *Proxy, buf *[]byte)` recycles buf, not p); when it sits deeper, all of them.
func c09putArgs(h *ssa.Function, args []ssa.Value, isPut func(ssa.Instruction) bool) []ssa.Value {
	var puts []ssa.Value
	for _, g := range withAnon(h) {
		eachInstr(g, func(i ssa.Instruction) {
			if cc := callCommon(i); cc != nil && isPut(i) && len(cc.Args) == 2 {
				puts = append(puts, stripIface(cc.Args[1]))
			}
		})
	}
	if len(puts) == 0 || len(args) != len(h.Params) {
		return args
	}
	var out []ssa.Value
	for k, a := range args {
		p := ssa.Value(h.Params[k])
		for _, put := range puts {
			if put == p || derives(put, func(v ssa.Value) bool { return v == p }) {
				out = append(out, a)
				break
			}
		}
	}
	if len(out) == 0 {
		return args
	}
	return out
}
