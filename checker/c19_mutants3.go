package main

// Overlay variants of C19, hardening round 3: transports assembled by callbacks (functional options, a configure
// callback, a hook kept in a struct field, an option list grown with append) and flag values parsed into an
// intermediate (a struct, plain locals, the pointers f.Int / f.Duration return) and copied into the configuration after
// the parse - each benign shape next to the breaks it must not hide.

import "strings"

// functional options, all in transport.go
const c19tOptions = `var (
	cfg *config.Config = &config.Config{}
)

type option func(tr *http.Transport)

func build(opts ...option) *http.Transport {
	tr := new(http.Transport)
	for _, apply := range opts {
		apply(tr)
	}
	return tr
}

func withPoolLimits(p *config.Proxy) option {
	return func(tr *http.Transport) {
		tr.ResponseHeaderTimeout = p.ResponseHeaderTimeout
		tr.IdleConnTimeout = p.IdleConnTimeout
		tr.MaxIdleConnsPerHost = p.MaxConn
	}
}

func withDialer(p *config.Proxy) option {
	return func(tr *http.Transport) {
		dialer := &net.Dialer{
			Timeout:   p.DialTimeout,
			KeepAlive: p.KeepAliveTimeout,
		}
		tr.Dial = dialer.Dial
	}
}

func withTLSClientConfig(tlscfg *tls.Config) option {
	return func(tr *http.Transport) {
		tr.TLSClientConfig = tlscfg
	}
}

func NewTransport(tlscfg *tls.Config) *http.Transport {
	proxy := &cfg.Proxy
	return build(
		withPoolLimits(proxy),
		withDialer(proxy),
		withTLSClientConfig(tlscfg),
	)
}

func SetConfig(c *config.Config) {
	cfg = c
}
`

// the option list is a slice grown with append; the options are plain closures made in NewTransport
const c19tAppend = `var (
	cfg *config.Config = &config.Config{}
)

func NewTransport(tlscfg *tls.Config) *http.Transport {
	p := cfg.Proxy
	var steps []func(*http.Transport)
	steps = append(steps, func(tr *http.Transport) {
		tr.ResponseHeaderTimeout = p.ResponseHeaderTimeout
		tr.IdleConnTimeout = p.IdleConnTimeout
		tr.MaxIdleConnsPerHost = p.MaxConn
	})
	steps = append(steps, func(tr *http.Transport) {
		tr.Dial = (&net.Dialer{Timeout: p.DialTimeout, KeepAlive: p.KeepAliveTimeout}).Dial
	})
	steps = append(steps, func(tr *http.Transport) { tr.TLSClientConfig = tlscfg })
	tr := &http.Transport{}
	for k := range steps {
		steps[k](tr)
	}
	return tr
}

func SetConfig(c *config.Config) {
	cfg = c
}
`

// one configure callback handed to a constructor helper; the limits are an ARGUMENT of the callback
const c19tCallback = `var (
	cfg *config.Config = &config.Config{}
)

func newTransport(p *config.Proxy, configure func(tr *http.Transport, d *net.Dialer, p *config.Proxy)) *http.Transport {
	tr, d := &http.Transport{}, &net.Dialer{}
	configure(tr, d, p)
	tr.Dial = d.Dial
	return tr
}

func NewTransport(tlscfg *tls.Config) *http.Transport {
	tr := newTransport(&cfg.Proxy, func(tr *http.Transport, d *net.Dialer, p *config.Proxy) {
		tr.ResponseHeaderTimeout = p.ResponseHeaderTimeout
		tr.IdleConnTimeout = p.IdleConnTimeout
		tr.MaxIdleConnsPerHost = p.MaxConn
		d.Timeout = p.DialTimeout
		d.KeepAlive = p.KeepAliveTimeout
	})
	tr.TLSClientConfig = tlscfg
	return tr
}

func SetConfig(c *config.Config) {
	cfg = c
}
`

// the hook that applies the limits is kept in a field of a small builder type
const c19tHookField = `var (
	cfg *config.Config = &config.Config{}
)

type builder struct {
	limits func(*http.Transport)
	tls    *tls.Config
}

func (b builder) build() *http.Transport {
	tr := &http.Transport{TLSClientConfig: b.tls}
	b.limits(tr)
	return tr
}

func applyLimits(tr *http.Transport) {
	tr.ResponseHeaderTimeout = cfg.Proxy.ResponseHeaderTimeout
	tr.IdleConnTimeout = cfg.Proxy.IdleConnTimeout
	tr.MaxIdleConnsPerHost = cfg.Proxy.MaxConn
	tr.Dial = (&net.Dialer{Timeout: cfg.Proxy.DialTimeout, KeepAlive: cfg.Proxy.KeepAliveTimeout}).Dial
}

func NewTransport(tlscfg *tls.Config) *http.Transport {
	return builder{limits: applyLimits, tls: tlscfg}.build()
}

func SetConfig(c *config.Config) {
	cfg = c
}
`

// the options are method values of a small type that carries the limits
const c19tMethodOptions = `var (
	cfg *config.Config = &config.Config{}
)

type limits struct {
	p   *config.Proxy
	tls *tls.Config
}

func (l limits) pool(tr *http.Transport) {
	tr.ResponseHeaderTimeout = l.p.ResponseHeaderTimeout
	tr.IdleConnTimeout = l.p.IdleConnTimeout
	tr.MaxIdleConnsPerHost = l.p.MaxConn
}

func (l limits) dial(tr *http.Transport) {
	d := &net.Dialer{Timeout: l.p.DialTimeout, KeepAlive: l.p.KeepAliveTimeout}
	tr.Dial = d.Dial
}

func (l limits) clientTLS(tr *http.Transport) { tr.TLSClientConfig = l.tls }

func build(steps ...func(*http.Transport)) *http.Transport {
	tr := &http.Transport{}
	for _, step := range steps {
		step(tr)
	}
	return tr
}

func NewTransport(tlscfg *tls.Config) *http.Transport {
	l := limits{p: &cfg.Proxy, tls: tlscfg}
	return build(l.pool, l.dial, l.clientTLS)
}

func SetConfig(c *config.Config) {
	cfg = c
}
`

// the options are values of an interface with one struct type per aspect
const c19tIfaceOptions = `var (
	cfg *config.Config = &config.Config{}
)

type option interface{ apply(tr *http.Transport) }

type poolLimits struct{ p *config.Proxy }

func (o poolLimits) apply(tr *http.Transport) {
	tr.ResponseHeaderTimeout = o.p.ResponseHeaderTimeout
	tr.IdleConnTimeout = o.p.IdleConnTimeout
	tr.MaxIdleConnsPerHost = o.p.MaxConn
}

type dialLimits struct{ p *config.Proxy }

func (o dialLimits) apply(tr *http.Transport) {
	tr.Dial = (&net.Dialer{Timeout: o.p.DialTimeout, KeepAlive: o.p.KeepAliveTimeout}).Dial
}

type clientTLS struct{ cfg *tls.Config }

func (o clientTLS) apply(tr *http.Transport) { tr.TLSClientConfig = o.cfg }

func NewTransport(tlscfg *tls.Config) *http.Transport {
	tr := &http.Transport{}
	for _, o := range []option{poolLimits{&cfg.Proxy}, dialLimits{&cfg.Proxy}, clientTLS{tlscfg}} {
		o.apply(tr)
	}
	return tr
}

func SetConfig(c *config.Config) {
	cfg = c
}
`

// a table of named setters, each a closure over the limits
const c19tSetterTable = `var (
	cfg *config.Config = &config.Config{}
)

type setter struct {
	name string
	set  func(tr *http.Transport, p *config.Proxy)
}

var setters = []setter{
	{"response header timeout", func(tr *http.Transport, p *config.Proxy) { tr.ResponseHeaderTimeout = p.ResponseHeaderTimeout }},
	{"idle timeout", func(tr *http.Transport, p *config.Proxy) { tr.IdleConnTimeout = p.IdleConnTimeout }},
	{"idle connections", func(tr *http.Transport, p *config.Proxy) { tr.MaxIdleConnsPerHost = p.MaxConn }},
	{"dialer", func(tr *http.Transport, p *config.Proxy) {
		tr.Dial = (&net.Dialer{Timeout: p.DialTimeout, KeepAlive: p.KeepAliveTimeout}).Dial
	}},
}

func NewTransport(tlscfg *tls.Config) *http.Transport {
	tr := &http.Transport{TLSClientConfig: tlscfg}
	for _, s := range setters {
		s.set(tr, &cfg.Proxy)
	}
	return tr
}

func SetConfig(c *config.Config) {
	cfg = c
}
`

const (
	c19ldMaxConn = "\tf.IntVar(&cfg.Proxy.MaxConn, \"proxy.maxconn\", defaultConfig.Proxy.MaxConn, \"maximum number of cached connections\")\n"
	c19ldDial    = "\tf.DurationVar(&cfg.Proxy.DialTimeout, \"proxy.dialtimeout\", defaultConfig.Proxy.DialTimeout, \"connection timeout for backend connections\")\n"
	c19ldRHT     = "\tf.DurationVar(&cfg.Proxy.ResponseHeaderTimeout, \"proxy.responseheadertimeout\", defaultConfig.Proxy.ResponseHeaderTimeout, \"response header timeout\")\n"
	c19ldKeep    = "\tf.DurationVar(&cfg.Proxy.KeepAliveTimeout, \"proxy.keepalivetimeout\", defaultConfig.Proxy.KeepAliveTimeout, \"keep-alive timeout\")\n"
	c19ldIdle    = "\tf.DurationVar(&cfg.Proxy.IdleConnTimeout, \"proxy.idleconntimeout\", defaultConfig.Proxy.IdleConnTimeout, \"idle timeout, when to close (keep-alive) connections\")\n"
	c19ldPost    = "\t// post configuration\n"
	c19ldVars    = "\tvar readTimeout, writeTimeout time.Duration\n"
	c19ldFunc    = "func parseScheme(s string)"
)

const c19ldLimitsType = `type upstreamLimits struct {
	maxConn               int
	dialTimeout           time.Duration
	responseHeaderTimeout time.Duration
	keepAliveTimeout      time.Duration
	idleConnTimeout       time.Duration
}

func (u *upstreamLimits) storeIn(p *Proxy) {
	p.MaxConn = u.maxConn
	p.DialTimeout = u.dialTimeout
	p.ResponseHeaderTimeout = u.responseHeaderTimeout
	p.KeepAliveTimeout = u.keepAliveTimeout
	p.IdleConnTimeout = u.idleConnTimeout
}

`

// c19edit applies further replacements to the texts a mutant puts in.
func c19edit(m mutant, pairs ...string) mutant {
	for k := 0; k+1 < len(pairs); k += 2 {
		m.New = strings.Replace(m.New, pairs[k], pairs[k+1], 1)
		more := append([]repl{}, m.More...)
		for j := range more {
			more[j].New = strings.Replace(more[j].New, pairs[k], pairs[k+1], 1)
		}
		m.More = more
	}
	return m
}

func c19round3Mutants() []mutant {
	tr := func(name, body, expect string, more ...repl) mutant {
		return mutant{Name: name, File: "transport/transport.go", Old: c19tBody, New: body, Expect: expect, More: more}
	}
	rep := func(s string, pairs ...string) string {
		for k := 0; k+1 < len(pairs); k += 2 {
			s = replaceOnce(s, pairs[k], pairs[k+1])
		}
		return s
	}
	// the flags of the five limits parsed into an intermediate struct and copied after the parse (benign/C19-r12);
	// before: statements put in front of the copy, store: the body of storeIn after edits
	viaStruct := func(name, expect, before string, edits ...string) mutant {
		return mutant{Name: name, File: "config/load.go", Expect: expect,
			Old: c19ldMaxConn, New: strings.Replace(c19ldMaxConn, "&cfg.Proxy.MaxConn", "&upstream.maxConn", 1),
			More: []repl{
				{c19ldDial, strings.Replace(c19ldDial, "&cfg.Proxy.DialTimeout", "&upstream.dialTimeout", 1)},
				{c19ldRHT, strings.Replace(c19ldRHT, "&cfg.Proxy.ResponseHeaderTimeout", "&upstream.responseHeaderTimeout", 1)},
				{c19ldKeep, strings.Replace(c19ldKeep, "&cfg.Proxy.KeepAliveTimeout", "&upstream.keepAliveTimeout", 1)},
				{c19ldIdle, strings.Replace(c19ldIdle, "&cfg.Proxy.IdleConnTimeout", "&upstream.idleConnTimeout", 1)},
				{c19ldVars, c19ldVars + "\tvar upstream upstreamLimits\n"},
				{c19ldPost, c19ldPost + before + "\tupstream.storeIn(&cfg.Proxy)\n"},
				{c19ldFunc, rep(c19ldLimitsType, edits...) + c19ldFunc},
			}}
	}
	// two of the limits parsed into plain locals (the style load() uses for readTimeout / writeTimeout)
	viaLocals := func(name, expect, after string) mutant {
		return mutant{Name: name, File: "config/load.go", Expect: expect,
			Old: c19ldMaxConn, New: strings.Replace(c19ldMaxConn, "&cfg.Proxy.MaxConn", "&maxConn", 1),
			More: []repl{
				{c19ldRHT, strings.Replace(c19ldRHT, "&cfg.Proxy.ResponseHeaderTimeout", "&headerTimeout", 1)},
				{c19ldVars, c19ldVars + "\tvar maxConn int\n\tvar headerTimeout time.Duration\n"},
				{c19ldPost, c19ldPost + after},
			}}
	}
	// two of the limits registered with the pointer-returning flag functions
	viaPointers := func(name, expect, after string) mutant {
		return mutant{Name: name, File: "config/load.go", Expect: expect,
			Old: c19ldMaxConn, New: "\tmaxConn := f.Int(\"proxy.maxconn\", defaultConfig.Proxy.MaxConn, \"maximum number of cached connections\")\n",
			More: []repl{
				{c19ldIdle, "\tidleTimeout := f.Duration(\"proxy.idleconntimeout\", defaultConfig.Proxy.IdleConnTimeout, \"idle timeout, when to close (keep-alive) connections\")\n"},
				{c19ldPost, c19ldPost + after},
			}}
	}
	const clampInt = "func clampInt(p *int, lo, hi int) {\n\tif *p < lo {\n\t\t*p = lo\n\t}\n\tif *p > hi {\n\t\t*p = hi\n\t}\n}\n\n"
	return []mutant{
		// ---- transports assembled by callbacks -------------------------------------------------------------------------
		tr("benign: transport built from functional options applied in a loop", c19tOptions, ""),
		tr("options variant, idle timeout from keep-alive inside an option", rep(c19tOptions, "tr.IdleConnTimeout = p.IdleConnTimeout", "tr.IdleConnTimeout = p.KeepAliveTimeout"), "C19.F2"),
		tr("options variant, the dialer option is not applied", rep(c19tOptions, "\t\twithDialer(proxy),\n", ""), "C19.F2"),
		tr("options variant, a later option overrides the response header timeout", rep(c19tOptions, "\t\twithTLSClientConfig(tlscfg),\n", "\t\twithTLSClientConfig(tlscfg),\n\t\tfunc(tr *http.Transport) { tr.ResponseHeaderTimeout = 0 },\n"), "C19.F2"),
		tr("options variant, the limits are read from a fresh configuration", rep(c19tOptions, "proxy := &cfg.Proxy", "proxy := &(&config.Config{}).Proxy"), "C19.F2"),
		tr("options variant, an option enables keep-alive probe tuning without Idle", rep(c19tOptions, "\t\t\tKeepAlive: p.KeepAliveTimeout,\n", "\t\t\tKeepAlive: p.KeepAliveTimeout,\n\t\t\tKeepAliveConfig: net.KeepAliveConfig{Enable: true, Count: 3},\n"), "C19.O1"),
		tr("options variant, an option caps the connections per host", rep(c19tOptions, "\t\ttr.MaxIdleConnsPerHost = p.MaxConn\n", "\t\ttr.MaxIdleConnsPerHost = p.MaxConn\n\t\ttr.MaxConnsPerHost = p.MaxConn\n"), "C19.T4"),
		tr("options variant, an option disables keep-alives", rep(c19tOptions, "\t\twithTLSClientConfig(tlscfg),\n", "\t\twithTLSClientConfig(tlscfg),\n\t\tfunc(tr *http.Transport) { tr.DisableKeepAlives = true },\n"), "C19.O1"),
		tr("benign: option list grown with append, options are closures of NewTransport", c19tAppend, ""),
		tr("append variant, max idle connections per host is a constant", rep(c19tAppend, "tr.MaxIdleConnsPerHost = p.MaxConn", "tr.MaxIdleConnsPerHost = 2"), "C19.F2"),
		tr("append variant, dial timeout taken from the keep-alive timeout", rep(c19tAppend, "Timeout: p.DialTimeout", "Timeout: p.KeepAliveTimeout"), "C19.F2"),
		tr("benign: configure callback that is handed transport, dialer and limits", c19tCallback, ""),
		tr("callback variant, the callback is handed the limits of a fresh configuration", rep(c19tCallback, "configure(tr, d, p)", "configure(tr, d, &config.Proxy{})"), "C19.F2"),
		tr("callback variant, the dialer filled in is not the one dialled through", rep(c19tCallback, "configure(tr, d, p)", "configure(tr, &net.Dialer{}, p)"), "C19.F2"),
		tr("benign: hook that applies the limits kept in a field of a builder type", c19tHookField, ""),
		tr("hook variant, response header timeout from the dial timeout", rep(c19tHookField, "tr.ResponseHeaderTimeout = cfg.Proxy.ResponseHeaderTimeout", "tr.ResponseHeaderTimeout = cfg.Proxy.DialTimeout"), "C19.F2"),
		tr("hook variant, the hook is applied to another transport", rep(c19tHookField, "b.limits(tr)", "b.limits(&http.Transport{})"), "C19.F2"),

		tr("benign: options are method values of a small type that carries the limits", c19tMethodOptions, ""),
		tr("method-value options variant, idle connections per host never set", rep(c19tMethodOptions, "\ttr.MaxIdleConnsPerHost = l.p.MaxConn\n", ""), "C19.F2"),
		tr("method-value options variant, the limits type carries a fresh configuration", rep(c19tMethodOptions, "limits{p: &cfg.Proxy, tls: tlscfg}", "limits{p: &config.Proxy{}, tls: tlscfg}"), "C19.F2"),
		tr("benign: options are values of an interface, one struct type per aspect", c19tIfaceOptions, ""),
		tr("interface options variant, keep-alive taken from the idle timeout", rep(c19tIfaceOptions, "KeepAlive: o.p.KeepAliveTimeout", "KeepAlive: o.p.IdleConnTimeout"), "C19.F2"),
		tr("benign: package-level table of named setters applied in a loop", c19tSetterTable, ""),
		tr("setter table variant, one setter takes the idle timeout from the dial timeout", rep(c19tSetterTable, "tr.IdleConnTimeout = p.IdleConnTimeout", "tr.IdleConnTimeout = p.DialTimeout"), "C19.F2"),
		tr("setter table variant, the setters are handed the limits of the default configuration", rep(c19tSetterTable, "s.set(tr, &cfg.Proxy)", "s.set(tr, &config.Proxy{})"), "C19.F2"),
		tr("benign: the setter copies the configuration into the object the variable points to", rep(c19tBody, "\tcfg = c\n", "\t*cfg = *c\n"), ""),
		tr("setter copying into the object copies the old content over the new", rep(c19tBody, "\tcfg = c\n", "\t*c = *cfg\n"), "C19.F1"),

		// ---- flag values parsed into an intermediate and copied after the parse --------------------------------------
		viaStruct("benign: limits parsed into an intermediate struct, copied into the configuration after the parse", "", ""),
		viaStruct("intermediate struct: maxconn <= 0 replaced by the default before the copy (seed 8 in this shape)", "C19.L1",
			"\tif upstream.maxConn <= 0 {\n\t\tupstream.maxConn = defaultConfig.Proxy.MaxConn\n\t}\n"),
		viaStruct("benign: intermediate struct, default applied before the copy only when the option was not set", "",
			"\tif !f.IsSet(\"proxy.maxconn\") {\n\t\tupstream.maxConn = defaultConfig.Proxy.MaxConn\n\t}\n"),
		viaStruct("intermediate struct: default applied before the copy when ANOTHER option was not set", "C19.L1",
			"\tif !f.IsSet(\"proxy.strategy\") {\n\t\tupstream.maxConn = defaultConfig.Proxy.MaxConn\n\t}\n"),
		viaStruct("intermediate struct: the copy clamps the idle timeout", "C19.L1", "",
			"p.IdleConnTimeout = u.idleConnTimeout", "p.IdleConnTimeout = min(u.idleConnTimeout, time.Minute)"),
		viaStruct("intermediate struct: the copy puts the keep-alive timeout into the dial timeout", "C19.L1", "",
			"p.DialTimeout = u.dialTimeout", "p.DialTimeout = u.keepAliveTimeout"),
		viaStruct("intermediate struct: a clamp helper is handed a pointer to the parsed value before the copy", "C19.L1",
			"\tclampInt(&upstream.maxConn, 1, 1000)\n",
			"type upstreamLimits struct {", clampInt+"type upstreamLimits struct {"),
		viaStruct("intermediate struct: the copy method normalises the parsed values first", "C19.L1", "",
			"\tp.MaxConn = u.maxConn\n", "\tif u.keepAliveTimeout <= 0 {\n\t\tu.keepAliveTimeout = 15 * time.Second\n\t}\n\tp.MaxConn = u.maxConn\n"),
		viaStruct("benign: intermediate struct, the copy is a method that takes and returns the Proxy section by value", "", "",
			"func (u *upstreamLimits) storeIn(p *Proxy) {", "func (u *upstreamLimits) storeIn(dst *Proxy) { *dst = u.applied(*dst) }\n\nfunc (u *upstreamLimits) applied(p Proxy) Proxy {",
			"\tp.IdleConnTimeout = u.idleConnTimeout\n", "\tp.IdleConnTimeout = u.idleConnTimeout\n\treturn p\n"),
		viaStruct("intermediate struct, by-value copy method doubles the dial timeout", "C19.L1", "",
			"func (u *upstreamLimits) storeIn(p *Proxy) {", "func (u *upstreamLimits) storeIn(dst *Proxy) { *dst = u.applied(*dst) }\n\nfunc (u *upstreamLimits) applied(p Proxy) Proxy {",
			"\tp.IdleConnTimeout = u.idleConnTimeout\n", "\tp.IdleConnTimeout = u.idleConnTimeout\n\treturn p\n",
			"p.DialTimeout = u.dialTimeout", "p.DialTimeout = 2 * u.dialTimeout"),
		c19edit(viaStruct("benign: intermediate struct, the durations are registered through a helper of the package", "", "",
			"type upstreamLimits struct {", "func durationOpt(f *FlagSet, p *time.Duration, name string, def time.Duration, usage string) {\n\tf.DurationVar(p, name, def, usage)\n}\n\ntype upstreamLimits struct {"),
			"\tf.DurationVar(&upstream.dialTimeout, ", "\tdurationOpt(f, &upstream.dialTimeout, ",
			"\tf.DurationVar(&upstream.idleConnTimeout, ", "\tdurationOpt(f, &upstream.idleConnTimeout, "),
		{Name: "benign: the Proxy section passes through a by-value helper that fills in another field after the parse", File: "config/load.go", Expect: "",
			Old: c19ldPost, New: c19ldPost + "\tcfg.Proxy = withLocalIP(cfg.Proxy)\n",
			More: []repl{{c19ldFunc, "func withLocalIP(p Proxy) Proxy {\n\tif p.LocalIP == \"\" {\n\t\tp.LocalIP = \"127.0.0.1\"\n\t}\n\treturn p\n}\n\n" + c19ldFunc}}},
		{Name: "by-value helper of the Proxy section also floors the response header timeout", File: "config/load.go", Expect: "C19.L1",
			Old: c19ldPost, New: c19ldPost + "\tcfg.Proxy = withLocalIP(cfg.Proxy)\n",
			More: []repl{{c19ldFunc, "func withLocalIP(p Proxy) Proxy {\n\tif p.LocalIP == \"\" {\n\t\tp.LocalIP = \"127.0.0.1\"\n\t}\n\tif p.ResponseHeaderTimeout < time.Second {\n\t\tp.ResponseHeaderTimeout = time.Second\n\t}\n\treturn p\n}\n\n" + c19ldFunc}}},
		{Name: "benign: maxconn parsed as int64 into a local and converted after the parse", File: "config/load.go", Expect: "",
			Old: c19ldMaxConn, New: "\tf.Int64Var(&maxConn, \"proxy.maxconn\", int64(defaultConfig.Proxy.MaxConn), \"maximum number of cached connections\")\n",
			More: []repl{{c19ldVars, c19ldVars + "\tvar maxConn int64\n"}, {c19ldPost, c19ldPost + "\tcfg.Proxy.MaxConn = int(maxConn)\n"}}},
		viaLocals("benign: limits parsed into plain locals and assigned after the parse", "",
			"\tcfg.Proxy.MaxConn = maxConn\n\tcfg.Proxy.ResponseHeaderTimeout = headerTimeout\n"),
		viaLocals("plain locals: a non-positive maxconn replaced before the assignment", "C19.L1",
			"\tif maxConn <= 0 {\n\t\tmaxConn = 100\n\t}\n\tcfg.Proxy.MaxConn = maxConn\n\tcfg.Proxy.ResponseHeaderTimeout = headerTimeout\n"),
		viaLocals("plain locals: the response header timeout is assigned with a floor", "C19.L1",
			"\tcfg.Proxy.MaxConn = maxConn\n\tcfg.Proxy.ResponseHeaderTimeout = max(headerTimeout, time.Second)\n"),
		viaPointers("benign: limits registered with f.Int / f.Duration and dereferenced after the parse", "",
			"\tcfg.Proxy.MaxConn = *maxConn\n\tcfg.Proxy.IdleConnTimeout = *idleTimeout\n"),
		viaPointers("flag pointers: the parsed maxconn is overwritten through the pointer before it is copied", "C19.L1",
			"\tif *maxConn <= 0 {\n\t\t*maxConn = defaultConfig.Proxy.MaxConn\n\t}\n\tcfg.Proxy.MaxConn = *maxConn\n\tcfg.Proxy.IdleConnTimeout = *idleTimeout\n"),
		viaPointers("flag pointers: the keep-alive timeout is overwritten with the parsed idle timeout", "C19.L1",
			"\tcfg.Proxy.MaxConn = *maxConn\n\tcfg.Proxy.IdleConnTimeout = *idleTimeout\n\tcfg.Proxy.KeepAliveTimeout = *idleTimeout\n"),
	}
}
