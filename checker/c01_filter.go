package main

// C01 rules F1, F2 (health filter) and F3 (tag filter). The filters are found by role (c01.go); their sites are found
// by role inside the filter's region (the filter function, the closures it makes and the helpers it calls that do not
// themselves produce a list of health checks).

import (
	"go/token"
	"go/types"
	"strings"

	"golang.org/x/tools/go/ssa"
)

// c01IsChecks: a list of Consul health checks (api.HealthChecks, []*api.HealthCheck, a named type of those).
func c01IsChecks(t types.Type) bool {
	switch u := t.Underlying().(type) {
	case *types.Slice:
		return c01IsCheck(u.Elem())
	case *types.Array:
		return c01IsCheck(u.Elem())
	}
	return false
}

// c01IsCheck: one health check (api.HealthCheck or a pointer to it).
func c01IsCheck(t types.Type) bool {
	return namedIs(t, apiPkg+".HealthCheck")
}

// c01IsStage: a repository function that produces a list of health checks (a filter stage).
func c01IsStage(f *ssa.Function) bool {
	if f == nil || !isRepoFn(f) || len(f.Blocks) == 0 {
		return false
	}
	rs := f.Signature.Results()
	for k := 0; k < rs.Len(); k++ {
		if c01IsChecks(rs.At(k).Type()) {
			return true
		}
	}
	return false
}

// c01StageRegion: f, its closures and the same-package helpers it calls statically that are not stages themselves.
func c01StageRegion(f *ssa.Function) []*ssa.Function {
	var out []*ssa.Function
	seen := map[*ssa.Function]bool{}
	var add func(g *ssa.Function, d int)
	add = func(g *ssa.Function, d int) {
		if g == nil || seen[g] || len(g.Blocks) == 0 || !isRepoFn(g) {
			return
		}
		seen[g] = true
		out = append(out, g)
		if d >= 3 {
			return
		}
		eachInstr(g, func(i ssa.Instruction) {
			for _, op := range i.Operands(nil) {
				if op == nil || *op == nil {
					continue
				}
				var h *ssa.Function
				switch x := (*op).(type) {
				case *ssa.Function:
					h = unwrap(x)
				case *ssa.MakeClosure:
					if fn, ok := x.Fn.(*ssa.Function); ok {
						h = unwrap(fn)
					}
				}
				if h != nil && h != g && rootPkg(h) == rootPkg(f) && (h.Parent() != nil || !c01IsStage(h)) {
					add(h, d+1)
				}
			}
		})
	}
	add(f, 0)
	return out
}

// c01ReadsField: some function of fns loads field `field` of an api.HealthCheck.
func c01ReadsField(fns []*ssa.Function, field string) bool {
	hit := false
	eachInstrOf(fns, func(_ *ssa.Function, i ssa.Instruction) {
		switch x := i.(type) {
		case *ssa.FieldAddr:
			if fieldName(x.X.Type(), x.Field) == field && c01IsCheck(x.X.Type()) {
				hit = true
			}
		case *ssa.Field:
			if fieldName(x.X.Type(), x.Field) == field && c01IsCheck(x.X.Type()) {
				hit = true
			}
		}
	})
	return hit
}

// c01Appends: the appends to a list of health checks in f, and the elements they append.
func c01Appends(f *ssa.Function) (calls []*ssa.Call, elems map[ssa.Value]bool) {
	elems = map[ssa.Value]bool{}
	eachInstr(f, func(i ssa.Instruction) {
		call, ok := i.(*ssa.Call)
		if !ok || calleeName(&call.Call) != "builtin.append" || !c01IsChecks(call.Type()) || len(call.Call.Args) < 2 {
			return
		}
		calls = append(calls, call)
		if sl, ok := call.Call.Args[1].(*ssa.Slice); ok {
			if arr, ok := sl.X.(*ssa.Alloc); ok {
				for _, r := range *arr.Referrers() {
					if ia, ok := r.(*ssa.IndexAddr); ok {
						for _, r2 := range *ia.Referrers() {
							if st, ok := r2.(*ssa.Store); ok && st.Addr == ia {
								elems[c01ResolveUp(st.Val)] = true
							}
						}
					}
				}
			}
		}
	})
	return calls, elems
}

// c01OuterLoop: the largest loop of f containing all the given blocks (nil if there is none).
func c01OuterLoop(f *ssa.Function, blocks []*ssa.BasicBlock) *loop {
	var outer *loop
	for _, l := range loopsOf(f) {
		all := true
		for _, b := range blocks {
			if !l.Body[b] {
				all = false
			}
		}
		if all && (outer == nil || len(l.Body) > len(outer.Body)) {
			outer = l
		}
	}
	return outer
}

// ---- health filter ------------------------------------------------------------------------------------------------

type c01Health struct {
	c     *Ctx
	fn    *ssa.Function
	reg   []*ssa.Function
	inReg map[*ssa.Function]bool
	apps  map[ssa.Instruction]bool
	elems map[ssa.Value]bool
	outer *loop
	cut   map[*ssa.BasicBlock]bool

	// counters
	parent  map[ssa.Value]ssa.Value
	incs    map[ssa.Value][]*ssa.BinOp // class root -> increments
	passing map[ssa.Value]bool         // class roots
	total   map[ssa.Value]bool
}

func (h *c01Health) find(v ssa.Value) ssa.Value {
	for {
		p, ok := h.parent[v]
		if !ok || p == v {
			return v
		}
		v = p
	}
}

func (h *c01Health) union(a, b ssa.Value) {
	if _, isK := a.(*ssa.Const); isK {
		return
	}
	if _, isK := b.(*ssa.Const); isK {
		return
	}
	ra, rb := h.find(a), h.find(b)
	if _, ok := h.parent[ra]; !ok {
		h.parent[ra] = ra
	}
	if _, ok := h.parent[rb]; !ok {
		h.parent[rb] = rb
	}
	if ra != rb {
		h.parent[ra] = rb
	}
}

func c01IsInt(t types.Type) bool {
	b, ok := t.Underlying().(*types.Basic)
	return ok && b.Info()&types.IsInteger != 0
}

// buildCounters groups the integer values of the region into variables: a phi and its edges, x+1 and x, the result of
// a helper and what the helper returns, a helper's parameter and its arguments.
func (h *c01Health) buildCounters() {
	h.parent = map[ssa.Value]ssa.Value{}
	var incs []*ssa.BinOp
	// a counter kept in memory (a field of a tally struct, a captured variable): its loads and the values stored into
	// it belong to one variable
	type cellKey struct {
		root ssa.Value
		path string
	}
	tr := newC01Tr(h.c)
	rep := map[cellKey]ssa.Value{}
	cell := func(addr, v ssa.Value) {
		if _, isK := v.(*ssa.Const); isK {
			return
		}
		locs := tr.locsOf(addr, nil)
		if len(locs) != 1 || !locs[0].known() {
			return
		}
		k := cellKey{locs[0].root, locs[0].path}
		if r, ok := rep[k]; ok {
			h.union(v, r)
		} else {
			rep[k] = v
		}
	}
	eachInstrOf(h.reg, func(f *ssa.Function, i ssa.Instruction) {
		switch x := i.(type) {
		case *ssa.UnOp:
			if x.Op == token.MUL && c01IsInt(x.Type()) {
				cell(x.X, x)
			}
		case *ssa.Store:
			if c01IsInt(x.Val.Type()) {
				cell(x.Addr, x.Val)
			}
		case *ssa.Phi:
			if c01IsInt(x.Type()) {
				for _, e := range x.Edges {
					h.union(x, e)
				}
			}
		case *ssa.BinOp:
			if x.Op == token.ADD && c01IsInt(x.Type()) {
				if k, ok := constInt(x.Y); ok && k == 1 {
					h.union(x, x.X)
					incs = append(incs, x)
				}
			}
		case *ssa.Extract:
			if call, ok := x.Tuple.(*ssa.Call); ok && c01IsInt(x.Type()) {
				if sc := call.Call.StaticCallee(); sc != nil && h.inReg[sc] {
					eachInstr(sc, func(j ssa.Instruction) {
						if r, ok := j.(*ssa.Return); ok && x.Index < len(r.Results) {
							h.union(x, r.Results[x.Index])
						}
					})
				}
			}
		case *ssa.Call:
			sc := x.Call.StaticCallee()
			if sc == nil || !h.inReg[sc] {
				return
			}
			if c01IsInt(x.Type()) {
				eachInstr(sc, func(j ssa.Instruction) {
					if r, ok := j.(*ssa.Return); ok && len(r.Results) == 1 {
						h.union(x, r.Results[0])
					}
				})
			}
			for k, p := range sc.Params {
				if k < len(x.Call.Args) && c01IsInt(p.Type()) {
					h.union(p, x.Call.Args[k])
				}
			}
		}
	})
	h.incs = map[ssa.Value][]*ssa.BinOp{}
	for _, b := range incs {
		r := h.find(b)
		h.incs[r] = append(h.incs[r], b)
	}
	h.passing, h.total = map[ssa.Value]bool{}, map[ssa.Value]bool{}
	// passing: a counter compared with 0 / 1 in a branch condition; when there are several, the ones counted under a status test
	cand := map[ssa.Value]bool{}
	eachInstrOf(h.reg, func(f *ssa.Function, i ssa.Instruction) {
		b, ok := i.(*ssa.BinOp)
		if !ok || !c01IsInt(b.X.Type()) {
			return
		}
		switch b.Op {
		case token.EQL, token.NEQ, token.LSS, token.LEQ, token.GTR, token.GEQ:
		default:
			return
		}
		for _, pair := range [][2]ssa.Value{{b.X, b.Y}, {b.Y, b.X}} {
			if k, isK := constInt(pair[1]); isK && (k == 0 || k == 1) {
				if r := h.find(pair[0]); len(h.incs[r]) > 0 {
					cand[r] = true
				}
			}
		}
	})
	if len(cand) > 1 {
		guarded := map[ssa.Value]bool{}
		for r := range cand {
			for _, inc := range h.incs[r] {
				if c01HasStatusFact(c01Facts(inc.Block())) {
					guarded[r] = true
				}
			}
		}
		if len(guarded) > 0 {
			cand = guarded
		}
	}
	h.passing = cand
	// total: a counter compared with passing
	eachInstrOf(h.reg, func(f *ssa.Function, i ssa.Instruction) {
		b, ok := i.(*ssa.BinOp)
		if !ok || !c01IsInt(b.X.Type()) {
			return
		}
		switch b.Op {
		case token.EQL, token.NEQ, token.LSS, token.LEQ, token.GTR, token.GEQ:
		default:
			return
		}
		rx, ry := h.find(b.X), h.find(b.Y)
		if h.passing[rx] && !h.passing[ry] && len(h.incs[ry]) > 0 {
			h.total[ry] = true
		}
		if h.passing[ry] && !h.passing[rx] && len(h.incs[rx]) > 0 {
			h.total[rx] = true
		}
	})
}

func (h *c01Health) isPassing(v ssa.Value) bool { return h.passing[h.find(v)] }

func (h *c01Health) isCounter(v ssa.Value) bool { return len(h.incs[h.find(v)]) > 0 }

// c01SameField: some fact establishes a.<field> == b.<field> for two different health checks.
func c01SameField(fs []Fact, field string) bool {
	for _, f := range fs {
		x, y, ok := c01EqOperands(f)
		if !ok {
			continue
		}
		bx, okx := c01LoadOfField(x, field)
		by, oky := c01LoadOfField(y, field)
		if okx && oky && bx != by {
			return true
		}
	}
	return false
}

// c01FieldEq: some fact establishes <check>.<field> == konst (prefix: == konst + <check>.ServiceID).
func c01FieldEq(fs []Fact, field, konst string, prefix bool) bool {
	for _, f := range fs {
		x, y, ok := c01EqOperands(f)
		if !ok {
			continue
		}
		for _, pair := range [][2]ssa.Value{{x, y}, {y, x}} {
			if _, isF := c01LoadOfField(pair[0], field); !isF {
				continue
			}
			if s, isS := constString(pair[1]); isS && s == konst && !prefix {
				return true
			}
			if prefix {
				if add, isAdd := pair[1].(*ssa.BinOp); isAdd && add.Op == token.ADD {
					if s, isS := constString(add.X); isS && s == konst {
						if _, isID := c01LoadOfField(add.Y, "ServiceID"); isID {
							return true
						}
					}
				}
			}
		}
	}
	return false
}

// c01HasStatusFact: some fact says that the status of a check is one of a list of (non-constant) values: a true call
// of a helper / slices.Contains that looks at HealthCheck.Status, or Status == <variable>.
func c01HasStatusFact(fs []Fact) bool {
	isStatus := func(v ssa.Value) bool {
		_, ok := c01LoadOfField(v, "Status")
		return ok
	}
	for _, f := range fs {
		if x, y, ok := c01EqOperands(f); ok {
			_, kx := x.(*ssa.Const)
			_, ky := y.(*ssa.Const)
			if (isStatus(x) && !ky) || (isStatus(y) && !kx) {
				return true
			}
			continue
		}
		if !f.Truth {
			continue
		}
		// accepted[c.Status]
		lk, isLk := f.Cond.(*ssa.Lookup)
		if ex, isEx := f.Cond.(*ssa.Extract); isEx && ex.Index == 1 {
			lk, isLk = ex.Tuple.(*ssa.Lookup)
		}
		if isLk && isStatus(lk.Index) {
			return true
		}
		call, ok := f.Cond.(*ssa.Call)
		if !ok {
			continue
		}
		n := typeArgs.ReplaceAllString(calleeName(&call.Call), "")
		if n == "slices.Contains" || n == "slices.Index" {
			for _, a := range call.Call.Args {
				if isStatus(a) {
					return true
				}
			}
		}
		if sc := call.Call.StaticCallee(); sc != nil && isRepoFn(sc) && len(sc.Blocks) > 0 {
			takesCheck := false
			for _, a := range call.Call.Args {
				if c01IsCheck(a.Type()) {
					takesCheck = true
				}
			}
			if takesCheck && c01ReadsField(c01StageRegion(sc), "Status") {
				// ... and does not compare it with a constant only: it must take the accepted list from outside
				return true
			}
		}
	}
	return false
}

// reaches: can an append be reached from instruction idx of block b of fn (entered from `from`), within the current
// iteration over the instances, when the values in known are what they are? For a helper of the filter the question
// is asked for the values it returns from there, at its call sites.
func (h *c01Health) reaches(fn *ssa.Function, b *ssa.BasicBlock, idx int, from *ssa.BasicBlock, known map[ssa.Value]c01Tri, depth int) bool {
	ev := &c01Eval{known: known}
	if fn == h.fn {
		if idx == 0 && h.cut[b] {
			return false // straight to the next instance
		}
		found := false
		ev.walk(b, idx, from, nil, h.cut, func(i ssa.Instruction, _ c01PhiEnv) bool {
			if h.apps[i] {
				found = true
				return true
			}
			return false
		})
		return found
	}
	if depth > 3 || fn.Parent() != nil {
		return true
	}
	var tuples [][]c01Tri
	ev.walk(b, idx, from, nil, nil, func(i ssa.Instruction, env c01PhiEnv) bool {
		r, ok := i.(*ssa.Return)
		if !ok {
			return false
		}
		t := make([]c01Tri, len(r.Results))
		for k, res := range r.Results {
			if bt, ok := res.Type().Underlying().(*types.Basic); ok && bt.Kind() == types.Bool {
				t[k] = ev.eval(res, nil, env)
			}
		}
		tuples = append(tuples, t)
		return true
	})
	for _, t := range tuples {
		for _, s := range gSites[fn] {
			cs, ok := s.(*ssa.Call)
			if !ok || !h.inReg[cs.Parent()] {
				continue
			}
			k2 := map[ssa.Value]c01Tri{}
			if len(t) == 1 && t[0] != c01U {
				k2[cs] = t[0]
			}
			if refs := cs.Referrers(); refs != nil {
				for _, r := range *refs {
					if ex, ok := r.(*ssa.Extract); ok && ex.Index < len(t) && t[ex.Index] != c01U {
						k2[ex] = t[ex.Index]
					}
				}
			}
			if h.reaches(cs.Parent(), cs.Block(), instrIndex(cs)+1, nil, k2, depth+1) {
				return true
			}
		}
	}
	return false
}

// reachesUnder: from the start of one iteration over the instances, can an append be reached under the assumption?
func (h *c01Health) reachesUnder(o c01Oracle) bool {
	ev := &c01Eval{oracle: o}
	found := false
	on := func(i ssa.Instruction, _ c01PhiEnv) bool {
		if h.apps[i] {
			found = true
			return true
		}
		return false
	}
	if h.outer == nil {
		ev.walk(h.fn.Blocks[0], 0, nil, nil, nil, on)
		return found
	}
	for _, s := range h.outer.Head.Succs {
		if h.outer.Body[s] && s != h.outer.Head {
			ev.walk(s, 0, h.outer.Head, nil, h.cut, on)
		}
	}
	return found
}

func (h *c01Health) isElem(v ssa.Value) bool { return h.elems[v] }

func (h *c01Health) passingZero() c01Oracle {
	return func(ev *c01Eval, v ssa.Value, fr *c01Frame) c01Tri {
		b, ok := v.(*ssa.BinOp)
		if !ok || !c01IsInt(b.X.Type()) {
			return c01U
		}
		x, _ := ev.resolve(b.X, fr)
		y, _ := ev.resolve(b.Y, fr)
		if k, isK := constInt(y); isK && h.isPassing(x) {
			return c01IntCmp(b.Op, 0, k)
		}
		if k, isK := constInt(x); isK && h.isPassing(y) {
			return c01IntCmp(b.Op, k, 0)
		}
		return c01U
	}
}

// c01IsModeFlag: a boolean that comes from outside the filter: a parameter that cannot be resolved further, a
// boolean field of a repository struct, or the comparison of a configuration string with "all".
func c01IsModeFlag(v ssa.Value) c01Tri {
	if b, ok := v.(*ssa.BinOp); ok && (b.Op == token.EQL || b.Op == token.NEQ) {
		for _, side := range []ssa.Value{b.X, b.Y} {
			if s, isS := constString(side); isS && s == "all" {
				return c01Bool(b.Op == token.EQL)
			}
		}
		return c01U
	}
	bt, ok := v.Type().Underlying().(*types.Basic)
	if !ok || bt.Kind() != types.Bool {
		return c01U
	}
	switch x := v.(type) {
	case *ssa.Parameter:
		return c01T
	case *ssa.FreeVar:
		return c01T
	case *ssa.UnOp:
		if x.Op == token.MUL {
			if fa, ok := x.X.(*ssa.FieldAddr); ok && !c01IsCheck(fa.X.Type()) {
				return c01T
			}
			if _, ok := x.X.(*ssa.FreeVar); ok {
				return c01T
			}
		}
	case *ssa.Field:
		if !c01IsCheck(x.X.Type()) {
			return c01T
		}
	}
	return c01U
}

func (h *c01Health) strictViolated() c01Oracle {
	return func(ev *c01Eval, v ssa.Value, fr *c01Frame) c01Tri {
		if t := c01IsModeFlag(v); t != c01U {
			return t
		}
		b, ok := v.(*ssa.BinOp)
		if !ok || !c01IsInt(b.X.Type()) {
			return c01U
		}
		x, _ := ev.resolve(b.X, fr)
		y, _ := ev.resolve(b.Y, fr)
		px, py := h.isPassing(x), h.isPassing(y)
		switch {
		case px && !py && h.isCounter(y):
			return c01IntCmp(b.Op, 0, 1) // passing < total
		case py && !px && h.isCounter(x):
			return c01IntCmp(b.Op, 1, 0)
		}
		return c01U
	}
}

func runC01Health(c *Ctx, hf *ssa.Function) {
	if !c.need("C01.F1", hf, "health filter (by role)") {
		return
	}
	h := &c01Health{c: c, fn: hf, reg: c01StageRegion(hf), inReg: map[*ssa.Function]bool{}, apps: map[ssa.Instruction]bool{}}
	for _, g := range h.reg {
		h.inReg[g] = true
	}
	calls, elems := c01Appends(hf)
	if len(calls) == 0 {
		c.undecided("C01.F1", fnKey(hf)+"|append of a passing instance", "no append to a list of health checks found in the health filter")
		return
	}
	var blocks []*ssa.BasicBlock
	for _, call := range calls {
		h.apps[call] = true
		blocks = append(blocks, call.Block())
	}
	app := calls[len(calls)-1]
	h.elems = elems
	h.outer = c01OuterLoop(hf, blocks)
	h.cut = map[*ssa.BasicBlock]bool{}
	if h.outer != nil {
		h.cut[h.outer.Head] = true
	}
	h.buildCounters()

	// ---- exclusions: the edge on which the condition holds does not lead to the append
	type excl struct {
		name  string
		match func(fs []Fact) bool
	}
	sameNode := func(fs []Fact) bool { return c01SameField(fs, "Node") }
	exclusions := []excl{
		{"agent down (serfHealth critical on the same node)", func(fs []Fact) bool {
			return sameNode(fs) && c01FieldEq(fs, "CheckID", "serfHealth", false) && c01FieldEq(fs, "Status", "critical", false)
		}},
		{"node maintenance (_node_maintenance on the same node)", func(fs []Fact) bool {
			return sameNode(fs) && c01FieldEq(fs, "CheckID", "_node_maintenance", false)
		}},
		{"service maintenance (_service_maintenance:<id> critical on the same node)", func(fs []Fact) bool {
			return sameNode(fs) && c01FieldEq(fs, "CheckID", "_service_maintenance:", true) && c01FieldEq(fs, "Status", "critical", false)
		}},
	}
	for _, e := range exclusions {
		found, bad := false, false
		var pos token.Pos = hf.Pos()
		for _, g := range h.reg {
			for _, x := range g.Blocks {
				if len(x.Instrs) == 0 {
					continue
				}
				iff, ok := x.Instrs[len(x.Instrs)-1].(*ssa.If)
				if !ok || x.Succs[0] == x.Succs[1] {
					continue
				}
				base := c01Facts(x)
				for _, s := range x.Succs {
					ef, _ := c01EdgeFact(x, s)
					fs := append(append([]Fact{}, base...), c01Expand([]Fact{ef}, 0)...)
					if !e.match(fs) || e.match(base) {
						continue // not the edge that completes the condition
					}
					found = true
					if h.reaches(g, s, 0, x, nil, 0) {
						bad = true
						pos = iff.Pos()
						if !pos.IsValid() {
							pos = iff.Cond.Pos()
						}
					}
				}
			}
		}
		detail := "within one iteration over the instances, the edge on which this condition holds must not reach the append"
		if !found {
			detail = "no branch of the health filter tests this condition any more"
		}
		c.check("C01.F1", fnKey(hf)+"|excluded: "+e.name, pos, found && !bad, detail+": such an instance would get routes although the rule says it is not healthy")
	}

	// ---- only service checks become instances
	isElem := h.isElem
	notSvc := []struct{ field, val string }{{"ServiceID", ""}, {"CheckID", "serfHealth"}, {"CheckID", "_node_maintenance"}, {"CheckID", "_service_maintenance:web"}}
	okSvc := len(elems) > 0
	for _, ns := range notSvc {
		if h.reachesUnder(c01FieldIs(isElem, ns.field, ns.val)) {
			okSvc = false
		}
	}
	c.check("C01.F1", fnKey(hf)+"|only service checks become instances", app.Pos(), okSvc,
		"node and maintenance checks must never be appended as service instances: a check with an empty ServiceID, serfHealth, _node_maintenance or _service_maintenance:* must not reach the append")

	// ---- passing >= 1
	okPassing := len(h.passing) > 0 && !h.reachesUnder(h.passingZero())
	c.check("C01.F1", fnKey(hf)+"|at least one accepted check", app.Pos(), okPassing,
		"the append must be unreachable when the count of checks in an accepted status is zero; an instance without any check in an accepted status must not be routed to")

	// ---- strict mode
	okStrict := len(h.passing) > 0 && !h.reachesUnder(h.strictViolated())
	c.check("C01.F1", fnKey(hf)+"|strict mode requires all checks", app.Pos(), okStrict,
		"the append must be unreachable when strict mode is on and total != passing; otherwise checksRequired=all admits instances with failing checks")

	// ---- F2 counters
	checkCounter := func(classes map[ssa.Value]bool, name string, needStatus bool) {
		if len(classes) == 0 {
			c.undecided("C01.F2", fnKey(hf)+"|counter "+name, "counter not identified")
			return
		}
		want := "same node and same service id"
		if needStatus {
			want += " and an accepted status"
		}
		n := 0
		for r := range classes {
			for _, inc := range h.incs[r] {
				n++
				fs := c01Facts(inc.Block())
				ok := c01SameField(fs, "Node") && c01SameField(fs, "ServiceID")
				if needStatus {
					ok = ok && c01HasStatusFact(fs)
				}
				c.check("C01.F2", fnKey(hf)+"|"+name+" counted only for "+want, inc.Pos(), ok,
					name+" must be incremented only under "+want+": counting checks of other nodes or services makes an instance healthy because of somebody else's check (the ServiceID is unique per agent only)")
			}
		}
		if n == 0 {
			c.undecided("C01.F2", fnKey(hf)+"|counter "+name, "no increment found")
		}
	}
	checkCounter(h.passing, "passing", true)
	checkCounter(h.total, "total", false)
}

// ---- tag filter ---------------------------------------------------------------------------------------------------

func runC01Tag(c *Ctx, tf *ssa.Function) {
	if !c.need("C01.F3", tf, "tag filter (by role)") {
		return
	}
	calls, elems := c01Appends(tf)
	classes := []struct{ name, val string }{
		{"serfHealth", "serfHealth"},
		{"_node_maintenance", "_node_maintenance"},
		{"_service_maintenance*", "_service_maintenance:web"},
	}
	if len(calls) == 0 {
		// the loop may have become slices.DeleteFunc(list, drop): a check is kept when drop returns false
		n := 0
		eachInstrOf(c01StageRegion(tf), func(_ *ssa.Function, i ssa.Instruction) {
			call, ok := i.(*ssa.Call)
			if !ok || typeArgs.ReplaceAllString(calleeName(&call.Call), "") != "slices.DeleteFunc" || len(call.Call.Args) != 2 || !c01IsChecks(call.Call.Args[0].Type()) {
				return
			}
			for _, drop := range funcsOf(call.Call.Args[1]) {
				if len(drop.Params) != 1 || len(drop.Blocks) == 0 {
					continue
				}
				n++
				par := drop.Params[0]
				for _, cl := range classes {
					ev := &c01Eval{oracle: c01FieldIs(func(v ssa.Value) bool { return v == par }, "CheckID", cl.val)}
					kept := true
					ev.walk(drop.Blocks[0], 0, nil, nil, nil, func(j ssa.Instruction, env c01PhiEnv) bool {
						if r, ok := j.(*ssa.Return); ok && len(r.Results) == 1 && ev.eval(r.Results[0], nil, env) != c01F {
							kept = false
						}
						return false
					})
					c.check("C01.F3", fnKey(tf)+"|"+cl.name+" checks kept without the tag test", call.Pos(), kept,
						"node-level and maintenance checks carry no service tags; the function given to slices.DeleteFunc must return false for such a check whatever its tags are - if the tag filter drops them the health filter can no longer see a dead agent or maintenance mode")
				}
			}
		})
		if n == 0 {
			c.undecided("C01.F3", fnKey(tf)+"|append of a kept check", "neither an append to a list of health checks nor a slices.DeleteFunc found in the tag filter")
		}
		return
	}
	apps := map[ssa.Instruction]bool{}
	var blocks []*ssa.BasicBlock
	for _, call := range calls {
		apps[call] = true
		blocks = append(blocks, call.Block())
	}
	outer := c01OuterLoop(tf, blocks)
	cut := map[*ssa.BasicBlock]bool{}
	if outer != nil {
		cut[outer.Head] = true
	}
	isElem := func(v ssa.Value) bool { return elems[v] }
	for _, cl := range classes {
		ev := &c01Eval{oracle: c01FieldIs(isElem, "CheckID", cl.val)}
		dropped := false
		var pos token.Pos = calls[0].Pos()
		on := func(i ssa.Instruction, _ c01PhiEnv) bool {
			if apps[i] {
				return true
			}
			if r, ok := i.(*ssa.Return); ok {
				dropped = true
				pos = r.Pos()
			}
			return false
		}
		if outer == nil {
			ev.walk(tf.Blocks[0], 0, nil, nil, nil, on)
		} else {
			for _, s := range outer.Head.Succs {
				if outer.Body[s] && s != outer.Head {
					if rc := ev.walk(s, 0, outer.Head, nil, cut, on); rc[outer.Head] {
						dropped = true
					}
				}
			}
		}
		c.check("C01.F3", fnKey(tf)+"|"+cl.name+" checks kept without the tag test", pos, len(elems) > 0 && !dropped,
			"node-level and maintenance checks carry no service tags; every path of the tag filter must append such a check whatever its tags are - if the tag filter drops them the health filter can no longer see a dead agent or maintenance mode, and instances on such nodes stay in the table")
	}
}

var _ = strings.Contains
