package main

// Rules of C19 added after the rounds of independently authored breaking changes (DESIGN 11.6, 11.7).

import (
	"go/token"
	"strings"

	"golang.org/x/tools/go/ssa"
)

func runC19F5b(c *Ctx) {
	h := c.fn("proxy", "httpProxyErrorHandler")
	if h == nil {
		return
	}
	var errParam *ssa.Parameter
	for _, p := range h.Params {
		if typeStr(p.Type()) == "error" {
			errParam = p
		}
	}
	if errParam == nil {
		return
	}
	// the definition(s) of the 504 status
	n := 0
	eachInstr(h, func(i ssa.Instruction) {
		cc := callCommon(i)
		if cc == nil || !cc.IsInvoke() || cc.Method.Name() != "WriteHeader" || len(cc.Args) != 1 {
			return
		}
		for _, d := range defsOf(cc.Args[0]) {
			k, ok := constInt(d.Val)
			if !ok || k != 504 || d.Block == nil {
				continue
			}
			n++
			extra := ""
			for _, ft := range factsAt(d.Block) {
				// allowed facts: the net.Error assertion's ok and Timeout()
				if call, isC := ft.Cond.(*ssa.Call); isC && call.Call.IsInvoke() && call.Call.Method.Name() == "Timeout" {
					continue
				}
				if e, isE := ft.Cond.(*ssa.Extract); isE {
					if ta, isTA := e.Tuple.(*ssa.TypeAssert); isTA && typeStr(ta.AssertedType) == "net.Error" {
						continue
					}
				}
				if call, isC := ft.Cond.(*ssa.Call); isC && calleeName(&call.Call) == "errors.As" {
					continue
				}
				// any other condition on err that had to be false/true first
				usesErr := derives(ft.Cond, func(v ssa.Value) bool { return v == errParam })
				if call, isC := ft.Cond.(*ssa.Call); isC {
					for _, a := range call.Call.Args {
						if stripIface(a) == errParam || a == errParam {
							usesErr = true
						}
					}
				}
				if usesErr {
					// sentinels a timeout error can never equal/wrap are harmless before the timeout test
					disjoint := false
					refs := []ssa.Value{}
					if call, isC := ft.Cond.(*ssa.Call); isC {
						refs = append(refs, call.Call.Args...)
					}
					if b, isB := ft.Cond.(*ssa.BinOp); isB {
						refs = append(refs, b.X, b.Y)
					}
					for _, a := range refs {
						if u, isU := stripIface(a).(*ssa.UnOp); isU {
							if g, isG := u.X.(*ssa.Global); isG {
								switch g.Pkg.Pkg.Path() + "." + g.Name() {
								case "context.Canceled", "io.EOF", "io.ErrUnexpectedEOF", "net/http.ErrAbortHandler":
									disjoint = true
								}
							}
						}
					}
					if !disjoint {
						extra = shortPath(ft.Cond)
						if b, isB := ft.Cond.(*ssa.BinOp); isB {
							extra = shortPath(b.X) + " " + b.Op.String() + " " + shortPath(b.Y)
						}
						if strings.TrimSpace(extra) == "" {
							extra = "an earlier comparison of err"
						}
					}
				}
			}
			c.check("C19.F5", "proxy.httpProxyErrorHandler|timeout classified before any other test of the error", d.Pos, extra == "",
				"the 504 edge is reached only after another test of the error ("+extra+") came out the other way; Go's timeout errors also satisfy errors.Is(err, context.DeadlineExceeded) / os.ErrDeadlineExceeded, so a test placed before the net.Error Timeout() check classifies upstream timeouts as something else (e.g. 499) and the configured response-header timeout no longer yields 504")
		}
	})
	c.atLeast("C19.F5", "definitions of the 504 status", n, 1)
}
func runC19D1(c *Ctx) {
	n := 0
	for _, f := range c.AllFns {
		if rootPkg(f) != c.spkg("proxy") || strings.Contains(fnKey(f), "rpc") {
			continue
		}
		eachInstr(f, func(i ssa.Instruction) {
			cc := callCommon(i)
			if cc == nil || calleeName(cc) != "(*net/http.Request).WithContext" || len(cc.Args) < 2 {
				return
			}
			n++
			timed := derives(cc.Args[1], func(v ssa.Value) bool {
				_, ok := isCallTo(v, "context.WithTimeout", "context.WithDeadline", "context.WithTimeoutCause", "context.WithDeadlineCause")
				return ok
			})
			c.check("C19.D1", fnKey(f)+"|no deadline on the whole upstream exchange", i.Pos(), !timed,
				"a context deadline attached to the proxied request is never lifted once the response headers arrive: an upstream that answers in time but streams its body longer than the deadline is cut off mid-response; the phases are bounded by the dial and response-header timeouts of the transport only")
		})
	}
	c.ob("C19.D1", "proxy|request contexts without deadline", token.NoPos, OK, "scanned "+itoa(n)+" WithContext calls in package proxy (HTTP path)")
}

func runC19T4(c *Ctx) {
	n := 0
	for _, f := range c.AllFns {
		eachInstr(f, func(i ssa.Instruction) {
			fa, ok := i.(*ssa.FieldAddr)
			if !ok || !namedIs(fa.X.Type(), "net/http.Transport") {
				return
			}
			name := fieldName(fa.X.Type(), fa.Field)
			if name == "ResponseHeaderTimeout" {
				n++
			}
			if name != "MaxConnsPerHost" {
				return
			}
			for _, r := range *fa.Referrers() {
				st, isSt := r.(*ssa.Store)
				if !isSt {
					continue
				}
				k, isK := constInt(st.Val)
				c.check("C19.T4", fnKey(f)+"|no connection cap that queues requests", st.Pos(), isK && k == 0,
					"http.Transport.MaxConnsPerHost makes requests beyond the cap wait inside net/http for a free connection; neither the dial timeout nor the response-header timeout covers that wait, so with a slow upstream client k is held ceil(k/cap) x responseheadertimeout instead of getting its 504 within the configured time")
			}
		})
	}
	c.atLeast("C19.T4", "transports with a response-header timeout (scope check)", n, 1)
	c.ob("C19.T4", "transport|no MaxConnsPerHost", token.NoPos, OK, "scanned all http.Transport field stores")
}

// ---- C20.U1 / C20.N1 -------------------------------------------------------------------------------------------
