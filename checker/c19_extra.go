package main

// Rules of C19 added after the rounds of independently authored breaking changes (DESIGN 11.6, 11.7).

import (
	"go/token"
	"go/types"
	"strings"

	"golang.org/x/tools/go/ssa"
)

// c19hasTimeoutMethod: t is net.Error or another interface that offers Timeout() (the test `err.(interface{ Timeout() bool })`).
func c19hasTimeoutMethod(t types.Type) bool {
	if typeStr(t) == "net.Error" {
		return true
	}
	if p, ok := t.(*types.Pointer); ok { // errors.As(err, &ne): the asserted type is behind a pointer
		t = p.Elem()
	}
	if it, ok := t.Underlying().(*types.Interface); ok {
		for k := 0; k < it.NumMethods(); k++ {
			if it.Method(k).Name() == "Timeout" {
				return true
			}
		}
	}
	return false
}

// c19timeoutFact: the fact says "the error reports Timeout()".
func c19timeoutFact(ft Fact) bool {
	call, ok := ft.Cond.(*ssa.Call)
	if !ok || !ft.Truth {
		return false
	}
	if call.Call.IsInvoke() {
		return call.Call.Method.Name() == "Timeout" && c19hasTimeoutMethod(call.Call.Value.Type())
	}
	return calleeName(&call.Call) == "os.IsTimeout"
}

// sentinels a timeout error can never equal/wrap: testing for them before the timeout test changes nothing
var c19disjointSentinels = map[string]bool{"context.Canceled": true, "io.EOF": true, "io.ErrUnexpectedEOF": true, "net/http.ErrAbortHandler": true}

func c19errGlobal(v ssa.Value) (string, bool) {
	if u, ok := stripIface(v).(*ssa.UnOp); ok && u.Op == token.MUL {
		if g, ok := u.X.(*ssa.Global); ok && g.Pkg != nil && typeStr(c19elem(g.Type())) == "error" {
			return g.Pkg.Pkg.Path() + "." + g.Name(), true
		}
	}
	return "", false
}

// c19harmlessErrTest: cond is a test of the error that no timeout error can satisfy (comparison with nil or with a
// sentinel disjoint from timeouts, directly, through errors.Is, or inside a repository predicate that does only that).
func c19harmlessErrTest(cond ssa.Value, depth int) bool {
	var refs []ssa.Value
	switch x := cond.(type) {
	case *ssa.BinOp:
		if (x.Op == token.EQL || x.Op == token.NEQ) && (isNilConst(x.X) || isNilConst(x.Y)) {
			return true
		}
		refs = []ssa.Value{x.X, x.Y}
	case *ssa.Call:
		sc := x.Call.StaticCallee()
		if sc != nil && isRepoFn(sc) && len(sc.Blocks) > 0 && depth < 2 {
			// a predicate of the repository: every comparison it makes must be harmless, and it must not look at the
			// error in any other way
			n, ok := 0, true
			for _, f := range withAnon(sc) {
				eachInstr(f, func(i ssa.Instruction) {
					switch y := i.(type) {
					case *ssa.TypeAssert:
						ok = false
					case *ssa.BinOp:
						if y.Op == token.EQL || y.Op == token.NEQ {
							if _, isErr := y.X.Type().Underlying().(*types.Interface); isErr {
								n++
								ok = ok && c19harmlessErrTest(y, depth+1)
							}
						}
					case *ssa.Call:
						if y.Call.IsInvoke() {
							ok = false
						} else if name := calleeName(&y.Call); name == "errors.Is" || (y.Call.StaticCallee() != nil && isRepoFn(y.Call.StaticCallee())) {
							n++
							ok = ok && c19harmlessErrTest(y, depth+1)
						} else if name == "errors.As" || name == "os.IsTimeout" {
							ok = false
						}
					}
				})
			}
			return ok && n > 0
		}
		if calleeName(&x.Call) != "errors.Is" {
			return false
		}
		refs = x.Call.Args
	default:
		return false
	}
	good, bad := 0, 0
	for _, a := range refs {
		if name, ok := c19errGlobal(a); ok {
			if c19disjointSentinels[name] {
				good++
			} else {
				bad++
			}
		}
	}
	return good > 0 && bad == 0
}

// runC19F5handler: h is an error handler installed in a reverse proxy. Wherever its region writes the status, the
// origins of the status are examined: 504 must be selected where the error says Timeout(), and no other test of the
// error may have had to come out the other way first.
func runC19F5handler(c *Ctx, h *ssa.Function) {
	fl := &c19flow{}
	isErr := func(v ssa.Value) bool { p, ok := v.(*ssa.Parameter); return ok && typeStr(p.Type()) == "error" }
	found, n := false, 0
	seen := map[string]bool{}
	for _, f := range c.region(h) {
		eachInstr(f, func(i ssa.Instruction) {
			cc := callCommon(i)
			if cc == nil {
				return
			}
			var status ssa.Value
			switch {
			case cc.IsInvoke() && cc.Method.Name() == "WriteHeader" && len(cc.Args) == 1:
				status = cc.Args[0]
			case !cc.IsInvoke() && calleeName(cc) == "net/http.Error" && len(cc.Args) == 3:
				status = cc.Args[2]
			default:
				return
			}
			for _, o := range fl.origins(status) {
				k, ok := constInt(o.root)
				if !ok || k != 504 || len(o.fields) != 0 {
					continue
				}
				n++
				extra := ""
				timeout := false
				for _, ft := range c19expand(o.facts) {
					if c19timeoutFact(ft) {
						timeout = true
						continue
					}
					// allowed: the assertion / errors.As that yields the value Timeout() is asked of
					if e, isE := ft.Cond.(*ssa.Extract); isE {
						if ta, isTA := e.Tuple.(*ssa.TypeAssert); isTA && c19hasTimeoutMethod(ta.AssertedType) {
							continue
						}
					}
					if call, isC := ft.Cond.(*ssa.Call); isC {
						if name := calleeName(&call.Call); name == "errors.As" {
							continue
						} else if call.Call.IsInvoke() && call.Call.Method.Name() == "Timeout" {
							continue // Timeout() == false on another edge of the same test
						}
					}
					// any other condition on the error that had to be false/true first
					usesErr := derives(ft.Cond, isErr)
					if call, isC := ft.Cond.(*ssa.Call); isC && !usesErr {
						for _, a := range call.Call.Args {
							if derives(a, isErr) {
								usesErr = true
							}
						}
					}
					if !usesErr || c19harmlessErrTest(ft.Cond, 0) {
						continue
					}
					extra = shortPath(ft.Cond)
					if b, isB := ft.Cond.(*ssa.BinOp); isB {
						extra = shortPath(b.X) + " " + b.Op.String() + " " + shortPath(b.Y)
					}
					if strings.TrimSpace(extra) == "" {
						extra = "an earlier comparison of err"
					}
				}
				found = found || timeout
				key := fnKey(h) + "|timeout classified before any other test of the error"
				if extra == "" && seen[key] {
					continue
				}
				seen[key] = true
				c.check("C19.F5", key, i.Pos(), extra == "",
					"the 504 edge is reached only after another test of the error ("+extra+") came out the other way; Go's timeout errors also satisfy errors.Is(err, context.DeadlineExceeded) / os.ErrDeadlineExceeded, so a test placed before the net.Error Timeout() check classifies upstream timeouts as something else (e.g. 499) and the configured response-header timeout no longer yields 504")
			}
		})
	}
	c.check("C19.F5", fnKey(h)+"|timeout => 504", h.Pos(), found, "the error handler must answer 504 Gateway Timeout on the edge where the error is a net.Error with Timeout() == true")
	c.atLeast("C19.F5", "definitions of the 504 status in "+fnKey(h), n, 1)
}

// D1: no deadline is attached to the request handed to the upstream exchange.
func runC19D1(c *Ctx) {
	n := 0
	timedCtx := func(v ssa.Value) bool {
		return derives(v, func(v ssa.Value) bool {
			_, ok := isCallTo(v, "context.WithTimeout", "context.WithDeadline", "context.WithTimeoutCause", "context.WithDeadlineCause")
			return ok
		})
	}
	for _, f := range c.AllFns {
		if rootPkg(f) != c.spkg("proxy") {
			continue
		}
		eachInstr(f, func(i ssa.Instruction) {
			cc := callCommon(i)
			if cc == nil {
				return
			}
			var ctx ssa.Value
			switch calleeName(cc) {
			case "(*net/http.Request).WithContext", "(*net/http.Request).Clone":
				if len(cc.Args) >= 2 {
					ctx = cc.Args[1]
				}
			case "net/http.NewRequestWithContext":
				if len(cc.Args) >= 1 {
					ctx = cc.Args[0]
				}
			}
			if ctx == nil {
				return
			}
			n++
			c.check("C19.D1", fnKey(f)+"|no deadline on the whole upstream exchange", i.Pos(), !timedCtx(ctx),
				"a context deadline attached to the proxied request is never lifted once the response headers arrive: an upstream that answers in time but streams its body longer than the deadline is cut off mid-response; the phases are bounded by the dial and response-header timeouts of the transport only")
		})
	}
	c.ob("C19.D1", "proxy|request contexts without deadline", token.NoPos, OK, "scanned "+itoa(n)+" request-context bindings in package proxy")
}

// T4: no http.Transport of the program caps the connections per host.
func runC19T4(c *Ctx) {
	n := 0
	for _, f := range c.AllFns {
		eachInstr(f, func(i ssa.Instruction) {
			fa, ok := i.(*ssa.FieldAddr)
			if !ok || !namedIs(fa.X.Type(), "net/http.Transport") {
				return
			}
			name := fieldName(fa.X.Type(), fa.Field)
			if name == "ResponseHeaderTimeout" {
				n++
			}
			if name != "MaxConnsPerHost" {
				return
			}
			for _, r := range *fa.Referrers() {
				st, isSt := r.(*ssa.Store)
				if !isSt {
					continue
				}
				k, isK := constInt(st.Val)
				c.check("C19.T4", fnKey(f)+"|no connection cap that queues requests", st.Pos(), isK && k == 0,
					"http.Transport.MaxConnsPerHost makes requests beyond the cap wait inside net/http for a free connection; neither the dial timeout nor the response-header timeout covers that wait, so with a slow upstream client k is held ceil(k/cap) x responseheadertimeout instead of getting its 504 within the configured time")
			}
		})
	}
	c.atLeast("C19.T4", "transports with a response-header timeout (scope check)", n, 1)
	c.ob("C19.T4", "transport|no MaxConnsPerHost", token.NoPos, OK, "scanned all http.Transport field stores")
}
