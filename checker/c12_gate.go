package main

// C12.G1 / C12.S1 / C12.G2 (and C07.G1 through runGateHTTP): every effect site (upstream contact, redirect) that a
// serving entry point can reach lies behind the gates. The entry points are named by their exported interface method
// (ServeHTTP, ServeTCP); everything else is found by role: a site is whatever contacts an upstream, a gate is whatever
// establishes the verdict of the exported decision method (c12Eng: directly, through boolean / status-code / error
// helpers, flags, && / ||), and sites and gates may sit in the entry point or in helpers it calls.

import (
	"fmt"
	"go/token"
	"go/types"
	"sort"
	"strings"

	"golang.org/x/tools/go/ssa"
)

type c12GateSpec struct {
	name string
	leaf c12Leaf
}

type c12Found struct {
	subj ssa.Value
	ctx  []ssa.CallInstruction
}

type c12Site struct {
	i   ssa.Instruction
	how string
}

type c12Walker struct {
	c       *Ctx
	home    *ssa.Package
	gates   []c12GateSpec
	engs    []*c12Eng
	ci      *contactInfo
	effect  func(w *c12Walker, i ssa.Instruction) (string, bool)
	judge   func(w *c12Walker, s c12Site, ctx []ssa.CallInstruction, found []*c12Found) (bool, string)
	missing string
	memo    map[*ssa.Function][]c12Site
}

func newC12Walker(c *Ctx, home *ssa.Package, gates []c12GateSpec) *c12Walker {
	w := &c12Walker{c: c, home: home, gates: gates, ci: &contactInfo{}, memo: map[*ssa.Function][]c12Site{}}
	for _, g := range gates {
		w.engs = append(w.engs, &c12Eng{leaf: g.leaf})
	}
	return w
}

// sites: the effect sites of f in source order.
func (w *c12Walker) sites(f *ssa.Function) []c12Site {
	if s, ok := w.memo[f]; ok {
		return s
	}
	var out []c12Site
	eachInstr(f, func(i ssa.Instruction) {
		if how, ok := w.effect(w, i); ok {
			out = append(out, c12Site{i, how})
		}
	})
	sort.SliceStable(out, func(a, b int) bool { return out[a].i.Pos() < out[b].i.Pos() })
	w.memo[f] = out
	return out
}

// site: is the effect site behind all gates - at the site itself, or (a call of a repository helper) at every
// effect site inside the helper, gates established on the way down counting?
func (w *c12Walker) site(s c12Site, ctx []ssa.CallInstruction, have []*c12Found, depth int) (bool, string) {
	found := append([]*c12Found{}, have...)
	all := true
	for k := range w.gates {
		if found[k] == nil {
			if subj, ok := w.engs[k].at(s.i.Block(), 0); ok {
				found[k] = &c12Found{subj, ctx}
			}
		}
		if found[k] == nil {
			all = false
		}
	}
	if all {
		return w.judge(w, s, ctx, found)
	}
	if ci, ok := s.i.(ssa.CallInstruction); ok && depth < 3 {
		if sc := ci.Common().StaticCallee(); sc != nil {
			sc = unwrap(sc)
			if isRepoFn(sc) && len(sc.Blocks) > 0 && len(w.sites(sc)) > 0 {
				for _, in := range w.sites(sc) {
					inner := append(append([]ssa.CallInstruction{}, ctx...), ci)
					if ok, d := w.site(in, inner, found, depth+1); !ok {
						return false, "through " + fnKey(sc) + ": " + d
					}
				}
				return true, ""
			}
		}
	}
	return false, s.how + w.missing
}

func c12CallGateLeaf(fn *ssa.Function, truth bool) c12Leaf {
	return func(cond ssa.Value, t bool) (ssa.Value, bool) {
		call, ok := cond.(*ssa.Call)
		if !ok || t != truth {
			return nil, false
		}
		if call.Call.IsInvoke() {
			if call.Call.Method.Name() == fn.Name() {
				return call.Call.Value, true
			}
			return nil, false
		}
		sc := call.Call.StaticCallee()
		if sc == nil {
			return nil, false
		}
		if sc == fn && len(call.Call.Args) > 0 {
			return call.Call.Args[0], true
		}
		if sc != fn && unwrap(sc) == fn {
			// method value `g := t.AccessDeniedHTTP; g(r)`: the receiver is bound in the closure
			if mc, isMC := call.Call.Value.(*ssa.MakeClosure); isMC && len(mc.Bindings) == 1 {
				return mc.Bindings[0], true
			}
			if len(call.Call.Args) > 0 { // method expression / thunk: receiver first
				return call.Call.Args[0], true
			}
		}
		return nil, false
	}
}

// c12NonNilTargetLeaf: `x != nil` for an x of type *route.Target.
func c12NonNilTargetLeaf(cond ssa.Value, truth bool) (ssa.Value, bool) {
	b, ok := cond.(*ssa.BinOp)
	if !ok || (b.Op != token.EQL && b.Op != token.NEQ) {
		return nil, false
	}
	x := b.X
	switch {
	case isNilConst(b.Y):
	case isNilConst(b.X):
		x = b.Y
	default:
		return nil, false
	}
	if (b.Op == token.NEQ) != truth {
		return nil, false
	}
	if _, isPtr := x.Type().(*types.Pointer); !isPtr || !namedIs(x.Type(), "route.Target") {
		return nil, false
	}
	return x, true
}

// c12HTTPEffect: upstream contact, or a redirect answered to the client.
func c12HTTPEffect(w *c12Walker, i ssa.Instruction) (string, bool) {
	if how, ok := w.c.isContactInstr(w.ci, i); ok {
		return how, true
	}
	if c12IsRedirect(i) {
		return "calls net/http.Redirect", true
	}
	if call, ok := i.(*ssa.Call); ok {
		if sc := call.Call.StaticCallee(); sc != nil && isRepoFn(sc) && mayExec(unwrap(sc), c12IsRedirect, 1) {
			return "calls " + fnKey(sc) + " (reaches net/http.Redirect)", true
		}
	}
	return "", false
}

func c12IsRedirect(i ssa.Instruction) bool {
	cc := callCommon(i)
	if cc == nil {
		return false
	}
	n := calleeName(cc)
	if n == "net/http.Redirect" || n == "net/http.RedirectHandler" {
		return true
	}
	if (n == "(net/http.Header).Set" || n == "(net/http.Header).Add") && len(cc.Args) == 3 {
		if k, ok := constString(cc.Args[1]); ok && strings.EqualFold(k, "Location") {
			return true
		}
	}
	return false
}

func c12ContactEffect(w *c12Walker, i ssa.Instruction) (string, bool) {
	return w.c.isContactInstr(w.ci, i)
}

// runGateHTTP implements G1 (also used by C07.G1 with another rule id).
// withAuth: require the access + auth gates; otherwise only the t != nil gate.
func runGateHTTP(c *Ctx, rule string, withAuth bool) {
	serve := c.method("proxy", "HTTPProxy", "ServeHTTP")
	if !c.need(rule, serve, "proxy.HTTPProxy.ServeHTTP") {
		return
	}
	denied := c.method("route", "Target", "AccessDeniedHTTP")
	auth := c.method("route", "Target", "Authorized")
	if withAuth && (!c.need(rule, denied, "route.Target.AccessDeniedHTTP") || !c.need(rule, auth, "route.Target.Authorized")) {
		return
	}
	home := rootPkg(serve)
	var w *c12Walker
	if withAuth {
		w = newC12Walker(c, home, []c12GateSpec{{"AccessDeniedHTTP()==false", c12CallGateLeaf(denied, false)}, {"Authorized()==true", c12CallGateLeaf(auth, true)}})
		w.missing = " must be dominated by AccessDeniedHTTP()==false and Authorized()==true"
		w.judge = func(w *c12Walker, s c12Site, ctx []ssa.CallInstruction, found []*c12Found) (bool, string) {
			rd := c12Roots(found[0].subj, found[0].ctx, home)
			ra := c12Roots(found[1].subj, found[1].ctx, home)
			if !c12SameRoots(rd, ra) {
				return false, s.how + ": the access and auth gates must both be applied to the target returned by p.Lookup"
			}
			return true, s.how + w.missing
		}
	} else {
		w = newC12Walker(c, home, []c12GateSpec{{"target != nil", c12NonNilTargetLeaf}})
		w.missing = " must be dominated by the `target != nil` edge of the route lookup (no upstream may be contacted for a request without a route)"
		w.judge = func(w *c12Walker, s c12Site, ctx []ssa.CallInstruction, found []*c12Found) (bool, string) {
			if len(c12Roots(found[0].subj, found[0].ctx, home)) == 0 {
				return false, s.how + ": the nil test is not on the target returned by the route lookup"
			}
			return true, s.how + w.missing
		}
	}
	w.effect = c12HTTPEffect
	nContact := 0
	for _, s := range w.sites(serve) {
		if _, isContact := c.isContactInstr(w.ci, s.i); isContact {
			nContact++
		}
		ok, detail := w.site(s, nil, make([]*c12Found, len(w.gates)), 0)
		c.check(rule, "proxy.(*HTTPProxy).ServeHTTP|"+siteKey(s.how), s.i.Pos(), ok, detail)
	}
	c.atLeast(rule, "upstream-contact sites reachable from HTTPProxy.ServeHTTP", nContact, 1)

	if !withAuth {
		return
	}
	runC12S1(c, w, serve, denied, auth)
}

// c12StatusPrim: the instruction writes a status to the client: http.Error, ResponseWriter.WriteHeader; returns the
// status operand.
func c12StatusPrim(j ssa.Instruction) (ssa.Value, bool) {
	cc := callCommon(j)
	if cc == nil {
		return nil, false
	}
	if calleeName(cc) == "net/http.Error" && len(cc.Args) == 3 {
		return cc.Args[2], true
	}
	if cc.IsInvoke() && cc.Method.Name() == "WriteHeader" && len(cc.Args) == 1 {
		return cc.Args[0], true
	}
	return nil, false
}

// c12StatusConsts: the status constants (100..599) a status operand can stem from, in call context ctx; exact is
// false when the operand can also stem from something that is not a constant visible here (configuration, a table, the
// result of a library call).
func c12StatusConsts(v ssa.Value, ctx []ssa.CallInstruction) (codes map[int64]bool, exact bool) {
	codes, exact = map[int64]bool{}, true
	isInt := func(x ssa.Value) bool {
		bt, ok := x.Type().Underlying().(*types.Basic)
		return ok && bt.Info()&types.IsInteger != 0
	}
	c12Slice(v, ctx, func(x ssa.Value) bool {
		if k, ok := x.(*ssa.Const); ok {
			if n, isN := constInt(k); isN && isInt(k) && n >= 100 && n <= 599 {
				codes[n] = true
			}
			return true
		}
		if !isInt(x) {
			return false
		}
		switch y := x.(type) {
		case *ssa.Lookup:
			exact = false
		case *ssa.Call:
			if sc := y.Call.StaticCallee(); sc == nil || !isRepoFn(sc) {
				exact = false
			}
		case *ssa.Extract:
			if call, ok := y.Tuple.(*ssa.Call); ok {
				if sc := call.Call.StaticCallee(); sc == nil || !isRepoFn(sc) {
					exact = false
				}
			}
		case *ssa.Parameter:
			if y.Parent() != nil && len(gSites[y.Parent()]) == 0 {
				exact = false
			}
		case *ssa.UnOp:
			// a member of something that is not built here (p.Config.NoRouteStatus)
			if fa, ok := y.X.(*ssa.FieldAddr); ok && y.Op == token.MUL {
				base := fa.X
				for {
					f2, isFA := base.(*ssa.FieldAddr)
					if !isFA {
						break
					}
					base = f2.X
				}
				switch base.(type) {
				case *ssa.Alloc, *ssa.Global:
				default:
					exact = false
				}
			}
		}
		return false
	})
	return codes, exact
}

func c12OneCode(codes map[int64]bool, exact bool) (int64, bool) {
	if !exact || len(codes) != 1 {
		return 0, false
	}
	for n := range codes {
		return n, true
	}
	return 0, false
}

// c12StatusWrite: the instruction answers the client with a status: http.Error, ResponseWriter.WriteHeader, or a
// repository helper that does so. The status is known if it is a constant, or stems from exactly one status constant
// (a `denial{403, "access denied"}` value with a write method, a package-level variable of such a type, a helper
// handed the constant).
func c12StatusWrite(i ssa.Instruction) (code int64, known bool, ok bool) {
	if v, isPrim := c12StatusPrim(i); isPrim {
		if code, known = constInt(v); known {
			return code, true, true
		}
		code, known = c12OneCode(c12StatusConsts(v, nil))
		return code, known, true
	}
	if r, isRet := i.(*ssa.Return); isRet {
		// a helper that reports the status to answer (`return http.StatusForbidden`)
		for _, res := range r.Results {
			if bt, isB := res.Type().Underlying().(*types.Basic); isB && bt.Info()&types.IsInteger != 0 {
				if n, isK := constInt(res); isK && n >= 400 && n <= 599 {
					return n, true, true
				}
			}
		}
		return 0, false, false
	}
	call, isCall := i.(*ssa.Call)
	if !isCall {
		return 0, false, false
	}
	sc := call.Call.StaticCallee()
	isPrim := func(j ssa.Instruction) bool { _, p := c12StatusPrim(j); return p }
	if sc == nil || !isRepoFn(sc) || !mayExec(unwrap(sc), isPrim, 1) {
		return 0, false, false
	}
	n := 0
	for _, a := range call.Call.Args {
		if k, isK := constInt(a); isK && k >= 100 && k <= 599 {
			code, n = k, n+1
		}
	}
	if n == 1 {
		return code, true, true
	}
	// the status operands of the writes inside the helper, judged for this call
	all, exact, writes := map[int64]bool{}, true, 0
	var inside func(f *ssa.Function, ctx []ssa.CallInstruction, depth int)
	inside = func(f *ssa.Function, ctx []ssa.CallInstruction, depth int) {
		eachInstr(f, func(j ssa.Instruction) {
			if v, p := c12StatusPrim(j); p {
				writes++
				cs, ex := c12StatusConsts(v, ctx)
				exact = exact && ex
				for k := range cs {
					all[k] = true
				}
				return
			}
			if ci, isCI := j.(ssa.CallInstruction); isCI && depth < 2 {
				if g := ci.Common().StaticCallee(); g != nil && isRepoFn(g) && len(unwrap(g).Blocks) > 0 && mayExec(unwrap(g), isPrim, 1) {
					inside(unwrap(g), append(append([]ssa.CallInstruction{}, ctx...), ci), depth+1)
				}
			}
		})
	}
	inside(unwrap(sc), []ssa.CallInstruction{call}, 0)
	if writes > 0 {
		code, known = c12OneCode(all, exact)
	}
	return code, known, true
}

// runC12S1: the deny edges answer 403 / 401 and nothing but the way out follows.
func runC12S1(c *Ctx, w *c12Walker, serve, denied, auth *ssa.Function) {
	// where a deny edge can be: the serving method, its helpers, and any function it reaches that asks a gate itself
	hosts := c12Region(c, serve)
	inHosts := map[*ssa.Function]bool{}
	for _, f := range hosts {
		inHosts[f] = true
	}
	for f := range c.reach(serve) {
		if !inHosts[f] && len(f.Blocks) > 0 && (len(c12SitesIn(f, denied)) > 0 || len(c12SitesIn(f, auth)) > 0) {
			hosts = append(hosts, f)
		}
	}
	sort.SliceStable(hosts, func(a, b int) bool { return hosts[a].Pos() < hosts[b].Pos() })
	for _, g := range []struct {
		fn    *ssa.Function
		truth bool
		code  int64
		name  string
	}{{denied, true, 403, "access denied => 403"}, {auth, false, 401, "unauthorized => 401"}} {
		eng := &c12Eng{leaf: c12CallGateLeaf(g.fn, g.truth)}
		passed := &c12Eng{leaf: c12CallGateLeaf(g.fn, !g.truth)}
		found := false
		for _, hf := range hosts {
			for _, b := range hf.Blocks {
				if _, ok := eng.at(b, 0); !ok {
					continue
				}
				for _, i := range b.Instrs {
					code, known, isW := c12StatusWrite(i)
					if !isW {
						continue
					}
					found = true
					goesOn := ""
					for _, s := range w.sites(hf) {
						if s.i == i || !canReach(i, s.i) {
							continue
						}
						// a site that lies behind the passing verdict of this gate is not reached from its deny edge
						if _, behind := passed.at(s.i.Block(), 0); !behind {
							goesOn = s.how
						}
					}
					c.check("C12.S1", "proxy.(*HTTPProxy).ServeHTTP|"+g.name, i.Pos(), known && code == g.code && goesOn == "",
						fmt.Sprintf("the deny edge must answer %d and return; got status %d (constant=%v), continues to: %q", g.code, code, known, goesOn))
				}
			}
		}
		if !found {
			c.check("C12.S1", "proxy.(*HTTPProxy).ServeHTTP|"+g.name, serve.Pos(), false, "no response with a status on the deny edge")
		}
	}
}

// c12SitesIn: the static call sites of callee inside f.
func c12SitesIn(f, callee *ssa.Function) []ssa.CallInstruction {
	var out []ssa.CallInstruction
	for _, s := range gSites[callee] {
		if s.Parent() == f {
			out = append(out, s)
		}
	}
	return out
}

// ---- G2 -----------------------------------------------------------------------------------------------------------

// c12AddrArg: the address operand of a dial primitive: its last string argument, else its last net address argument.
func c12AddrArg(cc *ssa.CallCommon) ssa.Value {
	var str, addr ssa.Value
	for _, a := range cc.Args {
		if bt, ok := a.Type().Underlying().(*types.Basic); ok && bt.Kind() == types.String {
			str = a
		}
		if ts := typeStr(a.Type()); ts == "*net.TCPAddr" || ts == "net.Addr" || ts == "*net.UDPAddr" {
			addr = a
		}
	}
	if str != nil {
		return str
	}
	return addr
}

type c12Dial struct {
	addr ssa.Value
	ctx  []ssa.CallInstruction
	pos  token.Pos
	name string
}

// dials: the dial primitives (with an address operand) behind a contact site, in their call context.
func (w *c12Walker) dials(i ssa.Instruction, ctx []ssa.CallInstruction, depth int) []c12Dial {
	cc := callCommon(i)
	if cc == nil {
		return nil
	}
	if n := calleeName(cc); contactPrims[n] {
		if a := c12AddrArg(cc); a != nil {
			return []c12Dial{{a, ctx, i.Pos(), n}}
		}
		return nil
	}
	ci, ok := i.(ssa.CallInstruction)
	sc := cc.StaticCallee()
	if !ok || sc == nil || depth >= 3 {
		return nil
	}
	sc = unwrap(sc)
	if !isRepoFn(sc) || len(sc.Blocks) == 0 {
		return nil
	}
	var out []c12Dial
	for _, s := range w.sites(sc) {
		out = append(out, w.dials(s.i, append(append([]ssa.CallInstruction{}, ctx...), ci), depth+1)...)
	}
	return out
}

func runC12G2(c *Ctx) {
	deniedTCP := c.method("route", "Target", "AccessDeniedTCP")
	if !c.need("C12.G2", deniedTCP, "route.Target.AccessDeniedTCP") {
		return
	}
	nImpl := 0
	for _, f := range c.AllFns {
		if f.Name() != "ServeTCP" || f.Signature.Recv() == nil || f.Parent() != nil {
			continue
		}
		home := rootPkg(f)
		w := newC12Walker(c, home, []c12GateSpec{{"AccessDeniedTCP()==false", c12CallGateLeaf(deniedTCP, false)}})
		w.effect = c12ContactEffect
		w.missing = " must be dominated by AccessDeniedTCP()==false"
		w.judge = func(w *c12Walker, s c12Site, ctx []ssa.CallInstruction, found []*c12Found) (bool, string) {
			gr := c12Roots(found[0].subj, found[0].ctx, home)
			if len(gr) == 0 {
				return false, s.how + ": the gate must be applied to the looked-up target"
			}
			for _, d := range w.dials(s.i, ctx, 0) {
				ar := c12Roots(d.addr, d.ctx, home)
				if len(ar) == 0 || !c12Subset(ar, gr) {
					return false, s.how + ": the address dialled by " + d.name + " at " + c.pos(d.pos) + " does not derive from the target that passed the access gate"
				}
			}
			return true, s.how + w.missing
		}
		sites := w.sites(f)
		if len(sites) == 0 {
			// an adapter (HandlerFunc) - but a handler that looks a target up and shows no dial hides its upstream contact
			looksUp := false
			for _, g := range c12Region(c, f) {
				eachInstr(g, func(i ssa.Instruction) {
					if v, ok := i.(ssa.Value); ok && c12IsTargetSource(v, home) {
						looksUp = true
					}
				})
			}
			if looksUp {
				c.undecided("C12.G2", fnKey(f)+"|upstream contact", "the handler looks a route target up but no dial is visible in it; the access gate cannot be related to the upstream contact")
			}
			continue
		}
		nImpl++
		for _, s := range sites {
			ok, detail := w.site(s, nil, make([]*c12Found, 1), 0)
			c.check("C12.G2", fnKey(f)+"|"+siteKey(s.how), s.i.Pos(), ok, detail)
		}
	}
	c.atLeast("C12.G2", "tcp.Handler implementations that dial", nImpl, 1)
}
