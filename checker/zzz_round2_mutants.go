package main

// Overlay mutants added after the second round of independently authored refactorings (DESIGN 11.9): the shapes that
// still raised a false alarm, as benign rewrites that must stay silent, each with a breaking twin in the same shape.
// (File name sorts last: the properties are registered by the init functions of c01.go ... c20.go.)

func init() {
	add := func(id string, ms ...mutant) {
		if p := props[id]; p != nil {
			p.Mutants = append(p.Mutants, ms...)
		}
	}
	const routecmd = "registry/consul/routecmd.go"
	protoOld := "\t\t\t\tcase o == \"proto=tcp\":\n\t\t\t\t\tdst = \"tcp://\" + addr\n\n\t\t\t\tcase o == \"proto=https\":\n\t\t\t\t\tdst = \"https://\" + addr\n\n\t\t\t\tcase o == \"proto=grpcs\":\n\t\t\t\t\tdst = \"grpcs://\" + addr\n\n\t\t\t\tcase o == \"proto=grpc\":\n\t\t\t\t\tdst = \"grpc://\" + addr\n"
	add("C14",
		mutant{Name: "benign: scheme taken from the proto= value under a membership switch", File: routecmd, Old: protoOld,
			New: "\t\t\t\tcase o == \"proto=tcp\" || o == \"proto=https\" || o == \"proto=grpcs\" || o == \"proto=grpc\":\n\t\t\t\t\tdst = strings.TrimPrefix(o, \"proto=\") + \"://\" + addr\n", Expect: ""},
		mutant{Name: "scheme taken from the proto= value, one scheme forgotten", File: routecmd, Old: protoOld,
			New: "\t\t\t\tcase o == \"proto=tcp\" || o == \"proto=https\" || o == \"proto=grpcs\":\n\t\t\t\t\tdst = strings.TrimPrefix(o, \"proto=\") + \"://\" + addr\n", Expect: "C14.N1"},
	)

	const globCache = "route/glob_cache.go"
	ringOld := "\tif c.n < len(c.l) {\n\t\tc.m.Store(pattern, glbCompiled)\n\t\tc.l[c.n] = pattern\n\t\tc.n++\n\t\treturn glbCompiled, nil\n\t}\n"
	ringRest := "\n\t// otherwise, remove the oldest element and move\n\t// the head. Note that once the buffer is full\n\t// (c.n == len(c.l)) it will never become smaller\n\t// again.\n\t// TODO add logging for cache full - How will this impact performance\n" + "\tc.m.Delete(c.l[c.h])\n\tc.m.Store(pattern, glbCompiled)\n\tc.l[c.h] = pattern\n\tc.h = (c.h + 1) % len(c.l)\n\treturn glbCompiled, nil\n"
	add("C06",
		mutant{Name: "benign: slot chosen per branch, one store after the merge", File: globCache, Old: ringOld,
			New:    "\tvar slot int\n\tif c.n < len(c.l) {\n\t\tslot = c.n\n\t\tc.n++\n\t} else {\n\t\tslot = c.h\n\t\tc.m.Delete(c.l[slot])\n\t\tc.h = (c.h + 1) % len(c.l)\n\t}\n\tc.m.Store(pattern, glbCompiled)\n\tc.l[slot] = pattern\n\treturn glbCompiled, nil\n",
			Expect: "", More: []repl{{ringRest, ""}}},
		mutant{Name: "slot chosen per branch, eviction forgotten", File: globCache, Old: ringOld,
			New:    "\tvar slot int\n\tif c.n < len(c.l) {\n\t\tslot = c.n\n\t\tc.n++\n\t} else {\n\t\tslot = c.h\n\t\tc.h = (c.h + 1) % len(c.l)\n\t}\n\tc.m.Store(pattern, glbCompiled)\n\tc.l[slot] = pattern\n\treturn glbCompiled, nil\n",
			Expect: "C06.B1", More: []repl{{ringRest, ""}}},
	)
	const headers = "proxy/http_headers.go"
	portOld := "\tif _, port, err := net.SplitHostPort(r.Host); err == nil && port != \"\" {\n\t\treturn port\n\t}\n\tif r.TLS != nil {\n\t\treturn \"443\"\n\t}\n\treturn \"80\"\n"
	add("C08",
		mutant{Name: "benign: localPort as a tag-less switch", File: headers, Old: portOld,
			New: "\t_, port, err := net.SplitHostPort(r.Host)\n\tswitch {\n\tcase err == nil && port != \"\":\n\t\treturn port\n\tcase r.TLS != nil:\n\t\treturn \"443\"\n\tdefault:\n\t\treturn \"80\"\n\t}\n", Expect: ""},
		mutant{Name: "localPort as a tag-less switch that trusts X-Forwarded-Host", File: headers, Old: portOld,
			New: "\t_, port, err := net.SplitHostPort(r.Header.Get(\"X-Forwarded-Host\"))\n\tswitch {\n\tcase err == nil && port != \"\":\n\t\treturn port\n\tcase r.TLS != nil:\n\t\treturn \"443\"\n\tdefault:\n\t\treturn \"80\"\n\t}\n", Expect: "C08.A2"},
	)
	const store = "cert/store.go"
	idxOld := "\t\tx509Cert, err := x509.ParseCertificate(cert.Certificate[0])\n\t\tif err != nil {\n\t\t\tcontinue\n\t\t}\n\t\tif len(x509Cert.Subject.CommonName) > 0 {\n\t\t\tc.NameToCertificate[x509Cert.Subject.CommonName] = cert\n\t\t}\n\t\tfor _, san := range x509Cert.DNSNames {\n\t\t\tc.NameToCertificate[san] = cert\n\t\t}\n"
	leafGood := "\n\nfunc leafNames(cert *tls.Certificate) []string {\n\tleaf, err := x509.ParseCertificate(cert.Certificate[0])\n\tif err != nil {\n\t\treturn nil\n\t}\n\tvar names []string\n\tif cn := leaf.Subject.CommonName; len(cn) > 0 {\n\t\tnames = append(names, cn)\n\t}\n\treturn append(names, leaf.DNSNames...)\n}\n"
	leafBad := "\n\nfunc leafNames(cert *tls.Certificate) []string {\n\tleaf, err := x509.ParseCertificate(cert.Certificate[0])\n\tif err != nil {\n\t\treturn nil\n\t}\n\tvar names []string\n\tnames = append(names, leaf.Subject.CommonName)\n\treturn append(names, leaf.DNSNames...)\n}\n"
	tailOld := "var ErrNoCertsStored = errors.New(\"cert: no certificates stored\")\n"
	add("C11",
		mutant{Name: "benign: names of a leaf collected by a helper", File: store, Old: idxOld, New: "\t\tfor _, name := range leafNames(cert) {\n\t\t\tc.NameToCertificate[name] = cert\n\t\t}\n", Expect: "",
			More: []repl{{tailOld, tailOld + leafGood}}},
		mutant{Name: "names of a leaf collected by a helper that includes the empty common name", File: store, Old: idxOld, New: "\t\tfor _, name := range leafNames(cert) {\n\t\t\tc.NameToCertificate[name] = cert\n\t\t}\n", Expect: "C11.M4",
			More: []repl{{tailOld, tailOld + leafBad}}},
	)

	const hello = "proxy/tcp/tls_clienthello.go"
	tlsOld := "\t\treturn 0, errors.New(\"Not a TLS handshake\")\n"
	add("C10",
		mutant{Name: "benign: error of the size function as a package-level sentinel", File: hello, Old: tlsOld, New: "\t\treturn 0, errNotTLS\n", Expect: "",
			More: []repl{{"func clientHelloBufferSize(", "var errNotTLS = errors.New(\"Not a TLS handshake\")\n\nfunc clientHelloBufferSize("}}},
		mutant{Name: "size function returns a nil error variable with size 0", File: hello, Old: tlsOld, New: "\t\treturn 0, errNotTLS\n", Expect: "C10.M3",
			More: []repl{{"func clientHelloBufferSize(", "var errNotTLS error\n\nfunc clientHelloBufferSize("}}},
	)
}
