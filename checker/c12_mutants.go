package main

// Overlay mutants of C12 added while hardening the rules against behaviour-preserving refactoring: benign rewrites
// (Expect "") of kinds that are not in the benign corpus, and the breaking twin of each so that the rewritten rules
// stay exercised.

const (
	c12HTTPGates = "\tif t.AccessDeniedHTTP(r) {\n\t\thttp.Error(w, \"access denied\", http.StatusForbidden)\n\t\treturn\n\t}\n\n\tif !t.Authorized(r, w, p.AuthSchemes) {\n\t\thttp.Error(w, \"authorization failed\", http.StatusUnauthorized)\n\t\treturn\n\t}\n"
	c12KeyFn     = "func key(code int) string {"

	c12TCPGateDial = "\tif t.AccessDeniedTCP(in) {\n\t\treturn nil\n\t}\n\n\tout, err := net.DialTimeout(\"tcp\", addr, p.DialTimeout)\n"

	c12AllowBlock = `	if _, ok := t.accessRules[ipAllowTag]; ok {
		var block *net.IPNet
		for _, x := range t.accessRules[ipAllowTag] {
			if block, ok = x.(*net.IPNet); !ok {
				log.Printf("[ERROR] failed to assert ip block while checking allow rule for %s", t.Service)
				continue
			}
			// debug logging
			log.Printf("[DEBUG] checking %s against ip allow rule %s", ip.String(), block.String())
			// check block
			if block.Contains(ip) {
				// debug logging
				log.Printf("[DEBUG] allowing request from %s via %s", ip.String(), block.String())
				// specific allow matched - allow this request
				return false
			}
		}
		// we checked all the blocks - deny this request
		log.Printf("[INFO] route rules denied access from %s to %s",
			ip.String(), t.URL.String())
		return true
	}
`
	c12DenyBlock = `	if _, ok := t.accessRules[ipDenyTag]; ok {
		var block *net.IPNet
		for _, x := range t.accessRules[ipDenyTag] {
			if block, ok = x.(*net.IPNet); !ok {
				log.Printf("[INFO] failed to assert ip block while checking deny rule for %s", t.Service)
				continue
			}
			// debug logging
			log.Printf("[DEBUG] checking %s against ip deny rule %s", ip.String(), block.String())
			// check block
			if block.Contains(ip) {
				// specific deny matched - deny this request
				log.Printf("[INFO] route rules denied access from %s to %s",
					ip.String(), t.URL.String())
				return true
			}
		}
	}
`
	c12XFFLoop = `		for _, xip := range strings.Split(xff, ",") {
			xip = strings.TrimSpace(xip)
			if xip == host {
				continue
			}
			if ip = net.ParseIP(xip); ip == nil {
				log.Printf("[WARN] failed to parse xff address %s", xip)
				continue
			}
			if t.denyByIP(ip) {
				return true
			}
		}
`
	c12RuleErr = "\t\tif err = t.ProcessAccessRules(); err != nil {\n\t\t\tlog.Printf(\"[ERROR] failed to process access rules: %s\",\n\t\t\t\terr.Error())\n\t\t\tt.denyAll()\n\t\t}\n"
)

func c12MatchesHelper(failedAssert string) string {
	return `
func matchesAny(list []interface{}, ip net.IP) bool {
	for _, x := range list {
		block, ok := x.(*net.IPNet)
		if !ok {
			` + failedAssert + `
		}
		if block.Contains(ip) {
			return true
		}
	}
	return false
}

// ProcessAccessRules processes`
}

func c12MoreMutants() []mutant {
	return []mutant{
		// ---- G1 / S1 -----------------------------------------------------------------------------------------------
		{Name: "benign: gates and forwarding moved together into a helper method", File: "proxy/http_proxy.go",
			Old:    c12HTTPGates,
			New:    "\tp.serveTarget(w, r, t, func(r *http.Request) { trace.InjectHeaders(span, r) })\n}\n\nfunc (p *HTTPProxy) serveTarget(w http.ResponseWriter, r *http.Request, t *route.Target, inject func(*http.Request)) {\n" + c12HTTPGates,
			More:   []repl{{"\ttrace.InjectHeaders(span, r)\n", "\tinject(r)\n"}},
			Expect: ""},
		{Name: "forwarding helper gated only by the access rules", File: "proxy/http_proxy.go",
			Old:    c12HTTPGates,
			New:    "\tp.serveTarget(w, r, t, func(r *http.Request) { trace.InjectHeaders(span, r) })\n}\n\nfunc (p *HTTPProxy) serveTarget(w http.ResponseWriter, r *http.Request, t *route.Target, inject func(*http.Request)) {\n\tif t.AccessDeniedHTTP(r) {\n\t\thttp.Error(w, \"access denied\", http.StatusForbidden)\n\t\treturn\n\t}\n\tif !t.Authorized(r, w, p.AuthSchemes) {\n\t\tw.Header().Set(\"X-Unauthorized\", \"1\")\n\t}\n",
			More:   []repl{{"\ttrace.InjectHeaders(span, r)\n", "\tinject(r)\n"}},
			Expect: "C12.G1"},
		{Name: "benign: gate helper reports the status to answer", File: "proxy/http_proxy.go",
			Old:    c12HTTPGates,
			New:    "\tif code, msg := p.gate(w, r, t); code != 0 {\n\t\thttp.Error(w, msg, code)\n\t\treturn\n\t}\n",
			More:   []repl{{c12KeyFn, "func (p *HTTPProxy) gate(w http.ResponseWriter, r *http.Request, t *route.Target) (int, string) {\n\tswitch {\n\tcase t.AccessDeniedHTTP(r):\n\t\treturn http.StatusForbidden, \"access denied\"\n\tcase !t.Authorized(r, w, p.AuthSchemes):\n\t\treturn http.StatusUnauthorized, \"authorization failed\"\n\t}\n\treturn 0, \"\"\n}\n\n" + c12KeyFn}},
			Expect: ""},
		{Name: "status-reporting gate helper forgets the auth scheme", File: "proxy/http_proxy.go",
			Old:    c12HTTPGates,
			New:    "\tif code, msg := p.gate(w, r, t); code != 0 {\n\t\thttp.Error(w, msg, code)\n\t\treturn\n\t}\n",
			More:   []repl{{c12KeyFn, "func (p *HTTPProxy) gate(w http.ResponseWriter, r *http.Request, t *route.Target) (int, string) {\n\tswitch {\n\tcase t.AccessDeniedHTTP(r):\n\t\treturn http.StatusForbidden, \"access denied\"\n\tcase t.AuthScheme != \"\" && p.AuthSchemes[t.AuthScheme] == nil:\n\t\treturn http.StatusUnauthorized, \"authorization failed\"\n\t}\n\treturn 0, \"\"\n}\n\n" + c12KeyFn}},
			Expect: "C12.G1"},
		{Name: "status-reporting gate helper answers 404 to a denied peer", File: "proxy/http_proxy.go",
			Old:    c12HTTPGates,
			New:    "\tif code, msg := p.gate(w, r, t); code != 0 {\n\t\thttp.Error(w, msg, code)\n\t\treturn\n\t}\n",
			More:   []repl{{c12KeyFn, "func (p *HTTPProxy) gate(w http.ResponseWriter, r *http.Request, t *route.Target) (int, string) {\n\tswitch {\n\tcase t.AccessDeniedHTTP(r):\n\t\treturn http.StatusNotFound, \"access denied\"\n\tcase !t.Authorized(r, w, p.AuthSchemes):\n\t\treturn http.StatusUnauthorized, \"authorization failed\"\n\t}\n\treturn 0, \"\"\n}\n\n" + c12KeyFn}},
			Expect: "C12.S1"},
		{Name: "benign: gate helper answers itself and returns an error", File: "proxy/http_proxy.go",
			Old:    c12HTTPGates,
			New:    "\tif err := p.admit(w, r, t); err != nil {\n\t\treturn\n\t}\n",
			More:   []repl{{c12KeyFn, "var errDenied, errUnauthorized = errors.New(\"access denied\"), errors.New(\"authorization failed\")\n\nfunc (p *HTTPProxy) admit(w http.ResponseWriter, r *http.Request, t *route.Target) error {\n\tif t.AccessDeniedHTTP(r) {\n\t\tdeny(w, errDenied, http.StatusForbidden)\n\t\treturn errDenied\n\t}\n\tif !t.Authorized(r, w, p.AuthSchemes) {\n\t\tdeny(w, errUnauthorized, http.StatusUnauthorized)\n\t\treturn errUnauthorized\n\t}\n\treturn nil\n}\n\nfunc deny(w http.ResponseWriter, err error, code int) {\n\thttp.Error(w, err.Error(), code)\n}\n\n" + c12KeyFn}},
			Expect: ""},
		{Name: "error-returning gate helper swallows the access verdict", File: "proxy/http_proxy.go",
			Old:    c12HTTPGates,
			New:    "\tif err := p.admit(w, r, t); err != nil {\n\t\treturn\n\t}\n",
			More:   []repl{{c12KeyFn, "var errDenied, errUnauthorized = errors.New(\"access denied\"), errors.New(\"authorization failed\")\n\nfunc (p *HTTPProxy) admit(w http.ResponseWriter, r *http.Request, t *route.Target) error {\n\tvar err error\n\tif t.AccessDeniedHTTP(r) {\n\t\terr = errDenied\n\t}\n\tif !t.Authorized(r, w, p.AuthSchemes) {\n\t\thttp.Error(w, errUnauthorized.Error(), http.StatusUnauthorized)\n\t\treturn errUnauthorized\n\t}\n\t_ = err\n\treturn nil\n}\n\n" + c12KeyFn}},
			Expect: "C12.G1"},
		{Name: "benign: verdicts collected in a flag", File: "proxy/http_proxy.go",
			Old:    c12HTTPGates,
			New:    "\tadmitted := true\n\tif t.AccessDeniedHTTP(r) {\n\t\thttp.Error(w, \"access denied\", http.StatusForbidden)\n\t\tadmitted = false\n\t} else if !t.Authorized(r, w, p.AuthSchemes) {\n\t\thttp.Error(w, \"authorization failed\", http.StatusUnauthorized)\n\t\tadmitted = false\n\t}\n\tif !admitted {\n\t\treturn\n\t}\n",
			Expect: ""},
		{Name: "flag form that forgets to clear the flag on the access edge", File: "proxy/http_proxy.go",
			Old:    c12HTTPGates,
			New:    "\tadmitted := true\n\tif t.AccessDeniedHTTP(r) {\n\t\tw.Header().Set(\"X-Denied\", \"1\")\n\t} else if !t.Authorized(r, w, p.AuthSchemes) {\n\t\thttp.Error(w, \"authorization failed\", http.StatusUnauthorized)\n\t\tadmitted = false\n\t}\n\tif !admitted {\n\t\treturn\n\t}\n",
			Expect: "C12.G1"},
		{Name: "benign: gates called through method values, one condition", File: "proxy/http_proxy.go",
			Old:    c12HTTPGates,
			New:    "\tdenied, authorized := t.AccessDeniedHTTP, t.Authorized\n\tif denied(r) {\n\t\thttp.Error(w, \"access denied\", http.StatusForbidden)\n\t\treturn\n\t}\n\tif ok := authorized(r, w, p.AuthSchemes); !ok {\n\t\thttp.Error(w, \"authorization failed\", http.StatusUnauthorized)\n\t\treturn\n\t}\n",
			Expect: ""},
		{Name: "auth gate applied to another lookup than the one served", File: "proxy/http_proxy.go",
			Old:    "\tif !t.Authorized(r, w, p.AuthSchemes) {",
			New:    "\tif t2 := p.Lookup(r); t2 == nil || !t2.Authorized(r, w, p.AuthSchemes) {",
			Expect: "C12.G1"},

		// ---- G2 ----------------------------------------------------------------------------------------------------
		{Name: "benign: dial behind a helper method", File: "proxy/tcp/tcp_proxy.go",
			Old:    "\tout, err := net.DialTimeout(\"tcp\", addr, p.DialTimeout)\n",
			New:    "\tout, err := p.dial(addr)\n",
			More:   []repl{{"func (p *Proxy) ServeTCP(", "func (p *Proxy) dial(addr string) (net.Conn, error) {\n\treturn net.DialTimeout(\"tcp\", addr, p.DialTimeout)\n}\n\nfunc (p *Proxy) ServeTCP("}},
			Expect: ""},
		{Name: "benign: gate and dial moved together into a helper", File: "proxy/tcp/tcp_proxy.go",
			Old:    "\taddr := t.URL.Host\n\n" + c12TCPGateDial,
			New:    "\taddr := t.URL.Host\n\tout, denied, err := p.connect(in, t)\n\tif denied {\n\t\treturn nil\n\t}\n",
			More:   []repl{{"func (p *Proxy) ServeTCP(", "func (p *Proxy) connect(in net.Conn, t *route.Target) (out net.Conn, denied bool, err error) {\n\tif t.AccessDeniedTCP(in) {\n\t\treturn nil, true, nil\n\t}\n\tout, err = net.DialTimeout(\"tcp\", t.URL.Host, p.DialTimeout)\n\treturn out, false, err\n}\n\nfunc (p *Proxy) ServeTCP("}},
			Expect: ""},
		{Name: "connect helper dials before it asks the access rules", File: "proxy/tcp/tcp_proxy.go",
			Old:    "\taddr := t.URL.Host\n\n" + c12TCPGateDial,
			New:    "\taddr := t.URL.Host\n\tout, denied, err := p.connect(in, t)\n\tif denied {\n\t\treturn nil\n\t}\n",
			More:   []repl{{"func (p *Proxy) ServeTCP(", "func (p *Proxy) connect(in net.Conn, t *route.Target) (out net.Conn, denied bool, err error) {\n\tout, err = net.DialTimeout(\"tcp\", t.URL.Host, p.DialTimeout)\n\tif t.AccessDeniedTCP(in) {\n\t\treturn nil, true, nil\n\t}\n\treturn out, false, err\n}\n\nfunc (p *Proxy) ServeTCP("}},
			Expect: "C12.G2"},
		{Name: "dial helper fed with the address of a second, ungated lookup", File: "proxy/tcp/tcp_proxy.go",
			Old:    "\tout, err := net.DialTimeout(\"tcp\", addr, p.DialTimeout)\n",
			New:    "\tif t2 := p.Lookup(port); t2 != nil {\n\t\taddr = t2.URL.Host\n\t}\n\tout, err := p.dial(addr)\n",
			More:   []repl{{"func (p *Proxy) ServeTCP(", "func (p *Proxy) dial(addr string) (net.Conn, error) {\n\treturn net.DialTimeout(\"tcp\", addr, p.DialTimeout)\n}\n\nfunc (p *Proxy) ServeTCP("}},
			Expect: "C12.G2"},
		{Name: "benign: access gate as a guard with the verdict in a variable (sni)", File: "proxy/tcp/sni_proxy.go",
			Old:    "\tif t.AccessDeniedTCP(in) {\n\t\treturn nil\n\t}\n",
			New:    "\tswitch denied := t.AccessDeniedTCP(in); {\n\tcase denied:\n\t\treturn nil\n\t}\n",
			Expect: ""},

		// ---- F1 / F3: the per-address decision --------------------------------------------------------------------------
		{Name: "benign: decision function renamed, lists matched by one helper, verdict returned as an expression", File: "route/access_rules.go",
			Old: c12AllowBlock, New: "\tif list, ok := t.accessRules[ipAllowTag]; ok {\n\t\treturn !matchesAny(list, ip)\n\t}\n",
			More: []repl{{c12DenyBlock, "\tif list, ok := t.accessRules[ipDenyTag]; ok {\n\t\treturn matchesAny(list, ip)\n\t}\n"},
				{"\n// ProcessAccessRules processes", c12MatchesHelper("continue")},
				{"func (t *Target) denyByIP(ip net.IP) bool {", "func (t *Target) rejects(ip net.IP) bool {"},
				{"\tif t.denyByIP(ip) {\n\t\treturn true\n\t}\n\n\t// check xff", "\tif t.rejects(ip) {\n\t\treturn true\n\t}\n\n\t// check xff"},
				{"\t\t\tif t.denyByIP(ip) {", "\t\t\tif t.rejects(ip) {"},
				{"\tif t.denyByIP(addr.IP) {", "\tif t.rejects(addr.IP) {"}},
			Expect: ""},
		{Name: "list helper counts an element that is no block as a match", File: "route/access_rules.go",
			Old: c12AllowBlock, New: "\tif list, ok := t.accessRules[ipAllowTag]; ok {\n\t\treturn !matchesAny(list, ip)\n\t}\n",
			More: []repl{{c12DenyBlock, "\tif list, ok := t.accessRules[ipDenyTag]; ok {\n\t\treturn matchesAny(list, ip)\n\t}\n"},
				{"\n// ProcessAccessRules processes", c12MatchesHelper("return true")}},
			Expect: "C12.F3"},
		{Name: "expression form with the allow verdict not negated", File: "route/access_rules.go",
			Old: c12AllowBlock, New: "\tif list, ok := t.accessRules[ipAllowTag]; ok {\n\t\treturn matchesAny(list, ip)\n\t}\n",
			More: []repl{{c12DenyBlock, "\tif list, ok := t.accessRules[ipDenyTag]; ok {\n\t\treturn matchesAny(list, ip)\n\t}\n"},
				{"\n// ProcessAccessRules processes", c12MatchesHelper("continue")}},
			Expect: "C12.F3"},
		{Name: "benign: blocks matched with slices.ContainsFunc", File: "route/access_rules.go",
			Old: c12DenyBlock, New: "\tif list, ok := t.accessRules[ipDenyTag]; ok {\n\t\tif slices.ContainsFunc(list, func(x interface{}) bool {\n\t\t\tblock, ok := x.(*net.IPNet)\n\t\t\treturn ok && block.Contains(ip)\n\t\t}) {\n\t\t\tlog.Printf(\"[INFO] route rules denied access from %s to %s\",\n\t\t\t\tip.String(), t.URL.String())\n\t\t\treturn true\n\t\t}\n\t}\n",
			More:   []repl{{"\t\"net/http\"\n", "\t\"net/http\"\n\t\"slices\"\n"}},
			Expect: ""},
		{Name: "deny list ignored", File: "route/access_rules.go",
			Old: c12DenyBlock, New: "", Expect: "C12.F3"},
		{Name: "benign: nil address tested by length, in a switch with the no-rules case", File: "route/access_rules.go",
			Old:    "\tif len(t.accessRules) == 0 {\n\t\treturn false\n\t}\n\t// an address which could not be parsed cannot be matched\n\t// against the rules and must not bypass them.\n\tif ip == nil {\n\t\treturn true\n\t}\n",
			New:    "\tswitch {\n\tcase len(t.accessRules) < 1:\n\t\treturn false\n\tcase len(ip) == 0:\n\t\treturn true\n\t}\n",
			Expect: ""},
		{Name: "empty address passes", File: "route/access_rules.go",
			Old:    "\tif ip == nil {\n\t\treturn true\n\t}\n\t// check allow",
			New:    "\tif len(ip) == 0 {\n\t\treturn false\n\t}\n\t// check allow",
			Expect: "C12.F1"},
		{Name: "nil address no longer decided", File: "route/access_rules.go",
			Old:    "\tif ip == nil {\n\t\treturn true\n\t}\n\t// check allow",
			New:    "\t// check allow",
			Expect: "C12.F1"},

		// ---- F1: Target.Authorized ---------------------------------------------------------------------------------------
		{Name: "benign: Authorized as if/else with the scheme's verdict spelled out", File: "route/auth.go",
			Old:    "\tif t.AuthScheme == \"\" {\n\t\treturn true\n\t}\n\n\tscheme := authSchemes[t.AuthScheme]\n\n\tif scheme == nil {\n\t\tlog.Printf(\"[ERROR] unknown auth scheme '%s'\\n\", t.AuthScheme)\n\t\treturn false\n\t}\n\n\treturn scheme.Authorized(r, w)\n",
			New:    "\tif len(t.AuthScheme) == 0 {\n\t\treturn true\n\t}\n\tif scheme, ok := authSchemes[t.AuthScheme]; ok && scheme != nil {\n\t\tif scheme.Authorized(r, w) {\n\t\t\treturn true\n\t\t}\n\t\treturn false\n\t}\n\tlog.Printf(\"[ERROR] unknown auth scheme '%s'\\n\", t.AuthScheme)\n\treturn false\n",
			Expect: ""},
		{Name: "benign: Authorized as one expression over a helper", File: "route/auth.go",
			Old:    "\tif t.AuthScheme == \"\" {\n\t\treturn true\n\t}\n\n\tscheme := authSchemes[t.AuthScheme]\n\n\tif scheme == nil {\n\t\tlog.Printf(\"[ERROR] unknown auth scheme '%s'\\n\", t.AuthScheme)\n\t\treturn false\n\t}\n\n\treturn scheme.Authorized(r, w)\n",
			New:    "\treturn t.AuthScheme == \"\" || checkScheme(authSchemes[t.AuthScheme], t.AuthScheme, r, w)\n}\n\nfunc checkScheme(scheme auth.AuthScheme, name string, r *http.Request, w http.ResponseWriter) bool {\n\tif scheme == nil {\n\t\tlog.Printf(\"[ERROR] unknown auth scheme '%s'\\n\", name)\n\t\treturn false\n\t}\n\treturn scheme.Authorized(r, w)\n",
			Expect: ""},
		{Name: "scheme helper lets an unknown scheme pass", File: "route/auth.go",
			Old:    "\tif t.AuthScheme == \"\" {\n\t\treturn true\n\t}\n\n\tscheme := authSchemes[t.AuthScheme]\n\n\tif scheme == nil {\n\t\tlog.Printf(\"[ERROR] unknown auth scheme '%s'\\n\", t.AuthScheme)\n\t\treturn false\n\t}\n\n\treturn scheme.Authorized(r, w)\n",
			New:    "\treturn t.AuthScheme == \"\" || checkScheme(authSchemes[t.AuthScheme], t.AuthScheme, r, w)\n}\n\nfunc checkScheme(scheme auth.AuthScheme, name string, r *http.Request, w http.ResponseWriter) bool {\n\tif scheme == nil {\n\t\tlog.Printf(\"[ERROR] unknown auth scheme '%s'\\n\", name)\n\t\treturn true\n\t}\n\treturn scheme.Authorized(r, w)\n",
			Expect: "C12.F1"},

		// ---- A1 ------------------------------------------------------------------------------------------------------
		{Name: "benign: basic auth matches through a helper and answers with constants", File: "auth/basic.go",
			Old:    "\treturn b.secrets.Match(user, password)\n}",
			New:    "\tif b.valid(user, password) {\n\t\treturn true\n\t}\n\treturn false\n}\n\nfunc (b *basic) valid(user, password string) bool {\n\treturn user != \"\" && b.secrets.Match(user, password)\n}",
			Expect: ""},
		{Name: "credential helper accepts an empty password", File: "auth/basic.go",
			Old:    "\treturn b.secrets.Match(user, password)\n}",
			New:    "\tif b.valid(user, password) {\n\t\treturn true\n\t}\n\treturn false\n}\n\nfunc (b *basic) valid(user, password string) bool {\n\treturn password == \"\" || b.secrets.Match(user, password)\n}",
			Expect: "C12.A1"},

		// ---- X1 ------------------------------------------------------------------------------------------------------
		{Name: "benign: X-Forwarded-For walked with strings.Cut and a verdict flag", File: "route/access_rules.go",
			Old:    c12XFFLoop,
			New:    "\t\tdenied := false\n\t\tfor rest, more := xff, true; more; {\n\t\t\tvar xip string\n\t\t\txip, rest, more = strings.Cut(rest, \",\")\n\t\t\txip = strings.TrimSpace(xip)\n\t\t\tif xip == host {\n\t\t\t\tcontinue\n\t\t\t}\n\t\t\tif ip = net.ParseIP(xip); ip == nil {\n\t\t\t\tlog.Printf(\"[WARN] failed to parse xff address %s\", xip)\n\t\t\t\tcontinue\n\t\t\t}\n\t\t\tif t.denyByIP(ip) {\n\t\t\t\tdenied = true\n\t\t\t\tbreak\n\t\t\t}\n\t\t}\n\t\treturn denied\n",
			Expect: ""},
		{Name: "Cut walk stops at the first admitted element", File: "route/access_rules.go",
			Old:    c12XFFLoop,
			New:    "\t\tdenied := false\n\t\tfor rest, more := xff, true; more; {\n\t\t\tvar xip string\n\t\t\txip, rest, more = strings.Cut(rest, \",\")\n\t\t\txip = strings.TrimSpace(xip)\n\t\t\tif xip == host {\n\t\t\t\tcontinue\n\t\t\t}\n\t\t\tif ip = net.ParseIP(xip); ip == nil {\n\t\t\t\tlog.Printf(\"[WARN] failed to parse xff address %s\", xip)\n\t\t\t\tcontinue\n\t\t\t}\n\t\t\tdenied = t.denyByIP(ip)\n\t\t\tbreak\n\t\t}\n\t\treturn denied\n",
			Expect: "C12.X1"},
		{Name: "benign: elements walked by index, element check in a helper", File: "route/access_rules.go",
			Old:    c12XFFLoop,
			New:    "\t\telems := strings.Split(xff, \",\")\n\t\tfor i := 0; i < len(elems); i++ {\n\t\t\tif t.elementDenied(elems[i], host) {\n\t\t\t\treturn true\n\t\t\t}\n\t\t}\n",
			More:   []repl{{"// AccessDeniedTCP checks rules", "func (t *Target) elementDenied(elem, host string) bool {\n\telem = strings.TrimSpace(elem)\n\tif elem == host {\n\t\treturn false\n\t}\n\tip := net.ParseIP(elem)\n\tif ip == nil {\n\t\tlog.Printf(\"[WARN] failed to parse xff address %s\", elem)\n\t\treturn false\n\t}\n\treturn t.denyByIP(ip)\n}\n\n// AccessDeniedTCP checks rules"}},
			Expect: ""},
		{Name: "element helper's verdict dropped by the walk", File: "route/access_rules.go",
			Old:    c12XFFLoop,
			New:    "\t\telems := strings.Split(xff, \",\")\n\t\tfor i := 0; i < len(elems); i++ {\n\t\t\tif t.elementDenied(elems[i], host) {\n\t\t\t\tlog.Printf(\"[INFO] xff element %s denied\", elems[i])\n\t\t\t}\n\t\t}\n",
			More:   []repl{{"// AccessDeniedTCP checks rules", "func (t *Target) elementDenied(elem, host string) bool {\n\telem = strings.TrimSpace(elem)\n\tif elem == host {\n\t\treturn false\n\t}\n\tip := net.ParseIP(elem)\n\tif ip == nil {\n\t\tlog.Printf(\"[WARN] failed to parse xff address %s\", elem)\n\t\treturn false\n\t}\n\treturn t.denyByIP(ip)\n}\n\n// AccessDeniedTCP checks rules"}},
			Expect: "C12.X1"},
		{Name: "element cut at the first colon with strings.Cut", File: "route/access_rules.go",
			Old:    "\t\t\txip = strings.TrimSpace(xip)\n",
			New:    "\t\t\txip, _, _ = strings.Cut(strings.TrimSpace(xip), \":\")\n",
			Expect: "C12.X1"},
		{Name: "X-Forwarded-For no longer consulted", File: "route/access_rules.go",
			Old:    "\tif xff := r.Header.Get(\"X-Forwarded-For\"); xff != \"\" {",
			New:    "\tif xff := r.Header.Get(\"X-Real-Ip\"); xff != \"\" {",
			Expect: "C12.X1"},
		{Name: "TCP gate turns the verdict round", File: "route/access_rules.go",
			Old:    "\tif t.denyByIP(addr.IP) {\n\t\treturn true\n\t}\n\t// default allow\n\treturn false\n",
			New:    "\tif t.denyByIP(addr.IP) {\n\t\treturn false\n\t}\n\t// default allow\n\treturn false\n",
			Expect: "C12.X1"},

		{Name: "benign: elements ranged over with the iterator strings.SplitSeq", File: "route/access_rules.go",
			Old:    "\t\tfor _, xip := range strings.Split(xff, \",\") {\n",
			New:    "\t\tfor xip := range strings.SplitSeq(xff, \",\") {\n",
			Expect: ""},
		{Name: "iterator walk left by break at the peer's own address", File: "route/access_rules.go",
			Old:    "\t\tfor _, xip := range strings.Split(xff, \",\") {\n",
			New:    "\t\tfor xip := range strings.SplitSeq(xff, \",\") {\n",
			More:   []repl{{"\t\t\tif xip == host {\n\t\t\t\tcontinue\n\t\t\t}", "\t\t\tif xip == host {\n\t\t\t\tbreak\n\t\t\t}"}},
			Expect: "C12.X1"},
		{Name: "iterator walk that only logs a denied element", File: "route/access_rules.go",
			Old:    "\t\tfor _, xip := range strings.Split(xff, \",\") {\n",
			New:    "\t\tfor xip := range strings.SplitSeq(xff, \",\") {\n",
			More:   []repl{{"\t\t\tif t.denyByIP(ip) {\n\t\t\t\treturn true\n\t\t\t}\n\t\t}\n", "\t\t\tif t.denyByIP(ip) {\n\t\t\t\tlog.Printf(\"[INFO] denied %s\", xip)\n\t\t\t}\n\t\t}\n"}},
			Expect: "C12.X1"},
		{Name: "iterator walk over elements cut at the colon", File: "route/access_rules.go",
			Old:    "\t\tfor _, xip := range strings.Split(xff, \",\") {\n\t\t\txip = strings.TrimSpace(xip)\n",
			New:    "\t\tfor xip := range strings.SplitSeq(xff, \",\") {\n\t\t\txip = strings.TrimSpace(xip)\n\t\t\tif i := strings.LastIndexByte(xip, ':'); i > 0 {\n\t\t\t\txip = xip[:i]\n\t\t\t}\n",
			Expect: "C12.X1"},
		// ---- F1: no way round the decision ------------------------------------------------------------------------------
		{Name: "benign: X-Forwarded-For elements walked with slices.ContainsFunc", File: "route/access_rules.go",
			Old:    c12XFFLoop,
			New:    "\t\tif slices.ContainsFunc(strings.Split(xff, \",\"), func(xip string) bool {\n\t\t\txip = strings.TrimSpace(xip)\n\t\t\tif xip == host {\n\t\t\t\treturn false\n\t\t\t}\n\t\t\txaddr := net.ParseIP(xip)\n\t\t\tif xaddr == nil {\n\t\t\t\tlog.Printf(\"[WARN] failed to parse xff address %s\", xip)\n\t\t\t\treturn false\n\t\t\t}\n\t\t\treturn t.denyByIP(xaddr)\n\t\t}) {\n\t\t\treturn true\n\t\t}\n",
			More:   []repl{{"\t\"net/http\"\n", "\t\"net/http\"\n\t\"slices\"\n"}},
			Expect: ""},
		{Name: "ContainsFunc walk whose result is thrown away", File: "route/access_rules.go",
			Old:    c12XFFLoop,
			New:    "\t\t_ = slices.ContainsFunc(strings.Split(xff, \",\"), func(xip string) bool {\n\t\t\txip = strings.TrimSpace(xip)\n\t\t\tif xip == host {\n\t\t\t\treturn false\n\t\t\t}\n\t\t\txaddr := net.ParseIP(xip)\n\t\t\tif xaddr == nil {\n\t\t\t\tlog.Printf(\"[WARN] failed to parse xff address %s\", xip)\n\t\t\t\treturn false\n\t\t\t}\n\t\t\treturn t.denyByIP(xaddr)\n\t\t})\n",
			More:   []repl{{"\t\"net/http\"\n", "\t\"net/http\"\n\t\"slices\"\n"}},
			Expect: "C12.X1"},
		{Name: "requests carrying an internal header skip the access rules", File: "route/access_rules.go",
			Old:    "\thost, _, err := net.SplitHostPort(r.RemoteAddr)\n",
			New:    "\tif r.Header.Get(\"X-Fabio-Internal\") != \"\" {\n\t\treturn false\n\t}\n\thost, _, err := net.SplitHostPort(r.RemoteAddr)\n",
			Expect: "C12.F1"},
		{Name: "loopback peers skip the access rules (tcp)", File: "route/access_rules.go",
			Old:    "\t// check remote connection address\n",
			New:    "\tif addr.IP.IsLoopback() {\n\t\treturn false\n\t}\n\t// check remote connection address\n",
			Expect: "C12.F1"},
		{Name: "benign: gate body nested under `rules configured` (tcp)", File: "route/access_rules.go",
			Old:    "\tif len(t.accessRules) == 0 {\n\t\treturn false\n\t}\n\t// get remote address and validate assertion\n\taddr, ok := c.RemoteAddr().(*net.TCPAddr)\n\tif !ok {\n\t\tlog.Printf(\"[ERROR] failed to assert remote connection address for %s\", t.Service)\n\t\treturn false\n\t}\n\t// check remote connection address\n\tif t.denyByIP(addr.IP) {\n\t\treturn true\n\t}\n\t// default allow\n\treturn false\n",
			New:    "\tif len(t.accessRules) > 0 {\n\t\taddr, ok := c.RemoteAddr().(*net.TCPAddr)\n\t\tif !ok {\n\t\t\tlog.Printf(\"[ERROR] failed to assert remote connection address for %s\", t.Service)\n\t\t} else if t.denyByIP(addr.IP) {\n\t\t\treturn true\n\t\t}\n\t}\n\treturn false\n",
			Expect: ""},
		{Name: "benign: nil target or no rules in one condition (http)", File: "route/access_rules.go",
			Old:    "\t// No rules ... skip checks\n\tif len(t.accessRules) == 0 {\n",
			New:    "\t// No rules ... skip checks\n\tif t == nil || len(t.accessRules) == 0 {\n",
			Expect: ""},

		// ---- F2 ------------------------------------------------------------------------------------------------------
		{Name: "benign: options applied in a helper that closes the rules on error", File: "route/route.go",
			Old:    c12RuleErr,
			New:    "\t\tt.applyAccessRules()\n",
			More:   []repl{{"func (r *Route) filter(", "func (t *Target) applyAccessRules() {\n\terr := t.ProcessAccessRules()\n\tif err == nil {\n\t\treturn\n\t}\n\tlog.Printf(\"[ERROR] failed to process access rules: %s\", err.Error())\n\tt.denyAll()\n}\n\nfunc (r *Route) filter("}},
			Expect: ""},
		{Name: "rules helper only logs the error", File: "route/route.go",
			Old:    c12RuleErr,
			New:    "\t\tt.applyAccessRules()\n",
			More:   []repl{{"func (r *Route) filter(", "func (t *Target) applyAccessRules() {\n\terr := t.ProcessAccessRules()\n\tif err == nil {\n\t\treturn\n\t}\n\tlog.Printf(\"[ERROR] failed to process access rules: %s\", err.Error())\n}\n\nfunc (r *Route) filter("}},
			Expect: "C12.F2"},
		{Name: "benign: deny-all rule set written in place", File: "route/route.go",
			Old:    "\t\t\tt.denyAll()\n",
			New:    "\t\t\tt.accessRules = map[string][]interface{}{ipAllowTag: nil}\n",
			Expect: ""},
		{Name: "rule error resets the rules to none", File: "route/access_rules.go",
			Old:    "\tt.accessRules = map[string][]interface{}{ipAllowTag: {}}\n",
			New:    "\tt.accessRules = nil\n",
			Expect: "C12.F2"},
	}
}
