package main

// Overlay mutants of C16 added in the second hardening round: larger restructurings of the pool's janitor (critical
// section as a closure run by a locking helper, per-entry callback, generic ticker helper, membership test through a
// callback / an interface / a flag / slices.ContainsFunc, per-entry body in a method) and of the interceptor / director /
// option wiring, each with breaking twins in the same shape.

const c16sweepBody = `	table := route.GetTable()
	for tKey, cs := range p.connections {
		state := cs.GetState()
		if state == connectivity.Shutdown {
			delete(p.connections, tKey)
			continue
		}
		if !hasTarget(tKey, table) {
			log.Println("[DEBUG] grpc: cleaning up connection to", tKey)
			go p.drain(cs, state)
			delete(p.connections, tKey)
		}
	}
`

const c16drain = `
func (p *grpcConnectionPool) drain(cs *grpc.ClientConn, state connectivity.State) {
	ctx, cancel := context.WithTimeout(context.Background(), p.cfg.Proxy.GRPCGShutdownTimeout)
	defer cancel()
	cs.WaitForStateChange(ctx, state)
	cs.Close()
}
`

// the janitor loop lives in a generic helper that is given the sweep as a method value
const c16everyShape = `func (p *grpcConnectionPool) cleanup() {
	every(p.cleanupInterval, p.sweep)
}

func every(d time.Duration, fn func()) {
	for {
		fn()
		time.Sleep(d)
	}
}

func (p *grpcConnectionPool) sweep() {
	p.lock.Lock()
	defer p.lock.Unlock()
` + c16sweepBody + `}
` + c16drain

// the critical section is a closure run by a locking helper
const c16lockedShape = `func (p *grpcConnectionPool) locked(fn func()) {
	p.lock.Lock()
	defer p.lock.Unlock()
	fn()
}

func (p *grpcConnectionPool) cleanup() {
	for {
		p.locked(func() {
		` + c16sweepBody + `		})
		time.Sleep(p.cleanupInterval)
	}
}
` + c16drain

// the range over the pool lives in a helper that calls back once per entry
const c16eachShape = `func (p *grpcConnectionPool) eachLocked(fn func(key string, cs *grpc.ClientConn)) {
	p.lock.Lock()
	defer p.lock.Unlock()
	for k, cs := range p.connections {
		fn(k, cs)
	}
}

func (p *grpcConnectionPool) cleanup() {
	for {
		table := route.GetTable()
		p.eachLocked(func(tKey string, cs *grpc.ClientConn) {
			state := cs.GetState()
			if state == connectivity.Shutdown {
				delete(p.connections, tKey)
				return
			}
			if !hasTarget(tKey, table) {
				log.Println("[DEBUG] grpc: cleaning up connection to", tKey)
				go p.drain(cs, state)
				delete(p.connections, tKey)
			}
		})
		time.Sleep(p.cleanupInterval)
	}
}
` + c16drain

// the per-entry body is a method
const c16visitShape = `func (p *grpcConnectionPool) cleanup() {
	for {
		p.lock.Lock()
		table := route.GetTable()
		for tKey, cs := range p.connections {
			p.visitLocked(tKey, cs, table)
		}
		p.lock.Unlock()
		time.Sleep(p.cleanupInterval)
	}
}

func (p *grpcConnectionPool) visitLocked(tKey string, cs *grpc.ClientConn, table route.Table) {
	state := cs.GetState()
	if state == connectivity.Shutdown {
		delete(p.connections, tKey)
		return
	}
	if hasTarget(tKey, table) {
		return
	}
	log.Println("[DEBUG] grpc: cleaning up connection to", tKey)
	go p.drain(cs, state)
	delete(p.connections, tKey)
}
` + c16drain

const c16anyTarget = `func anyTarget(table route.Table, fn func(*route.Target) bool) bool {
	for _, routes := range table {
		for _, r := range routes {
			for _, t := range r.Targets {
				if fn(t) {
					return true
				}
			}
		}
	}
	return false
}
`

const c16noTarget = `func noTarget(table route.Table, differs func(*route.Target) bool) bool {
	for _, routes := range table {
		for _, r := range routes {
			for _, t := range r.Targets {
				if !differs(t) {
					return false
				}
			}
		}
	}
	return true
}
`

const c16matcher = `type targetMatcher interface {
	matches(t *route.Target) bool
}

type poolKeyMatcher struct{ key string }

func (m poolKeyMatcher) matches(t *route.Target) bool { return m.key == makeGRPCTargetKey(t) }

func tableHas(table route.Table, m targetMatcher) bool {
	for _, routes := range table {
		for _, r := range routes {
			for _, t := range r.Targets {
				if m.matches(t) {
					return true
				}
			}
		}
	}
	return false
}
`

const c16flagScan = `			found := false
		scan:
			for _, routes := range table {
				for _, r := range routes {
					for _, t := range r.Targets {
						if tKey == makeGRPCTargetKey(t) {
							found = true
							break scan
						}
					}
				}
			}
			if !found {
`

const c16tableTargets = `func tableTargets(table route.Table) []*route.Target {
	var out []*route.Target
	for _, routes := range table {
		for _, r := range routes {
			out = append(out, r.Targets...)
		}
	}
	return out
}
`

// the interceptor's per-call state in a small type with methods
const c16callType = `type grpcCall struct {
	srv    interface{}
	stream grpc.ServerStream
	info   *grpc.StreamServerInfo
	target *route.Target
}

func (g GrpcProxyInterceptor) Stream(srv interface{}, stream grpc.ServerStream, info *grpc.StreamServerInfo, handler grpc.StreamHandler) error {
	call := &grpcCall{srv: srv, stream: stream, info: info}
	if st := g.route(call); st != nil {
		return st
	}
	return call.forward(handler)
}

func (g GrpcProxyInterceptor) route(c *grpcCall) error {
	target, err := g.lookup(c.stream.Context(), c.info.FullMethod)
	if err != nil {
		log.Println("[ERROR] grpc: error looking up route", err)
		return status.Error(codes.Internal, "internal error")
	}
	if target == nil {
		g.StatsHandler.NoRoute.Add(1)
		log.Println("[WARN] grpc: no route found for", c.info.FullMethod)
		return status.Error(codes.NotFound, "no route found")
	}
	c.target = target
	return nil
}

func (c *grpcCall) forward(handler grpc.StreamHandler) error {
	ctx := context.WithValue(c.stream.Context(), targetKey{}, c.target)
	start := time.Now()
	err := handler(c.srv, proxyStream{ServerStream: c.stream, ctx: ctx})
	c.target.Timer.Observe(time.Since(start).Seconds())
	return err
}
`

const c16dropIfShape = `type connTable map[string]*grpc.ClientConn

// dropIf removes the entries for which gone reports true.
func (t connTable) dropIf(gone func(key string, cs *grpc.ClientConn) bool) {
	for k, cs := range t {
		if gone(k, cs) {
			delete(t, k)
		}
	}
}

func (p *grpcConnectionPool) cleanup() {
	for {
		p.lock.Lock()
		table := route.GetTable()
		connTable(p.connections).dropIf(func(tKey string, cs *grpc.ClientConn) bool {
			state := cs.GetState()
			if state == connectivity.Shutdown {
				return true
			}
			if hasTarget(tKey, table) {
				return false
			}
			log.Println("[DEBUG] grpc: cleaning up connection to", tKey)
			go p.drain(cs, state)
			return true
		})
		p.lock.Unlock()
		time.Sleep(p.cleanupInterval)
	}
}
`

var c16round2Mutants = []mutant{
	// ---- benign ------------------------------------------------------------------------------------------------------
	{Name: "benign: janitor loop in a generic ticker helper that is given the sweep as a method value", File: c16gh, Old: c16origCleanup, New: c16everyShape, Expect: ""},
	{Name: "benign: critical section of the sweep as a closure run by a locking helper", File: c16gh, Old: c16origCleanup, New: c16lockedShape, Expect: ""},
	{Name: "benign: range over the pool in a helper that calls back once per entry", File: c16gh, Old: c16origCleanup, New: c16eachShape, Expect: ""},
	{Name: "benign: per-entry body of the sweep in a method with guard clauses", File: c16gh, Old: c16origCleanup, New: c16visitShape, Expect: ""},
	{Name: "benign: membership test through a predicate callback", File: c16gh, Old: c16origHasTarget, New: c16anyTarget,
		More: []repl{{"if !hasTarget(tKey, table) {", "if !anyTarget(table, func(t *route.Target) bool { return makeGRPCTargetKey(t) == tKey }) {"}}, Expect: ""},
	{Name: "benign: membership test as 'every target differs' with a negated callback", File: c16gh, Old: c16origHasTarget, New: c16noTarget,
		More: []repl{{"if !hasTarget(tKey, table) {", "if noTarget(table, func(t *route.Target) bool { return tKey != makeGRPCTargetKey(t) }) {"}}, Expect: ""},
	{Name: "benign: membership test through a matcher interface with one implementation", File: c16gh, Old: c16origHasTarget, New: c16matcher,
		More: []repl{{"if !hasTarget(tKey, table) {", "if !tableHas(table, poolKeyMatcher{key: tKey}) {"}}, Expect: ""},
	{Name: "benign: membership scan inlined into the sweep with a found flag", File: c16gh, Old: c16origHasTarget, New: "",
		More: []repl{{"\t\t\tif !hasTarget(tKey, table) {\n", c16flagScan}}, Expect: ""},
	{Name: "benign: membership test with slices.ContainsFunc over the table's targets", File: c16gh, Old: c16origHasTarget, New: c16tableTargets,
		More: []repl{
			{"\t\ttable := route.GetTable()\n", "\t\ttargets := tableTargets(route.GetTable())\n"},
			{"if !hasTarget(tKey, table) {", "if !slices.ContainsFunc(targets, func(t *route.Target) bool { return makeGRPCTargetKey(t) == tKey }) {"},
			{"\t\"net/url\"\n", "\t\"net/url\"\n\t\"slices\"\n"},
		}, Expect: ""},
	{Name: "benign: per-call state of the interceptor in a small type with methods", File: c16gh, Old: c16origStream, New: c16callType, Expect: ""},

	// ---- breaking, in the same shapes ---------------------------------------------------------------------------------------
	{Name: "generic ticker helper without a pause", File: c16gh, Old: c16origCleanup, New: c16everyShape,
		More: []repl{{"\t\tfn()\n\t\ttime.Sleep(d)\n", "\t\tfn()\n"}}, Expect: "C16.P3"},
	{Name: "generic ticker helper never started", File: c16gh, Old: c16origCleanup, New: c16everyShape,
		More: []repl{{"\tgo cp.cleanup()\n", ""}}, Expect: "C16.P3"},
	{Name: "generic ticker helper runs the sweep once", File: c16gh, Old: c16origCleanup, New: c16everyShape,
		More: []repl{{"\tfor {\n\t\tfn()\n\t\ttime.Sleep(d)\n\t}\n", "\ttime.Sleep(d)\n\tfn()\n"}}, Expect: "C16.P3"},
	{Name: "closure run by the locking helper sleeps", File: c16gh, Old: c16origCleanup, New: c16lockedShape,
		More: []repl{{"\t\t})\n\t\ttime.Sleep(p.cleanupInterval)\n", "\t\t\ttime.Sleep(p.cleanupInterval)\n\t\t})\n"}}, Expect: "C16.P3"},
	{Name: "locking helper of the sweep forgets the lock", File: c16gh, Old: c16origCleanup, New: c16lockedShape,
		More: []repl{{"\tp.lock.Lock()\n\tdefer p.lock.Unlock()\n\tfn()\n", "\tfn()\n"}}, Expect: "C16.P1"},
	{Name: "per-entry callback keeps the entries of vanished targets", File: c16gh, Old: c16origCleanup, New: c16eachShape,
		More: []repl{{"\t\t\t\tgo p.drain(cs, state)\n\t\t\t\tdelete(p.connections, tKey)\n", "\t\t\t\tgo p.drain(cs, state)\n"}}, Expect: "C16.P3"},
	{Name: "per-entry callback drops failing connections without Close", File: c16gh, Old: c16origCleanup, New: c16eachShape,
		More: []repl{{"\t\t\tif state == connectivity.Shutdown {\n", "\t\t\tif state == connectivity.Shutdown || state == connectivity.TransientFailure {\n"}}, Expect: "C16.P5"},
	{Name: "per-entry method drops failing connections without Close", File: c16gh, Old: c16origCleanup, New: c16visitShape,
		More: []repl{{"\tif state == connectivity.Shutdown {\n", "\tif state == connectivity.Shutdown || state == connectivity.TransientFailure {\n"}}, Expect: "C16.P5"},
	{Name: "per-entry method drops the entries that are still routed", File: c16gh, Old: c16origCleanup, New: c16visitShape,
		More: []repl{{"\tif hasTarget(tKey, table) {\n\t\treturn\n", "\tif !hasTarget(tKey, table) {\n\t\treturn\n"}}, Expect: "C16.P3"},
	{Name: "predicate callback compares with the dial address", File: c16gh, Old: c16origHasTarget, New: c16anyTarget,
		More: []repl{{"if !hasTarget(tKey, table) {", "if !anyTarget(table, func(t *route.Target) bool { return t.URL.Host == tKey }) {"}}, Expect: "C16.P3"},
	{Name: "predicate callback with the verdict inverted", File: c16gh, Old: c16origHasTarget, New: c16anyTarget,
		More: []repl{{"if !hasTarget(tKey, table) {", "if anyTarget(table, func(t *route.Target) bool { return makeGRPCTargetKey(t) == tKey }) {"}}, Expect: "C16.P3"},
	{Name: "negated callback with the verdict inverted", File: c16gh, Old: c16origHasTarget, New: c16noTarget,
		More: []repl{{"if !hasTarget(tKey, table) {", "if !noTarget(table, func(t *route.Target) bool { return tKey != makeGRPCTargetKey(t) }) {"}}, Expect: "C16.P3"},
	{Name: "matcher implementation compares with the dial address", File: c16gh, Old: c16origHasTarget, New: c16matcher,
		More: []repl{
			{"if !hasTarget(tKey, table) {", "if !tableHas(table, poolKeyMatcher{key: tKey}) {"},
			{"return m.key == makeGRPCTargetKey(t) }", "return m.key == t.URL.Host }"},
		}, Expect: "C16.P3"},
	{Name: "found flag read with the wrong polarity", File: c16gh, Old: c16origHasTarget, New: "",
		More: []repl{{"\t\t\tif !hasTarget(tKey, table) {\n", c16flagScan}, {"\t\t\tif !found {\n", "\t\t\tif found {\n"}}, Expect: "C16.P3"},
	{Name: "slices.ContainsFunc predicate compares with the dial address", File: c16gh, Old: c16origHasTarget, New: c16tableTargets,
		More: []repl{
			{"\t\ttable := route.GetTable()\n", "\t\ttargets := tableTargets(route.GetTable())\n"},
			{"if !hasTarget(tKey, table) {", "if !slices.ContainsFunc(targets, func(t *route.Target) bool { return t.URL.Host == tKey }) {"},
			{"\t\"net/url\"\n", "\t\"net/url\"\n\t\"slices\"\n"},
		}, Expect: "C16.P3"},
	{Name: "small call type: routing step lets a call without a route through", File: c16gh, Old: c16origStream, New: c16callType,
		More: []repl{{"\t\tlog.Println(\"[WARN] grpc: no route found for\", c.info.FullMethod)\n\t\treturn status.Error(codes.NotFound, \"no route found\")\n", "\t\tlog.Println(\"[WARN] grpc: no route found for\", c.info.FullMethod)\n"}}, Expect: "C16.G1"},
	{Name: "small call type: forwarding step wraps the backend's status", File: c16gh, Old: c16origStream, New: c16callType,
		More: []repl{{"\tc.target.Timer.Observe(time.Since(start).Seconds())\n\treturn err\n", "\tc.target.Timer.Observe(time.Since(start).Seconds())\n\tif err != nil {\n\t\treturn fmt.Errorf(\"backend: %w\", err)\n\t}\n\treturn nil\n"}}, Expect: "C16.G2"},
	// ---- second batch: sentinels, accessors, signatures, single-option helpers ---------------------------------------------
	{Name: "benign: failure statuses kept in package-level variables", File: c16gh,
		Old: "return status.Error(codes.NotFound, \"no route found\")", New: "return errGRPCNoRoute",
		More: []repl{
			{"return status.Error(codes.Internal, \"internal error\")", "return errGRPCLookup"},
			{"type targetKey struct{}\n", "type targetKey struct{}\n\nvar (\n\terrGRPCNoRoute = status.Error(codes.NotFound, \"no route found\")\n\terrGRPCLookup  = status.Error(codes.Internal, \"internal error\")\n)\n"},
		}, Expect: ""},
	{Name: "package-level status variables with the codes mixed up", File: c16gh,
		Old: "return status.Error(codes.NotFound, \"no route found\")", New: "return errGRPCNoRoute",
		More: []repl{
			{"return status.Error(codes.Internal, \"internal error\")", "return errGRPCLookup"},
			{"type targetKey struct{}\n", "type targetKey struct{}\n\nvar (\n\terrGRPCNoRoute = status.Error(codes.Unavailable, \"no route found\")\n\terrGRPCLookup  = status.Error(codes.Internal, \"internal error\")\n)\n"},
		}, Expect: "C16.G1"},
	{Name: "benign: director reads the context value through an accessor that returns interface{}", File: c16gh,
		Old: "target, _ := ctx.Value(targetKey{}).(*route.Target)", New: "target, _ := routeValue(ctx).(*route.Target)",
		More: []repl{{"type targetKey struct{}\n", "type targetKey struct{}\n\nfunc routeValue(ctx context.Context) interface{} { return ctx.Value(targetKey{}) }\n"}}, Expect: ""},
	{Name: "accessor reads another context key", File: c16gh,
		Old: "target, _ := ctx.Value(targetKey{}).(*route.Target)", New: "target, _ := routeValue(ctx).(*route.Target)",
		More: []repl{{"type targetKey struct{}\n", "type targetKey struct{}\n\nfunc routeValue(ctx context.Context) interface{} { return ctx.Value(rpcCtxKey{}) }\n"}}, Expect: "C16.K1"},
	{Name: "benign: pool getter takes the key computed by the director", File: c16gh,
		Old: "conn, err := connectionPool.Get(outCtx, target)", New: "conn, err := connectionPool.Get(outCtx, makeGRPCTargetKey(target), target)",
		More: []repl{
			{"func (p *grpcConnectionPool) Get(ctx context.Context, target *route.Target) (*grpc.ClientConn, error) {", "func (p *grpcConnectionPool) Get(ctx context.Context, key string, target *route.Target) (*grpc.ClientConn, error) {"},
			{"conn := p.connections[makeGRPCTargetKey(target)]", "conn := p.connections[key]"},
		}, Expect: ""},
	{Name: "pool getter given the dial address as key", File: c16gh,
		Old: "conn, err := connectionPool.Get(outCtx, target)", New: "conn, err := connectionPool.Get(outCtx, target.URL.Host, target)",
		More: []repl{
			{"func (p *grpcConnectionPool) Get(ctx context.Context, target *route.Target) (*grpc.ClientConn, error) {", "func (p *grpcConnectionPool) Get(ctx context.Context, key string, target *route.Target) (*grpc.ClientConn, error) {"},
			{"conn := p.connections[makeGRPCTargetKey(target)]", "conn := p.connections[key]"},
		}, Expect: "C16.P1"},
	{Name: "benign: pool key is a named string type", File: c16gh,
		Old: "func makeGRPCTargetKey(t *route.Target) string {\n\treturn t.URL.String()\n}\n", New: "type poolKey string\n\nfunc makeGRPCTargetKey(t *route.Target) poolKey {\n\treturn poolKey(t.URL.String())\n}\n",
		More: []repl{
			{"\tconnections     map[string]*grpc.ClientConn\n", "\tconnections     map[poolKey]*grpc.ClientConn\n"},
			{"make(map[string]*grpc.ClientConn)", "make(map[poolKey]*grpc.ClientConn)"},
			{"func hasTarget(tKey string, table route.Table) bool {", "func hasTarget(tKey poolKey, table route.Table) bool {"},
		}, Expect: ""},
	{Name: "named pool key built from the dial address", File: c16gh,
		Old: "func makeGRPCTargetKey(t *route.Target) string {\n\treturn t.URL.String()\n}\n", New: "type poolKey string\n\nfunc makeGRPCTargetKey(t *route.Target) poolKey {\n\treturn poolKey(t.URL.Host)\n}\n",
		More: []repl{
			{"\tconnections     map[string]*grpc.ClientConn\n", "\tconnections     map[poolKey]*grpc.ClientConn\n"},
			{"make(map[string]*grpc.ClientConn)", "make(map[poolKey]*grpc.ClientConn)"},
			{"func hasTarget(tKey string, table route.Table) bool {", "func hasTarget(tKey poolKey, table route.Table) bool {"},
		}, Expect: "C16.P4"},
	{Name: "benign: single server options built by helpers", File: "main.go",
		Old: "\t\tgrpc.CustomCodec(grpc_proxy.Codec()),\n", New: "\t\tgrpcCodecOption(),\n",
		More: []repl{
			{"\t\tgrpc.StreamInterceptor(proxyInterceptor.Stream),\n", "\t\tgrpcInterceptorOption(proxyInterceptor),\n"},
			{"func newHTTPProxy(", "func grpcCodecOption() grpc.ServerOption { return grpc.CustomCodec(grpc_proxy.Codec()) }\n\nfunc grpcInterceptorOption(i proxy.GrpcProxyInterceptor) grpc.ServerOption {\n\topt := grpc.StreamInterceptor(i.Stream)\n\treturn opt\n}\n\nfunc newHTTPProxy("},
		}, Expect: ""},
	{Name: "codec option built by a helper but not installed", File: "main.go",
		Old: "\t\tgrpc.CustomCodec(grpc_proxy.Codec()),\n", New: "",
		More: []repl{
			{"\thandler := grpc_proxy.TransparentHandler(", "\t_ = grpcCodecOption()\n\thandler := grpc_proxy.TransparentHandler("},
			{"func newHTTPProxy(", "func grpcCodecOption() grpc.ServerOption { return grpc.CustomCodec(grpc_proxy.Codec()) }\n\nfunc newHTTPProxy("},
		}, Expect: "C16.W1"},
	// ---- third batch ----------------------------------------------------------------------------------------------------------
	{Name: "benign: failure status chosen by a helper that is given the lookup's outcome", File: c16gh,
		Old:    "\tif err != nil {\n\t\tlog.Println(\"[ERROR] grpc: error looking up route\", err)\n\t\treturn status.Error(codes.Internal, \"internal error\")\n\t}\n\n\tif target == nil {\n\t\tg.StatsHandler.NoRoute.Add(1)\n\t\tlog.Println(\"[WARN] grpc: no route found for\", info.FullMethod)\n\t\treturn status.Error(codes.NotFound, \"no route found\")\n\t}\n",
		New:    "\tif st := g.lookupFailure(target, err, info.FullMethod); st != nil {\n\t\treturn st\n\t}\n",
		More:   []repl{{"type targetKey struct{}\n", "type targetKey struct{}\n\nfunc (g GrpcProxyInterceptor) lookupFailure(target *route.Target, err error, method string) error {\n\tswitch {\n\tcase err != nil:\n\t\tlog.Println(\"[ERROR] grpc: error looking up route\", err)\n\t\treturn status.Error(codes.Internal, \"internal error\")\n\tcase target == nil:\n\t\tg.StatsHandler.NoRoute.Add(1)\n\t\tlog.Println(\"[WARN] grpc: no route found for\", method)\n\t\treturn status.Error(codes.NotFound, \"no route found\")\n\t}\n\treturn nil\n}\n"}},
		Expect: ""},
	{Name: "failure helper forgets the call without a route", File: c16gh,
		Old:    "\tif err != nil {\n\t\tlog.Println(\"[ERROR] grpc: error looking up route\", err)\n\t\treturn status.Error(codes.Internal, \"internal error\")\n\t}\n\n\tif target == nil {\n\t\tg.StatsHandler.NoRoute.Add(1)\n\t\tlog.Println(\"[WARN] grpc: no route found for\", info.FullMethod)\n\t\treturn status.Error(codes.NotFound, \"no route found\")\n\t}\n",
		New:    "\tif st := g.lookupFailure(target, err, info.FullMethod); st != nil {\n\t\treturn st\n\t}\n",
		More:   []repl{{"type targetKey struct{}\n", "type targetKey struct{}\n\nfunc (g GrpcProxyInterceptor) lookupFailure(target *route.Target, err error, method string) error {\n\tswitch {\n\tcase err != nil:\n\t\tlog.Println(\"[ERROR] grpc: error looking up route\", err)\n\t\treturn status.Error(codes.Internal, \"internal error\")\n\tcase target == nil:\n\t\tg.StatsHandler.NoRoute.Add(1)\n\t\tlog.Println(\"[WARN] grpc: no route found for\", method)\n\t}\n\treturn nil\n}\n"}},
		Expect: "C16.G1"},
	{Name: "benign: dsthost read with the comma-ok form and a combined guard", File: c16gh, Old: c16origDstHost,
		New: "func (g GrpcProxyInterceptor) getDestinationHostFromMetadata(md metadata.MD) string {\n\thosts, ok := md[\"dsthost\"]\n\tif !ok || len(hosts) != 1 {\n\t\treturn \"\"\n\t}\n\treturn hosts[0]\n}\n", Expect: ""},
	{Name: "benign: Get and Set merged into one double-checked getter", File: c16gh,
		Old: "\tp.lock.RLock()\n\tconn := p.connections[makeGRPCTargetKey(target)]\n\tp.lock.RUnlock()\n\n\tif conn != nil && conn.GetState() != connectivity.Shutdown {\n\t\treturn conn, nil\n\t}\n\n\treturn p.newConnection(ctx, target)\n",
		New: "\tkey := makeGRPCTargetKey(target)\n\tp.lock.RLock()\n\tconn := p.connections[key]\n\tp.lock.RUnlock()\n\tif usableConn(conn) {\n\t\treturn conn, nil\n\t}\n\tconn, err := p.newConnection(ctx, target)\n\tif err != nil {\n\t\treturn nil, err\n\t}\n\tp.lock.Lock()\n\tdefer p.lock.Unlock()\n\tif cur := p.connections[key]; usableConn(cur) && cur != conn {\n\t\tconn.Close()\n\t\treturn cur, nil\n\t}\n\tp.connections[key] = conn\n\treturn conn, nil\n",
		More: []repl{
			{"\tif err == nil {\n\t\tconn = p.Set(target, conn)\n\t}\n\n\treturn conn, err\n", "\treturn conn, err\n"},
			{"type targetKey struct{}\n", "type targetKey struct{}\n\nfunc usableConn(c *grpc.ClientConn) bool { return c != nil && c.GetState() != connectivity.Shutdown }\n"},
		}, Expect: ""},
	{Name: "double-checked getter without the second check", File: c16gh,
		Old: "\tp.lock.RLock()\n\tconn := p.connections[makeGRPCTargetKey(target)]\n\tp.lock.RUnlock()\n\n\tif conn != nil && conn.GetState() != connectivity.Shutdown {\n\t\treturn conn, nil\n\t}\n\n\treturn p.newConnection(ctx, target)\n",
		New: "\tkey := makeGRPCTargetKey(target)\n\tp.lock.RLock()\n\tconn := p.connections[key]\n\tp.lock.RUnlock()\n\tif usableConn(conn) {\n\t\treturn conn, nil\n\t}\n\tconn, err := p.newConnection(ctx, target)\n\tif err != nil {\n\t\treturn nil, err\n\t}\n\tp.lock.Lock()\n\tdefer p.lock.Unlock()\n\tp.connections[key] = conn\n\treturn conn, nil\n",
		More: []repl{
			{"\tif err == nil {\n\t\tconn = p.Set(target, conn)\n\t}\n\n\treturn conn, err\n", "\treturn conn, err\n"},
			{"type targetKey struct{}\n", "type targetKey struct{}\n\nfunc usableConn(c *grpc.ClientConn) bool { return c != nil && c.GetState() != connectivity.Shutdown }\n"},
		}, Expect: "C16.P2"},
	{Name: "benign: the pool embeds its mutex", File: c16gh, Old: "p.lock.", New: "p.", All: true,
		More: []repl{
			{"\tlock            sync.RWMutex\n", "\tsync.RWMutex\n"},
			{"\t\tlock:            sync.RWMutex{},\n", ""},
		}, Expect: ""},
	{Name: "benign: two-phase janitor: stale connections collected under the lock, drained afterwards", File: c16gh, Old: c16origCleanup, New: `type staleConn struct {
	cs    *grpc.ClientConn
	state connectivity.State
}

func (p *grpcConnectionPool) cleanup() {
	for {
		for _, s := range p.collectStale(route.GetTable()) {
			go p.drain(s.cs, s.state)
		}
		time.Sleep(p.cleanupInterval)
	}
}

func (p *grpcConnectionPool) collectStale(table route.Table) []staleConn {
	var stale []staleConn
	p.lock.Lock()
	defer p.lock.Unlock()
	for tKey, cs := range p.connections {
		state := cs.GetState()
		if state == connectivity.Shutdown {
			delete(p.connections, tKey)
			continue
		}
		if !hasTarget(tKey, table) {
			log.Println("[DEBUG] grpc: cleaning up connection to", tKey)
			stale = append(stale, staleConn{cs, state})
			delete(p.connections, tKey)
		}
	}
	return stale
}
` + c16drain, Expect: ""},
	{Name: "two-phase janitor that forgets to collect failing connections", File: c16gh, Old: c16origCleanup, New: `type staleConn struct {
	cs    *grpc.ClientConn
	state connectivity.State
}

func (p *grpcConnectionPool) cleanup() {
	for {
		for _, s := range p.collectStale(route.GetTable()) {
			go p.drain(s.cs, s.state)
		}
		time.Sleep(p.cleanupInterval)
	}
}

func (p *grpcConnectionPool) collectStale(table route.Table) []staleConn {
	var stale []staleConn
	p.lock.Lock()
	defer p.lock.Unlock()
	for tKey, cs := range p.connections {
		state := cs.GetState()
		if state == connectivity.Shutdown || state == connectivity.TransientFailure {
			delete(p.connections, tKey)
			continue
		}
		if !hasTarget(tKey, table) {
			log.Println("[DEBUG] grpc: cleaning up connection to", tKey)
			stale = append(stale, staleConn{cs, state})
			delete(p.connections, tKey)
		}
	}
	return stale
}
` + c16drain, Expect: "C16.P5"},
	// ---- fourth batch -------------------------------------------------------------------------------------------------------
	{Name: "benign: director reaches the pool through a small interface", File: c16gh,
		Old: "\tconnectionPool := newGrpcConnectionPool(tlscfg, cfg)\n", New: "\tvar connectionPool backendConns = newGrpcConnectionPool(tlscfg, cfg)\n",
		More: []repl{{"type targetKey struct{}\n", "type targetKey struct{}\n\ntype backendConns interface {\n\tGet(ctx context.Context, target *route.Target) (*grpc.ClientConn, error)\n}\n"}}, Expect: ""},
	{Name: "director's pool interface implemented by a dialer without a pool", File: c16gh,
		Old: "\tconnectionPool := newGrpcConnectionPool(tlscfg, cfg)\n", New: "\tvar connectionPool backendConns = plainDialer{}\n\t_ = newGrpcConnectionPool\n",
		More: []repl{{"type targetKey struct{}\n", "type targetKey struct{}\n\ntype backendConns interface {\n\tGet(ctx context.Context, target *route.Target) (*grpc.ClientConn, error)\n}\n\ntype plainDialer struct{}\n\nfunc (plainDialer) Get(ctx context.Context, target *route.Target) (*grpc.ClientConn, error) {\n\treturn grpc.DialContext(ctx, target.URL.Host, grpc.WithInsecure())\n}\n"}}, Expect: "C16.M1"},
	{Name: "benign: timing of the proxied call in a deferred closure", File: c16gh,
		Old: "\tstart := time.Now()\n\n\terr = handler(srv, proxyStream)\n\n\tend := time.Now()\n\tdur := end.Sub(start)\n\n\ttarget.Timer.Observe(dur.Seconds())\n\n\treturn err\n",
		New: "\tdefer func(start time.Time) {\n\t\ttarget.Timer.Observe(time.Since(start).Seconds())\n\t}(time.Now())\n\n\treturn handler(srv, proxyStream)\n", Expect: ""},
	// ---- fifth batch: a collaborator behind an interface -------------------------------------------------------------------
	{Name: "benign: interceptor resolves the route through a small interface", File: c16gh,
		Old: "target, err := g.lookup(ctx, info.FullMethod)", New: "target, err := g.resolver().resolve(ctx, info.FullMethod)",
		More: []repl{{"type targetKey struct{}\n", `type targetKey struct{}

type routeResolver interface {
	resolve(ctx context.Context, method string) (*route.Target, error)
}

type tableResolver struct{ g GrpcProxyInterceptor }

func (t tableResolver) resolve(ctx context.Context, method string) (*route.Target, error) {
	return t.g.lookup(ctx, method)
}

func (g GrpcProxyInterceptor) resolver() routeResolver { return tableResolver{g} }
`}}, Expect: ""},
	{Name: "route resolver behind the interface matches a constant path", File: c16gh,
		Old: "target, err := g.lookup(ctx, info.FullMethod)", New: "target, err := g.resolver().resolve(ctx, info.FullMethod)",
		More: []repl{{"type targetKey struct{}\n", `type targetKey struct{}

type routeResolver interface {
	resolve(ctx context.Context, method string) (*route.Target, error)
}

type tableResolver struct{ g GrpcProxyInterceptor }

func (t tableResolver) resolve(ctx context.Context, method string) (*route.Target, error) {
	return t.g.lookup(ctx, method)
}

func (g GrpcProxyInterceptor) resolver() routeResolver { return tableResolver{g} }
`}, {"return t.g.lookup(ctx, method)", "return t.g.lookup(ctx, \"/\")"}}, Expect: "C16.L1"},
	{Name: "route resolver behind the interface hides the lookup error", File: c16gh,
		Old: "target, err := g.lookup(ctx, info.FullMethod)", New: "target, _ := g.resolver().resolve(ctx, info.FullMethod)\n\tvar err error",
		More: []repl{{"type targetKey struct{}\n", `type targetKey struct{}

type routeResolver interface {
	resolve(ctx context.Context, method string) (*route.Target, error)
}

type tableResolver struct{ g GrpcProxyInterceptor }

func (t tableResolver) resolve(ctx context.Context, method string) (*route.Target, error) {
	return t.g.lookup(ctx, method)
}

func (g GrpcProxyInterceptor) resolver() routeResolver { return tableResolver{g} }
`}}, Expect: "C16.G1"},
	// ---- sixth batch: lock helpers ------------------------------------------------------------------------------------------
	{Name: "benign: write lock taken and released through helper methods", File: c16gh, Old: "p.lock.Lock()", New: "p.acquire()", All: true,
		More: []repl{
			{"\tdefer p.lock.Unlock()\n", "\tdefer p.release()\n"},
			{"\t\tp.lock.Unlock()\n", "\t\tp.release()\n"},
			{"type targetKey struct{}\n", "type targetKey struct{}\n\nfunc (p *grpcConnectionPool) acquire() { p.lock.Lock() }\nfunc (p *grpcConnectionPool) release() { p.lock.Unlock() }\n"},
		}, Expect: ""},
	{Name: "benign: write lock helper returns the unlock function", File: c16gh,
		Old: "\tp.lock.Lock()\n\tdefer p.lock.Unlock()\n", New: "\tdefer p.exclusive()()\n",
		More: []repl{{"type targetKey struct{}\n", "type targetKey struct{}\n\nfunc (p *grpcConnectionPool) exclusive() func() {\n\tp.lock.Lock()\n\treturn p.lock.Unlock\n}\n"}}, Expect: ""},
	{Name: "lock helper that does not lock", File: c16gh,
		Old: "\tp.lock.Lock()\n\tdefer p.lock.Unlock()\n", New: "\tdefer p.exclusive()()\n",
		More: []repl{{"type targetKey struct{}\n", "type targetKey struct{}\n\nfunc (p *grpcConnectionPool) exclusive() func() {\n\treturn func() {}\n}\n"}}, Expect: "C16.P1"},
	// ---- seventh batch: the drop decided by a per-entry predicate -----------------------------------------------------------
	{Name: "benign: sweep as dropIf(predicate) on a named map type", File: c16gh, Old: c16origCleanup, New: c16dropIfShape + c16drain, Expect: ""},
	{Name: "dropIf predicate also drops failing connections without Close", File: c16gh, Old: c16origCleanup, New: c16dropIfShape + c16drain,
		More: []repl{{"\t\t\tif state == connectivity.Shutdown {\n\t\t\t\treturn true\n", "\t\t\tif state == connectivity.Shutdown || state == connectivity.TransientFailure {\n\t\t\t\treturn true\n"}}, Expect: "C16.P5"},
	{Name: "dropIf predicate keeps the entries of vanished targets", File: c16gh, Old: c16origCleanup, New: c16dropIfShape + c16drain,
		More: []repl{{"\t\t\tgo p.drain(cs, state)\n\t\t\treturn true\n", "\t\t\tgo p.drain(cs, state)\n\t\t\treturn false\n"}}, Expect: "C16.P3"},
	{Name: "dropIf predicate drops the entries that are still routed", File: c16gh, Old: c16origCleanup, New: c16dropIfShape + c16drain,
		More: []repl{{"\t\t\tif hasTarget(tKey, table) {\n", "\t\t\tif !hasTarget(tKey, table) {\n"}}, Expect: "C16.P3"},
}
