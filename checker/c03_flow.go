package main

import (
	"go/token"
	"strings"

	"golang.org/x/tools/go/ssa"
)

// Value flow helpers of C03 (hardening round 3). The shared `derives` stops after three interprocedural steps and knows
// static call sites only. Two ordinary refactorings of the host matchers need more:
//
//   - the walk over the table's keys becomes a higher-order helper (`hostPatterns(tls, keep func(string) bool)`): the
//     comparison then lives in a closure whose parameter receives the key at a DYNAMIC call `keep(...)` of the
//     helper's function-typed parameter;
//   - the request host travels in a small struct built by a constructor and handed down two or three calls: more than
//     three steps from the comparison back to http.Request.Host.

// c03site: a call of a repository function: a static call, or a dynamic call `p(...)` of a function-typed parameter
// (captured variable, local) that receives the function at a static call site. recv is the receiver bound into a
// method value (`q.is` handed over as a func(string) bool), nil otherwise.
type c03site struct {
	call ssa.CallInstruction
	recv ssa.Value
}

// c03DynSites: the dynamic calls that can invoke a repository function used as a value.
// c03DynComplete: function values (closures, bound methods) all of whose uses are accounted for by their static and
// dynamic sites.
var (
	c03DynSites    map[*ssa.Function][]c03site
	c03DynComplete map[*ssa.Function]bool
)

type c03callee struct {
	fn   *ssa.Function
	recv ssa.Value
}

// c03CalleesOf: the repository functions a function-typed value can denote, followed through parameters to the
// arguments at the call sites (funcsOf does not do that).
func c03CalleesOf(v ssa.Value) []*ssa.Function {
	var out []*ssa.Function
	for _, c := range c03calleesOf(v) {
		out = append(out, c.fn)
	}
	return out
}

func c03calleesOf(v ssa.Value) []c03callee {
	var out []c03callee
	seen := map[*ssa.Function]bool{}
	derives(v, func(x ssa.Value) bool {
		var fn *ssa.Function
		var recv ssa.Value
		switch y := x.(type) {
		case *ssa.Function:
			fn = y
		case *ssa.MakeClosure:
			fn, _ = y.Fn.(*ssa.Function)
			if fn != nil && unwrap(fn) != fn && len(y.Bindings) == 1 {
				recv = y.Bindings[0]
			}
		}
		if fn != nil {
			if fn = unwrap(fn); !seen[fn] {
				seen[fn] = true
				out = append(out, c03callee{fn, recv})
			}
		}
		return false
	})
	for _, f := range funcsOf(v) {
		if !seen[f] {
			seen[f] = true
			out = append(out, c03callee{f, nil})
		}
	}
	return out
}

func c03BuildDynSites(c *Ctx) {
	c03DynSites = map[*ssa.Function][]c03site{}
	c03DynComplete = map[*ssa.Function]bool{}
	have := map[*ssa.Function]map[ssa.CallInstruction]bool{}
	add := func(g c03callee, ci ssa.CallInstruction) {
		fn := g.fn
		if fn == nil || !isRepoFn(fn) || len(fn.Blocks) == 0 {
			return
		}
		if have[fn] == nil {
			have[fn] = map[ssa.CallInstruction]bool{}
		}
		if !have[fn][ci] {
			have[fn][ci] = true
			c03DynSites[fn] = append(c03DynSites[fn], c03site{ci, g.recv})
		}
	}
	for _, f := range c.AllFns {
		eachInstr(f, func(i ssa.Instruction) {
			ci, ok := i.(ssa.CallInstruction)
			if !ok {
				return
			}
			cc := ci.Common()
			if cc.IsInvoke() || cc.StaticCallee() != nil {
				return
			}
			if _, isBuiltin := cc.Value.(*ssa.Builtin); isBuiltin {
				return
			}
			for _, g := range c03calleesOf(cc.Value) {
				add(g, ci)
			}
		})
	}
	// completeness: a closure (or bound method value) every use of which is a direct call, or an argument of a static
	// call of a repository function that does nothing with the parameter but call it
	for _, f := range c.AllFns {
		eachInstr(f, func(i ssa.Instruction) {
			mc, ok := i.(*ssa.MakeClosure)
			if !ok {
				return
			}
			fn, _ := mc.Fn.(*ssa.Function)
			if fn == nil || mc.Referrers() == nil {
				return
			}
			fn = unwrap(fn)
			if _, done := c03DynComplete[fn]; done {
				c03DynComplete[fn] = false // made at two places
				return
			}
			complete := true
			for _, ref := range *mc.Referrers() {
				switch u := ref.(type) {
				case *ssa.DebugRef:
				case ssa.CallInstruction:
					cc := u.Common()
					if cc.Value == ssa.Value(mc) {
						continue
					}
					h := cc.StaticCallee()
					if h == nil || !isRepoFn(h) || len(h.Blocks) == 0 || len(h.Params) != len(cc.Args) {
						complete = false
						continue
					}
					for k, a := range cc.Args {
						if a != ssa.Value(mc) {
							continue
						}
						if refs := h.Params[k].Referrers(); refs != nil {
							for _, pr := range *refs {
								switch pu := pr.(type) {
								case *ssa.DebugRef:
								case ssa.CallInstruction:
									if pu.Common().Value != ssa.Value(h.Params[k]) {
										complete = false
									}
								default:
									complete = false
								}
							}
						}
					}
				default:
					complete = false
				}
			}
			c03DynComplete[fn] = complete
		})
	}
}

// c03ArgFor: the argument that call site `site` passes for parameter idx of fn (nil: not known). A dynamic call of a
// bound method value passes one argument less than the method has parameters: the receiver is the one bound where the
// method value was made.
func c03ArgFor(site c03site, fn *ssa.Function, idx int) ssa.Value {
	cc := site.call.Common()
	if cc.IsInvoke() {
		return nil
	}
	off := len(fn.Params) - len(cc.Args)
	if off == 1 && idx == 0 {
		return site.recv
	}
	if off < 0 || off > 1 || idx-off < 0 || idx-off >= len(cc.Args) {
		return nil
	}
	return cc.Args[idx-off]
}

// c03SitesOf: the calls of fn, static and dynamic; complete says that these are all of them.
func c03SitesOf(fn *ssa.Function) (sites []c03site, complete bool) {
	for _, s := range gSites[fn] {
		sites = append(sites, c03site{s, nil})
	}
	sites = append(sites, c03DynSites[fn]...)
	if len(sites) == 0 {
		return nil, false
	}
	if len(c03DynSites[fn]) == 0 {
		return sites, c03SitesComplete(fn)
	}
	// a function value: every use is one of these calls, and a method cannot be reached through an interface either
	return sites, c03DynComplete[fn] && (fn.Parent() != nil || c03NoIfaceReach(fn))
}

const (
	c03MaxHops  = 8
	c03MaxSites = 8
)

type c03frame struct {
	call ssa.CallInstruction
	fn   *ssa.Function
	recv ssa.Value
}

// c03derives: the backward slice of `derives` (ssahelp.go) with a deeper interprocedural budget, with the dynamic
// call sites of closures and function values handed to higher-order helpers, and with results of dynamic calls.
func c03derives(v ssa.Value, pred func(ssa.Value) bool) bool {
	type key struct {
		v   ssa.Value
		ctx ssa.CallInstruction
	}
	seen := map[key]bool{}
	hops := 0
	var stack []c03frame
	var walk func(v ssa.Value) bool
	storesInto := func(a *ssa.Alloc, field int) bool {
		for _, r := range *a.Referrers() {
			if fa, ok := r.(*ssa.FieldAddr); ok && (field < 0 || fa.Field == field) {
				for _, r2 := range *fa.Referrers() {
					if st, ok := r2.(*ssa.Store); ok && st.Addr == fa && walk(st.Val) {
						return true
					}
				}
			}
		}
		return false
	}
	walk = func(v ssa.Value) bool {
		if v == nil {
			return false
		}
		var top c03frame
		if len(stack) > 0 {
			top = stack[len(stack)-1]
		}
		if seen[key{v, top.call}] {
			return false
		}
		seen[key{v, top.call}] = true
		if pred(v) {
			return true
		}
		switch x := v.(type) {
		case *ssa.Parameter:
			fn := x.Parent()
			if fn == nil {
				return false
			}
			idx := -1
			for k, p := range fn.Params {
				if p == x {
					idx = k
				}
			}
			if idx < 0 {
				return false
			}
			if top.call != nil {
				if top.fn != fn {
					return false
				}
				stack = stack[:len(stack)-1]
				defer func() { stack = append(stack, top) }()
				return walk(c03ArgFor(c03site{top.call, top.recv}, fn, idx))
			}
			sites, _ := c03SitesOf(fn)
			if len(sites) == 0 || len(sites) > c03MaxSites || hops >= c03MaxHops {
				return false
			}
			hops++
			defer func() { hops-- }()
			for _, s := range sites {
				if walk(c03ArgFor(s, fn, idx)) {
					return true
				}
			}
			return false
		case *ssa.FreeVar:
			fn := x.Parent()
			if fn == nil || fn.Parent() == nil || hops >= c03MaxHops {
				return false
			}
			idx := -1
			for k, fv := range fn.FreeVars {
				if fv == x {
					idx = k
				}
			}
			hops++
			defer func() { hops-- }()
			// the captured cell belongs to the enclosing function: a call context entered on the way does not apply
			saved := stack
			stack = nil
			defer func() { stack = saved }()
			found := false
			eachInstr(fn.Parent(), func(i ssa.Instruction) {
				if mc, ok := i.(*ssa.MakeClosure); ok && mc.Fn == fn && idx >= 0 && idx < len(mc.Bindings) && !found {
					if walk(mc.Bindings[idx]) {
						found = true
					}
				}
			})
			return found
		case *ssa.Phi:
			for _, e := range x.Edges {
				if walk(e) {
					return true
				}
			}
		case *ssa.UnOp:
			if x.Op == token.MUL {
				if a, ok := x.X.(*ssa.Alloc); ok {
					for _, r := range *a.Referrers() {
						if st, ok := r.(*ssa.Store); ok && st.Addr == a && walk(st.Val) {
							return true
						}
					}
				}
				if fa, ok := x.X.(*ssa.FieldAddr); ok {
					if a, ok := fa.X.(*ssa.Alloc); ok && storesInto(a, fa.Field) {
						return true
					}
				}
			}
			return walk(x.X)
		case *ssa.Alloc:
			if refs := x.Referrers(); refs != nil {
				for _, r := range *refs {
					switch y := r.(type) {
					case *ssa.Store:
						if y.Addr == x && walk(y.Val) {
							return true
						}
					case *ssa.FieldAddr:
						for _, r2 := range *y.Referrers() {
							if st, ok := r2.(*ssa.Store); ok && st.Addr == y && walk(st.Val) {
								return true
							}
						}
					case *ssa.IndexAddr:
						for _, r2 := range *y.Referrers() {
							if st, ok := r2.(*ssa.Store); ok && st.Addr == y && walk(st.Val) {
								return true
							}
						}
					}
				}
			}
			return false
		case *ssa.BinOp:
			return walk(x.X) || walk(x.Y)
		case *ssa.Convert:
			return walk(x.X)
		case *ssa.ChangeType:
			return walk(x.X)
		case *ssa.ChangeInterface:
			return walk(x.X)
		case *ssa.MakeInterface:
			return walk(x.X)
		case *ssa.TypeAssert:
			return walk(x.X)
		case *ssa.Extract:
			return walk(x.Tuple)
		case *ssa.Next:
			return walk(x.Iter)
		case *ssa.Range:
			return walk(x.X)
		case *ssa.FieldAddr:
			return walk(x.X)
		case *ssa.Field:
			return walk(x.X)
		case *ssa.IndexAddr:
			return walk(x.X) || walk(x.Index)
		case *ssa.Index:
			return walk(x.X) || walk(x.Index)
		case *ssa.Lookup:
			return walk(x.X) || walk(x.Index)
		case *ssa.Slice:
			return walk(x.X)
		case *ssa.Call:
			n := calleeName(&x.Call)
			if isTransparent(n) || strings.HasPrefix(n, "builtin.") {
				if x.Call.IsInvoke() && walk(x.Call.Value) {
					return true
				}
				for _, a := range x.Call.Args {
					if walk(a) {
						return true
					}
				}
				return false
			}
			if x.Call.IsInvoke() || hops >= c03MaxHops {
				return false
			}
			var callees []c03callee
			if sc := x.Call.StaticCallee(); sc != nil {
				callees = []c03callee{{sc, nil}}
			} else {
				callees = c03calleesOf(x.Call.Value)
			}
			for _, ce := range callees {
				sc := ce.fn
				if !isRepoFn(sc) || len(sc.Blocks) == 0 {
					continue
				}
				hops++
				stack = append(stack, c03frame{ssa.CallInstruction(x), sc, ce.recv})
				found := false
				eachInstr(sc, func(i ssa.Instruction) {
					if r, ok := i.(*ssa.Return); ok && !found {
						for _, res := range r.Results {
							if walk(res) {
								found = true
								return
							}
						}
					}
				})
				hops--
				stack = stack[:len(stack)-1]
				if found {
					return true
				}
			}
		}
		return false
	}
	return walk(v)
}

// c03IsNilValue: v is the nil value whenever it is used at its place: a nil constant, a phi of such, or the load of a
// local cell into which - as far as the load can see - only nil was stored (a named result set by `return nil, err`
// in a deferred or range-over-func closure; the compiler spills such results into cells). The cell must not escape
// otherwise.
func c03IsNilValue(v ssa.Value, depth int) bool {
	if v == nil {
		return false
	}
	if isNilConst(v) {
		return true
	}
	if depth > 4 {
		return false
	}
	switch x := v.(type) {
	case *ssa.Phi:
		for _, e := range x.Edges {
			if e != v && !c03IsNilValue(e, depth+1) {
				return false
			}
		}
		return true
	case *ssa.ChangeType:
		return c03IsNilValue(x.X, depth+1)
	case *ssa.UnOp:
		a, ok := x.X.(*ssa.Alloc)
		if !ok || x.Op != token.MUL || !c03PrivateCell(a) {
			return false
		}
		if c03DeferredNil(a, x) {
			return true
		}
		stores := c03ReachingStores(a, x)
		if sel, ok := c03ResumeStores(a, x); ok {
			stores = sel
		}
		for _, st := range stores {
			if !c03IsNilValue(st.Val, depth+1) {
				return false
			}
		}
		return true // no store reaches the load: the zero value
	}
	return false
}

// c03PrivateCell: local cell a is only loaded, stored to and captured by closures that only load it and store to it.
func c03PrivateCell(a *ssa.Alloc) bool {
	if a.Referrers() == nil {
		return false
	}
	for _, ref := range *a.Referrers() {
		switch u := ref.(type) {
		case *ssa.DebugRef:
		case *ssa.Store:
			if u.Addr != ssa.Value(a) {
				return false
			}
		case *ssa.UnOp:
			if u.Op != token.MUL {
				return false
			}
		case *ssa.MakeClosure:
			fn, _ := u.Fn.(*ssa.Function)
			if fn == nil {
				return false
			}
			for k, b := range u.Bindings {
				if b != ssa.Value(a) {
					continue
				}
				if k >= len(fn.FreeVars) || fn.FreeVars[k].Referrers() == nil {
					return false
				}
				for _, r2 := range *fn.FreeVars[k].Referrers() {
					switch w := r2.(type) {
					case *ssa.DebugRef:
					case *ssa.Store:
						if w.Addr != ssa.Value(fn.FreeVars[k]) {
							return false
						}
					case *ssa.UnOp:
						if w.Op != token.MUL {
							return false
						}
					default:
						return false
					}
				}
			}
		default:
			return false
		}
	}
	return true
}

// c03ResumeStores: the load of local cell a executes only when a state cell j holds the constant k (`if *j == k`), and
// the only places that store k into j are blocks of closures that, in the same block, also store into a: the load then
// sees those stores, not what the function itself put into the cell earlier. This is how go/ssa lowers a `return x, y`
// inside the body of a range-over-func loop: the body closure stores the results and a jump code and yields false, the
// enclosing function tests the jump code after the iterator returned and returns the stored results.
func c03ResumeStores(a *ssa.Alloc, load *ssa.UnOp) ([]*ssa.Store, bool) {
	f := load.Parent()
	for _, ft := range localFactsAt(load.Block()) {
		bo, ok := ft.Cond.(*ssa.BinOp)
		if !ok || bo.Op != token.EQL || !ft.Truth {
			continue
		}
		k, isK := constInt(bo.Y)
		jl, isL := bo.X.(*ssa.UnOp)
		if !isK || !isL || jl.Op != token.MUL {
			continue
		}
		j, isA := jl.X.(*ssa.Alloc)
		if !isA || j == a || !c03PrivateCell(j) || !c03PrivateCell(a) {
			continue
		}
		// the function itself never stores k into j, and what it stored into a happened before j was read
		own := false
		eachInstr(f, func(i ssa.Instruction) {
			st, isSt := i.(*ssa.Store)
			if !isSt {
				return
			}
			if st.Addr == ssa.Value(j) {
				if v, isC := constInt(st.Val); !isC || v == k {
					own = true
				}
			}
			if st.Addr == ssa.Value(a) && !dominatesInstr(st, jl) && canReach(st, load) {
				own = true
			}
		})
		if own {
			continue
		}
		var out []*ssa.Store
		nBlocks, good := 0, true
		for _, ref := range *j.Referrers() {
			mc, isMC := ref.(*ssa.MakeClosure)
			if !isMC {
				continue
			}
			fn, _ := mc.Fn.(*ssa.Function)
			if fn == nil {
				return nil, false
			}
			var fj, fa *ssa.FreeVar
			for n, b := range mc.Bindings {
				if n >= len(fn.FreeVars) {
					continue
				}
				if b == ssa.Value(j) {
					fj = fn.FreeVars[n]
				}
				if b == ssa.Value(a) {
					fa = fn.FreeVars[n]
				}
			}
			if fj == nil {
				continue
			}
			for _, b := range fn.Blocks {
				sets := false
				var mine []*ssa.Store
				for _, in := range b.Instrs {
					st, isSt := in.(*ssa.Store)
					if !isSt {
						continue
					}
					if st.Addr == ssa.Value(fj) {
						if v, isC := constInt(st.Val); !isC {
							good = false
						} else if v == k {
							sets = true
						}
					}
					if fa != nil && st.Addr == ssa.Value(fa) {
						mine = append(mine, st)
					}
				}
				if !sets {
					continue
				}
				nBlocks++
				if len(mine) == 0 {
					good = false
				} else {
					out = append(out, mine[len(mine)-1])
				}
			}
		}
		if good && nBlocks > 0 {
			return out, true
		}
	}
	return nil, false
}

// c03DeferredNil: the load of local cell a (a named result read for the return, after the deferred calls ran) sees nil
// because a deferred closure of the function clears the cell under conditions that are known to hold at this return:
//
//	defer func() { if err != nil { t = nil } }()   ...   if err != nil { return }
//
// The closure's store of nil lies behind a chain of nil tests of captured cells; each test is matched by a fact at the
// return about a load of the same cell that no store can follow.
func c03DeferredNil(a *ssa.Alloc, load *ssa.UnOp) bool {
	f := load.Parent()
	after := false
	for _, in := range load.Block().Instrs {
		if _, ok := in.(*ssa.RunDefers); ok {
			after = true
		}
		if in == ssa.Instruction(load) {
			break
		}
	}
	if !after || !c03PrivateCell(a) {
		return false
	}
	facts := localFactsAt(load.Block())
	hit := false
	eachInstr(f, func(i ssa.Instruction) {
		d, ok := i.(*ssa.Defer)
		if !ok || hit || !(d.Block() == load.Block() || d.Block().Dominates(load.Block())) {
			return
		}
		mc, ok := d.Call.Value.(*ssa.MakeClosure)
		if !ok {
			return
		}
		fn, _ := mc.Fn.(*ssa.Function)
		if fn == nil || len(fn.Blocks) == 0 {
			return
		}
		cellOf := func(v ssa.Value) *ssa.Alloc {
			for n, b := range mc.Bindings {
				if n < len(fn.FreeVars) && ssa.Value(fn.FreeVars[n]) == v {
					al, _ := b.(*ssa.Alloc)
					return al
				}
			}
			return nil
		}
		var clears []*ssa.BasicBlock
		onlyNil := true
		eachInstr(fn, func(j ssa.Instruction) {
			if st, isSt := j.(*ssa.Store); isSt && cellOf(st.Addr) == a {
				if isNilConst(st.Val) {
					clears = append(clears, st.Block())
				} else {
					onlyNil = false
				}
			}
		})
		if !onlyNil {
			return
		}
		for _, b := range clears {
			implied := true
			for cur := b; cur != fn.Blocks[0] && implied; cur = cur.Preds[0] {
				if len(cur.Preds) != 1 {
					implied = false
					break
				}
				p := cur.Preds[0]
				iff, isIf := p.Instrs[len(p.Instrs)-1].(*ssa.If)
				if !isIf || len(p.Succs) != 2 || p.Succs[0] == p.Succs[1] {
					implied = false
					break
				}
				var c *ssa.Alloc
				nn, isNil := nilFact(Fact{iff.Cond, p.Succs[0] == cur}, func(v ssa.Value) bool {
					u, isU := v.(*ssa.UnOp)
					if !isU || u.Op != token.MUL {
						return false
					}
					c = cellOf(u.X)
					return c != nil
				})
				if !isNil || c == nil || !c03PrivateCell(c) {
					implied = false
					break
				}
				// the same is known at the return, about a load of c that no store of the function follows
				known := false
				for _, ft := range facts {
					var pl *ssa.UnOp
					pn, isN := nilFact(ft, func(v ssa.Value) bool {
						u, isU := v.(*ssa.UnOp)
						if isU && u.Op == token.MUL && u.X == ssa.Value(c) {
							pl = u
							return true
						}
						return false
					})
					if !isN || pn != nn || pl == nil {
						continue
					}
					if !c03StoredBetween(c, pl, load) {
						known = true
					}
				}
				if !known {
					implied = false
				}
			}
			if implied {
				hit = true
			}
		}
	})
	return hit
}

// c03StoredBetween: some store of the function into local cell c can execute after THIS execution of `from` (a load of
// the cell) and before `to`: on a path from `from` to `to` that does not come back to from's block (coming back
// re-executes the load; a fact about the load then speaks of the new value).
func c03StoredBetween(c *ssa.Alloc, from, to ssa.Instruction) bool {
	home := from.Block()
	within := func(b *ssa.BasicBlock, lo, hi int) bool { // a store into c among b.Instrs[lo:hi]
		for k := lo; k < hi && k < len(b.Instrs); k++ {
			if st, ok := b.Instrs[k].(*ssa.Store); ok && st.Addr == ssa.Value(c) {
				return true
			}
		}
		return false
	}
	end := func(b *ssa.BasicBlock) int {
		if b == to.Block() {
			return instrIndex(to)
		}
		return len(b.Instrs)
	}
	// blocks from which `to` is reachable without entering home
	back := map[*ssa.BasicBlock]bool{to.Block(): true}
	stack := []*ssa.BasicBlock{to.Block()}
	for len(stack) > 0 {
		b := stack[len(stack)-1]
		stack = stack[:len(stack)-1]
		for _, p := range b.Preds {
			if p != home && !back[p] {
				back[p] = true
				stack = append(stack, p)
			}
		}
	}
	if home == to.Block() && instrIndex(from) < instrIndex(to) {
		return within(home, instrIndex(from)+1, instrIndex(to))
	}
	if within(home, instrIndex(from)+1, len(home.Instrs)) {
		return true
	}
	seen := map[*ssa.BasicBlock]bool{}
	for _, sx := range home.Succs {
		if sx != home && back[sx] && !seen[sx] {
			seen[sx] = true
			stack = append(stack, sx)
		}
	}
	for len(stack) > 0 {
		b := stack[len(stack)-1]
		stack = stack[:len(stack)-1]
		if within(b, 0, end(b)) {
			return true
		}
		if b == to.Block() {
			continue
		}
		for _, sx := range b.Succs {
			if sx != home && back[sx] && !seen[sx] {
				seen[sx] = true
				stack = append(stack, sx)
			}
		}
	}
	return false
}
