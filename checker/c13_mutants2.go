package main

// Overlay mutants of C13, round 2 of the hardening: the gates of ServeHTTP moved into a helper that hands back the
// admitted target (or an error, an ok flag, an enum verdict), and location builders that return the URL instead of
// storing it. `Expect: ""` keeps the property and must stay silent; the others are breaks in those shapes.

const (
	c13gates = "\tif t.AccessDeniedHTTP(r) {\n\t\thttp.Error(w, \"access denied\", http.StatusForbidden)\n\t\treturn\n\t}\n\n\tif !t.Authorized(r, w, p.AuthSchemes) {\n\t\thttp.Error(w, \"authorization failed\", http.StatusUnauthorized)\n\t\treturn\n\t}\n"

	c13lookupNoRoute = "\tt := p.Lookup(r)\n\n\tif t == nil {\n\t\tstatus := p.Config.NoRouteStatus\n\t\tif status < 100 || status > 999 {\n\t\t\tstatus = http.StatusNotFound\n\t\t}\n\t\tw.WriteHeader(status)\n\t\thtml := noroute.GetHTML()\n\t\tif html != \"\" {\n\t\t\tio.WriteString(w, html)\n\t\t}\n\t\treturn\n\t}\n\n"

	c13noRouteBody = "\t\tstatus := p.Config.NoRouteStatus\n\t\tif status < 100 || status > 999 {\n\t\t\tstatus = http.StatusNotFound\n\t\t}\n\t\tw.WriteHeader(status)\n\t\tif html := noroute.GetHTML(); html != \"\" {\n\t\t\tio.WriteString(w, html)\n\t\t}\n"

	c13lookupRedirect = "\t\t\t\tredirect := *target\n\t\t\t\tredirect.BuildRedirectURL(req.URL)\n\t\t\t\ttarget = &redirect\n"
)

// c13admitted: a helper that takes the looked-up target through both gates and returns it, or nil once the request
// has been answered; onDenied / onUnauth are what it returns after answering 403 / 401.
func c13admitted(onDenied, onUnauth string) []repl {
	return []repl{{c13keyDecl, "func (p *HTTPProxy) admitted(w http.ResponseWriter, r *http.Request, t *route.Target) *route.Target {\n\tif t.AccessDeniedHTTP(r) {\n\t\thttp.Error(w, \"access denied\", http.StatusForbidden)\n\t\treturn " + onDenied + "\n\t}\n\tif !t.Authorized(r, w, p.AuthSchemes) {\n\t\thttp.Error(w, \"authorization failed\", http.StatusUnauthorized)\n\t\treturn " + onUnauth + "\n\t}\n\treturn t\n}\n\n" + c13keyDecl}}
}

// c13admit2: lookup, no-route answer and gates in a helper with (target, ok) results.
func c13admit2(onUnauth string) []repl {
	return []repl{{c13keyDecl, "func (p *HTTPProxy) admit(w http.ResponseWriter, r *http.Request) (*route.Target, bool) {\n\tt := p.Lookup(r)\n\tif t == nil {\n" + c13noRouteBody + "\t\treturn nil, false\n\t}\n\tif t.AccessDeniedHTTP(r) {\n\t\thttp.Error(w, \"access denied\", http.StatusForbidden)\n\t\treturn nil, false\n\t}\n\tif ok := t.Authorized(r, w, p.AuthSchemes); !ok {\n\t\thttp.Error(w, \"authorization failed\", http.StatusUnauthorized)\n\t\treturn " + onUnauth + "\n\t}\n\treturn t, true\n}\n\n" + c13keyDecl}}
}

// c13gateErr: the gates in a helper that returns an error (sentinel variables) once it has answered.
func c13gateErr(onDenied string) []repl {
	return []repl{{c13keyDecl, "var (\n\terrAccessDenied = errors.New(\"access denied\")\n\terrUnauthorized = errors.New(\"authorization failed\")\n)\n\nfunc (p *HTTPProxy) checkAdmission(w http.ResponseWriter, r *http.Request, t *route.Target) error {\n\tif t.AccessDeniedHTTP(r) {\n\t\thttp.Error(w, errAccessDenied.Error(), http.StatusForbidden)\n\t\treturn " + onDenied + "\n\t}\n\tif !t.Authorized(r, w, p.AuthSchemes) {\n\t\thttp.Error(w, errUnauthorized.Error(), http.StatusUnauthorized)\n\t\treturn errUnauthorized\n\t}\n\treturn nil\n}\n\n" + c13keyDecl}}
}

// c13gateEnum: the gates in a helper with an enum verdict.
var c13gateEnum = []repl{{c13keyDecl, "type admission int\n\nconst (\n\tadmitted admission = iota\n\tdenied\n\tunauthorized\n)\n\nfunc (p *HTTPProxy) admission(w http.ResponseWriter, r *http.Request, t *route.Target) admission {\n\tswitch {\n\tcase t.AccessDeniedHTTP(r):\n\t\thttp.Error(w, \"access denied\", http.StatusForbidden)\n\t\treturn denied\n\tcase !t.Authorized(r, w, p.AuthSchemes):\n\t\thttp.Error(w, \"authorization failed\", http.StatusUnauthorized)\n\t\treturn unauthorized\n\t}\n\treturn admitted\n}\n\n" + c13keyDecl}}

// c13upstreamFor: gates and redirect answer in one helper that returns the target to proxy to, or nil once the
// request has been answered; afterRedirect is what it returns after the redirect answer.
func c13upstreamFor(afterRedirect string) []repl {
	return []repl{
		{c13redirectBlock, ""},
		{c13keyDecl, "func (p *HTTPProxy) upstreamFor(w http.ResponseWriter, r *http.Request, t *route.Target) *route.Target {\n\tswitch {\n\tcase t.AccessDeniedHTTP(r):\n\t\thttp.Error(w, \"access denied\", http.StatusForbidden)\n\t\treturn nil\n\tcase !t.Authorized(r, w, p.AuthSchemes):\n\t\thttp.Error(w, \"authorization failed\", http.StatusUnauthorized)\n\t\treturn nil\n\tcase t.RedirectCode != 0 && t.RedirectURL != nil:\n\t\thttp.Redirect(w, r, t.RedirectURL.String(), t.RedirectCode)\n\t\tif p.Stats.RedirectCounter != nil {\n\t\t\tp.Stats.RedirectCounter.With(\"code\", strconv.Itoa(t.RedirectCode)).Add(1)\n\t\t}\n\t\treturn " + afterRedirect + "\n\t}\n\treturn t\n}\n\n" + c13keyDecl},
	}
}

// c13pureBuilder: the location computed by a pure function of package route that returns it; pathFrom is the
// expression the $path replacement starts from.
func c13pureBuilder(pathFrom string) repl {
	return repl{c13lookupHostDecl, "func redirectLocation(t *Target, requestURL *url.URL) *url.URL {\n\tloc := &url.URL{Scheme: t.URL.Scheme, Host: t.URL.Host, Path: t.URL.Path, RawPath: t.URL.Path, RawQuery: t.URL.RawQuery}\n\tif strings.HasSuffix(loc.Host, \"$path\") {\n\t\tloc.Host = loc.Host[:len(loc.Host)-len(\"$path\")]\n\t\tloc.Path = \"$path\"\n\t\tloc.RawPath = \"$path\"\n\t}\n\tif strings.Contains(loc.Path, \"/$path\") {\n\t\tloc.Path = strings.Replace(loc.Path, \"/$path\", \"$path\", 1)\n\t\tloc.RawPath = strings.Replace(loc.RawPath, \"/$path\", \"$path\", 1)\n\t}\n\tif strings.Contains(loc.Path, \"$path\") {\n\t\tpath, rawPath := " + pathFrom + ", requestURL.RawPath\n\t\tif rawPath == \"\" {\n\t\t\trawPath = path\n\t\t}\n\t\tif t.StripPath != \"\" {\n\t\t\tpath = strings.TrimPrefix(path, t.StripPath)\n\t\t\trawPath = strings.TrimPrefix(rawPath, t.StripPath)\n\t\t}\n\t\tif t.PrependPath != \"\" {\n\t\t\tpath = t.PrependPath + path\n\t\t\trawPath = t.PrependPath + rawPath\n\t\t}\n\t\tloc.Path = strings.Replace(loc.Path, \"$path\", path, 1)\n\t\tloc.RawPath = strings.Replace(loc.RawPath, \"$path\", rawPath, 1)\n\t\tif loc.RawQuery == \"\" && requestURL.RawQuery != \"\" {\n\t\t\tloc.RawQuery = requestURL.RawQuery\n\t\t}\n\t}\n\tif loc.Path == \"\" {\n\t\tloc.Path = \"/\"\n\t}\n\tif strings.Contains(loc.Host, \"$host\") {\n\t\tloc.Host = strings.Replace(loc.Host, \"$host\", requestURL.Host, 1)\n\t}\n\treturn loc\n}\n\n" + c13lookupHostDecl}
}

// c13localLoc: Table.Lookup compares the location through a local before it stores it into the request's copy.
func c13localLoc(test, onSelf string) string {
	return "\t\t\t\tloc := redirectLocation(target, req.URL)\n\t\t\t\tif " + test + " {\n\t\t\t\t\tlog.Print(\"[INFO] Skipping redirect with same scheme, host and path\")\n" + onSelf + "\t\t\t\t\tcontinue\n\t\t\t\t}\n\t\t\t\tredirect := *target\n\t\t\t\tredirect.RedirectURL = loc\n\t\t\t\ttarget = &redirect\n"
}

const c13locTest = "loc.Scheme == req.Header.Get(\"X-Forwarded-Proto\") && loc.Host == req.Host && loc.Path == req.URL.Path"

// c13pointsBack: the self-redirect verdict computed by a predicate; test is its body's condition.
func c13pointsBack(body string) []repl {
	return []repl{{c13lookupHostDecl, "func pointsBack(loc *url.URL, req *http.Request) bool {\n" + body + "}\n\n" + c13lookupHostDecl}}
}

const (
	c13pointsBackIf   = "\t\t\t\tif pointsBack(target.RedirectURL, req) {\n\t\t\t\t\tlog.Print(\"[INFO] Skipping redirect with same scheme, host and path\")\n\t\t\t\t\ttarget = nil\n\t\t\t\t\tcontinue\n\t\t\t\t}\n"
	c13pointsBackExpr = "\treturn loc.Scheme == req.Header.Get(\"X-Forwarded-Proto\") && loc.Host == req.Host && loc.Path == req.URL.Path\n"
	c13pointsBackIfs  = "\tif loc.Scheme != req.Header.Get(\"X-Forwarded-Proto\") {\n\t\treturn false\n\t}\n\tif loc.Host != req.Host {\n\t\treturn false\n\t}\n\treturn loc.Path == req.URL.Path\n"
)

var c13round2Mutants = []mutant{
	// ---- G1: the gates in a helper that hands back the admitted target ----
	{Name: "benign: gates in a helper that returns the admitted target or nil", File: c13proxyFile, Old: c13gates,
		New: "\tif t = p.admitted(w, r, t); t == nil {\n\t\treturn\n\t}\n", More: c13admitted("nil", "nil"), Expect: ""},
	{Name: "benign: admitted target in a variable captured by a closure", File: c13proxyFile, Old: c13gates,
		New: "\tt = p.admitted(w, r, t)\n\tdefer func() {\n\t\tif t != nil && t.Timer != nil {\n\t\t\tt.Timer.Observe(0)\n\t\t}\n\t}()\n\tif t == nil {\n\t\treturn\n\t}\n", More: c13admitted("nil", "nil"), Expect: ""},
	{Name: "benign: admitted target in a captured variable, tested after an unrelated branch", File: c13proxyFile, Old: c13gates,
		New: "\tt = p.admitted(w, r, t)\n\tdefer func() {\n\t\tif t != nil && t.Timer != nil {\n\t\t\tt.Timer.Observe(0)\n\t\t}\n\t}()\n\tif p.Config.RequestID != \"\" {\n\t\tw.Header().Set(\"X-Request-Seen\", \"1\")\n\t}\n\tif t == nil {\n\t\treturn\n\t}\n", More: c13admitted("nil", "nil"), Expect: ""},
	{Name: "benign: lookup, no-route answer and gates in a helper with (target, ok) results", File: c13proxyFile, Old: c13lookupNoRoute + c13gates,
		New: "\tt, ok := p.admit(w, r)\n\tif !ok {\n\t\treturn\n\t}\n", More: c13admit2("nil, false"), Expect: ""},
	{Name: "benign: gates in a helper that returns a sentinel error", File: c13proxyFile, Old: c13gates,
		New: "\tif err := p.checkAdmission(w, r, t); err != nil {\n\t\treturn\n\t}\n", More: c13gateErr("errAccessDenied"), Expect: ""},
	{Name: "benign: gates in a helper with an enum verdict", File: c13proxyFile, Old: c13gates,
		New: "\tif p.admission(w, r, t) != admitted {\n\t\treturn\n\t}\n", More: c13gateEnum, Expect: ""},
	{Name: "benign: gates in a helper with an enum verdict, tested by a switch", File: c13proxyFile, Old: c13gates,
		New: "\tswitch p.admission(w, r, t) {\n\tcase denied, unauthorized:\n\t\treturn\n\t}\n", More: c13gateEnum, Expect: ""},
	{Name: "benign: gates and redirect answer in a helper that returns the target to proxy to", File: c13proxyFile, Old: c13gates,
		New: "\tif t = p.upstreamFor(w, r, t); t == nil {\n\t\treturn\n\t}\n", More: c13upstreamFor("nil"), Expect: ""},
	{Name: "admitting helper hands back the target after answering 403", File: c13proxyFile, Old: c13gates,
		New: "\tif t = p.admitted(w, r, t); t == nil {\n\t\treturn\n\t}\n", More: c13admitted("t", "nil"), Expect: "C13.G1"},
	{Name: "admitting helper hands back the target after answering 401", File: c13proxyFile, Old: c13gates,
		New: "\tif t = p.admitted(w, r, t); t == nil {\n\t\treturn\n\t}\n", More: c13admitted("nil", "t"), Expect: "C13.G1"},
	{Name: "admitting helper's nil is not looked at", File: c13proxyFile, Old: c13gates,
		New: "\tif a := p.admitted(w, r, t); a != nil {\n\t\tt = a\n\t}\n", More: c13admitted("nil", "nil"), Expect: "C13.G1"},
	{Name: "(target, ok) helper reports ok for an unauthorized request", File: c13proxyFile, Old: c13lookupNoRoute + c13gates,
		New: "\tt, ok := p.admit(w, r)\n\tif !ok {\n\t\treturn\n\t}\n", More: c13admit2("t, true"), Expect: "C13.G1"},
	{Name: "error-returning gate helper returns nil after answering 403", File: c13proxyFile, Old: c13gates,
		New: "\tif err := p.checkAdmission(w, r, t); err != nil {\n\t\treturn\n\t}\n", More: c13gateErr("nil"), Expect: "C13.G1"},
	{Name: "enum verdict compared with the wrong constant", File: c13proxyFile, Old: c13gates,
		New: "\tif p.admission(w, r, t) == denied {\n\t\treturn\n\t}\n", More: c13gateEnum, Expect: "C13.G1"},
	{Name: "helper answers the redirect and still returns the target to proxy to", File: c13proxyFile, Old: c13gates,
		New: "\tif t = p.upstreamFor(w, r, t); t == nil {\n\t\treturn\n\t}\n", More: c13upstreamFor("t"), Expect: "C13.G1"},

	// ---- E2 / P1 / L1 / L2: a builder that returns the location ----
	{Name: "benign: location computed by a pure function and stored by Lookup", File: c13tableFile, Old: c13lookupRedirect,
		New: "\t\t\t\tredirect := *target\n\t\t\t\tredirect.RedirectURL = redirectLocation(target, req.URL)\n\t\t\t\ttarget = &redirect\n", More: []repl{c13pureBuilder("requestURL.Path")}, Expect: ""},
	{Name: "benign: location compared through a local before it is stored", File: c13tableFile, Old: c13lookupRedirect + c13selfIf,
		New: c13localLoc(c13locTest, "\t\t\t\t\ttarget = nil\n"), More: []repl{c13pureBuilder("requestURL.Path")}, Expect: ""},
	{Name: "pure builder is given a URL rebuilt without RawPath", File: c13tableFile, Old: c13lookupRedirect,
		New: "\t\t\t\tredirect := *target\n\t\t\t\tredirect.RedirectURL = redirectLocation(target, &url.URL{Host: req.Host, Path: req.URL.Path, RawQuery: req.URL.RawQuery})\n\t\t\t\ttarget = &redirect\n", More: []repl{c13pureBuilder("requestURL.Path")}, Expect: "C13.E2"},
	{Name: "pure builder takes $path from the target URL", File: c13tableFile, Old: c13lookupRedirect,
		New: "\t\t\t\tredirect := *target\n\t\t\t\tredirect.RedirectURL = redirectLocation(target, req.URL)\n\t\t\t\ttarget = &redirect\n", More: []repl{c13pureBuilder("t.URL.Path")}, Expect: "C13.P1"},
	{Name: "local location: skipped redirect keeps the shared target", File: c13tableFile, Old: c13lookupRedirect + c13selfIf,
		New: c13localLoc(c13locTest, ""), More: []repl{c13pureBuilder("requestURL.Path")}, Expect: "C13.L1"},
	{Name: "local location: self-redirect test without the path", File: c13tableFile, Old: c13lookupRedirect + c13selfIf,
		New: c13localLoc("loc.Scheme == req.Header.Get(\"X-Forwarded-Proto\") && loc.Host == req.Host", "\t\t\t\t\ttarget = nil\n"), More: []repl{c13pureBuilder("requestURL.Path")}, Expect: "C13.L2"},

	// ---- L1 / L2: the self-redirect verdict computed by a predicate helper ----
	{Name: "benign: self-redirect verdict by a predicate helper", File: c13tableFile, Old: c13selfIf, New: c13pointsBackIf, More: c13pointsBack(c13pointsBackExpr), Expect: ""},
	{Name: "benign: self-redirect verdict by a predicate helper written as guard clauses", File: c13tableFile, Old: c13selfIf, New: c13pointsBackIf, More: c13pointsBack(c13pointsBackIfs), Expect: ""},
	{Name: "benign: negated predicate helper, skip in the else-less tail", File: c13tableFile, Old: c13selfIf,
		New:  "\t\t\t\tif !pointsBack(target.RedirectURL, req) {\n\t\t\t\t\tbreak\n\t\t\t\t}\n\t\t\t\ttarget = nil\n\t\t\t\tcontinue\n",
		More: c13pointsBack(c13pointsBackExpr), Expect: ""},
	{Name: "predicate helper ignores the path", File: c13tableFile, Old: c13selfIf, New: c13pointsBackIf,
		More: c13pointsBack("\treturn loc.Scheme == req.Header.Get(\"X-Forwarded-Proto\") && loc.Host == req.Host\n"), Expect: "C13.L2"},
	{Name: "predicate helper compares host names without the port", File: c13tableFile, Old: c13selfIf, New: c13pointsBackIf,
		More: c13pointsBack("\treturn loc.Scheme == req.Header.Get(\"X-Forwarded-Proto\") && loc.Hostname() == req.URL.Hostname() && loc.Path == req.URL.Path\n"), Expect: "C13.L2"},
	{Name: "predicate helper: skipped redirect kept", File: c13tableFile, Old: c13selfIf,
		New:  "\t\t\t\tif pointsBack(target.RedirectURL, req) {\n\t\t\t\t\tlog.Print(\"[INFO] Skipping redirect with same scheme, host and path\")\n\t\t\t\t\tcontinue\n\t\t\t\t}\n",
		More: c13pointsBack(c13pointsBackExpr), Expect: "C13.L1"},

	// ---- G1: the redirect answer as a small handler type ----
	{Name: "benign: redirect answer by a small http.Handler type holding the target", File: c13proxyFile, Old: c13redirectBlock,
		New:  "\tif t.RedirectCode != 0 && t.RedirectURL != nil {\n\t\tredirector{t, p.Stats.RedirectCounter}.ServeHTTP(w, r)\n\t\treturn\n\t}\n",
		More: []repl{{c13keyDecl, "type redirector struct {\n\tt       *route.Target\n\tcounter gkm.Counter\n}\n\nfunc (h redirector) ServeHTTP(w http.ResponseWriter, r *http.Request) {\n\thttp.Redirect(w, r, h.t.RedirectURL.String(), h.t.RedirectCode)\n\tif h.counter != nil {\n\t\th.counter.With(\"code\", strconv.Itoa(h.t.RedirectCode)).Add(1)\n\t}\n}\n\n" + c13keyDecl}}, Expect: ""},
	{Name: "small redirect handler type is used for every target with a location", File: c13proxyFile, Old: c13redirectBlock,
		New:  "\tif t.RedirectURL != nil {\n\t\tredirector{t, p.Stats.RedirectCounter}.ServeHTTP(w, r)\n\t\treturn\n\t}\n",
		More: []repl{{c13keyDecl, "type redirector struct {\n\tt       *route.Target\n\tcounter gkm.Counter\n}\n\nfunc (h redirector) ServeHTTP(w http.ResponseWriter, r *http.Request) {\n\thttp.Redirect(w, r, h.t.RedirectURL.String(), h.t.RedirectCode)\n\tif h.counter != nil {\n\t\th.counter.With(\"code\", strconv.Itoa(h.t.RedirectCode)).Add(1)\n\t}\n}\n\n" + c13keyDecl}}, Expect: "C13.G1"},

	// ---- C1: the option parsed by a helper with (code, error) results ----
	{Name: "benign: redirect option parsed by a helper with (code, error) results", File: c13routeFile, Old: c13parseBlock,
		New:  "\t\t\tif code, perr := parseRedirectCode(opts[\"redirect\"]); perr != nil {\n\t\t\t\tlog.Printf(\"[ERROR] %s\", perr)\n\t\t\t} else {\n\t\t\t\tt.RedirectCode = code\n\t\t\t}\n",
		More: []repl{{c13filterDecl, c13parseCodeErr("0", "0") + c13filterDecl}}, Expect: ""},
	{Name: "benign: (code, error) helper hands back Atoi's value with the error, caller stores only without error", File: c13routeFile, Old: c13parseBlock,
		New:  "\t\t\tif code, perr := parseRedirectCode(opts[\"redirect\"]); perr != nil {\n\t\t\t\tlog.Printf(\"[ERROR] %s\", perr)\n\t\t\t} else {\n\t\t\t\tt.RedirectCode = code\n\t\t\t}\n",
		More: []repl{{c13filterDecl, c13parseCodeErr("code", "code") + c13filterDecl}}, Expect: ""},
	{Name: "(code, error) helper hands back Atoi's value with the error, caller stores it anyway", File: c13routeFile, Old: c13parseBlock,
		New:  "\t\t\tcode, perr := parseRedirectCode(opts[\"redirect\"])\n\t\t\tif perr != nil {\n\t\t\t\tlog.Printf(\"[ERROR] %s\", perr)\n\t\t\t}\n\t\t\tt.RedirectCode = code\n",
		More: []repl{{c13filterDecl, c13parseCodeErr("code", "0") + c13filterDecl}}, Expect: "C13.C1"},
}

// c13parseCodeErr: a parse helper with (code, error) results; onSyntax / onRange are the codes it returns with the error.
func c13parseCodeErr(onSyntax, onRange string) string {
	return "func parseRedirectCode(s string) (int, error) {\n\tcode, err := strconv.Atoi(s)\n\tif err != nil {\n\t\treturn " + onSyntax + ", fmt.Errorf(\"redirect status code should be numeric in 3xx range. Got: %s\", s)\n\t}\n\tif code < 300 || code > 399 {\n\t\treturn " + onRange + ", fmt.Errorf(\"redirect status code should be in 3xx range. Got: %s\", s)\n\t}\n\treturn code, nil\n}\n\n"
}
