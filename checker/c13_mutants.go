package main

// Overlay mutants of C13 added while hardening the rules against behaviour-preserving refactoring: `Expect: ""` is a
// rewrite that keeps the property (must stay silent), the others are breaks in the refactored shapes.

const (
	c13proxyFile = "proxy/http_proxy.go"
	c13tableFile = "route/table.go"
	c13routeFile = "route/route.go"
	c13tgtFile   = "route/target.go"

	c13redirectIf    = "\tif t.RedirectCode != 0 && t.RedirectURL != nil {\n\t\thttp.Redirect(w, r, t.RedirectURL.String(), t.RedirectCode)\n"
	c13redirectBlock = "\tif t.RedirectCode != 0 && t.RedirectURL != nil {\n\t\thttp.Redirect(w, r, t.RedirectURL.String(), t.RedirectCode)\n\t\tif p.Stats.RedirectCounter != nil {\n\t\t\tp.Stats.RedirectCounter.With(\"code\", strconv.Itoa(t.RedirectCode)).Add(1)\n\t\t}\n\t\treturn\n\t}\n"

	c13parseBlock = "\t\t\tt.RedirectCode, err = strconv.Atoi(opts[\"redirect\"])\n\t\t\tif err != nil {\n\t\t\t\tt.RedirectCode = 0\n\t\t\t\tlog.Printf(\"[ERROR] redirect status code should be numeric in 3xx range. Got: %s\", opts[\"redirect\"])\n\t\t\t} else if t.RedirectCode < 300 || t.RedirectCode > 399 {\n\t\t\t\tt.RedirectCode = 0\n\t\t\t\tlog.Printf(\"[ERROR] redirect status code should be in 3xx range. Got: %s\", opts[\"redirect\"])\n\t\t\t}\n"

	c13selfIf = "\t\t\t\tif target.RedirectURL.Scheme == req.Header.Get(\"X-Forwarded-Proto\") &&\n\t\t\t\t\ttarget.RedirectURL.Host == req.Host &&\n\t\t\t\t\ttarget.RedirectURL.Path == req.URL.Path {\n\t\t\t\t\tlog.Print(\"[INFO] Skipping redirect with same scheme, host and path\")\n\t\t\t\t\ttarget = nil\n\t\t\t\t\tcontinue\n\t\t\t\t}\n"

	c13lookupBody = "\t\tif target = t.lookup(h, req.URL.Path, trace, pick, match); target != nil {\n\t\t\tif target.RedirectCode != 0 {\n\t\t\t\treq.URL.Host = req.Host\n\t\t\t\t// The target is shared between concurrent requests.\n\t\t\t\t// Build the redirect url on a copy which belongs to\n\t\t\t\t// this request only.\n\t\t\t\tredirect := *target\n\t\t\t\tredirect.BuildRedirectURL(req.URL)\n\t\t\t\ttarget = &redirect\n" + c13selfIf + "\t\t\t}\n\t\t\tbreak\n\t\t}\n"

	c13stripBlock   = "\t\tif t.StripPath != \"\" {\n\t\t\tif strings.HasPrefix(replacePath, t.StripPath) {\n\t\t\t\treplacePath = replacePath[len(t.StripPath):]\n\t\t\t}\n\t\t\tif strings.HasPrefix(replaceRawPath, t.StripPath) {\n\t\t\t\treplaceRawPath = replaceRawPath[len(t.StripPath):]\n\t\t\t}\n\t\t}\n"
	c13prependBlock = "\t\tif t.PrependPath != \"\" {\n\t\t\treplacePath = t.PrependPath + replacePath\n\t\t\treplaceRawPath = t.PrependPath + replaceRawPath\n\t\t}\n"
	c13stripPrepend = c13stripBlock + "\t\t// add prepend path\n" + c13prependBlock

	c13lookupHostDecl = "func (t Table) LookupHost(host string, pick picker) *Target {\n"
	c13keyDecl        = "func key(code int) string {\n"
	c13filterDecl     = "func (r *Route) filter(skip func(t *Target) bool) {\n"
)

// c13helperLookup: Table.Lookup's loop body as guard clauses around a helper; onSelf is what the helper returns for a
// redirect that points back at the request.
func c13helperLookup(name, onSelf string) []repl {
	return []repl{
		{c13lookupHostDecl, "func " + name + "(shared *Target, req *http.Request) *Target {\n\treq.URL.Host = req.Host\n\tcp := *shared\n\tcp.BuildRedirectURL(req.URL)\n\tif cp.RedirectURL.Scheme == req.Header.Get(\"X-Forwarded-Proto\") && cp.RedirectURL.Host == req.Host && cp.RedirectURL.Path == req.URL.Path {\n\t\treturn " + onSelf + "\n\t}\n\treturn &cp\n}\n\n" + c13lookupHostDecl},
	}
}

var c13moreMutants = []mutant{
	// ---- G1: shape of the redirect gate in ServeHTTP ----
	{Name: "benign: redirect gate as a tagless switch", File: c13proxyFile, Old: c13redirectBlock,
		New: "\tswitch {\n\tcase t.RedirectCode != 0 && t.RedirectURL != nil:\n\t\thttp.Redirect(w, r, t.RedirectURL.String(), t.RedirectCode)\n\t\tif p.Stats.RedirectCounter != nil {\n\t\t\tp.Stats.RedirectCounter.With(\"code\", strconv.Itoa(t.RedirectCode)).Add(1)\n\t\t}\n\t\treturn\n\t}\n", Expect: ""},
	{Name: "benign: redirect gate operands swapped", File: c13proxyFile, Old: c13redirectIf,
		New: "\tif t.RedirectURL != nil && 0 != t.RedirectCode {\n\t\thttp.Redirect(w, r, t.RedirectURL.String(), t.RedirectCode)\n", Expect: ""},
	{Name: "benign: redirect gate through a boolean local", File: c13proxyFile, Old: c13redirectIf,
		New: "\tisRedirect := t.RedirectCode != 0 && t.RedirectURL != nil\n\tif isRedirect {\n\t\thttp.Redirect(w, r, t.RedirectURL.String(), t.RedirectCode)\n", Expect: ""},
	{Name: "benign: redirect gate through a boolean local used later", File: c13proxyFile, Old: c13redirectIf,
		New: "\tisRedirect := t.RedirectCode != 0 && t.RedirectURL != nil\n\tr.Header.Del(\"X-Fabio-Internal\")\n\tif isRedirect {\n\t\thttp.Redirect(w, r, t.RedirectURL.String(), t.RedirectCode)\n", Expect: ""},
	{Name: "benign: redirect gate as code > 0, url and code in locals", File: c13proxyFile, Old: c13redirectIf,
		New: "\tif code, loc := t.RedirectCode, t.RedirectURL; code > 0 && loc != nil {\n\t\thttp.Redirect(w, r, loc.String(), code)\n", Expect: ""},
	{Name: "benign: redirect gate through a predicate helper", File: c13proxyFile, Old: c13redirectIf,
		New:  "\tif answersItself(t) {\n\t\thttp.Redirect(w, r, t.RedirectURL.String(), t.RedirectCode)\n",
		More: []repl{{c13keyDecl, "func answersItself(t *route.Target) bool {\n\treturn t.RedirectCode != 0 && t.RedirectURL != nil\n}\n\n" + c13keyDecl}}, Expect: ""},
	{Name: "benign: inverted guard, proxying in the else-less tail", File: c13proxyFile, Old: c13redirectBlock,
		New: "\tif !(t.RedirectCode == 0 || t.RedirectURL == nil) {\n\t\tdefer func() {\n\t\t\tif p.Stats.RedirectCounter != nil {\n\t\t\t\tp.Stats.RedirectCounter.With(\"code\", strconv.Itoa(t.RedirectCode)).Add(1)\n\t\t\t}\n\t\t}()\n\t\thttp.Redirect(w, r, t.RedirectURL.String(), t.RedirectCode)\n\t\treturn\n\t}\n", Expect: ""},
	{Name: "benign: answer through http.RedirectHandler", File: c13proxyFile, Old: "\t\thttp.Redirect(w, r, t.RedirectURL.String(), t.RedirectCode)\n",
		New: "\t\thttp.RedirectHandler(t.RedirectURL.String(), t.RedirectCode).ServeHTTP(w, r)\n", Expect: ""},
	{Name: "benign: gates and redirect answer in one helper with a boolean verdict", File: c13proxyFile,
		Old:  "\tif t.AccessDeniedHTTP(r) {\n\t\thttp.Error(w, \"access denied\", http.StatusForbidden)\n\t\treturn\n\t}\n\n\tif !t.Authorized(r, w, p.AuthSchemes) {\n\t\thttp.Error(w, \"authorization failed\", http.StatusUnauthorized)\n\t\treturn\n\t}\n",
		New:  "\tif p.answered(w, r, t) {\n\t\treturn\n\t}\n",
		More: []repl{{c13redirectBlock, ""}, {c13keyDecl, "func (p *HTTPProxy) answered(w http.ResponseWriter, r *http.Request, t *route.Target) bool {\n\tif t.AccessDeniedHTTP(r) {\n\t\thttp.Error(w, \"access denied\", http.StatusForbidden)\n\t\treturn true\n\t}\n\tif !t.Authorized(r, w, p.AuthSchemes) {\n\t\thttp.Error(w, \"authorization failed\", http.StatusUnauthorized)\n\t\treturn true\n\t}\n\tif t.RedirectCode == 0 || t.RedirectURL == nil {\n\t\treturn false\n\t}\n\thttp.Redirect(w, r, t.RedirectURL.String(), t.RedirectCode)\n\tif p.Stats.RedirectCounter != nil {\n\t\tp.Stats.RedirectCounter.With(\"code\", strconv.Itoa(t.RedirectCode)).Add(1)\n\t}\n\treturn true\n}\n\n" + c13keyDecl}}, Expect: ""},
	{Name: "benign: redirect helper receives location and code as values", File: c13proxyFile, Old: c13redirectBlock,
		New:  "\tif p.sendRedirect(w, r, t.RedirectURL, t.RedirectCode) {\n\t\treturn\n\t}\n",
		More: []repl{{c13keyDecl, "func (p *HTTPProxy) sendRedirect(w http.ResponseWriter, r *http.Request, loc *url.URL, code int) bool {\n\tif code == 0 || loc == nil {\n\t\treturn false\n\t}\n\thttp.Redirect(w, r, loc.String(), code)\n\tif p.Stats.RedirectCounter != nil {\n\t\tp.Stats.RedirectCounter.With(\"code\", strconv.Itoa(code)).Add(1)\n\t}\n\treturn true\n}\n\n" + c13keyDecl}}, Expect: ""},
	{Name: "redirect only for GET, other methods are proxied to the template", File: c13proxyFile, Old: c13redirectIf,
		New: "\tif t.RedirectCode != 0 && t.RedirectURL != nil && r.Method == \"GET\" {\n\t\thttp.Redirect(w, r, t.RedirectURL.String(), t.RedirectCode)\n", Expect: "C13.G1"},
	{Name: "redirect helper reports 'not answered' after answering", File: c13proxyFile, Old: c13redirectBlock,
		New:  "\tif p.redirected(w, r, t) {\n\t\treturn\n\t}\n",
		More: []repl{{c13keyDecl, "func (p *HTTPProxy) redirected(w http.ResponseWriter, r *http.Request, t *route.Target) bool {\n\tif t.RedirectCode == 0 || t.RedirectURL == nil {\n\t\treturn false\n\t}\n\thttp.Redirect(w, r, t.RedirectURL.String(), t.RedirectCode)\n\treturn p.Stats.RedirectCounter == nil\n}\n\n" + c13keyDecl}}, Expect: "C13.G1"},
	{Name: "redirect answered before the access gate", File: c13proxyFile, Old: c13redirectBlock, New: "",
		More: []repl{{"\tif t.AccessDeniedHTTP(r) {\n", c13redirectBlock + "\n\tif t.AccessDeniedHTTP(r) {\n"}}, Expect: "C13.G1"},
	{Name: "redirect answer with a fixed status", File: c13proxyFile, Old: "http.Redirect(w, r, t.RedirectURL.String(), t.RedirectCode)",
		New: "http.Redirect(w, r, t.RedirectURL.String(), http.StatusFound)", Expect: "C13.G1"},

	// ---- C1: where and how the redirect option is parsed ----
	{Name: "benign: code parsed into a local, one combined check", File: c13routeFile, Old: c13parseBlock,
		New: "\t\t\tcode, cerr := strconv.Atoi(opts[\"redirect\"])\n\t\t\tif cerr != nil || code < 300 || code > 399 {\n\t\t\t\tlog.Printf(\"[ERROR] redirect status code should be numeric in 3xx range. Got: %s\", opts[\"redirect\"])\n\t\t\t\tcode = 0\n\t\t\t}\n\t\t\tt.RedirectCode = code\n", Expect: ""},
	{Name: "benign: verdict of the checks in a boolean local", File: c13routeFile, Old: c13parseBlock,
		New: "\t\t\tcode, cerr := strconv.Atoi(opts[\"redirect\"])\n\t\t\tbad := cerr != nil || code < 300 || code > 399\n\t\t\tt.AuthScheme = \"\"\n\t\t\tif bad {\n\t\t\t\tlog.Printf(\"[ERROR] redirect status code should be numeric in 3xx range. Got: %s\", opts[\"redirect\"])\n\t\t\t\tcode = 0\n\t\t\t}\n\t\t\tt.RedirectCode = code\n", Expect: ""},
	{Name: "benign: ParseInt, positive range test, converted", File: c13routeFile, Old: c13parseBlock,
		New: "\t\t\tif n, cerr := strconv.ParseInt(opts[\"redirect\"], 10, 32); cerr == nil && n >= 300 && n <= 399 {\n\t\t\t\tt.RedirectCode = int(n)\n\t\t\t} else {\n\t\t\t\tlog.Printf(\"[ERROR] redirect status code should be numeric in 3xx range. Got: %s\", opts[\"redirect\"])\n\t\t\t}\n", Expect: ""},
	{Name: "benign: option parsing moved to a method of Target", File: c13routeFile, Old: c13parseBlock,
		New:  "\t\t\tt.setRedirect(opts[\"redirect\"])\n",
		More: []repl{{c13filterDecl, "func (t *Target) setRedirect(s string) {\n\tcode, err := strconv.Atoi(s)\n\tswitch {\n\tcase err != nil:\n\t\tlog.Printf(\"[ERROR] redirect status code should be numeric in 3xx range. Got: %s\", s)\n\tcase code < 300, code > 399:\n\t\tlog.Printf(\"[ERROR] redirect status code should be in 3xx range. Got: %s\", s)\n\tdefault:\n\t\tt.RedirectCode = code\n\t}\n}\n\n" + c13filterDecl}}, Expect: ""},
	{Name: "parse helper keeps Atoi's value on a range error", File: c13routeFile, Old: c13parseBlock,
		New:  "\t\t\tt.RedirectCode = redirectCode(opts[\"redirect\"])\n",
		More: []repl{{c13filterDecl, "func redirectCode(s string) int {\n\tcode, err := strconv.Atoi(s)\n\tif err != nil {\n\t\tlog.Printf(\"[ERROR] redirect status code should be numeric in 3xx range. Got: %s\", s)\n\t\treturn code\n\t}\n\tif code < 300 || code > 399 {\n\t\tlog.Printf(\"[ERROR] redirect status code should be in 3xx range. Got: %s\", s)\n\t\treturn 0\n\t}\n\treturn code\n}\n\n" + c13filterDecl}}, Expect: "C13.C1"},
	{Name: "local code checked with && instead of ||", File: c13routeFile, Old: c13parseBlock,
		New: "\t\t\tcode, cerr := strconv.Atoi(opts[\"redirect\"])\n\t\t\tif cerr != nil || (code < 300 && code > 399) {\n\t\t\t\tcode = 0\n\t\t\t}\n\t\t\tt.RedirectCode = code\n", Expect: "C13.C1"},

	// ---- P1: BuildRedirectURL ----
	{Name: "benign: query test with len and a local", File: c13tgtFile, Old: "\t\tif t.RedirectURL.RawQuery == \"\" && requestURL.RawQuery != \"\" {\n\t\t\tt.RedirectURL.RawQuery = requestURL.RawQuery\n\t\t}\n",
		New: "\t\tif q := requestURL.RawQuery; len(q) > 0 && len(t.RedirectURL.RawQuery) == 0 {\n\t\t\tt.RedirectURL.RawQuery = q\n\t\t}\n", Expect: ""},
	{Name: "benign: strip and prepend in a helper with CutPrefix", File: c13tgtFile, Old: c13stripPrepend,
		New:  "\t\treplacePath = t.rewritePath(replacePath)\n\t\treplaceRawPath = t.rewritePath(replaceRawPath)\n",
		More: []repl{{"func (t *Target) BuildRedirectURL(requestURL *url.URL) {\n", "func (t *Target) rewritePath(p string) string {\n\tif t.StripPath != \"\" {\n\t\tif rest, ok := strings.CutPrefix(p, t.StripPath); ok {\n\t\t\tp = rest\n\t\t}\n\t}\n\tif t.PrependPath != \"\" {\n\t\tp = t.PrependPath + p\n\t}\n\treturn p\n}\n\nfunc (t *Target) BuildRedirectURL(requestURL *url.URL) {\n"}}, Expect: ""},
	{Name: "benign: strip and prepend as parameters of a plain function", File: c13tgtFile, Old: c13stripPrepend,
		New:  "\t\treplacePath = rewritePath(replacePath, t.StripPath, t.PrependPath)\n\t\treplaceRawPath = rewritePath(replaceRawPath, t.StripPath, t.PrependPath)\n",
		More: []repl{{"func (t *Target) BuildRedirectURL(requestURL *url.URL) {\n", "func rewritePath(p, strip, prepend string) string {\n\tif strip != \"\" && strings.HasPrefix(p, strip) {\n\t\tp = p[len(strip):]\n\t}\n\tif prepend != \"\" {\n\t\tp = prepend + p\n\t}\n\treturn p\n}\n\nfunc (t *Target) BuildRedirectURL(requestURL *url.URL) {\n"}}, Expect: ""},
	{Name: "prepend before strip", File: c13tgtFile, Old: c13stripPrepend, New: c13prependBlock + c13stripBlock, Expect: "C13.P1"},
	{Name: "prepend before strip, with TrimPrefix", File: c13tgtFile, Old: c13stripPrepend,
		New: c13prependBlock + "\t\tif t.StripPath != \"\" {\n\t\t\treplacePath = strings.TrimPrefix(replacePath, t.StripPath)\n\t\t\treplaceRawPath = strings.TrimPrefix(replaceRawPath, t.StripPath)\n\t\t}\n", Expect: "C13.P1"},
	{Name: "query test on the request only, through a local location", File: c13tgtFile, Old: "\t\tif t.RedirectURL.RawQuery == \"\" && requestURL.RawQuery != \"\" {\n\t\t\tt.RedirectURL.RawQuery = requestURL.RawQuery\n\t\t}\n",
		New: "\t\tif loc := t.RedirectURL; requestURL.RawQuery != \"\" {\n\t\t\tloc.RawQuery = requestURL.RawQuery\n\t\t}\n", Expect: "C13.P1"},

	// ---- L1 / L2 / E2: the self-redirect skip of Table.Lookup ----
	{Name: "benign: self-redirect test inverted (De Morgan), operands swapped", File: c13tableFile, Old: c13selfIf,
		New: "\t\t\t\tif req.Header.Get(\"X-Forwarded-Proto\") != target.RedirectURL.Scheme ||\n\t\t\t\t\treq.Host != target.RedirectURL.Host ||\n\t\t\t\t\treq.URL.Path != target.RedirectURL.Path {\n\t\t\t\t\tbreak\n\t\t\t\t}\n\t\t\t\tlog.Print(\"[INFO] Skipping redirect with same scheme, host and path\")\n\t\t\t\ttarget = nil\n\t\t\t\tcontinue\n", Expect: ""},
	{Name: "benign: self-redirect skip without the log line, location in a local", File: c13tableFile, Old: c13selfIf,
		New: "\t\t\t\tif loc := redirect.RedirectURL; loc.Scheme == req.Header.Get(\"X-Forwarded-Proto\") && loc.Host == req.Host && loc.Path == req.URL.Path {\n\t\t\t\t\ttarget = nil\n\t\t\t\t\tcontinue\n\t\t\t\t}\n", Expect: ""},
	{Name: "benign: self-redirect verdict in a boolean local", File: c13tableFile, Old: c13selfIf,
		New: "\t\t\t\tsame := target.RedirectURL.Scheme == req.Header.Get(\"X-Forwarded-Proto\") &&\n\t\t\t\t\ttarget.RedirectURL.Host == req.Host &&\n\t\t\t\t\ttarget.RedirectURL.Path == req.URL.Path\n\t\t\t\tif same {\n\t\t\t\t\tlog.Print(\"[INFO] Skipping redirect with same scheme, host and path\")\n\t\t\t\t\ttarget = nil\n\t\t\t\t\tcontinue\n\t\t\t\t}\n", Expect: ""},
	{Name: "self-redirect verdict in a boolean local, joined with ||", File: c13tableFile, Old: c13selfIf,
		New: "\t\t\t\tsame := target.RedirectURL.Scheme == req.Header.Get(\"X-Forwarded-Proto\") &&\n\t\t\t\t\ttarget.RedirectURL.Host == req.Host ||\n\t\t\t\t\ttarget.RedirectURL.Path == req.URL.Path\n\t\t\t\tif same {\n\t\t\t\t\tlog.Print(\"[INFO] Skipping redirect with same scheme, host and path\")\n\t\t\t\t\ttarget = nil\n\t\t\t\t\tcontinue\n\t\t\t\t}\n", Expect: "C13.L2"},
	{Name: "benign: host compared with req.URL.Host (just set to req.Host)", File: c13tableFile, Old: "target.RedirectURL.Host == req.Host &&", New: "target.RedirectURL.Host == req.URL.Host &&", Expect: ""},
	{Name: "benign: redirect built on a copy of the request URL", File: c13tableFile, Old: "\t\t\t\tredirect.BuildRedirectURL(req.URL)\n",
		New: "\t\t\t\tru := *req.URL\n\t\t\t\tredirect.BuildRedirectURL(&ru)\n", Expect: ""},
	{Name: "benign: redirect built on a clone made by a helper", File: c13tableFile, Old: "\t\t\t\tredirect.BuildRedirectURL(req.URL)\n",
		New:  "\t\t\t\tredirect.BuildRedirectURL(cloneURL(req.URL))\n",
		More: []repl{{c13lookupHostDecl, "func cloneURL(u *url.URL) *url.URL {\n\tcp := *u\n\treturn &cp\n}\n\n" + c13lookupHostDecl}}, Expect: ""},
	{Name: "benign: loop body as guard clauses around a helper", File: c13tableFile, Old: c13lookupBody,
		New:  "\t\ttarget = t.lookup(h, req.URL.Path, trace, pick, match)\n\t\tif target == nil {\n\t\t\tcontinue\n\t\t}\n\t\tif target.RedirectCode == 0 {\n\t\t\tbreak\n\t\t}\n\t\tif target = requestRedirect(target, req); target != nil {\n\t\t\tbreak\n\t\t}\n",
		More: c13helperLookup("requestRedirect", "nil"), Expect: ""},
	{Name: "helper returns the copy for a self-redirect", File: c13tableFile, Old: c13lookupBody,
		New:  "\t\ttarget = t.lookup(h, req.URL.Path, trace, pick, match)\n\t\tif target == nil {\n\t\t\tcontinue\n\t\t}\n\t\tif target.RedirectCode == 0 {\n\t\t\tbreak\n\t\t}\n\t\tif target = requestRedirect(target, req); target != nil {\n\t\t\tbreak\n\t\t}\n",
		More: c13helperLookup("requestRedirect", "&cp"), Expect: "C13.L1"},
	{Name: "helper result kept apart: the shared redirect target survives the skip", File: c13tableFile, Old: c13lookupBody,
		New:  "\t\ttarget = t.lookup(h, req.URL.Path, trace, pick, match)\n\t\tif target == nil {\n\t\t\tcontinue\n\t\t}\n\t\tif target.RedirectCode == 0 {\n\t\t\tbreak\n\t\t}\n\t\tif own := requestRedirect(target, req); own != nil {\n\t\t\ttarget = own\n\t\t\tbreak\n\t\t}\n",
		More: c13helperLookup("requestRedirect", "nil"), Expect: "C13.L1"},
	{Name: "self-redirect test without the path", File: c13tableFile, Old: "\t\t\t\t\ttarget.RedirectURL.Host == req.Host &&\n\t\t\t\t\ttarget.RedirectURL.Path == req.URL.Path {\n",
		New: "\t\t\t\t\ttarget.RedirectURL.Host == req.Host {\n", Expect: "C13.L2"},
	{Name: "self-redirect test compares the location's host with itself", File: c13tableFile, Old: "target.RedirectURL.Host == req.Host &&", New: "target.RedirectURL.Host == redirect.RedirectURL.Host &&", Expect: "C13.L2"},
	{Name: "helper builds the location from a URL without RawPath", File: c13tableFile, Old: c13lookupBody,
		New:  "\t\ttarget = t.lookup(h, req.URL.Path, trace, pick, match)\n\t\tif target == nil {\n\t\t\tcontinue\n\t\t}\n\t\tif target.RedirectCode == 0 {\n\t\t\tbreak\n\t\t}\n\t\tif target = requestRedirect(target, req); target != nil {\n\t\t\tbreak\n\t\t}\n",
		More: append(c13helperLookup("requestRedirect", "nil"), repl{"\tcp.BuildRedirectURL(req.URL)\n", "\tcp.BuildRedirectURL(&url.URL{Host: req.Host, Path: req.URL.Path, RawQuery: req.URL.RawQuery})\n"}), Expect: "C13.E2"},
}
