package main

// C11, who a call denotes: static callees, the methods behind an interface of package cert's own making (a callback
// turned into an interface: pemLoader, a certificate sink, a KV lister), and function values kept in locals, captured
// variables, helper parameters, struct fields (a watcher type holding its load function) or package variables.

import (
	"go/token"
	"go/types"

	"golang.org/x/tools/go/ssa"
)

// c11ctx is the run the resolver works for; c11stores caches what is stored into fields and package variables.
var (
	c11ctx    *Ctx
	c11stores *c11storeIndex
	c11dyn    map[*ssa.Function][]c11dynSite
)

// c11dynSite: a call through an interface or a function value that may run fn; off is the number of leading parameters
// of fn that are not among the call's arguments (the receiver of an interface call).
type c11dynSite struct {
	site ssa.CallInstruction
	off  int
}

// c11dynSites: the dynamic call sites in package cert that may run fn (static sites are in gSites).
func c11dynSites(fn *ssa.Function) []c11dynSite {
	if c11ctx == nil {
		return nil
	}
	if c11dyn == nil {
		c11dyn = map[*ssa.Function][]c11dynSite{}
		for _, f := range c11ctx.fnsWhere("cert", func(*ssa.Function) bool { return true }) {
			eachInstr(f, func(i ssa.Instruction) {
				ci, ok := i.(ssa.CallInstruction)
				if !ok || ci.Common().StaticCallee() != nil {
					return
				}
				off := 0
				if ci.Common().IsInvoke() {
					off = 1
				}
				for _, g := range c11callees(ci.Common()) {
					c11dyn[g] = append(c11dyn[g], c11dynSite{ci, off})
				}
			})
		}
	}
	return c11dyn[fn]
}

type c11storeIndex struct {
	c       *Ctx
	fields  map[string][]*ssa.Store      // "struct type.field" -> stores into it
	globals map[*ssa.Global][]*ssa.Store // package variable -> stores into it
}

func c11useCtx(c *Ctx) {
	if c11ctx != c {
		c11ctx, c11stores, c11dyn = c, nil, nil
	}
}

func c11storeIdx() *c11storeIndex {
	if c11ctx == nil {
		return &c11storeIndex{fields: map[string][]*ssa.Store{}, globals: map[*ssa.Global][]*ssa.Store{}}
	}
	if c11stores != nil && c11stores.c == c11ctx {
		return c11stores
	}
	ix := &c11storeIndex{c: c11ctx, fields: map[string][]*ssa.Store{}, globals: map[*ssa.Global][]*ssa.Store{}}
	scan := append([]*ssa.Function{}, c11ctx.AllFns...)
	if sp := c11ctx.spkg("cert"); sp != nil {
		if initFn := sp.Func("init"); initFn != nil && len(initFn.Blocks) > 0 {
			scan = append(scan, initFn) // `var sleep = time.Sleep` is a store in the package initialiser
		}
	}
	for _, f := range scan {
		eachInstr(f, func(i ssa.Instruction) {
			st, ok := i.(*ssa.Store)
			if !ok {
				return
			}
			switch a := st.Addr.(type) {
			case *ssa.FieldAddr:
				k := c11fieldKey(a.X.Type(), a.Field)
				ix.fields[k] = append(ix.fields[k], st)
			case *ssa.Global:
				ix.globals[a] = append(ix.globals[a], st)
			}
		})
	}
	c11stores = ix
	return ix
}

// c11storesInto: v is a load of a struct field or of a package variable -> every store into it anywhere in the
// repository (nil, false when v is no such load).
func c11storesInto(v ssa.Value) ([]*ssa.Store, bool) {
	switch x := v.(type) {
	case *ssa.UnOp:
		if x.Op != token.MUL {
			return nil, false
		}
		switch a := x.X.(type) {
		case *ssa.FieldAddr:
			return c11storeIdx().fields[c11fieldKey(a.X.Type(), a.Field)], true
		case *ssa.Global:
			return c11storeIdx().globals[a], true
		}
	case *ssa.Field:
		return c11storeIdx().fields[c11fieldKey(x.X.Type(), x.Field)], true
	}
	return nil, false
}

// c11storedInto: the values of c11storesInto.
func c11storedInto(v ssa.Value) ([]ssa.Value, bool) {
	sts, ok := c11storesInto(v)
	var out []ssa.Value
	for _, st := range sts {
		out = append(out, st.Val)
	}
	return out, ok
}

// c11implementations: the repository methods an interface call may run — only for interfaces of the repository's own
// making whose method or type is unexported (pemLoader.loadPEM, certSink.SetCertificates); the exported extension points
// (Source, Issuer) are not entered.
func c11implementations(cc *ssa.CallCommon) []*ssa.Function { return c11implementationsOf(cc, false) }

// c11implementationsOf: wide also resolves the exported interfaces of the repository (used where only one question is
// asked of the targets, e.g. "may this call publish a set").
func c11implementationsOf(cc *ssa.CallCommon, wide bool) []*ssa.Function {
	if c11ctx == nil || cc == nil || !cc.IsInvoke() || cc.Method == nil || cc.Method.Pkg() == nil {
		return nil
	}
	iface, _ := cc.Value.Type().Underlying().(*types.Interface)
	if iface == nil {
		return nil
	}
	if named, ok := types.Unalias(cc.Value.Type()).(*types.Named); !wide && cc.Method.Exported() && (!ok || named.Obj().Exported()) {
		return nil
	}
	var out []*ssa.Function
	for _, f := range c11ctx.AllFns {
		recv := f.Signature.Recv()
		if recv == nil || f.Name() != cc.Method.Name() || f.Pkg == nil || f.Pkg.Pkg != cc.Method.Pkg() || f.Synthetic != "" {
			continue
		}
		if types.Implements(recv.Type(), iface) || types.Implements(types.NewPointer(recv.Type()), iface) {
			out = append(out, f)
		}
	}
	return out
}

// c11callees: the repository functions a call may denote (nil when it denotes none or cannot be resolved).
func c11callees(cc *ssa.CallCommon) []*ssa.Function {
	if cc == nil {
		return nil
	}
	if cc.IsInvoke() {
		return c11implementations(cc)
	}
	if sc := cc.StaticCallee(); sc != nil {
		if !isRepoFn(sc) {
			return nil
		}
		return []*ssa.Function{unwrap(sc)}
	}
	if _, isBuiltin := cc.Value.(*ssa.Builtin); isBuiltin {
		return nil
	}
	var out []*ssa.Function
	seen := map[*ssa.Function]bool{}
	for _, f := range c11funcsOf(cc.Value, 0) {
		if f != nil && !seen[f] && isRepoFn(f) {
			seen[f] = true
			out = append(out, f)
		}
	}
	return out
}

// c11calleeNames: the names of everything the call may denote, library functions included (`var sleep = time.Sleep`
// called as sleep(d) denotes time.Sleep). nil when unknown.
func c11calleeNames(cc *ssa.CallCommon) []string {
	if cc == nil {
		return nil
	}
	if cc.IsInvoke() || cc.StaticCallee() != nil {
		return []string{calleeName(cc)}
	}
	if _, isBuiltin := cc.Value.(*ssa.Builtin); isBuiltin {
		return []string{calleeName(cc)}
	}
	var out []string
	for _, f := range c11funcsOf(cc.Value, 0) {
		if f != nil {
			out = append(out, funcName(f))
		}
	}
	return out
}

// c11callsOnly: the call denotes only functions from names (and at least one).
func c11callsOnly(cc *ssa.CallCommon, names map[string]bool) bool {
	ns := c11calleeNames(cc)
	for _, n := range ns {
		if !names[n] {
			return false
		}
	}
	return len(ns) > 0
}
