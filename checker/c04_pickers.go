package main

// C04.R2 / C04.R3: the pickers. Own analysis of C04 (the shared runPickers of c06.go insists on the literal shape
// `len(r.wTargets) == 0` / `r.wTargets[i]` inside the registered function and on sync/atomic's function forms).
// Here every site is found by role in the REGION of a picker: a result is followed through locals, phis and helper
// results to the ring element it denotes; the emptiness test may be spelled on any value derived from the ring's
// length; the cursor is whatever field of Route the region advances with a sync/atomic read-modify-write, in any
// spelling of the atomic API.

import (
	"go/types"
	"strings"

	"golang.org/x/tools/go/ssa"
)

// c04pickers: the functions registered in route.Picker, plus every function of the picker signature
// func(*route.Route) *route.Target that is used as a value (however the registry is spelled).
func c04pickers(c *Ctx) []*ssa.Function {
	seen := map[*ssa.Function]bool{}
	var out []*ssa.Function
	add := func(f *ssa.Function) {
		if f != nil && !seen[f] && len(f.Blocks) > 0 && isRepoFn(f) {
			seen[f] = true
			out = append(out, f)
		}
	}
	for _, f := range registryFuncs(c, "route", "Picker") {
		add(f)
	}
	for _, f := range c.AllFns {
		if !gAddrTaken[f] {
			continue
		}
		sig := f.Signature
		var in types.Type
		switch {
		case sig.Recv() == nil && sig.Params().Len() == 1:
			in = sig.Params().At(0).Type()
		case sig.Recv() != nil && sig.Params().Len() == 0: // a method of *Route used through a method expression
			in = sig.Recv().Type()
		}
		if in == nil || sig.Results().Len() != 1 {
			continue
		}
		if _, isPtr := in.(*types.Pointer); !isPtr || !namedIs(in, "route.Route") {
			continue
		}
		if _, isPtr := sig.Results().At(0).Type().(*types.Pointer); !isPtr || !namedIs(sig.Results().At(0).Type(), "route.Target") {
			continue
		}
		add(f)
	}
	return out
}

// c04cursorKey: the cell is a field of Route.
func c04cursorKey(cell ssa.Value) (string, bool) {
	k, ok := atomicTargetKey(cell)
	if !ok || !strings.HasPrefix(k, "route.Route.") {
		return "", false
	}
	return k, true
}

func c04isRMW(kind string) bool { return kind == "add" || kind == "swap" || kind == "cas" }

// c04ringLen: v is the length of the ring (of a value derived from Route.wTargets), possibly converted.
func c04ringLen(v ssa.Value) bool {
	v = c04stripConv(v)
	call, ok := v.(*ssa.Call)
	if !ok || calleeName(&call.Call) != "builtin.len" || len(call.Call.Args) != 1 {
		return false
	}
	return c04fromRing(call.Call.Args[0])
}

// c04fromRing: the slice value is the ring: it derives from a load of Route.wTargets and not from Route.Targets.
func c04fromRing(v ssa.Value) bool {
	if derives(v, func(x ssa.Value) bool { return c04isField(x, "route.Route", "Targets") }) {
		return false
	}
	return derives(v, c04isRing)
}

// c04emptyRingAt: the facts on leaving block b (towards `to`) establish that the ring is empty: len(ring) == 0 in
// any spelling, on any value derived from the ring's length, directly or as the verdict of a boolean helper.
func c04emptyRingAt(b, to *ssa.BasicBlock) bool {
	for _, f := range c04edgeFacts(b, to) {
		if c04emptyFact(f, 0) {
			return true
		}
	}
	return false
}

func c04emptyFact(f Fact, depth int) bool {
	if c04isZeroFact(f, c04ringLen) {
		return true
	}
	// ring == nil is not emptiness (an empty non-nil ring would be indexed); a boolean helper `r.empty()` is
	call, ok := f.Cond.(*ssa.Call)
	if !ok || depth > 2 {
		return false
	}
	sc := call.Call.StaticCallee()
	if sc == nil || !isRepoFn(sc) || len(sc.Blocks) == 0 || sc.Signature.Results().Len() != 1 {
		return false
	}
	n, all := 0, true
	eachInstr(sc, func(i ssa.Instruction) {
		r, isR := i.(*ssa.Return)
		if !isR {
			return
		}
		if bv, isK := constBool(r.Results[0]); isK {
			if bv != f.Truth {
				return // this return yields the other verdict
			}
			n++
			if !c04emptyRingAt(r.Block(), nil) {
				all = false
			}
			return
		}
		n++
		if !c04emptyFact(Fact{r.Results[0], f.Truth}, depth+1) {
			all = false
		}
	})
	return n > 0 && all
}

func runC04Pickers(c *Ctx, r2, r3 string) {
	c04resolveRingField(c)
	pickers := c04pickers(c)
	c.atLeast(r2, "picker functions (registered in route.Picker / used as func(*Route) *Target values)", len(pickers), 2)
	nCursor := 0
	for _, p := range pickers {
		reg := c.region(p)
		// the cursor: Route fields the region operates on with sync/atomic, or stores to
		cursors := map[string]bool{}
		nRMW := 0
		eachInstrOf(reg, func(_ *ssa.Function, i ssa.Instruction) {
			if cc := callCommon(i); cc != nil {
				if kind, cell, _, ok := atomicOp(cc); ok {
					if k, ok := c04cursorKey(cell); ok {
						cursors[k] = true
						if c04isRMW(kind) {
							nRMW++
						}
					}
				}
			}
			if st, ok := i.(*ssa.Store); ok {
				if k, ok := c04cursorKey(st.Addr); ok {
					cursors[k] = true
				}
			}
		})
		isRMWCall := func(x ssa.Value) bool {
			call, ok := x.(*ssa.Call)
			if !ok {
				return false
			}
			kind, cell, _, ok := atomicOp(&call.Call)
			if !ok || !c04isRMW(kind) {
				return false
			}
			_, isCur := c04cursorKey(cell)
			return isCur
		}
		isOtherRead := func(x ssa.Value) bool {
			if u, ok := x.(*ssa.UnOp); ok {
				if k, ok := c04cursorKey(u.X); ok && cursors[k] {
					return true
				}
			}
			if call, ok := x.(*ssa.Call); ok {
				if kind, cell, _, ok := atomicOp(&call.Call); ok && kind == "load" {
					if k, ok := c04cursorKey(cell); ok && cursors[k] {
						return true
					}
				}
			}
			return false
		}
		isDraw := func(x ssa.Value) bool {
			call, ok := x.(*ssa.Call)
			if !ok {
				return false
			}
			n := calleeName(&call.Call)
			return !strings.HasPrefix(n, "builtin.") && !isTransparent(n)
		}
		nRet := 0
		eachInstr(p, func(i ssa.Instruction) {
			r, ok := i.(*ssa.Return)
			if !ok || len(r.Results) != 1 {
				return
			}
			for _, lf := range c04leaves(r.Results[0], r.Block()) {
				nRet++
				pos := r.Pos()
				if lf.v.Pos().IsValid() {
					pos = lf.v.Pos()
				}
				if isNilConst(lf.v) {
					c.check(r2, fnKey(p)+"|nil only for an empty ring", pos, c04emptyRingAt(lf.b, lf.to),
						"a picker may report no target only when the weighted ring is empty (len(Route.wTargets) == 0): otherwise a target with positive weight is not served")
					continue
				}
				var ia *ssa.IndexAddr
				if u, ok := lf.v.(*ssa.UnOp); ok {
					ia, _ = u.X.(*ssa.IndexAddr)
				}
				fromRing := ia != nil && c04fromRing(ia.X)
				c.check(r2, fnKey(p)+"|returns element of the weighted ring", pos, fromRing,
					"a picker must select from Route.wTargets (the ring built from the weights); selecting from Route.Targets ignores the configured weights and can pick a zero-weight target")
				if ia == nil {
					continue
				}
				idx := ia.Index
				usesRMW := derives(idx, isRMWCall)
				if len(cursors) == 0 {
					c.check(r3, fnKey(p)+"|slot drawn per lookup", pos, derives(idx, isDraw),
						"the slot index of a picker without a cursor must be drawn anew for every lookup (a random source); a fixed index sends all traffic to one target and starves the others")
					continue
				}
				if usesRMW {
					nCursor++
				}
				c.check(r3, fnKey(p)+"|index from RMW result", pos, usesRMW && !derives(idx, isOtherRead),
					"the slot index must be computed from the value returned by the atomic read-modify-write on the cursor ("+c04keys(cursors)+"); a separate (plain or atomic) read lets two concurrent requests draw the same slot, so targets no longer get their exact share")
			}
		})
		c.atLeast(r2, "results of picker "+fnKey(p), nRet, 1)
		// the cursor is advanced by the read-modify-write alone, wherever it is touched
		if len(cursors) > 0 {
			nBad := 0
			for _, f := range c.AllFns {
				ff := f
				eachInstr(f, func(i ssa.Instruction) {
					bad := ""
					if cc := callCommon(i); cc != nil {
						if kind, cell, _, ok := atomicOp(cc); ok && kind == "store" {
							if k, ok := c04cursorKey(cell); ok && cursors[k] {
								bad = "atomic store to " + k
							}
						}
					}
					if st, ok := i.(*ssa.Store); ok {
						if k, ok := c04cursorKey(st.Addr); ok && cursors[k] {
							if fa, isFA := st.Addr.(*ssa.FieldAddr); isFA {
								if _, isAlloc := fa.X.(*ssa.Alloc); isAlloc {
									return // a Route under construction
								}
							}
							bad = "plain store to " + k
						}
					}
					if bad != "" {
						nBad++
						c.check(r3, fnKey(ff)+"|cursor advanced only by the read-modify-write", i.Pos(), false,
							bad+": the round-robin cursor must change only through the atomic read-modify-write whose result selects the slot; an increment followed by a separate store is not one atomic step - concurrent lookups draw the same slot or lose increments, and a reset moves the cursor backwards, so targets no longer receive their share per cycle")
					}
				})
			}
			if nRMW > 0 && nBad == 0 {
				c.ob(r3, fnKey(p)+"|cursor advanced only by the read-modify-write", p.Pos(), OK, "")
			}
		}
	}
	c.atLeast(r3, "pickers whose slot index is the result of an atomic read-modify-write on a Route cursor (round-robin)", nCursor, 1)
}

func c04keys(m map[string]bool) string {
	var ks []string
	for k := range m {
		ks = append(ks, k)
	}
	// tiny sets; keep deterministic
	for i := range ks {
		for j := i + 1; j < len(ks); j++ {
			if ks[j] < ks[i] {
				ks[i], ks[j] = ks[j], ks[i]
			}
		}
	}
	return strings.Join(ks, ", ")
}
