package main

import (
	"go/token"
	"go/types"
	"strings"

	"golang.org/x/tools/go/ssa"
)

// C03 "a request is routed to the most specific matching route".
//
// The rules find their sites by ROLE (DESIGN 11.8), not by the name of the unexported function that happens to hold
// them today:
//
//	host comparison site   a string ==/!=, strings.EqualFold or glob.Glob.Match whose one operand derives from a key of a
//	                       range over a route.Table and whose other operand derives from http.Request.Host, executed
//	                       inside that range loop (directly or in a helper called from it)              -> N1, L1
//	host matcher           the function that holds such a loop                                           -> L1, O3
//	path-matcher call      a call of a value of signature func(string, *route.Route) bool                -> L1
//	route scan             the innermost loop around a path-matcher call (or slices.IndexFunc)           -> L1
//	reverser               a string->string function that reverses runes/bytes (or route.ReverseHostPort)
//	specificity sort       a sort of a []string in a function that also applies a reverser              -> O2
//	sort-all               a range over a route.Table whose body sorts the element of type route.Routes  -> O1
//	command appliers       functions with a route.Table and a *route.RouteDef parameter                  -> O1
//	glob-mode key loop     a host matcher's loop that holds a glob Match comparison site                 -> G1 (c03_round4.go)
//	memo load              a value taken out of a sync.Map / map / cache Get, or a remembered last result
//	                       in a package-level variable or field, on the way to the host keys tried by
//	                       Table.Lookup or to the target it returns                                      -> M1 (c03_round4.go), O2
//
// Named anchors are exported API only: route.NewTable, route.NewTableCustom, route.Table.Lookup.
//
// Values are followed with c03derives (c03_flow.go): like the shared derives, plus the dynamic call sites of closures
// and method values handed to a higher-order helper (`hostPatterns(tls, keep)`: the key reaches the comparison through
// keep's parameter), a deeper interprocedural budget, and - in the normaliser walk of N1 - the fields of small carrier
// structs of the repository (`requestHost{name, tls}`). A comparison that lives in such a closure runs in the key loop
// of the helper that calls it (c03EnclosingLoops follows the dynamic sites).
func init() {
	register(&propDef{
		ID:      "C03",
		Level:   "other",
		Explain: "Structural necessary conditions of 'most specific matching route'. Sites are found by role in package route (see c03.go), only exported API is named. (N1) wherever a key of a range over the route.Table is compared with / glob-matched against a value derived from the request's Host, both operands pass through the same normalisation: lower-casing on every path (or strings.EqualFold) and default-port removal (:80/:443) — an upper-case Host header or 'host:80' must match whether or not glob matching is enabled; (K1) every index/update/delete on a route.Table uses a canonical (lower-cased) host key; (O1) every function that hands out a freshly made route.Table (NewTable, NewTableCustom and whatever they delegate to) sorts each host's routes (a range over the table sorting every Routes value, possibly in a helper) after the last command was applied and before every return that carries a table, and both constructors reach the same set of command appliers; (O2) the list of host keys tried by Table.Lookup comes, on every path, out of a specificity sort: a sort of the []string in a function that applies the host reverser, in descending order; (O3) in Table.Lookup the host-less key \"\" is appended after the matched hosts (which derive from the table's keys) and the loop stops at the first host that yields a target (except the self-redirect continue); (L1) the table index feeding a route scan uses a lower-cased key (or a table key) at every call site; every route of the host is offered to the configured matcher (no path round the loop skips the matcher call, no pre-filter) and the scan ends at the first route the matcher accepts; the host matchers examine every key of the table (no exit from the key loop, no return of a host list that bypasses it). Not decided: that reversed-name order equals DNS specificity and the truth tables of the prefix/iprefix/glob matchers (string order, third-party glob semantics).",
		Run:     runC03,
		Trusted: []string{"sort.Sort orders by Less; Routes.Less orders paths descending", "gobwas/glob matching"},
		Mutants: c03Mutants,
	})
}

func runC03(c *Ctx) {
	c03BuildInvoked(c)
	c03BuildDynSites(c)
	r := c03FindRoles(c)
	c03CurRoles = r
	runC03N1(c, r)
	c03TableKeys(c)
	runC03O1(c)
	runC03O2O3(c, r)
	runC03L1(c, r)
}

// c03CurRoles: the roles found by the last runC03 (the round-4 rules of c03_round4.go run right after it on the same
// program and reuse them).
var c03CurRoles *c03Roles

// ---- small local helpers (copies of helpers that live in other properties' files, so that this file only depends
// on the shared core) ---------------------------------------------------------------------------------------------

func c03StripIface(v ssa.Value) ssa.Value {
	for {
		switch x := v.(type) {
		case *ssa.MakeInterface:
			v = x.X
		case *ssa.ChangeInterface:
			v = x.X
		default:
			return v
		}
	}
}

func c03RootPkg(f *ssa.Function) *ssa.Package {
	for f.Parent() != nil {
		f = f.Parent()
	}
	return f.Pkg
}

// c03PathWithin: is there a path from the start of block b to the start of block target that runs through blocks of
// body only (it stays inside the loop) and executes no instruction matching avoid (a static call of a repository
// helper that does it on all of its paths counts as doing it)?
func c03PathWithin(b, target *ssa.BasicBlock, body map[*ssa.BasicBlock]bool, avoid func(ssa.Instruction) bool) bool {
	avoid = liftMust(avoid, 1)
	seen := map[*ssa.BasicBlock]bool{b: true}
	stack := []*ssa.BasicBlock{b}
	for len(stack) > 0 {
		x := stack[len(stack)-1]
		stack = stack[:len(stack)-1]
		blocked := false
		for _, in := range x.Instrs {
			if avoid(in) {
				blocked = true
				break
			}
		}
		if blocked {
			continue
		}
		for _, sx := range x.Succs {
			if sx == target {
				return true
			}
			if body[sx] && !seen[sx] {
				seen[sx] = true
				stack = append(stack, sx)
			}
		}
	}
	return false
}

// c03ReachFromEntry: can instruction target be reached from f's entry without executing an instruction matching
// avoid (lifted through helpers that do it on every path)?
func c03ReachFromEntry(f *ssa.Function, target ssa.Instruction, avoid func(ssa.Instruction) bool) bool {
	if f == nil || len(f.Blocks) == 0 {
		return false
	}
	avoid = liftMust(avoid, 1)
	seen := map[*ssa.BasicBlock]bool{f.Blocks[0]: true}
	stack := []*ssa.BasicBlock{f.Blocks[0]}
	for len(stack) > 0 {
		x := stack[len(stack)-1]
		stack = stack[:len(stack)-1]
		blocked := false
		for _, in := range x.Instrs {
			if in == target {
				return true
			}
			if avoid(in) {
				blocked = true
				break
			}
		}
		if blocked {
			continue
		}
		for _, sx := range x.Succs {
			if !seen[sx] {
				seen[sx] = true
				stack = append(stack, sx)
			}
		}
	}
	return false
}

// c03SitesComplete: the static call sites of fn in the repository are all of its calls. fabio is a program, not a
// library: an exported function has no callers outside the loaded packages, so — unlike onlyStaticallyCalled — the
// name does not matter; what matters is that fn is never used as a value and cannot be reached through an interface.
func c03SitesComplete(fn *ssa.Function) bool {
	if fn == nil || gAddrTaken[fn] || len(gSites[fn]) == 0 {
		return false
	}
	if fn.Parent() != nil {
		return true
	}
	if fn.Name() == "init" || fn.Name() == "main" {
		return false
	}
	return c03NoIfaceReach(fn)
}

// c03NoIfaceReach: fn cannot be called through an interface: it is no method, or no interface of the repository's
// invoke sites with a method of this name is implemented by its receiver type.
func c03NoIfaceReach(fn *ssa.Function) bool {
	recv := fn.Signature.Recv()
	if recv == nil || !gInvoked[fn.Name()] {
		return true
	}
	// a method whose name is also called through some interface: reachable that way only if the receiver type
	// implements one of the interfaces the name is invoked on
	for _, it := range c03Invoked[fn.Name()] {
		if types.Implements(recv.Type(), it) || types.Implements(types.NewPointer(recv.Type()), it) {
			return false
		}
	}
	return true
}

// c03Invoked: method name -> the interface types it is invoked on anywhere in the repository (rebuilt per run).
var c03Invoked map[string][]*types.Interface

func c03BuildInvoked(c *Ctx) {
	c03Invoked = map[string][]*types.Interface{}
	seen := map[*types.Interface]map[string]bool{}
	for _, f := range c.AllFns {
		eachInstr(f, func(i ssa.Instruction) {
			cc := callCommon(i)
			if cc == nil || !cc.IsInvoke() {
				return
			}
			it, ok := cc.Value.Type().Underlying().(*types.Interface)
			if !ok {
				return
			}
			n := cc.Method.Name()
			if seen[it] == nil {
				seen[it] = map[string]bool{}
			}
			if !seen[it][n] {
				seen[it][n] = true
				c03Invoked[n] = append(c03Invoked[n], it)
			}
		})
	}
}

func c03IsString(t types.Type) bool {
	b, ok := t.Underlying().(*types.Basic)
	return ok && b.Info()&types.IsString != 0
}

func c03IsStringSlice(t types.Type) bool {
	s, ok := t.Underlying().(*types.Slice)
	return ok && c03IsString(s.Elem())
}

func c03IsTableT(t types.Type) bool { return namedIs(t, "route.Table") }

// c03Name: callee name without type arguments ("slices.SortFunc[[]string string]" -> "slices.SortFunc").
func c03Name(cc *ssa.CallCommon) string {
	n := calleeName(cc)
	if k := strings.Index(n, "["); k >= 0 {
		n = n[:k]
	}
	return n
}

// c03TableKey: v is the key delivered by a range over a route.Table.
func c03TableKey(v ssa.Value) (*ssa.Next, bool) {
	e, ok := v.(*ssa.Extract)
	if !ok || e.Index != 1 {
		return nil, false
	}
	nx, ok := e.Tuple.(*ssa.Next)
	if !ok || nx.IsString {
		return nil, false
	}
	rg, ok := nx.Iter.(*ssa.Range)
	if !ok {
		return nil, false
	}
	x := rg.X
	for {
		if c03IsTableT(x.Type()) {
			return nx, true
		}
		ct, ok := x.(*ssa.ChangeType)
		if !ok {
			return nil, false
		}
		x = ct.X
	}
}

// c03KeyList: v is the list of all keys of a route.Table collected by the standard library
// (slices.Sorted(maps.Keys(t)), slices.Collect(maps.Keys(t))).
func c03KeyList(v ssa.Value) bool {
	call, ok := v.(*ssa.Call)
	if !ok || len(call.Call.Args) == 0 {
		return false
	}
	switch c03Name(&call.Call) {
	case "slices.Sorted", "slices.Collect":
	default:
		return false
	}
	in, ok := call.Call.Args[0].(*ssa.Call)
	return ok && c03Name(&in.Call) == "maps.Keys" && len(in.Call.Args) == 1 && c03IsTableT(in.Call.Args[0].Type())
}

// c03LoopIterates: loop l takes its elements from list (an element address of list is computed in its body).
func c03LoopIterates(l *loop, list ssa.Value) bool {
	for b := range l.Body {
		for _, in := range b.Instrs {
			if ia, ok := in.(*ssa.IndexAddr); ok && c03ListBaseOf(ia.X) == list {
				return true
			}
		}
	}
	return false
}

func c03ListBaseOf(v ssa.Value) ssa.Value {
	for {
		switch x := v.(type) {
		case *ssa.ChangeType:
			v = x.X
		case *ssa.Slice:
			v = x.X
		default:
			return v
		}
	}
}

func c03InnermostLoop(f *ssa.Function, b *ssa.BasicBlock) *loop {
	var best *loop
	for _, l := range loopsOf(f) {
		if l.Body[b] && (best == nil || len(l.Body) < len(best.Body)) {
			best = l
		}
	}
	return best
}

// c03EnclosingLoops: the loops around instruction i, innermost first: in its own function and, for a helper or a
// closure, around its static call sites / the place where the closure is made (two levels up).
func c03EnclosingLoops(i ssa.Instruction, depth int) []*loop {
	f := i.Parent()
	if f == nil || i.Block() == nil {
		return nil
	}
	var out []*loop
	for _, l := range loopsOf(f) {
		if l.Body[i.Block()] {
			out = append(out, l)
		}
	}
	// innermost first
	for a := 0; a < len(out); a++ {
		for b := a + 1; b < len(out); b++ {
			if len(out[b].Body) < len(out[a].Body) {
				out[a], out[b] = out[b], out[a]
			}
		}
	}
	if depth >= 2 {
		return out
	}
	for _, s := range gSites[f] {
		if s.Parent() != f {
			out = append(out, c03EnclosingLoops(s, depth+1)...)
		}
	}
	// a closure (function value) handed to a higher-order helper runs where the helper calls its parameter
	for _, s := range c03DynSites[f] {
		if s.call.Parent() != f {
			out = append(out, c03EnclosingLoops(s.call, depth+1)...)
		}
	}
	if p := f.Parent(); p != nil {
		eachInstr(p, func(j ssa.Instruction) {
			if mc, ok := j.(*ssa.MakeClosure); ok && mc.Fn == f {
				out = append(out, c03EnclosingLoops(mc, depth+1)...)
			}
		})
	}
	return out
}

// ---- roles -----------------------------------------------------------------------------------------------------

type c03Site struct {
	fn       *ssa.Function
	instr    ssa.Instruction
	pat, req ssa.Value
	fold     bool  // strings.EqualFold: case-insensitive by construction
	loop     *loop // the key loop it runs in
}

type c03Roles struct {
	routeFns   []*ssa.Function
	sites      []c03Site
	keyLoops   []*loop // distinct key loops holding a site (the host matchers' loops)
	matcherFns map[*ssa.Function]bool
	matchCalls []*ssa.Call
	innerFns   map[*ssa.Function]bool // functions holding a path-matcher call
}

func c03FindRoles(c *Ctx) *c03Roles {
	r := &c03Roles{matcherFns: map[*ssa.Function]bool{}, innerFns: map[*ssa.Function]bool{}}
	r.routeFns = c.fnsWhere("route", func(*ssa.Function) bool { return true })
	c03findSites(r)
	c03findMatchCalls(r)
	return r
}

func c03loopFn(l *loop) *ssa.Function { return l.Head.Parent() }

// c03globPattern: the string a compiled glob was made from (argument of the call that produced it: a cache lookup
// or glob.Compile).
func c03globPattern(g ssa.Value) ssa.Value {
	var pat ssa.Value
	c03derives(g, func(y ssa.Value) bool {
		call, ok := y.(*ssa.Call)
		if !ok || call.Call.IsInvoke() {
			return false
		}
		sig := call.Call.Signature()
		if sig == nil {
			return false
		}
		yields := false
		for k := 0; k < sig.Results().Len(); k++ {
			if namedIs(sig.Results().At(k).Type(), "glob.Glob") {
				yields = true
			}
		}
		if !yields {
			return false
		}
		for _, a := range call.Call.Args {
			if c03IsString(a.Type()) {
				pat = a
				return true
			}
		}
		return false
	})
	return pat
}

func c03findSites(r *c03Roles) {
	isReqHost := func(x ssa.Value) bool { _, ok := fieldOf(x, "http.Request", "Host"); return ok }
	seenLoop := map[*ssa.BasicBlock]bool{}
	for _, f := range r.routeFns {
		ff := f
		eachInstr(f, func(i ssa.Instruction) {
			var a, b ssa.Value
			fold := false
			switch x := i.(type) {
			case *ssa.BinOp:
				if (x.Op != token.EQL && x.Op != token.NEQ) || !c03IsString(x.X.Type()) {
					return
				}
				a, b = x.X, x.Y
			case *ssa.Call:
				switch {
				case c03Name(&x.Call) == "strings.EqualFold" && len(x.Call.Args) == 2:
					a, b, fold = x.Call.Args[0], x.Call.Args[1], true
				case x.Call.IsInvoke() && x.Call.Method.Name() == "Match" && len(x.Call.Args) == 1 && c03IsString(x.Call.Args[0].Type()):
					// g.Match(host): the pattern side is the string the glob was compiled from
					b = x.Call.Args[0]
					a = c03globPattern(x.Call.Value)
					if a == nil {
						return
					}
				default:
					return
				}
			default:
				return
			}
			// where does the key come from?
			keyOf := func(v ssa.Value) (head *ssa.BasicBlock, list ssa.Value, ok bool) {
				pred := func(x ssa.Value) bool {
					if nx, isKey := c03TableKey(x); isKey {
						head, ok = nx.Block(), true
						return true
					}
					if c03KeyList(x) {
						list, ok = x, true
						return true
					}
					return false
				}
				if !c03derives(v, pred) {
					derivesThroughRepo(v, pred)
				}
				return
			}
			fromReq := func(v ssa.Value) bool { return c03derives(v, isReqHost) || derivesThroughRepo(v, isReqHost) }
			var pat, req ssa.Value
			var head *ssa.BasicBlock
			var list ssa.Value
			if h, l, ok := keyOf(a); ok && fromReq(b) {
				pat, req, head, list = a, b, h, l
			} else if h, l, ok := keyOf(b); ok && fromReq(a) {
				pat, req, head, list = b, a, h, l
			} else {
				return
			}
			// the comparison must run inside the key loop (this excludes comparisons of values that merely descend
			// from a table entry, like a target's redirect URL)
			var kl *loop
			for _, l := range c03EnclosingLoops(i, 0) {
				if (list != nil && c03LoopIterates(l, list)) || (list == nil && l.Head == head) {
					kl = l
					break
				}
			}
			if kl == nil {
				return
			}
			r.sites = append(r.sites, c03Site{fn: ff, instr: i, pat: pat, req: req, fold: fold, loop: kl})
			if !seenLoop[kl.Head] {
				seenLoop[kl.Head] = true
				r.keyLoops = append(r.keyLoops, kl)
				r.matcherFns[c03loopFn(kl)] = true
			}
		})
	}
}

// ---- N1 --------------------------------------------------------------------------------------------------------

// c03nf: what is known about a string on its way to a comparison. lower: on EVERY path the value went through
// strings.ToLower (or is a lower-case constant). port: on SOME path a default port was cut off.
type c03nf struct{ lower, port bool }

type c03normKey struct {
	v   ssa.Value
	ctx ssa.CallInstruction
}

type c03normer struct {
	state  map[c03normKey]int // 1 = in progress
	done   map[c03normKey]c03nf
	fstate map[c03normKey]int // walkField: 1 = in progress
	stack  []ssa.CallInstruction
	hops   int
}

func c03Norm(v ssa.Value) c03nf {
	n := &c03normer{state: map[c03normKey]int{}, done: map[c03normKey]c03nf{}}
	return n.walk(v, 0)
}

func c03defaultPortConst(v ssa.Value, withColon bool) bool {
	if phi, isPhi := v.(*ssa.Phi); isPhi {
		// port := ":80"; if tls { port = ":443" }
		for _, e := range phi.Edges {
			if _, isK := e.(*ssa.Const); !isK || !c03defaultPortConst(e, withColon) {
				return false
			}
		}
		return len(phi.Edges) > 0
	}
	s, ok := constString(v)
	if !ok {
		return false
	}
	if withColon {
		return s == ":80" || s == ":443"
	}
	return s == "80" || s == "443" || s == ":80" || s == ":443"
}

// c03mentionsDefaultPort: f (or a closure of it) tests a string against the default ports.
func c03mentionsDefaultPort(f *ssa.Function) bool {
	hit := false
	for _, g := range withAnon(f) {
		eachInstr(g, func(i ssa.Instruction) {
			switch x := i.(type) {
			case *ssa.BinOp:
				if c03defaultPortConst(x.X, false) || c03defaultPortConst(x.Y, false) {
					hit = true
				}
			default:
				if cc := callCommon(i); cc != nil {
					for _, a := range cc.Args {
						if c03defaultPortConst(a, false) {
							hit = true
						}
					}
				}
			}
		})
	}
	return hit
}

func (n *c03normer) all(vs []ssa.Value, d int) c03nf {
	out := c03nf{lower: true}
	if len(vs) == 0 {
		return c03nf{}
	}
	for _, v := range vs {
		r := n.walk(v, d+1)
		out.lower = out.lower && r.lower
		out.port = out.port || r.port
	}
	return out
}

func (n *c03normer) walk(v ssa.Value, d int) (result c03nf) {
	if v == nil || d > 40 {
		return c03nf{}
	}
	var top ssa.CallInstruction
	if len(n.stack) > 0 {
		top = n.stack[len(n.stack)-1]
	}
	k := c03normKey{v, top}
	if n.state[k] == 1 {
		return c03nf{lower: true} // cycle through a phi: neutral
	}
	if r, ok := n.done[k]; ok {
		return r
	}
	n.state[k] = 1
	defer func() { n.state[k] = 0; n.done[k] = result }()

	callee := func(call *ssa.Call, idx int) c03nf {
		sc := call.Call.StaticCallee()
		if sc == nil || !isRepoFn(sc) || len(sc.Blocks) == 0 || n.hops >= 6 {
			return c03nf{}
		}
		n.hops++
		n.stack = append(n.stack, ssa.CallInstruction(call))
		defer func() { n.hops--; n.stack = n.stack[:len(n.stack)-1] }()
		var res []ssa.Value
		eachInstr(sc, func(i ssa.Instruction) {
			if r, ok := i.(*ssa.Return); ok && idx < len(r.Results) {
				res = append(res, r.Results[idx])
			}
		})
		out := n.all(res, d)
		if c03mentionsDefaultPort(sc) {
			out.port = true
		}
		return out
	}
	stdlib := func(call *ssa.Call, idx int) (c03nf, bool) {
		args := call.Call.Args
		switch c03Name(&call.Call) {
		case "strings.ToLower":
			r := n.walk(args[0], d+1)
			r.lower = true
			return r, true
		case "strings.TrimSuffix", "strings.CutSuffix":
			if idx != 0 {
				return c03nf{}, true
			}
			r := n.walk(args[0], d+1)
			if c03defaultPortConst(args[1], true) {
				r.port = true
			}
			return r, true
		case "strings.TrimSpace", "strings.TrimRight", "strings.TrimLeft", "strings.Trim", "strings.TrimPrefix", "strings.TrimFunc", "strings.Clone":
			return n.walk(args[0], d+1), true
		case "net.SplitHostPort":
			if idx != 0 {
				return c03nf{}, true
			}
			r := n.walk(args[0], d+1)
			if c03mentionsDefaultPort(call.Parent()) {
				r.port = true
			}
			return r, true
		}
		return c03nf{}, false
	}

	switch x := v.(type) {
	case *ssa.Const:
		if s, ok := constString(x); ok {
			return c03nf{lower: s == strings.ToLower(s)}
		}
		return c03nf{}
	case *ssa.Call:
		if r, ok := stdlib(x, 0); ok {
			return r
		}
		return callee(x, 0)
	case *ssa.Extract:
		if call, ok := x.Tuple.(*ssa.Call); ok {
			if r, ok := stdlib(call, x.Index); ok {
				return r
			}
			return callee(call, x.Index)
		}
		return c03nf{} // a range key, a map lookup ...: the raw origin
	case *ssa.Phi:
		return n.all(x.Edges, d)
	case *ssa.Slice:
		r := n.walk(x.X, d+1)
		for _, ft := range factsAt(x.Block()) {
			if call, ok := ft.Cond.(*ssa.Call); ok && ft.Truth && c03Name(&call.Call) == "strings.HasSuffix" && c03defaultPortConst(call.Call.Args[1], true) {
				r.port = true
			}
		}
		return r
	case *ssa.BinOp:
		if x.Op == token.ADD {
			return n.all([]ssa.Value{x.X, x.Y}, d)
		}
		return c03nf{}
	case *ssa.ChangeType:
		return n.walk(x.X, d+1)
	case *ssa.Convert:
		if c03IsString(x.X.Type()) {
			return n.walk(x.X, d+1)
		}
		return c03nf{}
	case *ssa.Field:
		if c03RepoStruct(x.X.Type()) {
			return n.walkField(x.X, x.Field, d+1)
		}
		return c03nf{}
	case *ssa.UnOp:
		if x.Op != token.MUL {
			return c03nf{}
		}
		if fa, ok := x.X.(*ssa.FieldAddr); ok && c03RepoStruct(fa.X.Type()) {
			// a field of a small carrier struct of the repository (`requestHost{name, tls}`): what is put there
			return n.walkField(fa.X, fa.Field, d+1)
		}
		cell := x.X
		if fv, ok := cell.(*ssa.FreeVar); ok {
			// a captured variable: the cell bound where the closure is made
			fn := fv.Parent()
			idx := -1
			for k, w := range fn.FreeVars {
				if w == fv {
					idx = k
				}
			}
			if p := fn.Parent(); p != nil && idx >= 0 {
				eachInstr(p, func(i ssa.Instruction) {
					if mc, ok := i.(*ssa.MakeClosure); ok && mc.Fn == fn && idx < len(mc.Bindings) {
						cell = mc.Bindings[idx]
					}
				})
			}
		}
		if a, ok := cell.(*ssa.Alloc); ok {
			var vals []ssa.Value
			for _, ref := range *a.Referrers() {
				if st, ok := ref.(*ssa.Store); ok && st.Addr == a {
					vals = append(vals, st.Val)
				}
			}
			return n.all(vals, d)
		}
		return c03nf{} // a field (req.Host), an element: the raw origin
	case *ssa.Parameter:
		fn := x.Parent()
		idx := -1
		for k, p := range fn.Params {
			if p == x {
				idx = k
			}
		}
		if idx < 0 {
			return c03nf{}
		}
		if top != nil && top.Common().StaticCallee() == fn {
			n.stack = n.stack[:len(n.stack)-1]
			defer func() { n.stack = append(n.stack, top) }()
			if idx < len(top.Common().Args) {
				return n.walk(top.Common().Args[idx], d+1)
			}
			return c03nf{}
		}
		sites, complete := c03SitesOf(fn)
		if top != nil || n.hops >= 6 || !complete {
			return c03nf{}
		}
		// the comparison lives in a helper (or in a closure handed to a higher-order helper): what every caller passes
		var vals []ssa.Value
		for _, s := range sites {
			a := c03ArgFor(s, fn, idx)
			if a == nil {
				return c03nf{}
			}
			vals = append(vals, a)
		}
		n.hops++
		defer func() { n.hops-- }()
		return n.all(vals, d)
	}
	return c03nf{}
}

// c03RepoStruct: t is (a pointer to) a named struct type declared in the repository.
func c03RepoStruct(t types.Type) bool {
	if p, ok := t.Underlying().(*types.Pointer); ok {
		t = p.Elem()
	}
	nt, ok := t.(*types.Named)
	if !ok || nt.Obj().Pkg() == nil || !strings.HasPrefix(nt.Obj().Pkg().Path(), repoMod) {
		return false
	}
	_, isStruct := nt.Underlying().(*types.Struct)
	return isStruct
}

// walkField: what is known about field `field` of struct value (or pointer to struct) sv: the values stored into
// that field wherever the struct is built - in a local cell, in a constructor whose result it is, at the call sites
// that pass it as an argument. Flow-insensitive over the stores; an origin that cannot be followed is the raw origin.
func (n *c03normer) walkField(sv ssa.Value, field int, d int) c03nf {
	if sv == nil || d > 40 {
		return c03nf{}
	}
	var top ssa.CallInstruction
	if len(n.stack) > 0 {
		top = n.stack[len(n.stack)-1]
	}
	k := c03normKey{sv, top}
	if n.fstate == nil {
		n.fstate = map[c03normKey]int{}
	}
	if n.fstate[k] == 1 {
		return c03nf{lower: true}
	}
	n.fstate[k] = 1
	defer func() { n.fstate[k] = 0 }()
	join := func(rs []c03nf) c03nf {
		if len(rs) == 0 {
			return c03nf{}
		}
		out := c03nf{lower: true}
		for _, r := range rs {
			out.lower = out.lower && r.lower
			out.port = out.port || r.port
		}
		return out
	}
	fromCell := func(a ssa.Value) c03nf {
		var rs []c03nf
		refs := a.Referrers()
		if refs == nil {
			return c03nf{}
		}
		for _, ref := range *refs {
			switch u := ref.(type) {
			case *ssa.Store:
				if u.Addr == a {
					rs = append(rs, n.walkField(u.Val, field, d+1))
				}
			case *ssa.FieldAddr:
				if u.X != a || u.Field != field {
					continue
				}
				for _, r2 := range *u.Referrers() {
					if st, ok := r2.(*ssa.Store); ok && st.Addr == ssa.Value(u) {
						rs = append(rs, n.walk(st.Val, d+1))
					}
				}
			}
		}
		return join(rs)
	}
	viaCall := func(call *ssa.Call, idx int) c03nf {
		sc := call.Call.StaticCallee()
		if sc == nil || !isRepoFn(sc) || len(sc.Blocks) == 0 || n.hops >= 6 {
			return c03nf{}
		}
		n.hops++
		n.stack = append(n.stack, ssa.CallInstruction(call))
		defer func() { n.hops--; n.stack = n.stack[:len(n.stack)-1] }()
		var rs []c03nf
		eachInstr(sc, func(i ssa.Instruction) {
			if r, ok := i.(*ssa.Return); ok && idx < len(r.Results) {
				rs = append(rs, n.walkField(r.Results[idx], field, d+1))
			}
		})
		return join(rs)
	}
	switch x := sv.(type) {
	case *ssa.Alloc:
		return fromCell(x)
	case *ssa.UnOp:
		if x.Op != token.MUL {
			return c03nf{}
		}
		if _, isAlloc := x.X.(*ssa.Alloc); isAlloc {
			return fromCell(x.X)
		}
		if fv, isFV := x.X.(*ssa.FreeVar); isFV {
			return n.walkField(fv, field, d+1)
		}
		return c03nf{}
	case *ssa.FreeVar:
		fn := x.Parent()
		idx := -1
		for k, w := range fn.FreeVars {
			if w == x {
				idx = k
			}
		}
		var cell ssa.Value
		if p := fn.Parent(); p != nil && idx >= 0 {
			eachInstr(p, func(i ssa.Instruction) {
				if mc, ok := i.(*ssa.MakeClosure); ok && mc.Fn == fn && idx < len(mc.Bindings) {
					cell = mc.Bindings[idx]
				}
			})
		}
		if a, ok := cell.(*ssa.Alloc); ok {
			saved := n.stack
			n.stack = nil
			defer func() { n.stack = saved }()
			return fromCell(a)
		}
		return c03nf{}
	case *ssa.Phi:
		var rs []c03nf
		for _, e := range x.Edges {
			rs = append(rs, n.walkField(e, field, d+1))
		}
		return join(rs)
	case *ssa.ChangeType:
		return n.walkField(x.X, field, d+1)
	case *ssa.Call:
		return viaCall(x, 0)
	case *ssa.Extract:
		if call, ok := x.Tuple.(*ssa.Call); ok {
			return viaCall(call, x.Index)
		}
		return c03nf{}
	case *ssa.Parameter:
		fn := x.Parent()
		idx := -1
		for k, p := range fn.Params {
			if p == x {
				idx = k
			}
		}
		if idx < 0 {
			return c03nf{}
		}
		if top != nil && top.Common().StaticCallee() == fn {
			n.stack = n.stack[:len(n.stack)-1]
			defer func() { n.stack = append(n.stack, top) }()
			if idx < len(top.Common().Args) {
				return n.walkField(top.Common().Args[idx], field, d+1)
			}
			return c03nf{}
		}
		sites, complete := c03SitesOf(fn)
		if top != nil || n.hops >= 6 || !complete {
			return c03nf{}
		}
		n.hops++
		defer func() { n.hops-- }()
		var rs []c03nf
		for _, s := range sites {
			a := c03ArgFor(s, fn, idx)
			if a == nil {
				return c03nf{}
			}
			rs = append(rs, n.walkField(a, field, d+1))
		}
		return join(rs)
	}
	return c03nf{}
}

func c03nfStr(x c03nf, fold bool) string {
	var s []string
	if x.lower || fold {
		s = append(s, "lower")
	}
	if x.port {
		s = append(s, "defaultport")
	}
	if len(s) == 0 {
		return "none"
	}
	return strings.Join(s, "+")
}

func runC03N1(c *Ctx, r *c03Roles) {
	for _, s := range r.sites {
		pc, rc := c03Norm(s.pat), c03Norm(s.req)
		ok := (s.fold || (pc.lower && rc.lower)) && rc.port && pc.port == rc.port
		c.check("C03.N1", fnKey(c03loopFn(s.loop))+"|request host and pattern normalised alike", s.instr.Pos(), ok,
			"the route's host pattern is normalised with ["+c03nfStr(pc, s.fold)+"] but the request host with ["+c03nfStr(rc, s.fold)+"]: hosts are case-insensitive and the default port is insignificant, so both operands must be lower-cased (on every path) and port-stripped — otherwise 'Host: EXAMPLE.com' (or example.com:80) misses its host-specific routes in this matcher")
	}
	c.atLeast("C03.N1", "comparisons of a table key with the request host inside a range over the route.Table", len(r.sites), 2)
}

// derivesThroughRepo: like derives, but also through calls of repo functions (normalisers) and Get-style lookups.
// (Older and coarser than derives; kept because other properties' rules call it.)
func derivesThroughRepo(v ssa.Value, pred func(ssa.Value) bool) bool {
	seen := map[ssa.Value]bool{}
	var walk func(x ssa.Value, d int) bool
	walk = func(x ssa.Value, d int) bool {
		if x == nil || seen[x] || d > 10 {
			return false
		}
		seen[x] = true
		if pred(x) {
			return true
		}
		switch y := x.(type) {
		case *ssa.Call:
			if y.Call.StaticCallee() != nil && (isRepoFn(y.Call.StaticCallee()) || isTransparent(calleeName(&y.Call))) {
				for _, a := range y.Call.Args {
					if walk(a, d+1) {
						return true
					}
				}
			}
		case *ssa.Phi:
			for _, e := range y.Edges {
				if walk(e, d+1) {
					return true
				}
			}
		case *ssa.Slice:
			return walk(y.X, d+1)
		case *ssa.UnOp:
			return walk(y.X, d+1)
		case *ssa.FieldAddr:
			return walk(y.X, d+1)
		case *ssa.IndexAddr:
			return walk(y.X, d+1)
		case *ssa.Extract:
			return walk(y.Tuple, d+1)
		case *ssa.BinOp:
			return walk(y.X, d+1) || walk(y.Y, d+1)
		}
		return false
	}
	return walk(v, 0)
}
