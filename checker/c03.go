package main

import (
	"go/token"
	"strings"

	"golang.org/x/tools/go/ssa"
)

func init() {
	register(&propDef{
		ID:      "C03",
		Level:   "other",
		Explain: "Structural necessary conditions of 'most specific matching route': (N1) in every Table method that selects host keys for a request, the request-host operand and the pattern operand of the comparison / glob match pass through the same normaliser chain (lower-casing and default-port removal) — an upper-case Host header must match whether or not glob matching is enabled; (K1) every index/update/delete on a route.Table uses a canonical (lower-cased) host key; (O1) both table constructors sort each host's routes (sort.Sort on every Routes value) on every successful return and dispatch the same command set; (O2) each host matcher returns its host list through the reverse-host sort; (O3) in Table.Lookup the host-less key \"\" is appended after the matched hosts and the loop stops at the first host that yields a target (except the self-redirect continue); (L1) Table.lookup lower-cases its key and returns at the first route the matcher accepts, 'no targets' yielding nil, and the host matchers compare against every key of the table. (L1, extended) every route of the host is offered to the configured matcher: no path from the loop body back to the loop head skips the match call (no pre-filter); Not decided: that reversed-name order equals DNS specificity and the truth tables of the prefix/iprefix/glob matchers (string order, third-party glob semantics).",
		Run:     runC03,
		Trusted: []string{"sort.Sort orders by Less; Routes.Less orders paths descending", "gobwas/glob matching"},
		Mutants: []mutant{
			{Name: "length pre-filter before the matcher", File: "route/table.go", Old: "\t\tif match(path, r) {", New: "\t\tif len(r.Path) > len(path) {\n\t\t\tcontinue\n\t\t}\n\t\tif match(path, r) {", Expect: "C03.L1"},

			{Name: "no-glob matcher compares the raw request host", File: "route/table.go", Old: "\thost := normalizeHost(req.Host, req.TLS != nil)\n\n\tfor pattern := range t {", New: "\thost := normalizeHostNoLower(req.Host, req.TLS != nil)\n\n\tfor pattern := range t {", Expect: "C03.N1"},
			{Name: "glob matcher does not strip the default port of the request", File: "route/table.go", Old: "\thost := normalizeHost(req.Host, req.TLS != nil)\n\tfor pattern := range t {", New: "\thost := strings.ToLower(req.Host)\n\tfor pattern := range t {", Expect: "C03.N1"},
			{Name: "lookup with the raw host", File: "route/table.go", Old: "\thost = strings.ToLower(host) // routes are always added lowercase\n", New: "", Expect: "C03.K1"},
			{Name: "custom constructor does not sort", File: "route/table.go", Old: "\t// Sort the route table for each hostname\n\tfor _, h := range t {\n\t\tsort.Sort(h)\n\t}\n\n\treturn t, nil\n}\n\n// addRoute", New: "\treturn t, nil\n}\n\n// addRoute", Expect: "C03.O1"},
			{Name: "host list returned unsorted", File: "route/table.go", Old: "\thosts = sortHostsReverseHostPort(hosts)\n\treturn\n}\n\n// Issue 548 - Added separate func", New: "\treturn\n}\n\n// Issue 548 - Added separate func", Expect: "C03.O2"},
			{Name: "host-less routes tried first", File: "route/table.go", Old: "\thosts = append(hosts, \"\")\n\tfor _, h := range hosts {", New: "\thosts = append([]string{\"\"}, hosts...)\n\tfor _, h := range hosts {", Expect: "C03.O3"},
			{Name: "lookup keeps searching after the first match", File: "route/table.go", Old: "\t\t\tif trace != \"\" {\n\t\t\t\tlog.Printf(\"[TRACE] %s Match %s%s\", trace, r.Host, r.Path)\n\t\t\t}\n\t\t\treturn target", New: "\t\t\tif trace != \"\" {\n\t\t\t\tlog.Printf(\"[TRACE] %s Match %s%s\", trace, r.Host, r.Path)\n\t\t\t}\n\t\t\tlast = target\n\t\t\tcontinue", Expect: "C03.L1",
				More: []repl{{"\thost = strings.ToLower(host) // routes are always added lowercase\n", "\tvar last *Target\n\tdefer func() { _ = last }()\n\thost = strings.ToLower(host) // routes are always added lowercase\n"}}},
			{Name: "benign: normaliser inlined on both sides", File: "route/table.go", Old: "\t\tnormpat := normalizeHost(pattern, req.TLS != nil)\n\t\tif normpat == host {", New: "\t\tnormpat := strings.ToLower(normalizeHostNoLower(pattern, req.TLS != nil))\n\t\tif normpat == host {", Expect: ""},
		},
	})
}

func runC03(c *Ctx) {
	runC03N1(c)
	runTableKeys(c, "C03.K1")
	runC03O1(c)
	runC03O2O3L1(c)
}

// normalisers applied to a value on its way from `from`: the set of repo normaliser functions and
// strings.ToLower it passes through (order-insensitive signature).
func normChain(c *Ctx, v ssa.Value, depth int) map[string]bool {
	out := map[string]bool{}
	var walk func(x ssa.Value, d int)
	seen := map[ssa.Value]bool{}
	walk = func(x ssa.Value, d int) {
		if x == nil || seen[x] || d > 8 {
			return
		}
		seen[x] = true
		switch y := x.(type) {
		case *ssa.Call:
			n := calleeName(&y.Call)
			switch {
			case n == "strings.ToLower":
				out["lower"] = true
				walk(y.Call.Args[0], d+1)
			case y.Call.StaticCallee() != nil && isRepoFn(y.Call.StaticCallee()):
				// expand the callee: which normalisers does its result pass through?
				sc := y.Call.StaticCallee()
				sub := map[string]bool{}
				eachInstr(sc, func(i ssa.Instruction) {
					if r, ok := i.(*ssa.Return); ok && len(r.Results) > 0 {
						for k := range normChain(c, r.Results[0], depth+1) {
							sub[k] = true
						}
					}
				})
				for k := range sub {
					out[k] = true
				}
				// strips the default port? (slices off ":80"/":443" suffixes)
				strips := false
				eachInstr(sc, func(i ssa.Instruction) {
					if cc := callCommon(i); cc != nil && calleeName(cc) == "strings.HasSuffix" {
						if s, ok := constString(cc.Args[1]); ok && (s == ":80" || s == ":443") {
							strips = true
						}
					}
				})
				if strips {
					out["defaultport"] = true
				}
				for _, a := range y.Call.Args {
					walk(a, d+1)
				}
			}
		case *ssa.Phi:
			for _, e := range y.Edges {
				walk(e, d+1)
			}
		case *ssa.Slice:
			walk(y.X, d+1)
		case *ssa.Parameter:
			// parameter of a normaliser being expanded: stop
		}
	}
	walk(v, 0)
	return out
}

func chainStr(m map[string]bool) string {
	var s []string
	for _, k := range []string{"lower", "defaultport"} {
		if m[k] {
			s = append(s, k)
		}
	}
	if len(s) == 0 {
		return "none"
	}
	return strings.Join(s, "+")
}

func runC03N1(c *Ctx) {
	n := 0
	for _, f := range c.AllFns {
		if f.Signature.Recv() == nil || !namedIs(f.Signature.Recv().Type(), "route.Table") || len(f.Params) < 2 {
			continue
		}
		if typeStr(f.Params[1].Type()) != "*net/http.Request" {
			continue
		}
		// does it range over the receiver (host patterns)?
		ranges := false
		eachInstr(f, func(i ssa.Instruction) {
			if rg, ok := i.(*ssa.Range); ok && rg.X == f.Params[0] {
				ranges = true
			}
		})
		if !ranges {
			continue
		}
		// comparisons: pattern-side operand derives from the range key, request-side from req.Host
		fromKey := func(v ssa.Value) bool {
			return derives(v, func(x ssa.Value) bool {
				e, ok := x.(*ssa.Extract)
				if !ok {
					return false
				}
				nx, ok := e.Tuple.(*ssa.Next)
				return ok && e.Index == 1 && !nx.IsString
			}) || derivesThroughRepo(v, func(x ssa.Value) bool {
				e, ok := x.(*ssa.Extract)
				if !ok {
					return false
				}
				_, ok = e.Tuple.(*ssa.Next)
				return ok && e.Index == 1
			})
		}
		fromReqHost := func(v ssa.Value) bool {
			return derivesThroughRepo(v, func(x ssa.Value) bool { _, ok := fieldOf(x, "http.Request", "Host"); return ok })
		}
		eachInstr(f, func(i ssa.Instruction) {
			var a, b ssa.Value
			switch x := i.(type) {
			case *ssa.BinOp:
				if x.Op != token.EQL && x.Op != token.NEQ {
					return
				}
				a, b = x.X, x.Y
			case *ssa.Call:
				if !x.Call.IsInvoke() || x.Call.Method.Name() != "Match" {
					return
				}
				// g.Match(host): pattern side is the compiled glob's source pattern
				b = x.Call.Args[0]
				// the glob comes from globCache.Get(normpat)
				derives(x.Call.Value, func(y ssa.Value) bool {
					if call, ok := y.(*ssa.Call); ok && call.Call.StaticCallee() != nil && call.Call.StaticCallee().Name() == "Get" && len(call.Call.Args) == 2 {
						a = call.Call.Args[1]
						return true
					}
					return false
				})
				if a == nil {
					return
				}
			default:
				return
			}
			var pat, req ssa.Value
			switch {
			case fromKey(a) && fromReqHost(b):
				pat, req = a, b
			case fromKey(b) && fromReqHost(a):
				pat, req = b, a
			default:
				return
			}
			n++
			pc, rc := normChain(c, pat, 0), normChain(c, req, 0)
			c.check("C03.N1", fnKey(f)+"|request host and pattern normalised alike", i.Pos(), chainStr(pc) == chainStr(rc) && pc["lower"],
				"the route's host pattern is normalised with ["+chainStr(pc)+"] but the request host with ["+chainStr(rc)+"]: hosts are case-insensitive and the default port is insignificant, so both operands must be lower-cased and port-stripped — otherwise 'Host: EXAMPLE.com' (or example.com:80) misses its host-specific routes in this matcher")
		})
	}
	c.atLeast("C03.N1", "host comparisons in the table's host matchers", n, 2)
}

// derivesThroughRepo: like derives, but also through calls of repo functions (normalisers) and Get-style lookups.
func derivesThroughRepo(v ssa.Value, pred func(ssa.Value) bool) bool {
	seen := map[ssa.Value]bool{}
	var walk func(x ssa.Value, d int) bool
	walk = func(x ssa.Value, d int) bool {
		if x == nil || seen[x] || d > 10 {
			return false
		}
		seen[x] = true
		if pred(x) {
			return true
		}
		switch y := x.(type) {
		case *ssa.Call:
			if y.Call.StaticCallee() != nil && (isRepoFn(y.Call.StaticCallee()) || isTransparent(calleeName(&y.Call))) {
				for _, a := range y.Call.Args {
					if walk(a, d+1) {
						return true
					}
				}
			}
		case *ssa.Phi:
			for _, e := range y.Edges {
				if walk(e, d+1) {
					return true
				}
			}
		case *ssa.Slice:
			return walk(y.X, d+1)
		case *ssa.UnOp:
			return walk(y.X, d+1)
		case *ssa.FieldAddr:
			return walk(y.X, d+1)
		case *ssa.IndexAddr:
			return walk(y.X, d+1)
		case *ssa.Extract:
			return walk(y.Tuple, d+1)
		case *ssa.BinOp:
			return walk(y.X, d+1) || walk(y.Y, d+1)
		}
		return false
	}
	return walk(v, 0)
}

func runC03O1(c *Ctx) {
	var sets []string
	for _, name := range []string{"NewTable", "NewTableCustom"} {
		f := c.fn("route", name)
		if !c.need("C03.O1", f, "route."+name) {
			continue
		}
		// sort loop: a range over the table being built whose body calls sort.* on the element
		var sortLoopHead *ssa.BasicBlock
		for _, l := range loopsOf(f) {
			isRangeOverTable := false
			for _, in := range l.Head.Instrs {
				if nx, ok := in.(*ssa.Next); ok {
					if rg, ok := nx.Iter.(*ssa.Range); ok && namedIs(rg.X.Type(), "route.Table") {
						isRangeOverTable = true
					}
				}
			}
			if !isRangeOverTable {
				continue
			}
			for b := range l.Body {
				for _, in := range b.Instrs {
					if cc := callCommon(in); cc != nil {
						switch calleeName(cc) {
						case "sort.Sort", "sort.Stable", "slices.SortFunc", "slices.SortStableFunc", "sort.Slice", "sort.SliceStable":
							if namedIs(stripIface(cc.Args[0]).Type(), "route.Routes") {
								sortLoopHead = l.Head
							}
						}
					}
				}
			}
		}
		n := 0
		eachInstr(f, func(i ssa.Instruction) {
			r, ok := i.(*ssa.Return)
			if !ok || len(r.Results) != 2 || isNilConst(r.Results[0]) {
				return
			}
			n++
			c.check("C03.O1", "route."+name+"|routes of every host sorted before the table is returned", r.Pos(), sortLoopHead != nil && sortLoopHead.Dominates(r.Block()),
				"lookup returns the first route whose path matches; 'longest matching path wins' therefore needs every host's routes sorted (descending path) before the table is handed out")
		})
		c.atLeast("C03.O1", "successful returns of route."+name, n, 1)
		// dispatch set
		var cmds []string
		for _, m := range []string{"addRoute", "delRoute", "weighRoute"} {
			callee := c.method("route", "Table", m)
			eachInstr(f, func(i ssa.Instruction) {
				if staticCalleeIs(i, callee) {
					cmds = append(cmds, m)
				}
			})
		}
		sets = append(sets, strings.Join(cmds, ","))
	}
	if len(sets) == 2 {
		c.check("C03.O1", "route.NewTable/NewTableCustom|same command dispatch", token.NoPos, sets[0] == sets[1] && strings.Count(sets[0], ",") == 2,
			"both constructors must apply add, del and weight commands (same post-processing): ["+sets[0]+"] vs ["+sets[1]+"]")
	}
}

func runC03O2O3L1(c *Ctx) {
	sortFn := c.fn("route", "sortHostsReverseHostPort")
	n := 0
	for _, name := range []string{"matchingHosts", "matchingHostNoGlob"} {
		f := c.method("route", "Table", name)
		if !c.need("C03.O2", f, "route.Table."+name) {
			continue
		}
		eachInstr(f, func(i ssa.Instruction) {
			r, ok := i.(*ssa.Return)
			if !ok || len(r.Results) != 1 {
				return
			}
			n++
			sorted := derives(r.Results[0], func(v ssa.Value) bool {
				call, ok := v.(*ssa.Call)
				if !ok {
					return false
				}
				if sortFn != nil && call.Call.StaticCallee() == sortFn {
					return true
				}
				return false
			})
			if !sorted {
				// sorted in place before returning
				eachInstr(f, func(j ssa.Instruction) {
					if cc := callCommon(j); cc != nil && strings.HasPrefix(calleeName(cc), "sort.") && dominatesInstr(j, r) {
						sorted = true
					}
				})
			}
			c.check("C03.O2", fnKey(f)+"|matching hosts returned most specific first", r.Pos(), sorted,
				"the matching host keys come out of a map range in random order; they must go through the reverse-host sort so that an exact host is tried before a wildcard and a longer suffix before a shorter one")
		})
		// every key of the table is considered: the range loop has no early exit
		for _, l := range loopsOf(f) {
			for b := range l.Body {
				if b == l.Head {
					continue
				}
				for _, sx := range b.Succs {
					if !l.Body[sx] {
						c.check("C03.L1", fnKey(f)+"|all host keys are examined", b.Instrs[len(b.Instrs)-1].Pos(), false, "the host matcher leaves its loop early: a more specific host key later in the (random) map order is never considered")
					}
				}
			}
		}
	}
	c.atLeast("C03.O2", "returns of the host matchers", n, 2)

	// O3
	lk := c.method("route", "Table", "Lookup")
	inner := c.method("route", "Table", "lookup")
	if !c.need("C03.O3", lk, "route.Table.Lookup") || !c.need("C03.L1", inner, "route.Table.lookup") {
		return
	}
	// the list iterated is append(<matched hosts>, "")
	var rangedList ssa.Value
	for _, l := range loopsOf(lk) {
		for b := range l.Body {
			for _, in := range b.Instrs {
				if call, ok := in.(*ssa.Call); ok && call.Call.StaticCallee() == inner {
					// host argument = element of the list
					if u, ok := call.Call.Args[1].(*ssa.UnOp); ok {
						if ia, ok := u.X.(*ssa.IndexAddr); ok {
							rangedList = ia.X
						}
					}
				}
			}
		}
	}
	okAppend := false
	if call, ok := rangedList.(*ssa.Call); ok && calleeName(&call.Call) == "builtin.append" {
		// first operand: the matched hosts; appended: exactly [""]
		first := call.Call.Args[0]
		fromMatchers := derives(first, func(v ssa.Value) bool {
			cl, ok := v.(*ssa.Call)
			return ok && cl.Call.StaticCallee() != nil && strings.HasPrefix(cl.Call.StaticCallee().Name(), "matchingHost")
		})
		emptyLast := false
		if sl, ok := call.Call.Args[1].(*ssa.Slice); ok {
			if arr, ok := sl.X.(*ssa.Alloc); ok {
				cnt := 0
				for _, r := range *arr.Referrers() {
					if ia, ok := r.(*ssa.IndexAddr); ok {
						for _, r2 := range *ia.Referrers() {
							if st, ok := r2.(*ssa.Store); ok {
								cnt++
								if s, isS := constString(st.Val); isS && s == "" {
									emptyLast = true
								}
							}
						}
					}
				}
				if cnt != 1 {
					emptyLast = false
				}
			}
		}
		okAppend = fromMatchers && emptyLast
	}
	c.check("C03.O3", "(route.Table).Lookup|host-less routes tried after all matching hosts", lk.Pos(), okAppend,
		"the list of host keys to try must be the matched hosts followed by \"\" (append(hosts, \"\")): host-less routes are a fallback and must not shadow host-specific routes")
	// first non-nil target ends the loop (the only way back to the head with a target is the self-redirect skip)
	okStop := true
	for _, l := range loopsOf(lk) {
		hasInner := false
		for b := range l.Body {
			for _, in := range b.Instrs {
				if staticCalleeIs(in, inner) {
					hasInner = true
				}
			}
		}
		if !hasInner {
			continue
		}
		for k, p := range l.Head.Preds {
			if !l.Body[p] {
				continue
			}
			for _, in := range l.Head.Instrs {
				phi, ok := in.(*ssa.Phi)
				if !ok || !namedIs(phi.Type(), "route.Target") {
					continue
				}
				e := phi.Edges[k]
				if isNilConst(e) {
					continue
				}
				// a non-nil-const carried target on a back edge is allowed only where it is known nil
				if call, ok := e.(*ssa.Call); ok && call.Call.StaticCallee() == inner && knownNil(p, sameVal(e)) {
					continue
				}
				if p.Dominates(p) && knownNil(p, sameVal(e)) {
					continue
				}
				// back edge from the block testing `target != nil` (false edge): value is nil there
				if iff, ok := p.Instrs[len(p.Instrs)-1].(*ssa.If); ok {
					if nn, isN := nilFact(Fact{iff.Cond, p.Succs[0] == l.Head}, sameVal(e)); isN && !nn {
						continue
					}
				}
				okStop = false
			}
		}
	}
	c.check("C03.O3", "(route.Table).Lookup|first host that yields a target decides", lk.Pos(), okStop,
		"the loop over host keys must stop at the first key whose lookup returns a target (most specific host wins); continuing with a target in hand lets a less specific host overwrite it")

	// L1: inner lookup
	okLower := false
	eachInstr(inner, func(i ssa.Instruction) {
		if lkp, ok := i.(*ssa.Lookup); ok && namedIs(lkp.X.Type(), "route.Table") {
			if _, isLower := isCallTo(lkp.Index, "strings.ToLower"); isLower {
				okLower = true
			}
		}
	})
	c.check("C03.L1", "(route.Table).lookup|key lower-cased", inner.Pos(), okLower, "routes are stored under lower-cased hosts; lookup must lower-case its key")
	// the first route accepted by the matcher decides: inside the route loop, the block under `match(...) == true`
	// cannot return to the loop head
	okFirst := false
	nMatch := 0
	for _, l := range loopsOf(inner) {
		for _, b := range inner.Blocks {
			for _, ft := range factsAt(b) {
				call, ok := ft.Cond.(*ssa.Call)
				if !ok || !ft.Truth || call.Call.StaticCallee() != nil || call.Call.IsInvoke() {
					continue
				}
				// dynamic call of the matcher parameter, made inside the route loop
				if _, isParam := call.Call.Value.(*ssa.Parameter); !isParam || !l.Body[call.Block()] {
					continue
				}
				if len(b.Preds) == 1 && !knownTrue(b.Preds[0], call) {
					nMatch++
					// from the accepted edge the loop head must be unreachable
					back := b == l.Head || pathAvoidingFromBlockTo(b, l.Head, func(ssa.Instruction) bool { return false })
					if nMatch == 1 {
						okFirst = !back
					} else if back {
						okFirst = false
					}
				}
			}
		}
	}
	// every route of the host is offered to the matcher: no way from the loop body back to the head that skips the call
	for _, l := range loopsOf(inner) {
		var matchCall ssa.Instruction
		for b := range l.Body {
			for _, in := range b.Instrs {
				if call, ok := in.(*ssa.Call); ok && call.Call.StaticCallee() == nil && !call.Call.IsInvoke() {
					if _, isParam := call.Call.Value.(*ssa.Parameter); isParam {
						matchCall = in
					}
				}
			}
		}
		if matchCall == nil {
			continue
		}
		skip := false
		for _, entry := range l.Head.Succs {
			if l.Body[entry] && entry != l.Head && pathAvoidingFromBlockTo(entry, l.Head, func(i ssa.Instruction) bool { return i == matchCall }) {
				skip = true
			}
		}
		c.check("C03.L1", "(route.Table).lookup|every route of the host is offered to the matcher", matchCall.Pos(), !skip,
			"a route can be skipped without consulting the configured matcher (a pre-filter before match()): what looks redundant for the prefix matchers is wrong for glob, whose patterns can be longer than the paths they match — a request then misses its most specific route or gets no route although a candidate exists")
	}
	c.check("C03.L1", "(route.Table).lookup|first route accepted by the matcher decides", inner.Pos(), okFirst,
		"routes are sorted most specific first; lookup must return at the first route the matcher accepts (a later, shorter path must not replace it)")
}

func knownTrue(b *ssa.BasicBlock, v ssa.Value) bool {
	for _, f := range factsAt(b) {
		if f.Cond == v && f.Truth {
			return true
		}
	}
	return false
}
