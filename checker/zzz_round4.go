package main

// Round 4 (DESIGN 11.12): rules written after the fourth round of independently written breaking changes register
// themselves from an init function of their own file (cNN_round4.go) with addRound4; this file (its name sorts after
// every cNN*.go) wires them to their property.

type round4Rule struct {
	explain string
	run     func(*Ctx)
	mutants []mutant
}

var round4Rules = map[string][]round4Rule{}

// addRound4 registers one more rule of property id: explain is one sentence for the property's Explain text
// (starting with the rule id in parentheses), run evaluates it, mutants are its overlay mutants.
func addRound4(id, explain string, run func(*Ctx), mutants ...mutant) {
	round4Rules[id] = append(round4Rules[id], round4Rule{explain, run, mutants})
}

func init() {
	for id, rules := range round4Rules {
		p := props[id]
		if p == nil {
			continue
		}
		rules := rules
		old := p.Run
		p.Run = func(c *Ctx) {
			old(c)
			for _, r := range rules {
				r.run(c)
			}
		}
		p.Explain += " Also (rules added after the fourth round of independently written breaking changes, DESIGN 11.12):"
		for _, r := range rules {
			p.Explain += " " + r.explain
			p.Mutants = append(p.Mutants, r.mutants...)
		}
	}
}
