package main

import (
	"go/token"
	"go/types"
	"strings"

	"golang.org/x/tools/go/ssa"
)

func init() {
	register(&propDef{
		ID:      "C16",
		Level:   "other",
		Explain: "gRPC proxy wiring (no test exercises it): (G1) in the stream interceptor the wrapped handler is called only under lookup err == nil and target != nil; the nil-target edge returns codes.NotFound, the lookup-error edge codes.Internal; (K1) the context key type written by the interceptor (context.WithValue) is the one the director reads (ctx.Value), and the stored value's static type is the asserted one; (M1) the director builds the outgoing context as metadata.NewOutgoingContext(ctx, md.Copy()) with md from metadata.FromIncomingContext(ctx) of the same call, and obtains the connection from the pool for the context's target; without a target it returns an error and no connection; (W1) newGrpcProxy returns options containing the proxy codec, UnknownServiceHandler(TransparentHandler(director)), a stream interceptor bound to the interceptor's Stream method, and receive/send limits from GRPCMaxRxMsgSize/GRPCMaxTxMsgSize (not swapped); (L1) the interceptor's lookup uses the full method as path, the single dsthost metadata value as host, the configured picker/matcher, and one GetTable().Lookup; (P1) the pool map is accessed only under its lock and every key is makeGRPCTargetKey(target) or a range key; (P2) the insert re-checks the map under the write lock (no double dial leak) and closes the surplus connection; (P3) the cleanup loop is paced, releases the lock before sleeping, deletes closed connections and those whose target left the table. (P4) the pool key is the whole target URL; (G2) the interceptor returns the error of the handler unchanged. (H1) getDestinationHostFromMetadata reads the dsthost key only; Not decided: message/metadata/trailer/status transparency (delegated to mwitkow/grpc-proxy and grpc-go).",
		Run:     runC16,
		Trusted: []string{"mwitkow/grpc-proxy TransparentHandler forwards frames, metadata, trailers and status unchanged", "grpc-go honours codec, interceptor and size options"},
		Mutants: []mutant{
			{Name: "authority used as destination host", File: "proxy/grpc_handler.go", Old: "\thosts := md[\"dsthost\"]\n", New: "\thosts := md[\"dsthost\"]\n\tif len(hosts) == 0 {\n\t\thosts = md[\":authority\"]\n\t}\n", Expect: "C16.H1"},

			{Name: "call the handler when no target was found", File: "proxy/grpc_handler.go", Old: "\t\tlog.Println(\"[WARN] grpc: no route found for\", info.FullMethod)\n\t\treturn status.Error(codes.NotFound, \"no route found\")", New: "\t\tlog.Println(\"[WARN] grpc: no route found for\", info.FullMethod)\n\t\treturn handler(srv, stream)", Expect: "C16.G1"},
			{Name: "NotFound replaced by Internal", File: "proxy/grpc_handler.go", Old: "return status.Error(codes.NotFound, \"no route found\")", New: "return status.Error(codes.Internal, \"no route found\")", Expect: "C16.G1"},
			{Name: "director reads another context key", File: "proxy/grpc_handler.go", Old: "target, _ := ctx.Value(targetKey{}).(*route.Target)", New: "target, _ := ctx.Value(connCtxKey{}).(*route.Target)", Expect: "C16.K1"},
			{Name: "outgoing metadata dropped", File: "proxy/grpc_handler.go", Old: "outCtx := metadata.NewOutgoingContext(ctx, md.Copy())", New: "outCtx := metadata.NewOutgoingContext(ctx, metadata.MD{\"n\": {fmt.Sprint(len(md))}})", Expect: "C16.M1"},
			{Name: "stream interceptor not installed", File: "main.go", Old: "\t\tgrpc.StreamInterceptor(proxyInterceptor.Stream),\n", New: "\t\tgrpc.StreamInterceptor(func(srv interface{}, ss grpc.ServerStream, info *grpc.StreamServerInfo, h grpc.StreamHandler) error {\n\t\t\t_ = proxyInterceptor\n\t\t\treturn h(srv, ss)\n\t\t}),\n", Expect: "C16.W1"},
			{Name: "Rx/Tx limits swapped", File: "main.go", Old: "\t\tgrpc.MaxRecvMsgSize(cfg.Proxy.GRPCMaxRxMsgSize),\n\t\tgrpc.MaxSendMsgSize(cfg.Proxy.GRPCMaxTxMsgSize),", New: "\t\tgrpc.MaxRecvMsgSize(cfg.Proxy.GRPCMaxTxMsgSize),\n\t\tgrpc.MaxSendMsgSize(cfg.Proxy.GRPCMaxRxMsgSize),", Expect: "C16.W1"},
			{Name: "codec option dropped", File: "main.go", Old: "\t\tgrpc.CustomCodec(grpc_proxy.Codec()),\n", New: "", Expect: "C16.W1"},
			{Name: "pool map read without the lock", File: "proxy/grpc_handler.go", Old: "\tp.lock.RLock()\n\tconn := p.connections[makeGRPCTargetKey(target)]\n\tp.lock.RUnlock()", New: "\tconn := p.connections[makeGRPCTargetKey(target)]", Expect: "C16.P1"},
			{Name: "pool keyed by host in Set only", File: "proxy/grpc_handler.go", Old: "\tkey := makeGRPCTargetKey(target)\n\tif cur := p.connections[key]", New: "\tkey := target.URL.Host\n\tif cur := p.connections[key]", Expect: "C16.P1"},
			{Name: "pool keyed by dial address", File: "proxy/grpc_handler.go", Old: "\treturn t.URL.String()\n", New: "\treturn t.URL.Host\n", Expect: "C16.P4"},
			{Name: "unknown backend status rewritten", File: "proxy/grpc_handler.go", Old: "\ttarget.Timer.Observe(dur.Seconds())\n\n\treturn err", New: "\ttarget.Timer.Observe(dur.Seconds())\n\n\tif status.Code(err) == codes.Unknown {\n\t\treturn status.Error(codes.Internal, \"internal error\")\n\t}\n\treturn err", Expect: "C16.G2"},
			{Name: "insert without re-check", File: "proxy/grpc_handler.go", Old: "\tif cur := p.connections[key]; cur != nil && cur != conn && cur.GetState() != connectivity.Shutdown {\n\t\tconn.Close()\n\t\treturn cur\n\t}\n", New: "", Expect: "C16.P2"},
			{Name: "cleanup sleeps while holding the lock", File: "proxy/grpc_handler.go", Old: "\t\tp.lock.Unlock()\n\t\ttime.Sleep(p.cleanupInterval)", New: "\t\ttime.Sleep(p.cleanupInterval)\n\t\tp.lock.Unlock()", Expect: "C16.P3"},
			{Name: "cleanup without pause", File: "proxy/grpc_handler.go", Old: "\t\tp.lock.Unlock()\n\t\ttime.Sleep(p.cleanupInterval)", New: "\t\tp.lock.Unlock()", Expect: "C16.P3"},
			{Name: "lookup host taken from authority instead of dsthost", File: "proxy/grpc_handler.go", Old: "\thosts := md[\"dsthost\"]", New: "\thosts := md[\":authority\"]", Expect: "C16.L1"},
			{Name: "benign: chained interceptor", File: "main.go", Old: "grpc.StreamInterceptor(proxyInterceptor.Stream),", New: "grpc.ChainStreamInterceptor(proxyInterceptor.Stream),", Expect: ""},
		},
	})
}

func runC16(c *Ctx) {
	runC16G1K1(c)
	runC16M1(c)
	runC16W1(c)
	runC16L1(c)
	runC16P(c)
	runC16Extra(c)
	runC16H1(c)
}

// grpcCode: v is status.Error(codes.X, ...) -> X's numeric value.
func grpcStatusCode(v ssa.Value) (int64, bool) {
	call, ok := v.(*ssa.Call)
	if !ok {
		return 0, false
	}
	n := calleeName(&call.Call)
	if n != "google.golang.org/grpc/status.Error" && n != "google.golang.org/grpc/status.Errorf" {
		return 0, false
	}
	return constInt(call.Call.Args[0])
}

func runC16G1K1(c *Ctx) {
	stream := c.method("proxy", "GrpcProxyInterceptor", "Stream")
	lookup := c.method("proxy", "GrpcProxyInterceptor", "lookup")
	if !c.need("C16.G1", stream, "proxy.GrpcProxyInterceptor.Stream") || !c.need("C16.G1", lookup, "proxy.GrpcProxyInterceptor.lookup") {
		return
	}
	var lk *ssa.Call
	eachInstr(stream, func(i ssa.Instruction) {
		if call, ok := i.(*ssa.Call); ok && call.Call.StaticCallee() == lookup {
			lk = call
		}
	})
	if lk == nil {
		c.undecided("C16.G1", "proxy.GrpcProxyInterceptor.Stream|lookup call", "the interceptor does not call its lookup")
		return
	}
	isTarget := func(v ssa.Value) bool { e, ok := v.(*ssa.Extract); return ok && e.Tuple == lk && e.Index == 0 }
	isErr := func(v ssa.Value) bool { e, ok := v.(*ssa.Extract); return ok && e.Tuple == lk && e.Index == 1 }
	var handlerParam *ssa.Parameter
	for _, p := range stream.Params {
		if typeStr(p.Type()) == "google.golang.org/grpc.StreamHandler" {
			handlerParam = p
		}
	}
	nH := 0
	eachInstr(stream, func(i ssa.Instruction) {
		call, ok := i.(*ssa.Call)
		if !ok || call.Call.Value != handlerParam {
			return
		}
		nH++
		c.check("C16.G1", "proxy.GrpcProxyInterceptor.Stream|handler only with a target and without lookup error", i.Pos(),
			knownNonNil(i.Block(), isTarget) && knownNil(i.Block(), isErr),
			"the proxying handler must run only on the edge where the lookup succeeded and found a target; otherwise the director runs without a target (or a backend is contacted for a call that has no route)")
		// the stream handed on carries the context with the target
		wrapped := false
		if len(call.Call.Args) == 2 {
			wrapped = derives(call.Call.Args[1], func(v ssa.Value) bool {
				wv, ok := isCallTo(v, "context.WithValue")
				return ok && wv != nil
			})
		}
		c.check("C16.G1", "proxy.GrpcProxyInterceptor.Stream|handler receives the stream whose context carries the target", i.Pos(), wrapped,
			"the stream given to the handler must wrap a context built with context.WithValue(ctx, key, target); with the original stream the director finds no target")
	})
	c.atLeast("C16.G1", "calls of the wrapped handler", nH, 1)
	// status codes on the two failure edges
	sawNotFound, sawInternal := false, false
	eachInstr(stream, func(i ssa.Instruction) {
		r, ok := i.(*ssa.Return)
		if !ok || len(r.Results) != 1 {
			return
		}
		code, isStatus := grpcStatusCode(r.Results[0])
		if !isStatus {
			return
		}
		switch {
		case knownNil(r.Block(), isTarget):
			sawNotFound = true
			c.check("C16.G1", "proxy.GrpcProxyInterceptor.Stream|no route => NotFound", r.Pos(), code == 5, "a call without a matching route must fail with codes.NotFound")
		case knownNonNil(r.Block(), isErr):
			sawInternal = true
			c.check("C16.G1", "proxy.GrpcProxyInterceptor.Stream|lookup error => Internal", r.Pos(), code == 13, "a failing lookup must be reported as codes.Internal")
		}
	})
	c.check("C16.G1", "proxy.GrpcProxyInterceptor.Stream|both failure edges return a status", stream.Pos(), sawNotFound && sawInternal, "the nil-target and the lookup-error edge must each return a gRPC status error")

	// K1
	var wrKey, wrVal types.Type
	eachInstr(stream, func(i ssa.Instruction) {
		if call, ok := i.(*ssa.Call); ok && calleeName(&call.Call) == "context.WithValue" {
			wrKey = stripIface(call.Call.Args[1]).Type()
			wrVal = stripIface(call.Call.Args[2]).Type()
		}
	})
	dir := c.fn("proxy", "GetGRPCDirector")
	if !c.need("C16.K1", dir, "proxy.GetGRPCDirector") {
		return
	}
	var rdKey, rdAssert types.Type
	for _, f := range withAnon(dir) {
		eachInstr(f, func(i ssa.Instruction) {
			call, ok := i.(*ssa.Call)
			if !ok || !call.Call.IsInvoke() || call.Call.Method.Name() != "Value" {
				return
			}
			rdKey = stripIface(call.Call.Args[0]).Type()
			for _, r := range *call.Referrers() {
				if ta, ok := r.(*ssa.TypeAssert); ok {
					rdAssert = ta.AssertedType
				}
			}
		})
	}
	ok := wrKey != nil && rdKey != nil && types.Identical(wrKey, rdKey) && wrVal != nil && rdAssert != nil && types.Identical(wrVal, rdAssert)
	c.check("C16.K1", "proxy|context key written by the interceptor is the one the director reads", stream.Pos(), ok,
		"interceptor stores the target under one key type and the director reads it under another (or asserts another type): the director never sees a target and every call fails")
}

func runC16M1(c *Ctx) {
	dir := c.fn("proxy", "GetGRPCDirector")
	if dir == nil || len(dir.AnonFuncs) == 0 {
		c.undecided("C16.M1", "proxy.GetGRPCDirector|director closure", "not found")
		return
	}
	d := dir.AnonFuncs[0]
	var ctxParam *ssa.Parameter
	for _, p := range d.Params {
		if typeStr(p.Type()) == "context.Context" {
			ctxParam = p
		}
	}
	var out *ssa.Call
	eachInstr(d, func(i ssa.Instruction) {
		if call, ok := i.(*ssa.Call); ok && calleeName(&call.Call) == "google.golang.org/grpc/metadata.NewOutgoingContext" {
			out = call
		}
	})
	if out == nil {
		c.check("C16.M1", "proxy.GetGRPCDirector$1|outgoing context", d.Pos(), false, "the director must build the outgoing context with metadata.NewOutgoingContext")
		return
	}
	okCtx := out.Call.Args[0] == ctxParam
	okMD := false
	if cp, ok := out.Call.Args[1].(*ssa.Call); ok && calleeName(&cp.Call) == "(google.golang.org/grpc/metadata.MD).Copy" {
		okMD = derives(cp.Call.Args[0], func(v ssa.Value) bool {
			in, ok := isCallTo(v, "google.golang.org/grpc/metadata.FromIncomingContext")
			return ok && in.Call.Args[0] == ctxParam
		})
	}
	c.check("C16.M1", "proxy.GetGRPCDirector$1|outgoing metadata is a copy of the incoming metadata of the same call", out.Pos(), okCtx && okMD,
		"the backend must receive the caller's metadata: NewOutgoingContext(ctx, md.Copy()) with md = FromIncomingContext(ctx)")
	// connection from the pool for the context's target; returned context is the outgoing one
	nRet := 0
	eachInstr(d, func(i ssa.Instruction) {
		r, ok := i.(*ssa.Return)
		if !ok || len(r.Results) != 3 {
			return
		}
		nRet++
		if isNilConst(r.Results[1]) {
			c.check("C16.M1", "proxy.GetGRPCDirector$1|no connection => error", r.Pos(), !isNilConst(r.Results[2]), "a director return without a connection must carry an error")
			return
		}
		fromPool := derives(r.Results[1], func(v ssa.Value) bool {
			call, ok := v.(*ssa.Call)
			if !ok || call.Call.StaticCallee() == nil || call.Call.StaticCallee().Name() != "Get" || !namedIs(call.Call.Args[0].Type(), "proxy.grpcConnectionPool") {
				return false
			}
			// keyed by the context's target
			return derives(call.Call.Args[2], func(x ssa.Value) bool {
				vc, ok := x.(*ssa.Call)
				return ok && vc.Call.IsInvoke() && vc.Call.Method.Name() == "Value"
			})
		})
		c.check("C16.M1", "proxy.GetGRPCDirector$1|connection from the pool for the context's target", r.Pos(), fromPool && r.Results[0] == out,
			"the director must return the outgoing context and the pooled connection of the target the interceptor chose")
	})
	c.atLeast("C16.M1", "director returns", nRet, 2)
}

func runC16W1(c *Ctx) {
	np := c.fn("main", "newGrpcProxy")
	if !c.need("C16.W1", np, "main.newGrpcProxy") {
		return
	}
	opts := map[string]*ssa.Call{}
	eachInstr(np, func(i ssa.Instruction) {
		if call, ok := i.(*ssa.Call); ok {
			n := calleeName(&call.Call)
			if strings.HasPrefix(n, "google.golang.org/grpc.") {
				opts[strings.TrimPrefix(n, "google.golang.org/grpc.")] = call
			}
		}
	})
	// every option must end up in the returned slice
	inResult := func(call *ssa.Call) bool {
		ok := false
		eachInstr(np, func(i ssa.Instruction) {
			if st, isSt := i.(*ssa.Store); isSt && st.Val == call {
				if _, isIA := st.Addr.(*ssa.IndexAddr); isIA {
					ok = true
				}
			}
		})
		return ok
	}
	codec := opts["CustomCodec"]
	if codec == nil {
		codec = opts["ForceServerCodec"]
	}
	okCodec := codec != nil && inResult(codec)
	if okCodec {
		_, okCodec = isCallTo(codec.Call.Args[0], "github.com/mwitkow/grpc-proxy/proxy.Codec")
	}
	c.check("C16.W1", "main.newGrpcProxy|proxy codec installed", np.Pos(), okCodec, "without grpc_proxy.Codec() the server tries to unmarshal frames it must forward opaquely")
	ush := opts["UnknownServiceHandler"]
	okUSH := ush != nil && inResult(ush) && derives(ush.Call.Args[0], func(v ssa.Value) bool {
		th, ok := isCallTo(v, "github.com/mwitkow/grpc-proxy/proxy.TransparentHandler")
		if !ok {
			return false
		}
		return derives(th.Call.Args[0], func(x ssa.Value) bool { _, isDir := isCallTo(x, repoMod+"/proxy.GetGRPCDirector"); return isDir })
	})
	c.check("C16.W1", "main.newGrpcProxy|UnknownServiceHandler(TransparentHandler(director))", np.Pos(), okUSH, "every method must be handled by the transparent handler driven by fabio's director")
	si := opts["StreamInterceptor"]
	if si == nil {
		si = opts["ChainStreamInterceptor"]
	}
	okSI := si != nil && inResult(si) && derives(si.Call.Args[0], func(v ssa.Value) bool {
		mc, ok := v.(*ssa.MakeClosure)
		if !ok {
			return false
		}
		t := unwrap(mc.Fn.(*ssa.Function))
		return t.Name() == "Stream" && t.Signature.Recv() != nil && namedIs(t.Signature.Recv().Type(), "proxy.GrpcProxyInterceptor")
	})
	c.check("C16.W1", "main.newGrpcProxy|stream interceptor is GrpcProxyInterceptor.Stream", np.Pos(), okSI, "without the interceptor no route lookup happens and every call fails in the director with 'no route found'")
	for _, lim := range []struct{ opt, field string }{{"MaxRecvMsgSize", "GRPCMaxRxMsgSize"}, {"MaxSendMsgSize", "GRPCMaxTxMsgSize"}} {
		call := opts[lim.opt]
		ok := call != nil && inResult(call)
		if ok {
			_, ok = fieldOf(call.Call.Args[0], "config.Proxy", lim.field)
		}
		c.check("C16.W1", "main.newGrpcProxy|"+lim.opt+" from "+lim.field, np.Pos(), ok, "grpc."+lim.opt+" must be given cfg.Proxy."+lim.field)
	}
}

func runC16L1(c *Ctx) {
	lookup := c.method("proxy", "GrpcProxyInterceptor", "lookup")
	if lookup == nil {
		return
	}
	tl := c.method("route", "Table", "Lookup")
	var call *ssa.Call
	eachInstr(lookup, func(i ssa.Instruction) {
		if cl, ok := i.(*ssa.Call); ok && cl.Call.StaticCallee() == tl {
			call = cl
		}
	})
	if call == nil {
		c.check("C16.L1", "proxy.GrpcProxyInterceptor.lookup|Table.Lookup", lookup.Pos(), false, "the gRPC lookup must go through route.Table.Lookup")
		return
	}
	// receiver is GetTable()
	_, fromGet := isCallTo(call.Call.Args[0], repoMod+"/route.GetTable")
	c.check("C16.L1", "proxy.GrpcProxyInterceptor.lookup|looks up the active table", call.Pos(), fromGet, "the lookup must use route.GetTable()")
	// the synthetic request: URL from ParseRequestURI(fullMethodName param), Host from the dsthost metadata
	req := call.Call.Args[1]
	alloc, _ := req.(*ssa.Alloc)
	if alloc == nil {
		c.undecided("C16.L1", "proxy.GrpcProxyInterceptor.lookup|synthetic request", "request is not a local literal")
		return
	}
	fs := fieldStores(alloc)
	var method *ssa.Parameter
	for _, p := range lookup.Params {
		if typeStr(p.Type()) == "string" {
			method = p
		}
	}
	okURL := false
	for _, st := range fs["URL"] {
		okURL = derives(st.Val, func(v ssa.Value) bool {
			pc, ok := isCallTo(v, "net/url.ParseRequestURI", "net/url.Parse")
			return ok && pc.Call.Args[0] == method
		})
	}
	c.check("C16.L1", "proxy.GrpcProxyInterceptor.lookup|path is the full method name", call.Pos(), okURL, "the route is matched against the call's full method (/package.Service/Method)")
	okHost := false
	for _, st := range fs["Host"] {
		okHost = derivesDstHost(c, st.Val)
	}
	c.check("C16.L1", "proxy.GrpcProxyInterceptor.lookup|host is the single dsthost metadata value", call.Pos(), okHost, "the host used for routing must be the 'dsthost' metadata value (only when exactly one is present)")
	// picker / matcher from config
	okPick := derives(call.Call.Args[3], func(v ssa.Value) bool { _, ok := fieldOf(v, "config.Proxy", "Strategy"); return ok })
	okMatch := derives(call.Call.Args[4], func(v ssa.Value) bool { _, ok := fieldOf(v, "config.Proxy", "Matcher"); return ok })
	c.check("C16.L1", "proxy.GrpcProxyInterceptor.lookup|configured strategy and matcher", call.Pos(), okPick && okMatch, "the gRPC lookup must use route.Picker[cfg.Proxy.Strategy] and route.Matcher[cfg.Proxy.Matcher]")
}

func derivesDstHost(c *Ctx, v ssa.Value) bool {
	// through the helper method: result of getDestinationHostFromMetadata(md)
	call, ok := v.(*ssa.Call)
	if ok && call.Call.StaticCallee() != nil && isRepoFn(call.Call.StaticCallee()) {
		f := call.Call.StaticCallee()
		found, single := false, false
		eachInstr(f, func(i ssa.Instruction) {
			if lk, ok := i.(*ssa.Lookup); ok {
				if k, ok := constString(lk.Index); ok && k == "dsthost" {
					found = true
				}
			}
			if b, ok := i.(*ssa.BinOp); ok && b.Op == token.EQL {
				if n, ok := constInt(b.Y); ok && n == 1 {
					if lc, ok := b.X.(*ssa.Call); ok && calleeName(&lc.Call) == "builtin.len" {
						single = true
					}
				}
			}
		})
		return found && single
	}
	return derives(v, func(x ssa.Value) bool {
		if lk, ok := x.(*ssa.Lookup); ok {
			k, ok := constString(lk.Index)
			return ok && k == "dsthost"
		}
		return false
	})
}

func runC16P(c *Ctx) {
	sp := c.spkg("proxy")
	keyFn := c.fn("proxy", "makeGRPCTargetKey")
	if !c.need("C16.P1", keyFn, "proxy.makeGRPCTargetKey") {
		return
	}
	isPoolMap := func(v ssa.Value) bool { _, ok := fieldOf(v, "proxy.grpcConnectionPool", "connections"); return ok }
	okKey := func(k ssa.Value) bool {
		if call, ok := k.(*ssa.Call); ok && call.Call.StaticCallee() == keyFn {
			return true
		}
		// a key obtained by ranging over the pool map
		if e, ok := k.(*ssa.Extract); ok {
			if nx, ok := e.Tuple.(*ssa.Next); ok {
				if rg, ok := nx.Iter.(*ssa.Range); ok && isPoolMap(rg.X) {
					return true
				}
			}
		}
		// a local that only ever holds such a key
		for _, d := range defsOf(k) {
			if d.Val == k {
				return false
			}
			if call, ok := d.Val.(*ssa.Call); !ok || call.Call.StaticCallee() != keyFn {
				return false
			}
		}
		return true
	}
	n := 0
	for _, f := range c.AllFns {
		if rootPkg(f) != sp {
			continue
		}
		eachInstr(f, func(i ssa.Instruction) {
			var m, k ssa.Value
			write := false
			switch x := i.(type) {
			case *ssa.Lookup:
				m, k = x.X, x.Index
			case *ssa.MapUpdate:
				m, k, write = x.Map, x.Key, true
			case *ssa.Range:
				m = x.X
			case *ssa.Call:
				if calleeName(&x.Call) == "builtin.delete" {
					m, k, write = x.Call.Args[0], x.Call.Args[1], true
				}
			}
			if m == nil || !isPoolMap(m) {
				return
			}
			// constructor initialisation of a fresh pool is not shared yet
			if fa, ok := stripLoad(m).(*ssa.FieldAddr); ok {
				if _, isAlloc := fa.X.(*ssa.Alloc); isAlloc {
					return
				}
			}
			n++
			held := len(heldAt(i, write)) > 0
			c.check("C16.P1", fnKey(f)+"|pool map accessed under its lock", i.Pos(), held, "grpcConnectionPool.connections is read and written by concurrent calls and by cleanup(); every access must hold p.lock (write lock for updates)")
			if k != nil {
				c.check("C16.P1", fnKey(f)+"|pool key is makeGRPCTargetKey(target)", i.Pos(), okKey(k), "every key of the pool map must come from makeGRPCTargetKey (or from ranging over the map): a differently built key makes Get miss what Set stored, so every call dials again, and cleanup never finds the entry")
			}
		})
	}
	c.atLeast("C16.P1", "accesses to the pool map", n, 4)

	// P2: the function that inserts re-reads the same key under the same acquisition, and closes the loser
	nIns := 0
	for _, f := range c.AllFns {
		if rootPkg(f) != sp {
			continue
		}
		eachInstr(f, func(i ssa.Instruction) {
			mu, ok := i.(*ssa.MapUpdate)
			if !ok || !isPoolMap(mu.Map) {
				return
			}
			nIns++
			rechecked := false
			eachInstr(f, func(j ssa.Instruction) {
				if lk, ok := j.(*ssa.Lookup); ok && isPoolMap(lk.X) && dominatesInstr(j, i) && len(heldAt(j, true)) > 0 {
					if lk.Index == mu.Key || accessPath(lk.Index) == accessPath(mu.Key) {
						rechecked = true
					}
				}
			})
			closes := false
			eachInstr(f, func(j ssa.Instruction) {
				if cc := callCommon(j); cc != nil && calleeName(cc) == "(*google.golang.org/grpc.ClientConn).Close" {
					closes = true
				}
			})
			c.check("C16.P2", fnKey(f)+"|insert re-checks the pool under the write lock and closes the surplus connection", i.Pos(), rechecked && closes,
				"Get drops the read lock before dialling; two first calls to one backend both dial, and an unconditional insert overwrites the first connection, which is then never closed (leak) — the insert must look the key up again under the write lock and close the connection that lost")
		})
	}
	c.atLeast("C16.P2", "inserts into the pool map", nIns, 1)

	// P3
	cleanup := c.method("proxy", "grpcConnectionPool", "cleanup")
	if !c.need("C16.P3", cleanup, "proxy.grpcConnectionPool.cleanup") {
		return
	}
	for _, l := range condLessLoops(cleanup) {
		b := spinCycle(l)
		c.check("C16.P3", "proxy.(*grpcConnectionPool).cleanup|loop paced", l.Head.Instrs[0].Pos(), b == nil, "the cleanup loop must sleep between sweeps")
	}
	eachInstr(cleanup, func(i ssa.Instruction) {
		cc := callCommon(i)
		if cc == nil || calleeName(cc) != "time.Sleep" {
			return
		}
		c.check("C16.P3", "proxy.(*grpcConnectionPool).cleanup|lock released before sleeping", i.Pos(), len(heldAt(i, false)) == 0,
			"sleeping while holding the pool lock blocks every gRPC call for the whole cleanup interval")
	})
	// started by the constructor
	started := false
	if ctor := c.fn("proxy", "newGrpcConnectionPool"); ctor != nil {
		eachInstr(ctor, func(i ssa.Instruction) {
			if g, ok := i.(*ssa.Go); ok && g.Call.StaticCallee() == cleanup {
				started = true
			}
		})
	}
	c.check("C16.P3", "proxy.newGrpcConnectionPool|cleanup started", cleanup.Pos(), started, "connections to backends that left the table are dropped only by cleanup(); it must be started with the pool")
	// deletes entries whose target left the table
	hasT := c.fn("proxy", "hasTarget")
	delUnderMiss := false
	eachInstr(cleanup, func(i ssa.Instruction) {
		if cc := callCommon(i); cc != nil && calleeName(cc) == "builtin.delete" && hasT != nil && factCallTo(i.Block(), hasT, false) != nil {
			delUnderMiss = true
		}
	})
	c.check("C16.P3", "proxy.(*grpcConnectionPool).cleanup|connections of vanished targets are dropped", cleanup.Pos(), delUnderMiss, "an entry whose target is no longer in the table must be deleted (and closed)")
}

func stripLoad(v ssa.Value) ssa.Value {
	if u, ok := v.(*ssa.UnOp); ok && u.Op == token.MUL {
		return u.X
	}
	return v
}
