package main

import (
	"go/token"
	"go/types"
	"strings"

	"golang.org/x/tools/go/ssa"
)

func init() {
	register(&propDef{
		ID:      "C16",
		Level:   "other",
		Explain: "gRPC proxy wiring (no test exercises it). Sites are found by ROLE, not by the name of the unexported function that holds them today: the interceptor is the function of package proxy with the grpc.StreamServerInterceptor parameters whose region calls route.Table.Lookup and the wrapped grpc.StreamHandler; the director is the function returning (context.Context, *grpc.ClientConn, error); the pool is the map whose elements are (structs around) *grpc.ClientConn; a pool key function is a repository function *route.Target -> string whose result is used as a key; the sweep is where that map is ranged over, the janitor the loop that runs a sweep per round; the server options are the grpc.ServerOption constructor calls anywhere in the repository. Branch facts are inherited through single-call-site helpers and into closures. What a call runs is followed through callbacks as well: a function value handed to a callee that calls it (a locking helper running the critical section, a per-entry callback, a generic ticker helper, a predicate given to a route.Table method or to slices.ContainsFunc) and a method called through a small interface (resolved from the concrete value, else from the implementations in the repository's gRPC packages); values are followed through fields of repository structs to the stores into them; the gRPC code may live in any package of the repository that imports gRPC. (G1) the wrapped handler is called only where the lookup's target is known non-nil and its error nil (directly, or because a helper returns a nil error only together with a non-nil target — as a result, stored into a field of the per-call state, or given to it as an argument); a status returned where the target is nil is codes.NotFound, one returned where the lookup error is non-nil codes.Internal, wherever the status is built; the stream handed on wraps a context.WithValue context and its Context() returns the stored context; (K1) the key (type and constant) and value type written by the interceptor's context.WithValue(ctx, key, target) are read and asserted in the director's region; (M1) the director builds metadata.NewOutgoingContext(ctx', md.Copy()) with md from metadata.FromIncomingContext(ctx'') of its own context, returns that context with a connection obtained from a pool getter keyed by the target read from ctx.Value; a return without connection carries an error; (W1) the options contain the proxy codec, UnknownServiceHandler(TransparentHandler(d)) with d denoting a director of package proxy, a stream interceptor that is or forwards to the interceptor, and receive/send limits from GRPCMaxRxMsgSize/GRPCMaxTxMsgSize (not swapped), each stored into an option slice; (L1) Table.Lookup is called on route.GetTable() with a request whose URL derives from StreamServerInfo.FullMethod and whose Host is the dsthost metadata value where exactly one is present, and with the configured picker/matcher; (H1) every metadata key on the backward slice of that Host is dsthost; (P1) every access of the pool map holds a lock (own or every caller's; write lock for updates) and every key is a range key, target.URL.String(), or a key function's result on all definitions; (P2) an insert is dominated, under the write lock, by a read of the same key and the surplus connection is closed; (P3) the janitor loop is paced, nothing sleeps/waits with the lock held, it is started by a go statement, entries are deleted synchronously on the edge where the table-membership test misses (a predicate given key and table, a predicate callback run per target, a matcher behind an interface, a found flag of an inlined scan, a set of live keys; the verdicts 'in the table' / 'in no target' are read off what the test returns under the key comparison and must differ), and that test compares the entry's key with pool keys; (P4) a key function returns Target.URL.String(); (G2) the handler's error reaches the interceptor's caller unchanged through every helper, wrapper closure and named result. Not decided: message/metadata/trailer/status transparency (delegated to mwitkow/grpc-proxy and grpc-go).",
		Run:     runC16,
		Trusted: []string{"mwitkow/grpc-proxy TransparentHandler forwards frames, metadata, trailers and status unchanged", "grpc-go honours codec, interceptor and size options"},
		Mutants: append([]mutant{
			{Name: "authority used as destination host", File: "proxy/grpc_handler.go", Old: "\thosts := md[\"dsthost\"]\n", New: "\thosts := md[\"dsthost\"]\n\tif len(hosts) == 0 {\n\t\thosts = md[\":authority\"]\n\t}\n", Expect: "C16.H1"},

			{Name: "call the handler when no target was found", File: "proxy/grpc_handler.go", Old: "\t\tlog.Println(\"[WARN] grpc: no route found for\", info.FullMethod)\n\t\treturn status.Error(codes.NotFound, \"no route found\")", New: "\t\tlog.Println(\"[WARN] grpc: no route found for\", info.FullMethod)\n\t\treturn handler(srv, stream)", Expect: "C16.G1"},
			{Name: "NotFound replaced by Internal", File: "proxy/grpc_handler.go", Old: "return status.Error(codes.NotFound, \"no route found\")", New: "return status.Error(codes.Internal, \"no route found\")", Expect: "C16.G1"},
			{Name: "director reads another context key", File: "proxy/grpc_handler.go", Old: "target, _ := ctx.Value(targetKey{}).(*route.Target)", New: "target, _ := ctx.Value(connCtxKey{}).(*route.Target)", Expect: "C16.K1"},
			{Name: "outgoing metadata dropped", File: "proxy/grpc_handler.go", Old: "outCtx := metadata.NewOutgoingContext(ctx, md.Copy())", New: "outCtx := metadata.NewOutgoingContext(ctx, metadata.MD{\"n\": {fmt.Sprint(len(md))}})", Expect: "C16.M1"},
			{Name: "stream interceptor not installed", File: "main.go", Old: "\t\tgrpc.StreamInterceptor(proxyInterceptor.Stream),\n", New: "\t\tgrpc.StreamInterceptor(func(srv interface{}, ss grpc.ServerStream, info *grpc.StreamServerInfo, h grpc.StreamHandler) error {\n\t\t\t_ = proxyInterceptor\n\t\t\treturn h(srv, ss)\n\t\t}),\n", Expect: "C16.W1"},
			{Name: "Rx/Tx limits swapped", File: "main.go", Old: "\t\tgrpc.MaxRecvMsgSize(cfg.Proxy.GRPCMaxRxMsgSize),\n\t\tgrpc.MaxSendMsgSize(cfg.Proxy.GRPCMaxTxMsgSize),", New: "\t\tgrpc.MaxRecvMsgSize(cfg.Proxy.GRPCMaxTxMsgSize),\n\t\tgrpc.MaxSendMsgSize(cfg.Proxy.GRPCMaxRxMsgSize),", Expect: "C16.W1"},
			{Name: "codec option dropped", File: "main.go", Old: "\t\tgrpc.CustomCodec(grpc_proxy.Codec()),\n", New: "", Expect: "C16.W1"},
			{Name: "pool map read without the lock", File: "proxy/grpc_handler.go", Old: "\tp.lock.RLock()\n\tconn := p.connections[makeGRPCTargetKey(target)]\n\tp.lock.RUnlock()", New: "\tconn := p.connections[makeGRPCTargetKey(target)]", Expect: "C16.P1"},
			{Name: "pool keyed by host in Set only", File: "proxy/grpc_handler.go", Old: "\tkey := makeGRPCTargetKey(target)\n\tif cur := p.connections[key]", New: "\tkey := target.URL.Host\n\tif cur := p.connections[key]", Expect: "C16.P1"},
			{Name: "pool keyed by dial address", File: "proxy/grpc_handler.go", Old: "\treturn t.URL.String()\n", New: "\treturn t.URL.Host\n", Expect: "C16.P4"},
			{Name: "unknown backend status rewritten", File: "proxy/grpc_handler.go", Old: "\ttarget.Timer.Observe(dur.Seconds())\n\n\treturn err", New: "\ttarget.Timer.Observe(dur.Seconds())\n\n\tif status.Code(err) == codes.Unknown {\n\t\treturn status.Error(codes.Internal, \"internal error\")\n\t}\n\treturn err", Expect: "C16.G2"},
			{Name: "insert without re-check", File: "proxy/grpc_handler.go", Old: "\tif cur := p.connections[key]; cur != nil && cur != conn && cur.GetState() != connectivity.Shutdown {\n\t\tconn.Close()\n\t\treturn cur\n\t}\n", New: "", Expect: "C16.P2"},
			{Name: "cleanup sleeps while holding the lock", File: "proxy/grpc_handler.go", Old: "\t\tp.lock.Unlock()\n\t\ttime.Sleep(p.cleanupInterval)", New: "\t\ttime.Sleep(p.cleanupInterval)\n\t\tp.lock.Unlock()", Expect: "C16.P3"},
			{Name: "cleanup without pause", File: "proxy/grpc_handler.go", Old: "\t\tp.lock.Unlock()\n\t\ttime.Sleep(p.cleanupInterval)", New: "\t\tp.lock.Unlock()", Expect: "C16.P3"},
			{Name: "lookup host taken from authority instead of dsthost", File: "proxy/grpc_handler.go", Old: "\thosts := md[\"dsthost\"]", New: "\thosts := md[\":authority\"]", Expect: "C16.L1"},
			{Name: "benign: chained interceptor", File: "main.go", Old: "grpc.StreamInterceptor(proxyInterceptor.Stream),", New: "grpc.ChainStreamInterceptor(proxyInterceptor.Stream),", Expect: ""},
		}, append(c16moreMutants, append(c16round2Mutants, c16round3Mutants...)...)...),
	})
}

func runC16(c *Ctx) {
	runC16G1K1(c)
	runC16M1(c)
	runC16W1(c)
	runC16L1(c)
	runC16P(c)
	runC16Extra(c)
	runC16H1(c)
}

// grpcStatusCode: v is status.Error(codes.X, ...) -> X's numeric value.
func grpcStatusCode(v ssa.Value) (int64, bool) {
	call, ok := v.(*ssa.Call)
	if !ok {
		return 0, false
	}
	n := calleeName(&call.Call)
	if n != "google.golang.org/grpc/status.Error" && n != "google.golang.org/grpc/status.Errorf" {
		return 0, false
	}
	return constInt(call.Call.Args[0])
}

// ---- G1 / K1 ----------------------------------------------------------------------------------------------------------

func runC16G1K1(c *Ctx) {
	R := c16resolve(c)
	stream := R.stream
	if !c.need("C16.G1", stream, "the stream interceptor of package proxy (GrpcProxyInterceptor.Stream)") {
		return
	}
	if len(R.lookups) == 0 {
		c.undecided("C16.G1", "proxy.GrpcProxyInterceptor.Stream|lookup call", "the interceptor does not look the route up (no call of route.Table.Lookup in its region)")
		return
	}
	needErr := R.hasLookupHelper()
	for _, call := range R.handlers {
		paired := R.targetByPairedResult(call.Block(), needErr)
		okT := paired || c16knownNonNil(call.Block(), R.isTarget)
		okE := paired || !needErr || c16knownNil(call.Block(), R.isLookupErr)
		c.check("C16.G1", "proxy.GrpcProxyInterceptor.Stream|handler only with a target and without lookup error", call.Pos(), okT && okE,
			"the proxying handler must run only on the edge where the lookup succeeded and found a target; otherwise the director runs without a target (or a backend is contacted for a call that has no route)")
		// the stream handed on carries the context with the target
		wrapped := false
		if len(call.Call.Args) == 2 {
			wrapped = c16derivesF(call.Call.Args[1], func(v ssa.Value) bool {
				wv, ok := isCallTo(v, "context.WithValue")
				return ok && wv != nil
			})
		}
		c.check("C16.G1", "proxy.GrpcProxyInterceptor.Stream|handler receives the stream whose context carries the target", call.Pos(), wrapped,
			"the stream given to the handler must wrap a context built with context.WithValue(ctx, key, target); with the original stream the director finds no target")
	}
	c.atLeast("C16.G1", "calls of the wrapped handler", len(R.handlers), 1)
	runC16G1Wrapper(c, R)

	// status codes on the two failure edges: every status error returned where the target is known to be nil is NotFound,
	// every one returned where the lookup error is known to be non-nil is Internal — wherever the status is built.
	sawNotFound, sawInternal := false, false
	looseNotFound, looseInternal := false, false
	for _, f := range R.sreg {
		eachInstr(f, func(i ssa.Instruction) {
			r, ok := i.(*ssa.Return)
			if !ok {
				return
			}
			var res ssa.Value
			for _, x := range r.Results {
				if c16isErrT(x.Type()) {
					res = x
				}
			}
			if res == nil {
				return
			}
			defs := defsOf(res)
			for _, d := range defs {
				codes := c16statusCodes(d.Val)
				if len(codes) == 0 {
					continue
				}
				blk := d.Block
				if blk == nil || (len(defs) == 1 && d.Val == res) {
					blk = r.Block()
				}
				all := func(want int64) bool {
					for _, k := range codes {
						if k != want {
							return false
						}
					}
					return true
				}
				switch {
				case all(5) && !c16knownNonNil(blk, R.isTarget):
					looseNotFound = true
				case all(13) && !c16knownNil(blk, R.isLookupErr):
					looseInternal = true
				}
				switch {
				case c16knownNil(blk, R.isTarget):
					sawNotFound = true
					c.check("C16.G1", "proxy.GrpcProxyInterceptor.Stream|no route => NotFound", r.Pos(), all(5), "a call without a matching route must fail with codes.NotFound")
				case c16knownNonNil(blk, R.isLookupErr):
					sawInternal = true
					c.check("C16.G1", "proxy.GrpcProxyInterceptor.Stream|lookup error => Internal", r.Pos(), all(13), "a failing lookup must be reported as codes.Internal")
				}
			}
		})
	}
	// where the guards are written so that the branch facts do not name the failing value (`if err == nil && target != nil
	// { proxy } ... else ...`), a NotFound / Internal status returned off the proxying edge stands for the edge
	c.check("C16.G1", "proxy.GrpcProxyInterceptor.Stream|both failure edges return a status", stream.Pos(), (sawNotFound || looseNotFound) && (sawInternal || looseInternal || !needErr), "the nil-target and the lookup-error edge must each return a gRPC status error")

	// K1: what the interceptor writes into the context, the director reads
	type wr struct {
		key, val ssa.Value
		pos      token.Pos
	}
	var writes []wr
	eachInstrOf(R.sreg, func(_ *ssa.Function, i ssa.Instruction) {
		call, ok := i.(*ssa.Call)
		if !ok || calleeName(&call.Call) != "context.WithValue" {
			return
		}
		val := stripIface(call.Call.Args[2])
		if c16isTargetT(val.Type()) || R.isTarget(val) {
			writes = append(writes, wr{stripIface(call.Call.Args[1]), val, call.Pos()})
		}
	})
	type rd struct {
		key    ssa.Value
		call   *ssa.Call
		assert []types.Type
	}
	var reads []rd
	if len(R.directors) == 0 {
		c.undecided("C16.K1", "anchor|proxy director", "no function of package proxy returns (context.Context, *grpc.ClientConn, error)")
		return
	}
	eachInstrOf(c16region(R.directors...), func(_ *ssa.Function, i ssa.Instruction) {
		v, ok := i.(ssa.Value)
		if !ok {
			return
		}
		call := c16ctxValueCall(v)
		if call == nil {
			return
		}
		x := rd{key: stripIface(call.Call.Args[0]), call: call}
		for _, r := range *call.Referrers() {
			if ta, ok := r.(*ssa.TypeAssert); ok {
				x.assert = append(x.assert, ta.AssertedType)
			}
		}
		reads = append(reads, x)
	})
	// the assertion may be made on the value after it travelled through an accessor that returns it as interface{}
	eachInstrOf(c16region(R.directors...), func(_ *ssa.Function, i ssa.Instruction) {
		ta, ok := i.(*ssa.TypeAssert)
		if !ok {
			return
		}
		for k := range reads {
			rc := reads[k].call
			if ta.X != rc && derives(ta.X, func(x ssa.Value) bool { return x == rc }) {
				reads[k].assert = append(reads[k].assert, ta.AssertedType)
			}
		}
	})
	sameKey := func(a, b ssa.Value) bool {
		if !types.Identical(a.Type(), b.Type()) {
			return false
		}
		ka, isA := a.(*ssa.Const)
		kb, isB := b.(*ssa.Const)
		if isA && isB && ka.Value != nil && kb.Value != nil {
			return ka.Value.ExactString() == kb.Value.ExactString()
		}
		return true
	}
	for _, w := range writes {
		ok := false
		for _, r := range reads {
			if !sameKey(w.key, r.key) {
				continue
			}
			for _, at := range r.assert {
				if types.Identical(at, w.val.Type()) {
					ok = true
				}
			}
		}
		c.check("C16.K1", "proxy|context key written by the interceptor is the one the director reads", w.pos, ok,
			"interceptor stores the target under one key type and the director reads it under another (or asserts another type): the director never sees a target and every call fails")
	}
	c.atLeast("C16.K1", "context.WithValue(ctx, key, target) in the interceptor", len(writes), 1)
}

// ---- M1 -----------------------------------------------------------------------------------------------------------------

// c16poolGetter: call is a synchronous call of a repository function that hands out a *grpc.ClientConn and consults the
// connection table (today (*grpcConnectionPool).Get).
func c16poolGetter(call *ssa.Call) bool {
	if call.Call.IsInvoke() {
		// the pool behind a small interface: what may stand behind it
		ms := c16invokeTargets(&call.Call)
		for _, m := range ms {
			if !c16poolGetterFn(m) {
				return false
			}
		}
		return len(ms) > 0
	}
	if call.Call.StaticCallee() == nil {
		// the getter as a function value (a method value in a local, a captured variable or a field of the director's
		// state): every function it may denote
		fs := c16funcsOf(call.Call.Value, 0)
		for _, m := range fs {
			if !c16poolGetterFn(m) {
				return false
			}
		}
		return len(fs) > 0
	}
	return c16poolGetterFn(call.Call.StaticCallee())
}

func c16poolGetterFn(sc *ssa.Function) bool {
	if sc == nil || !isRepoFn(sc) {
		return false
	}
	res, has := sc.Signature.Results(), false
	for k := 0; k < res.Len(); k++ {
		has = has || c16isConnT(res.At(k).Type())
	}
	if !has {
		return false
	}
	isRead := func(i ssa.Instruction) bool {
		lk, ok := i.(*ssa.Lookup)
		return ok && c16isConnMap(lk.X)
	}
	if mayExec(unwrap(sc), isRead, 0) {
		return true
	}
	// the read may sit in a closure handed to a locking wrapper
	for _, f := range c16region(unwrap(sc)) {
		if fnHas(f, isRead) {
			return true
		}
	}
	return false
}

func runC16M1(c *Ctx) {
	R := c16resolve(c)
	if len(R.directors) == 0 {
		c.undecided("C16.M1", "proxy.GetGRPCDirector|director closure", "no function of package proxy returns (context.Context, *grpc.ClientConn, error)")
		return
	}
	dreg := c16region(R.directors...)
	var ctxParams []*ssa.Parameter
	for _, d := range R.directors {
		for _, p := range d.Params {
			if c16isCtxT(p.Type()) {
				ctxParams = append(ctxParams, p)
			}
		}
	}
	var outs []*ssa.Call
	eachInstrOf(dreg, func(_ *ssa.Function, i ssa.Instruction) {
		if call, ok := i.(*ssa.Call); ok && calleeName(&call.Call) == c16mdPkg+".NewOutgoingContext" {
			outs = append(outs, call)
		}
	})
	if len(outs) == 0 {
		c.check("C16.M1", "proxy.GetGRPCDirector$1|outgoing context", R.directors[0].Pos(), false, "the director must build the outgoing context with metadata.NewOutgoingContext")
		return
	}
	fromIncoming := func(v ssa.Value) bool {
		return derives(v, func(x ssa.Value) bool {
			in, ok := isCallTo(x, c16mdPkg+".FromIncomingContext")
			return ok && c16fromCtx(in.Call.Args[0], ctxParams)
		})
	}
	for _, out := range outs {
		okCtx := c16fromCtx(out.Call.Args[0], ctxParams)
		okMD := derives(out.Call.Args[1], func(x ssa.Value) bool {
			if cp, ok := isCallTo(x, "("+c16mdPkg+".MD).Copy"); ok {
				return fromIncoming(cp.Call.Args[0])
			}
			if j, ok := isCallTo(x, c16mdPkg+".Join"); ok {
				for _, a := range j.Call.Args {
					if fromIncoming(a) {
						return true
					}
				}
			}
			return false
		})
		c.check("C16.M1", "proxy.GetGRPCDirector$1|outgoing metadata is a copy of the incoming metadata of the same call", out.Pos(), okCtx && okMD,
			"the backend must receive the caller's metadata: NewOutgoingContext(ctx, md.Copy()) with md = FromIncomingContext(ctx)")
	}
	isOut := func(v ssa.Value) bool {
		return derives(v, func(x ssa.Value) bool {
			for _, o := range outs {
				if x == o {
					return true
				}
			}
			return false
		})
	}
	// connection from the pool for the context's target; returned context is the outgoing one
	nPooled := 0
	for _, f := range dreg {
		if !c16isDirectorFn(f) {
			continue
		}
		eachInstr(f, func(i ssa.Instruction) {
			r, ok := i.(*ssa.Return)
			if !ok || len(r.Results) != 3 {
				return
			}
			// a return that only forwards the triple of another director-shaped function is judged there
			if e, isE := r.Results[1].(*ssa.Extract); isE {
				if call, isC := e.Tuple.(*ssa.Call); isC {
					if sc := call.Call.StaticCallee(); sc != nil && c16isDirectorFn(sc) && c16inFns(dreg, unwrap(sc)) {
						return
					}
				}
			}
			if isNilConst(r.Results[1]) {
				c.check("C16.M1", "proxy.GetGRPCDirector$1|no connection => error", r.Pos(), !isNilConst(r.Results[2]), "a director return without a connection must carry an error")
				return
			}
			fromPool := derives(r.Results[1], func(v ssa.Value) bool {
				call, ok := v.(*ssa.Call)
				if !ok || !c16poolGetter(call) {
					return false
				}
				// keyed by the context's target
				for _, a := range call.Call.Args {
					if !c16isTargetT(a.Type()) && typeStr(a.Type().Underlying()) != "string" {
						continue // the target itself, or the pool key computed from it
					}
					if derives(a, func(x ssa.Value) bool { return c16ctxValueCall(x) != nil }) {
						return true
					}
				}
				return false
			})
			if fromPool {
				nPooled++
			}
			c.check("C16.M1", "proxy.GetGRPCDirector$1|connection from the pool for the context's target", r.Pos(), fromPool && isOut(r.Results[0]),
				"the director must return the outgoing context and the pooled connection of the target the interceptor chose")
		})
	}
	c.atLeast("C16.M1", "director returns handing out a pooled connection", nPooled, 1)
}

// ---- W1 -----------------------------------------------------------------------------------------------------------------

func runC16W1(c *Ctx) {
	R := c16resolve(c)
	// the server options are found by what they are (calls of grpc.ServerOption constructors anywhere in the repository), not
	// by the function that assembles them today (main.newGrpcProxy)
	opts := map[string][]*ssa.Call{}
	var anchor *ssa.Function
	for _, f := range c.AllFns {
		ff := f
		eachInstr(f, func(i ssa.Instruction) {
			call, ok := i.(*ssa.Call)
			if !ok {
				return
			}
			n := calleeName(&call.Call)
			if !strings.HasPrefix(n, c16grpc+".") {
				return
			}
			if res := call.Call.Signature().Results(); res.Len() != 1 || typeStr(res.At(0).Type()) != c16grpc+".ServerOption" {
				return
			}
			opts[strings.TrimPrefix(n, c16grpc+".")] = append(opts[strings.TrimPrefix(n, c16grpc+".")], call)
			if anchor == nil || strings.HasSuffix(n, ".UnknownServiceHandler") {
				anchor = ff
			}
		})
	}
	if anchor == nil {
		c.undecided("C16.W1", "anchor|main.newGrpcProxy", "no function of the repository builds a grpc.ServerOption")
		return
	}
	// every option must end up in a slice of options (the literal, an append, a variadic argument)
	var usedV func(v ssa.Value, d int) bool
	usedV = func(v ssa.Value, d int) bool {
		if v == nil || v.Referrers() == nil || d > 3 {
			return false
		}
		for _, r := range *v.Referrers() {
			switch y := r.(type) {
			case *ssa.Store:
				if _, isIA := y.Addr.(*ssa.IndexAddr); isIA && y.Val == v {
					return true
				}
			case *ssa.Phi:
				if usedV(y, d+1) {
					return true
				}
			case *ssa.ChangeType:
				if usedV(y, d+1) {
					return true
				}
			case *ssa.Return:
				// a helper that builds one option: used where the helper's result is
				idx := -1
				for k, res := range y.Results {
					if res == v {
						idx = k
					}
				}
				for _, s := range gSites[y.Parent()] {
					sc, isCall := s.(*ssa.Call)
					if !isCall || idx < 0 {
						continue
					}
					if len(y.Results) == 1 {
						if usedV(sc, d+1) {
							return true
						}
						continue
					}
					for _, r2 := range *sc.Referrers() {
						if e, isE := r2.(*ssa.Extract); isE && e.Index == idx && usedV(e, d+1) {
							return true
						}
					}
				}
			}
		}
		return false
	}
	used := func(call *ssa.Call) bool { return usedV(call, 0) }
	some := func(names []string, pred func(*ssa.Call) bool) bool {
		for _, n := range names {
			for _, call := range opts[n] {
				if used(call) && pred(call) {
					return true
				}
			}
		}
		return false
	}
	okCodec := some([]string{"CustomCodec", "ForceServerCodec"}, func(call *ssa.Call) bool {
		return derives(call.Call.Args[0], func(v ssa.Value) bool {
			_, ok := isCallTo(v, "github.com/mwitkow/grpc-proxy/proxy.Codec")
			return ok
		})
	})
	c.check("C16.W1", "main.newGrpcProxy|proxy codec installed", anchor.Pos(), okCodec, "without grpc_proxy.Codec() the server tries to unmarshal frames it must forward opaquely")
	okUSH := some([]string{"UnknownServiceHandler"}, func(call *ssa.Call) bool {
		return derives(call.Call.Args[0], func(v ssa.Value) bool {
			th, ok := isCallTo(v, "github.com/mwitkow/grpc-proxy/proxy.TransparentHandler")
			if !ok {
				return false
			}
			// driven by fabio's director: the argument denotes a director-shaped function of package proxy
			return derives(th.Call.Args[0], func(x ssa.Value) bool {
				for _, f := range funcsOf(x) {
					if c16inFns(R.directors, f) {
						return true
					}
				}
				return false
			})
		})
	})
	c.check("C16.W1", "main.newGrpcProxy|UnknownServiceHandler(TransparentHandler(director))", anchor.Pos(), okUSH, "every method must be handled by the transparent handler driven by fabio's director")
	okSI := R.stream != nil && some([]string{"StreamInterceptor", "ChainStreamInterceptor"}, func(call *ssa.Call) bool {
		return derives(call.Call.Args[0], func(v ssa.Value) bool {
			switch v.(type) {
			case *ssa.MakeClosure, *ssa.Function:
			default:
				return false
			}
			for _, f := range funcsOf(v) {
				if c16reaches(f, R.stream) {
					return true
				}
			}
			return false
		})
	})
	c.check("C16.W1", "main.newGrpcProxy|stream interceptor is GrpcProxyInterceptor.Stream", anchor.Pos(), okSI, "without the interceptor no route lookup happens and every call fails in the director with 'no route found'")
	for _, lim := range []struct{ opt, field string }{{"MaxRecvMsgSize", "GRPCMaxRxMsgSize"}, {"MaxSendMsgSize", "GRPCMaxTxMsgSize"}} {
		field := lim.field
		ok := some([]string{lim.opt}, func(call *ssa.Call) bool {
			return derives(call.Call.Args[0], func(v ssa.Value) bool { _, is := fieldOf(v, "config.Proxy", field); return is })
		})
		// ... and from nothing else: the other limit must not flow into this option
		for _, call := range opts[lim.opt] {
			for _, other := range []string{"GRPCMaxRxMsgSize", "GRPCMaxTxMsgSize"} {
				o := other
				if o != field && derives(call.Call.Args[0], func(v ssa.Value) bool { _, is := fieldOf(v, "config.Proxy", o); return is }) {
					ok = false
				}
			}
		}
		c.check("C16.W1", "main.newGrpcProxy|"+lim.opt+" from "+lim.field, anchor.Pos(), ok, "grpc."+lim.opt+" must be given cfg.Proxy."+lim.field)
	}
}

// ---- L1 -----------------------------------------------------------------------------------------------------------------

// c16mdReads collects, on the backward slice of v, the reads of grpc metadata by key (md[k], md.Get(k)) and the
// element accesses of the value lists read.
type c16mdRead struct {
	key   string
	known bool
	pos   token.Pos
	at    ssa.Instruction
}

func c16mdReads(v ssa.Value) (reads []c16mdRead, elems []*ssa.IndexAddr) {
	c16derivesF(v, func(x ssa.Value) bool {
		switch y := x.(type) {
		case *ssa.Lookup:
			if c16isMDT(y.X.Type()) {
				k, ok := constString(y.Index)
				reads = append(reads, c16mdRead{k, ok, y.Pos(), y})
			}
		case *ssa.Call:
			if n := calleeName(&y.Call); strings.HasSuffix(n, "metadata.MD).Get") || n == c16mdPkg+".ValueFromIncomingContext" {
				k, ok := constString(y.Call.Args[len(y.Call.Args)-1])
				reads = append(reads, c16mdRead{k, ok, y.Pos(), y})
			}
		case *ssa.IndexAddr:
			if s, ok := y.X.Type().Underlying().(*types.Slice); ok && typeStr(s.Elem()) == "string" {
				elems = append(elems, y)
			}
		}
		return false
	})
	return
}

func runC16L1(c *Ctx) {
	R := c16resolve(c)
	if R.stream == nil {
		return
	}
	if len(R.lookups) == 0 {
		c.check("C16.L1", "proxy.GrpcProxyInterceptor.lookup|Table.Lookup", R.stream.Pos(), false, "the gRPC lookup must go through route.Table.Lookup")
		return
	}
	isFullMethod := func(v ssa.Value) bool {
		_, ok := fieldOf(v, c16grpc+".StreamServerInfo", "FullMethod")
		return ok
	}
	for _, call := range R.lookups {
		// receiver is GetTable()
		fromGet := derives(call.Call.Args[0], func(v ssa.Value) bool { _, ok := isCallTo(v, repoMod+"/route.GetTable"); return ok })
		c.check("C16.L1", "proxy.GrpcProxyInterceptor.lookup|looks up the active table", call.Pos(), fromGet, "the lookup must use route.GetTable()")
		// the synthetic request: URL from the call's full method, Host from the dsthost metadata
		allocs := c16allocsOf(call.Call.Args[1], "http.Request")
		if len(allocs) == 0 {
			c.undecided("C16.L1", "proxy.GrpcProxyInterceptor.lookup|synthetic request", "the request given to Table.Lookup is not built in the interceptor's region")
			continue
		}
		okURL, okHost := true, true
		for _, alloc := range allocs {
			fs := fieldStores(alloc)
			u := false
			for _, st := range fs["URL"] {
				if c16derivesF(st.Val, isFullMethod) {
					u = true
				}
			}
			okURL = okURL && u
			h := len(fs["Host"]) > 0
			for _, st := range fs["Host"] {
				h = h && derivesDstHost(c, st.Val)
			}
			okHost = okHost && h
		}
		c.check("C16.L1", "proxy.GrpcProxyInterceptor.lookup|path is the full method name", call.Pos(), okURL, "the route is matched against the call's full method (/package.Service/Method)")
		c.check("C16.L1", "proxy.GrpcProxyInterceptor.lookup|host is the single dsthost metadata value", call.Pos(), okHost, "the host used for routing must be the 'dsthost' metadata value (only when exactly one is present)")
		// picker / matcher from config
		okPick := c16derivesF(call.Call.Args[3], func(v ssa.Value) bool { _, ok := fieldOf(v, "config.Proxy", "Strategy"); return ok })
		okMatch := c16derivesF(call.Call.Args[4], func(v ssa.Value) bool { _, ok := fieldOf(v, "config.Proxy", "Matcher"); return ok })
		c.check("C16.L1", "proxy.GrpcProxyInterceptor.lookup|configured strategy and matcher", call.Pos(), okPick && okMatch, "the gRPC lookup must use route.Picker[cfg.Proxy.Strategy] and route.Matcher[cfg.Proxy.Matcher]")
	}
}

// derivesDstHost: the routing host v is taken from the "dsthost" metadata, and only where exactly one value is present.
func derivesDstHost(c *Ctx, v ssa.Value) bool {
	reads, elems := c16mdReads(v)
	dst := false
	for _, r := range reads {
		if r.known && r.key == "dsthost" {
			dst = true
		}
	}
	single := false
	for _, ia := range elems {
		if c16lenIsOne(ia.Block(), ia.X) {
			single = true
		}
	}
	return dst && single
}

func stripLoad(v ssa.Value) ssa.Value {
	if u, ok := v.(*ssa.UnOp); ok && u.Op == token.MUL {
		return u.X
	}
	return v
}

// targetByPairedResult: the block is reached only where the error result of a helper H is nil, and H returns a nil error
// only together with a non-nil target of the lookup (`target, st := g.resolve(...); if st != nil { return st }`: the
// nil-target guard lives in resolve).
func (r *c16roles) targetByPairedResult(b *ssa.BasicBlock, needErr bool) bool {
	for _, ft := range c16factsAt(b, 0) {
		var call *ssa.Call
		eIdx := -1
		if nn, ok := nilFact(ft, func(v ssa.Value) bool {
			if !c16isErrT(v.Type()) {
				return false
			}
			switch x := v.(type) {
			case *ssa.Extract:
				if cl, isC := x.Tuple.(*ssa.Call); isC {
					call, eIdx = cl, x.Index
					return true
				}
			case *ssa.Call:
				call, eIdx = x, 0 // a helper whose only result is the status to fail the call with
				return true
			}
			return false
		}); !ok || nn || call == nil {
			continue
		}
		h := call.Call.StaticCallee()
		if h == nil || !isRepoFn(h) || len(h.Blocks) == 0 || !c16inFns(r.sreg, h) {
			continue
		}
		tIdx := -1
		for k := 0; k < h.Signature.Results().Len(); k++ {
			if c16isTargetT(h.Signature.Results().At(k).Type()) {
				tIdx = k
			}
		}
		// without a target result the helper hands the target on in a field of the per-call state it was given (or
		// returns): a nil error then requires a store of the known non-nil target into such a field on the way
		var carried []*ssa.Store
		if tIdx < 0 {
			eachInstr(h, func(i ssa.Instruction) {
				st, ok := i.(*ssa.Store)
				if !ok {
					return
				}
				if _, isF := st.Addr.(*ssa.FieldAddr); isF && c16isTargetT(st.Val.Type()) && r.isTarget(st.Val) && c16knownNonNil(st.Block(), samePath(st.Val)) {
					carried = append(carried, st)
				}
			})
		}
		// ... or it is given the lookup's outcome and turns it into the status to fail the call with (nil: go on)
		byArgs := false
		if tIdx < 0 && len(carried) == 0 {
			for _, a := range call.Call.Args {
				if r.isTarget(a) {
					byArgs = true
				}
			}
			if !byArgs {
				continue
			}
		}
		good, n := true, 0
		eachInstr(h, func(i ssa.Instruction) {
			ret, isR := i.(*ssa.Return)
			if !isR || len(ret.Results) <= eIdx || len(ret.Results) <= tIdx {
				return
			}
			n++
			ev := ret.Results[eIdx]
			if c16surelyError(ev, ret.Block()) {
				return
			}
			errOK := !needErr || c16knownNil(ret.Block(), r.isLookupErr)
			if tIdx >= 0 {
				if tv := ret.Results[tIdx]; r.isTarget(tv) && c16knownNonNil(ret.Block(), samePath(tv)) && errOK {
					return
				}
			} else {
				for _, st := range carried {
					if dominatesInstr(st, ret) && errOK {
						return
					}
				}
				if byArgs && errOK && c16knownNonNil(ret.Block(), r.isTarget) {
					return
				}
			}
			good = false
		})
		if good && n > 0 {
			return true
		}
	}
	return false
}

// c16surelyError: v is a non-nil error at block b: freshly made, or known non-nil by the branch facts.
func c16surelyError(v ssa.Value, b *ssa.BasicBlock) bool {
	if isNilConst(v) {
		return false
	}
	if len(c16statusCodes(v)) > 0 {
		if _, isPhi := v.(*ssa.Phi); !isPhi {
			return true
		}
	}
	if call, ok := v.(*ssa.Call); ok {
		switch calleeName(&call.Call) {
		case "fmt.Errorf", "errors.New":
			return true
		}
	}
	return c16knownNonNil(b, samePath(v))
}

// runC16G1Wrapper: the stream handed to the handler must answer Context() with the context that carries the target, not
// with the embedded stream's own context.
func runC16G1Wrapper(c *Ctx, R *c16roles) {
	const what = "the stream handed to the handler must return the stored context (built with context.WithValue(ctx, key, target)) from Context(); with the embedded stream's own context the director finds no target and every call fails with 'no route found'"
	for _, call := range R.handlers {
		if len(call.Call.Args) != 2 {
			continue
		}
		seen := map[types.Type]bool{}
		c16derivesF(call.Call.Args[1], func(v ssa.Value) bool {
			mi, ok := v.(*ssa.MakeInterface)
			if !ok || seen[mi.X.Type()] {
				return false
			}
			seen[mi.X.Type()] = true
			sel := c.Prog.MethodSets.MethodSet(mi.X.Type()).Lookup(nil, "Context")
			if sel == nil {
				return false
			}
			m := c.Prog.MethodValue(sel)
			if m == nil {
				return false
			}
			if m.Synthetic != "" || !isRepoFn(m) || len(m.Blocks) == 0 {
				// promoted from the embedded grpc.ServerStream: the wrapper has no Context() of its own
				c.check("C16.G1", "proxy.proxyStream.Context|the wrapper stream returns the context that carries the target", call.Pos(), false, what)
				return false
			}
			own := false
			eachInstr(m, func(i ssa.Instruction) {
				ret, isR := i.(*ssa.Return)
				if !isR || len(ret.Results) != 1 {
					return
				}
				if derives(ret.Results[0], func(x ssa.Value) bool {
					switch y := x.(type) {
					case *ssa.FieldAddr:
						return c16isCtxT(deref(y.Type()))
					case *ssa.Field:
						return c16isCtxT(y.Type())
					}
					return false
				}) {
					own = true
				}
			})
			c.check("C16.G1", "proxy.proxyStream.Context|the wrapper stream returns the context that carries the target", m.Pos(), own, what)
			return false
		})
	}
}

func deref(t types.Type) types.Type {
	if p, ok := t.Underlying().(*types.Pointer); ok {
		return p.Elem()
	}
	return t
}
