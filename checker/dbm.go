package main

import (
	"go/token"
	"go/types"
	"math"

	"golang.org/x/tools/go/ssa"
)

// E10 — difference-bound prover (DESIGN §4): collects constraints x - y <= c from the
// branch facts that dominate a program point and from SSA definitions, and answers
// "x - y <= c ?" with Bellman-Ford. Sound and incomplete: an unanswered query is undecided.

type dbm struct {
	idx   map[ssa.Value]int
	vals  []ssa.Value
	edges []dbmEdge // v - u <= w  (edge u -> v with weight w)
}

type dbmEdge struct {
	u, v int
	w    int64
}

func newDBM() *dbm {
	d := &dbm{idx: map[ssa.Value]int{}}
	d.vals = append(d.vals, nil) // node 0 = the constant zero
	return d
}

func (d *dbm) node(v ssa.Value) int {
	if i, ok := d.idx[v]; ok {
		return i
	}
	i := len(d.vals)
	d.idx[v] = i
	d.vals = append(d.vals, v)
	d.define(v, i)
	return i
}

// le adds x - y <= c.
func (d *dbm) le(x, y int, c int64) { d.edges = append(d.edges, dbmEdge{y, x, c}) }

// define adds the constraints implied by the SSA definition of v.
func (d *dbm) define(v ssa.Value, i int) {
	if k, ok := constInt(v); ok {
		d.le(i, 0, k)
		d.le(0, i, -k)
		return
	}
	if lo, hi, ok := staticRange(v); ok {
		d.le(i, 0, hi)
		d.le(0, i, -lo)
	}
	switch x := v.(type) {
	case *ssa.BinOp:
		switch x.Op {
		case token.ADD:
			if k, ok := constInt(x.Y); ok {
				y := d.node(x.X)
				d.le(i, y, k)
				d.le(y, i, -k)
			} else if k, ok := constInt(x.X); ok {
				y := d.node(x.Y)
				d.le(i, y, k)
				d.le(y, i, -k)
			}
		case token.SUB:
			if k, ok := constInt(x.Y); ok {
				y := d.node(x.X)
				d.le(i, y, -k)
				d.le(y, i, k)
			}
		}
	case *ssa.Convert:
		// widening integer conversions preserve the value
		if isIntType(x.X.Type()) && isIntType(x.Type()) && staticWidens(x.X.Type(), x.Type()) {
			y := d.node(x.X)
			d.le(i, y, 0)
			d.le(y, i, 0)
		}
	case *ssa.Call:
		if calleeName(&x.Call) == "builtin.len" {
			d.le(0, i, 0) // len >= 0
		}
	}
}

func isIntType(t types.Type) bool {
	b, ok := t.Underlying().(*types.Basic)
	return ok && b.Info()&types.IsInteger != 0
}

func staticWidens(from, to types.Type) bool {
	fb, _ := from.Underlying().(*types.Basic)
	tb, _ := to.Underlying().(*types.Basic)
	if fb == nil || tb == nil {
		return false
	}
	size := func(b *types.Basic) int {
		switch b.Kind() {
		case types.Uint8, types.Int8:
			return 8
		case types.Uint16, types.Int16:
			return 16
		case types.Uint32, types.Int32:
			return 32
		}
		return 64
	}
	unsignedFrom := fb.Info()&types.IsUnsigned != 0
	if unsignedFrom {
		return size(tb) > size(fb) || (size(tb) == size(fb) && tb.Info()&types.IsUnsigned != 0)
	}
	return tb.Info()&types.IsUnsigned == 0 && size(tb) >= size(fb)
}

// staticRange: value ranges that follow from the types and the shape of the expression alone.
func staticRange(v ssa.Value) (lo, hi int64, ok bool) {
	switch x := v.(type) {
	case *ssa.Convert:
		if b, isB := x.X.Type().Underlying().(*types.Basic); isB && isIntType(x.Type()) {
			switch b.Kind() {
			case types.Uint8:
				return 0, 255, true
			case types.Uint16:
				return 0, 65535, true
			}
		}
	case *ssa.UnOp:
		if x.Op == token.MUL {
			if b, isB := x.Type().Underlying().(*types.Basic); isB {
				switch b.Kind() {
				case types.Uint8:
					return 0, 255, true
				case types.Uint16:
					return 0, 65535, true
				}
			}
		}
	case *ssa.BinOp:
		switch x.Op {
		case token.SHL:
			if k, isK := constInt(x.Y); isK && k >= 0 && k < 40 {
				if l, h, ok := staticRange(x.X); ok && l >= 0 {
					return l << uint(k), h << uint(k), true
				}
			}
		case token.OR:
			l1, h1, ok1 := staticRange(x.X)
			l2, h2, ok2 := staticRange(x.Y)
			if ok1 && ok2 && l1 >= 0 && l2 >= 0 {
				// a|b <= a+b for non-negative operands, and >= max(a,b)
				lo := l1
				if l2 > lo {
					lo = l2
				}
				return lo, h1 + h2, true
			}
		case token.AND:
			if k, isK := constInt(x.Y); isK && k >= 0 {
				return 0, k, true
			}
		}
	}
	return 0, 0, false
}

// assume adds the constraint of a branch fact.
func (d *dbm) assume(f Fact) {
	b, ok := f.Cond.(*ssa.BinOp)
	if !ok || !isIntType(b.X.Type()) {
		return
	}
	op := b.Op
	if !f.Truth {
		switch op {
		case token.LSS:
			op = token.GEQ
		case token.GEQ:
			op = token.LSS
		case token.GTR:
			op = token.LEQ
		case token.LEQ:
			op = token.GTR
		case token.EQL:
			op = token.NEQ
		case token.NEQ:
			op = token.EQL
		default:
			return
		}
	}
	x, y := d.node(b.X), d.node(b.Y)
	switch op {
	case token.LSS: // x < y
		d.le(x, y, -1)
	case token.LEQ:
		d.le(x, y, 0)
	case token.GTR: // x > y  <=> y - x <= -1
		d.le(y, x, -1)
	case token.GEQ:
		d.le(y, x, 0)
	case token.EQL:
		d.le(x, y, 0)
		d.le(y, x, 0)
	}
}

// upper returns the least proven c with x - y <= c (y == nil means the constant 0).
func (d *dbm) upper(x, y ssa.Value) (int64, bool) {
	xi := d.node(x)
	yi := 0
	if y != nil {
		yi = d.node(y)
	}
	n := len(d.vals)
	dist := make([]int64, n)
	for i := range dist {
		dist[i] = math.MaxInt64
	}
	dist[yi] = 0
	for it := 0; it < n; it++ {
		ch := false
		for _, e := range d.edges {
			if dist[e.u] != math.MaxInt64 && dist[e.u]+e.w < dist[e.v] {
				dist[e.v] = dist[e.u] + e.w
				ch = true
			}
		}
		if !ch {
			break
		}
	}
	if dist[xi] == math.MaxInt64 {
		return 0, false
	}
	return dist[xi], true
}

// lower returns the greatest proven c with x >= c.
func (d *dbm) lower(x ssa.Value) (int64, bool) {
	// 0 - x <= -c  <=> x >= c
	xi := d.node(x)
	n := len(d.vals)
	dist := make([]int64, n)
	for i := range dist {
		dist[i] = math.MaxInt64
	}
	dist[xi] = 0
	for it := 0; it < n; it++ {
		ch := false
		for _, e := range d.edges {
			if dist[e.u] != math.MaxInt64 && dist[e.u]+e.w < dist[e.v] {
				dist[e.v] = dist[e.u] + e.w
				ch = true
			}
		}
		if !ch {
			break
		}
	}
	if dist[0] == math.MaxInt64 {
		return 0, false
	}
	return -dist[0], true
}

// dbmAt builds the constraint system holding at block b.
func dbmAt(b *ssa.BasicBlock) *dbm {
	d := newDBM()
	for _, f := range factsAt(b) {
		d.assume(f)
	}
	return d
}
