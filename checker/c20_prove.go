package main

// C20.P3 prover: discharges the bounds checks the Go compiler's prove pass leaves in the access logger and the
// request-path formatters by an interval analysis of the SSA form instead of a table keyed by function and variable
// names. What it knows:
//
//   - integer intervals of SSA values (constants, arithmetic, conversions, masks and shifts), refined by the branch
//     conditions that dominate the use (also through `128 - p - 1 < pad` style linear forms);
//   - loop-carried values: ascending iteration with delayed widening and a narrowing phase; a loop whose carried
//     value q is replaced by q / k (k >= 2) on every back edge and whose back edges are only taken while the quotient
//     is non-zero runs at most log_k(max |q|) times, so a counter stepped by a constant in it stays within
//     init +- steps (the digit loops of atoi / i32toa);
//   - interprocedural facts: a parameter of a function that is only called statically ranges over the arguments at
//     its call sites (constants, `elapsed(time.Millisecond, 3)`), a captured variable over the values stored into its
//     cell, the result of a repository function over its return values, len(param) over len(arg) under the branch
//     conditions at the call;
//   - lengths: arrays, constant strings and their conversions, make, slices of arrays, package-level slices whose
//     every assignment has a known length and whose address is never taken; contents of local/package-level tables
//     that only ever receive constants;
//   - library contracts: time.Time.Month() in 1..12 (etc.), strings.Index* in -1..len(s)-1;
//   - symbolic upper bounds v <= len(X)+c from branch conditions, len calls and callee summaries (the lexer returns
//     n <= len(s)), to discharge s[:n] and s[n:].
//
// Everything is an over-approximation: an access the analysis cannot bound is NOT accepted.

import (
	"fmt"
	"go/constant"
	"go/token"
	"go/types"
	"math"
	"math/big"
	"os"

	"golang.org/x/tools/go/ssa"
)

// ---- intervals --------------------------------------------------------------------------------------------------

type c20iv struct{ lo, hi int64 } // closed; lo > hi is the empty interval

var (
	c20empty = c20iv{1, 0}
	c20full  = c20iv{math.MinInt64, math.MaxInt64}
	c20nat   = c20iv{0, math.MaxInt64}
)

func (a c20iv) empty() bool { return a.lo > a.hi }

func (a c20iv) String() string {
	if a.empty() {
		return "{}"
	}
	lo, hi := fmt.Sprint(a.lo), fmt.Sprint(a.hi)
	if a.lo == math.MinInt64 {
		lo = "-inf"
	}
	if a.hi == math.MaxInt64 {
		hi = "+inf"
	}
	return "[" + lo + "," + hi + "]"
}

func (a c20iv) union(b c20iv) c20iv {
	if a.empty() {
		return b
	}
	if b.empty() {
		return a
	}
	r := a
	if b.lo < r.lo {
		r.lo = b.lo
	}
	if b.hi > r.hi {
		r.hi = b.hi
	}
	return r
}

func (a c20iv) meet(b c20iv) c20iv {
	if a.empty() || b.empty() {
		return c20empty
	}
	r := a
	if b.lo > r.lo {
		r.lo = b.lo
	}
	if b.hi < r.hi {
		r.hi = b.hi
	}
	if r.lo > r.hi {
		return c20empty
	}
	return r
}

func (a c20iv) within(b c20iv) bool { return a.empty() || (!b.empty() && a.lo >= b.lo && a.hi <= b.hi) }

func c20pt(k int64) c20iv { return c20iv{k, k} }

func c20add(a, b int64) (int64, bool) {
	s := a + b
	if (b > 0 && s < a) || (b < 0 && s > a) {
		return 0, false
	}
	return s, true
}

func c20sub(a, b int64) (int64, bool) {
	s := a - b
	if (b > 0 && s > a) || (b < 0 && s < a) {
		return 0, false
	}
	return s, true
}

func c20mul(a, b int64) (int64, bool) {
	if a == 0 || b == 0 {
		return 0, true
	}
	p := a * b
	if p/b != a || (a == -1 && b == math.MinInt64) || (b == -1 && a == math.MinInt64) {
		return 0, false
	}
	return p, true
}

// c20typeRange: the values an integer type can hold. For the 64-bit unsigned types hi == MaxInt64 stands for
// "unbounded" (the true maximum does not fit); c20isU64 marks them so that nothing is concluded from that bound.
func c20typeRange(t types.Type) (c20iv, bool) {
	b, ok := t.Underlying().(*types.Basic)
	if !ok || b.Info()&types.IsInteger == 0 {
		return c20full, false
	}
	switch b.Kind() {
	case types.Int8:
		return c20iv{-128, 127}, true
	case types.Int16:
		return c20iv{-32768, 32767}, true
	case types.Int32:
		return c20iv{math.MinInt32, math.MaxInt32}, true
	case types.Uint8:
		return c20iv{0, 255}, true
	case types.Uint16:
		return c20iv{0, 65535}, true
	case types.Uint32:
		return c20iv{0, math.MaxUint32}, true
	case types.Uint, types.Uint64, types.Uintptr:
		return c20nat, true
	}
	return c20full, true
}

func c20isU64(t types.Type) bool {
	b, ok := t.Underlying().(*types.Basic)
	if !ok {
		return false
	}
	switch b.Kind() {
	case types.Uint, types.Uint64, types.Uintptr:
		return true
	}
	return false
}

// c20clip: r if every value of r is representable in t without wrap-around, otherwise the whole type.
func c20clip(r c20iv, t types.Type) c20iv {
	tr, _ := c20typeRange(t)
	if r.empty() {
		return r
	}
	if r.within(tr) {
		return r
	}
	return tr
}

// c20arith evaluates x op y over intervals for a result of type t (wrap-around gives the whole type).
func c20arith(op token.Token, x, y c20iv, t types.Type) c20iv {
	tr, _ := c20typeRange(t)
	if x.empty() || y.empty() {
		return c20empty
	}
	u64 := c20isU64(t)
	unb := u64 && (x.hi == math.MaxInt64 || y.hi == math.MaxInt64) // an operand without a real upper bound
	nonneg := x.lo >= 0 && y.lo >= 0
	pow2above := func(v int64) int64 { // smallest 2^k-1 >= v
		r := int64(0)
		for r < v && r < math.MaxInt64 {
			r = r<<1 | 1
		}
		return r
	}
	var r c20iv
	switch op {
	case token.ADD:
		lo, ok1 := c20add(x.lo, y.lo)
		hi, ok2 := c20add(x.hi, y.hi)
		if !ok1 || !ok2 || unb {
			return tr
		}
		r = c20iv{lo, hi}
	case token.SUB:
		lo, ok1 := c20sub(x.lo, y.hi)
		hi, ok2 := c20sub(x.hi, y.lo)
		if !ok1 || !ok2 || unb {
			return tr
		}
		r = c20iv{lo, hi}
	case token.MUL:
		if unb {
			return tr
		}
		r = c20empty
		for _, a := range []int64{x.lo, x.hi} {
			for _, b := range []int64{y.lo, y.hi} {
				p, ok := c20mul(a, b)
				if !ok {
					return tr
				}
				r = r.union(c20pt(p))
			}
		}
	case token.QUO:
		if y.lo <= 0 {
			return tr
		}
		if u64 && x.hi == math.MaxInt64 {
			return tr
		}
		r = c20empty
		for _, a := range []int64{x.lo, x.hi} {
			for _, b := range []int64{y.lo, y.hi} {
				r = r.union(c20pt(a / b))
			}
		}
	case token.REM:
		if y.lo <= 0 {
			return tr
		}
		m := y.hi - 1
		switch {
		case x.lo >= 0:
			r = c20iv{0, m}
			if x.hi < m && !(u64 && x.hi == math.MaxInt64) {
				r.hi = x.hi
			}
		case x.hi <= 0:
			r = c20iv{-m, 0}
		default:
			r = c20iv{-m, m}
		}
	case token.AND:
		switch {
		case x.lo >= 0 && y.lo >= 0:
			r = c20iv{0, x.hi}
			if y.hi < r.hi {
				r.hi = y.hi
			}
		case y.lo >= 0:
			r = c20iv{0, y.hi}
		case x.lo >= 0:
			r = c20iv{0, x.hi}
		default:
			return tr
		}
	case token.OR, token.XOR:
		if !nonneg || unb {
			return tr
		}
		hi := x.hi
		if y.hi > hi {
			hi = y.hi
		}
		r = c20iv{0, pow2above(hi)}
		if op == token.OR {
			r.lo = x.lo
			if y.lo > r.lo {
				r.lo = y.lo
			}
		}
	case token.AND_NOT:
		if x.lo < 0 {
			return tr
		}
		r = c20iv{0, x.hi}
	case token.SHL:
		if y.lo != y.hi || y.lo < 0 || y.lo > 62 || unb {
			return tr
		}
		k := uint(y.lo)
		lo, hi := x.lo<<k, x.hi<<k
		if lo>>k != x.lo || hi>>k != x.hi {
			return tr
		}
		r = c20iv{lo, hi}
	case token.SHR:
		if y.lo < 0 {
			return tr
		}
		ka, kb := y.lo, y.hi
		if ka > 63 {
			ka = 63
		}
		if kb > 63 {
			kb = 63
		}
		if u64 && x.hi == math.MaxInt64 {
			if ka < 1 {
				return tr
			}
			return c20iv{0, int64(uint64(math.MaxUint64) >> uint(ka))}
		}
		if x.lo >= 0 {
			r = c20iv{x.lo >> uint(kb), x.hi >> uint(ka)}
		} else if ka == kb {
			r = c20iv{x.lo >> uint(ka), x.hi >> uint(ka)}
		} else {
			hi := x.hi
			if hi >= 0 {
				hi = hi >> uint(ka)
			} else {
				hi = -1
			}
			r = c20iv{x.lo >> uint(ka), hi}
		}
	default:
		return tr
	}
	return c20clip(r, t)
}

// ---- the prover ----------------------------------------------------------------------------------------------------

type c20fnAn struct {
	fn     *ssa.Function
	rng    map[ssa.Value]c20iv
	done   bool
	loops  map[*ssa.BasicBlock]*loop // by header
	trip   map[*ssa.BasicBlock]int64 // max number of back-edge traversals; -1 unknown (filled lazily)
	tripOK map[*ssa.BasicBlock]bool
	// tainted: while this analysis ran, a value of a function whose own analysis was still in progress (a caller or a
	// callee further down the stack) was needed and replaced by its whole type: the result is sound but depends on the
	// order in which the functions were asked for (see c20_order.go)
	tainted bool
}

type c20prover struct {
	c        *Ctx
	an       map[*ssa.Function]*c20fnAn
	stack    []*c20fnAn
	facts    map[*ssa.BasicBlock][]Fact
	params   map[*ssa.Parameter]c20iv
	paramsIP map[*ssa.Parameter]bool
	glen     map[*ssa.Global]c20iv
	gUses    map[*ssa.Global][]ssa.Instruction
	gUsesOK  bool
	symSum   map[string][]c20symP
	symBusy  map[string]bool

	sites     map[*ssa.Function][]ssa.CallInstruction
	addrTaken map[*ssa.Function]bool
	invoked   map[string]bool
	invokedOn map[string][]types.Type // method name -> the interface types it is called through

	tflag      bool // raised when an answer was coarsened because an analysis was still in progress (c20_order.go)
	paramTaint map[*ssa.Parameter]bool
	paramBusy  map[*ssa.Parameter]bool
}

func newC20Prover(c *Ctx) *c20prover {
	p := &c20prover{c: c, an: map[*ssa.Function]*c20fnAn{}, facts: map[*ssa.BasicBlock][]Fact{},
		params: map[*ssa.Parameter]c20iv{}, paramsIP: map[*ssa.Parameter]bool{}, glen: map[*ssa.Global]c20iv{},
		symSum: map[string][]c20symP{}, symBusy: map[string]bool{}, paramTaint: map[*ssa.Parameter]bool{}, paramBusy: map[*ssa.Parameter]bool{}}
	p.buildIndex()
	return p
}

func (p *c20prover) factsOf(b *ssa.BasicBlock) []Fact {
	if f, ok := p.facts[b]; ok {
		return f
	}
	f := localFactsAt(b)
	p.facts[b] = f
	return f
}

func (p *c20prover) top() *c20fnAn {
	if len(p.stack) == 0 {
		return nil
	}
	return p.stack[len(p.stack)-1]
}

// def: the interval of v where it is defined.
func (p *c20prover) def(v ssa.Value) c20iv {
	tr, isInt := c20typeRange(v.Type())
	switch x := v.(type) {
	case *ssa.Const:
		if x.Value != nil && x.Value.Kind() == constant.Int {
			if n, ok := constant.Int64Val(x.Value); ok {
				return c20pt(n)
			}
		}
		return tr
	case *ssa.Parameter:
		if !isInt {
			return tr
		}
		return p.paramRange(x)
	}
	if !isInt {
		return tr
	}
	in, ok := v.(ssa.Instruction)
	if !ok || in.Parent() == nil {
		return tr
	}
	fa := p.analysis(in.Parent())
	if fa == nil {
		return tr
	}
	if !fa.done && fa != p.top() {
		p.tflag = true
		return tr // a caller that is being analysed further down the stack: nothing is known yet
	}
	if fa.done && fa.tainted {
		p.tflag = true
	}
	if r, ok := fa.rng[v]; ok {
		return r
	}
	if !fa.done {
		return c20empty // not reached yet in the ascending iteration
	}
	return tr
}

// at: the interval of v at block b (definition interval refined by the branch conditions dominating b).
func (p *c20prover) at(v ssa.Value, b *ssa.BasicBlock) c20iv {
	r := p.def(v)
	if b == nil || r.empty() {
		return r
	}
	if _, isK := v.(*ssa.Const); isK {
		return r
	}
	for _, f := range p.factsOf(b) {
		r = p.refine(v, r, f)
	}
	return r
}

// atEdge: the interval of v when control passes from pred to succ.
func (p *c20prover) atEdge(v ssa.Value, pred, succ *ssa.BasicBlock) c20iv {
	r := p.at(v, pred)
	if f, ok := c20edgeFact(pred, succ); ok {
		r = p.refine(v, r, f)
	}
	return r
}

func c20edgeFact(pred, succ *ssa.BasicBlock) (Fact, bool) {
	if len(pred.Instrs) == 0 || len(pred.Succs) != 2 || pred.Succs[0] == pred.Succs[1] {
		return Fact{}, false
	}
	iff, ok := pred.Instrs[len(pred.Instrs)-1].(*ssa.If)
	if !ok {
		return Fact{}, false
	}
	cond, truth := iff.Cond, pred.Succs[0] == succ
	for {
		u, isNot := cond.(*ssa.UnOp)
		if !isNot || u.Op != token.NOT {
			break
		}
		cond, truth = u.X, !truth
	}
	return Fact{cond, truth}, true
}

func c20negate(op token.Token) token.Token {
	switch op {
	case token.LSS:
		return token.GEQ
	case token.GEQ:
		return token.LSS
	case token.GTR:
		return token.LEQ
	case token.LEQ:
		return token.GTR
	case token.EQL:
		return token.NEQ
	case token.NEQ:
		return token.EQL
	}
	return token.ILLEGAL
}

func c20swap(op token.Token) token.Token {
	switch op {
	case token.LSS:
		return token.GTR
	case token.GTR:
		return token.LSS
	case token.LEQ:
		return token.GEQ
	case token.GEQ:
		return token.LEQ
	}
	return op
}

// c20cmp normalises a fact into `x op y` over integers.
func c20cmp(f Fact) (x, y ssa.Value, op token.Token, ok bool) {
	b, isB := f.Cond.(*ssa.BinOp)
	if !isB || !isIntType(b.X.Type()) || !isIntType(b.Y.Type()) {
		return nil, nil, 0, false
	}
	op = b.Op
	switch op {
	case token.LSS, token.LEQ, token.GTR, token.GEQ, token.EQL, token.NEQ:
	default:
		return nil, nil, 0, false
	}
	if !f.Truth {
		op = c20negate(op)
	}
	return b.X, b.Y, op, true
}

// allowed: the values a may take when `a op other` holds and other lies in o.
func c20allowed(op token.Token, o c20iv, oU64 bool) c20iv {
	r := c20full
	if o.empty() {
		return c20empty
	}
	hiKnown := !(oU64 && o.hi == math.MaxInt64)
	switch op {
	case token.LSS:
		if hiKnown {
			if o.hi == math.MinInt64 {
				return c20empty
			}
			r.hi = o.hi - 1
		}
	case token.LEQ:
		if hiKnown {
			r.hi = o.hi
		}
	case token.GTR:
		if o.lo == math.MaxInt64 {
			return c20empty
		}
		r.lo = o.lo + 1
	case token.GEQ:
		r.lo = o.lo
	case token.EQL:
		r.lo = o.lo
		if hiKnown {
			r.hi = o.hi
		}
	}
	return r
}

// refine narrows r (the interval of v) by one branch fact.
func (p *c20prover) refine(v ssa.Value, r c20iv, f Fact) c20iv {
	x, y, op, ok := c20cmp(f)
	if !ok || r.empty() {
		return r
	}
	if c20isU64(v.Type()) {
		// only lower bounds and constants are meaningful for the 64-bit unsigned types
		if _, isK := y.(*ssa.Const); !(isK && x == v) {
			return r
		}
	}
	try := func(a, other ssa.Value, op token.Token) {
		o := p.def(other)
		if op == token.NEQ {
			if a == v && o.lo == o.hi {
				if r.lo == o.lo && r.lo < math.MaxInt64 {
					r.lo++
				} else if r.hi == o.lo && r.hi > math.MinInt64 {
					r.hi--
				}
				if r.lo > r.hi {
					r = c20empty
				}
			}
			return
		}
		al := c20allowed(op, o, c20isU64(other.Type()))
		if nr, ok := p.constrain(a, al, v, 0); ok {
			r = r.meet(nr)
		}
	}
	try(x, y, op)
	if !r.empty() {
		try(y, x, c20swap(op))
	}
	return r
}

// constrain: expr lies in allowed; what does that say about v? Follows expr = v, expr = inner +- k, expr = k - inner
// and value-preserving conversions, and only where the forward operation cannot wrap around for the values inner
// is known to take.
func (p *c20prover) constrain(expr ssa.Value, allowed c20iv, v ssa.Value, depth int) (c20iv, bool) {
	if expr == v {
		return allowed, true
	}
	if depth > 5 || allowed.empty() {
		return c20iv{}, false
	}
	shift := func(a c20iv, k int64) (c20iv, bool) { // a + k, saturating at the infinities
		r := a
		if a.lo != math.MinInt64 {
			lo, ok := c20add(a.lo, k)
			if !ok {
				if k < 0 {
					lo = math.MinInt64
				} else {
					return c20iv{}, false
				}
			}
			r.lo = lo
		}
		if a.hi != math.MaxInt64 {
			hi, ok := c20add(a.hi, k)
			if !ok {
				if k > 0 {
					hi = math.MaxInt64
				} else {
					return c20iv{}, false
				}
			}
			r.hi = hi
		}
		return r, true
	}
	switch e := expr.(type) {
	case *ssa.BinOp:
		if c20isU64(e.Type()) {
			return c20iv{}, false
		}
		// an operand whose interval is a single value counts as that constant (len of a make([]byte, 128))
		asConst := func(o ssa.Value) (int64, bool) {
			if k, ok := constInt(o); ok {
				return k, true
			}
			if o == v {
				return 0, false
			}
			if r := p.def(o); !r.empty() && r.lo == r.hi {
				return r.lo, true
			}
			return 0, false
		}
		kx, xK := asConst(e.X)
		ky, yK := asConst(e.Y)
		noWrap := func(inner ssa.Value, op token.Token, k int64, innerLeft bool) bool {
			ir := p.def(inner)
			if ir.empty() {
				return true
			}
			var res c20iv
			if innerLeft {
				res = c20arithRaw(op, ir, c20pt(k))
			} else {
				res = c20arithRaw(op, c20pt(k), ir)
			}
			tr, _ := c20typeRange(e.Type())
			return !res.empty() && res.within(tr)
		}
		switch {
		case e.Op == token.ADD && yK && noWrap(e.X, token.ADD, ky, true):
			if a, ok := shift(allowed, -ky); ok && ky != math.MinInt64 {
				return p.constrain(e.X, a, v, depth+1)
			}
		case e.Op == token.ADD && xK && noWrap(e.Y, token.ADD, kx, false):
			if a, ok := shift(allowed, -kx); ok && kx != math.MinInt64 {
				return p.constrain(e.Y, a, v, depth+1)
			}
		case e.Op == token.SUB && yK && noWrap(e.X, token.SUB, ky, true):
			if a, ok := shift(allowed, ky); ok {
				return p.constrain(e.X, a, v, depth+1)
			}
		case e.Op == token.SUB && xK && noWrap(e.Y, token.SUB, kx, false):
			// kx - inner in [lo,hi]  <=>  inner in [kx-hi, kx-lo]
			a := c20full
			if allowed.hi != math.MaxInt64 {
				if lo, ok := c20sub(kx, allowed.hi); ok {
					a.lo = lo
				}
			}
			if allowed.lo != math.MinInt64 {
				if hi, ok := c20sub(kx, allowed.lo); ok {
					a.hi = hi
				}
			}
			return p.constrain(e.Y, a, v, depth+1)
		}
	case *ssa.Convert:
		if isIntType(e.X.Type()) && isIntType(e.Type()) && staticWidens(e.X.Type(), e.Type()) && !c20isU64(e.X.Type()) {
			return p.constrain(e.X, allowed, v, depth+1)
		}
	case *ssa.ChangeType:
		if isIntType(e.X.Type()) {
			return p.constrain(e.X, allowed, v, depth+1)
		}
	}
	return c20iv{}, false
}

// c20arithRaw: x op y for ADD/SUB in unbounded integers (empty if it overflows int64).
func c20arithRaw(op token.Token, x, y c20iv) c20iv {
	switch op {
	case token.ADD:
		lo, ok1 := c20add(x.lo, y.lo)
		hi, ok2 := c20add(x.hi, y.hi)
		if ok1 && ok2 {
			return c20iv{lo, hi}
		}
	case token.SUB:
		lo, ok1 := c20sub(x.lo, y.hi)
		hi, ok2 := c20sub(x.hi, y.lo)
		if ok1 && ok2 {
			return c20iv{lo, hi}
		}
	}
	return c20empty
}

// ---- per-function fixpoint ------------------------------------------------------------------------------------------

func (p *c20prover) analysis(fn *ssa.Function) *c20fnAn {
	if fn == nil || len(fn.Blocks) == 0 {
		return nil
	}
	if fa, ok := p.an[fn]; ok {
		return fa
	}
	fa := &c20fnAn{fn: fn, rng: map[ssa.Value]c20iv{}, loops: map[*ssa.BasicBlock]*loop{},
		trip: map[*ssa.BasicBlock]int64{}, tripOK: map[*ssa.BasicBlock]bool{}}
	p.an[fn] = fa
	for _, l := range loopsOf(fn) {
		fa.loops[l.Head] = l
	}
	p.stack = append(p.stack, fa)
	outerFlag := p.tflag
	p.tflag = false
	defer func() {
		p.stack = p.stack[:len(p.stack)-1]
		fa.tainted = p.tflag
		p.tflag = outerFlag || fa.tainted
		if len(p.stack) == 0 {
			p.dropTainted(fa)
		}
	}()

	var vals []ssa.Value
	for _, b := range fn.DomPreorder() {
		for _, in := range b.Instrs {
			if v, ok := in.(ssa.Value); ok && isIntType(v.Type()) {
				vals = append(vals, v)
			}
		}
	}
	changes := map[ssa.Value]int{}
	converged := false
	for pass := 0; pass < 60; pass++ {
		changed := false
		for _, v := range vals {
			old, had := fa.rng[v]
			if !had {
				old = c20empty
			}
			nw := p.compute(fa, v).union(old)
			if nw == old {
				continue
			}
			changes[v]++
			if _, isPhi := v.(*ssa.Phi); isPhi && changes[v] > 4 {
				tr, _ := c20typeRange(v.Type())
				if !old.empty() {
					// staged widening: first to one short of the type's bound (a counter tested with < or > against
					// anything stays there, and counter+-1 does not wrap), then to the bound itself
					if nw.lo < old.lo {
						if tr.lo < math.MaxInt64 && nw.lo >= tr.lo+1 && old.lo > tr.lo+1 {
							nw.lo = tr.lo + 1
						} else {
							nw.lo = tr.lo
						}
					}
					if nw.hi > old.hi {
						if tr.hi > math.MinInt64 && nw.hi <= tr.hi-1 && old.hi < tr.hi-1 {
							nw.hi = tr.hi - 1
						} else {
							nw.hi = tr.hi
						}
					}
				}
			} else if changes[v] > 12 {
				nw, _ = c20typeRange(v.Type())
			}
			fa.rng[v] = nw
			changed = true
		}
		if !changed {
			converged = true
			break
		}
	}
	if !converged {
		for _, v := range vals {
			fa.rng[v], _ = c20typeRange(v.Type())
		}
		fa.done = true
		return fa
	}
	// narrowing: from a post-fixpoint every re-evaluation is again a post-fixpoint
	for pass := 0; pass < 3; pass++ {
		for _, v := range vals {
			old := fa.rng[v]
			nw := p.compute(fa, v).meet(old)
			if nw.empty() && !old.empty() {
				continue // unreachable code is left alone
			}
			fa.rng[v] = nw
		}
	}
	fa.done = true
	if os.Getenv("C20_DEBUG") == fn.String() || os.Getenv("C20_DEBUG") == "all" {
		for _, v := range vals {
			fmt.Fprintf(os.Stderr, "C20DBG %s %s = %s : %s\n", fn, v.Name(), v, fa.rng[v])
		}
	}
	return fa
}

var c20contracts = map[string]c20iv{
	"(time.Time).Month": {1, 12}, "(time.Time).Day": {1, 31}, "(time.Time).Hour": {0, 23}, "(time.Time).Minute": {0, 59},
	"(time.Time).Second": {0, 59}, "(time.Time).Nanosecond": {0, 999999999}, "(time.Time).Weekday": {0, 6}, "(time.Time).YearDay": {1, 366},
	"(*bytes.Buffer).Len": {0, math.MaxInt64}, "(*bytes.Buffer).Cap": {0, math.MaxInt64}, "strings.Count": {0, math.MaxInt64},
	"(*strings.Builder).Len": {0, math.MaxInt64}, "unicode/utf8.RuneCountInString": {0, math.MaxInt64}, "unicode/utf8.RuneLen": {-1, 4},
}

// lengths of library results: the English month and weekday names ("May", "Friday" are the shortest; an invalid
// value prints as %!Month(13), which is longer)
var c20lenContracts = map[string]c20iv{
	"(time.Month).String":   {3, math.MaxInt64},
	"(time.Weekday).String": {6, math.MaxInt64},
}

var c20tupleContracts = map[string][]c20iv{
	"(time.Time).Date":  {c20full, {1, 12}, {1, 31}},
	"(time.Time).Clock": {{0, 23}, {0, 59}, {0, 59}},
}

func (p *c20prover) compute(fa *c20fnAn, v ssa.Value) c20iv {
	tr, _ := c20typeRange(v.Type())
	in := v.(ssa.Instruction)
	blk := in.Block()
	switch x := v.(type) {
	case *ssa.Phi:
		if r, ok := p.boundedPhi(fa, x); ok {
			return r
		}
		r := c20empty
		for k, e := range x.Edges {
			if k >= len(blk.Preds) {
				return tr
			}
			r = r.union(p.atEdge(e, blk.Preds[k], blk))
		}
		return c20clipKeep(r, tr)
	case *ssa.BinOp:
		if x.Op == token.ADD {
			// pos + n with n <= len(X[pos:]): the sum is at most len(X) in the integers, so it does not wrap around
			if _, c, ok := p.cursorSum(x); ok && c <= 0 {
				xr, yr := p.at(x.X, blk), p.at(x.Y, blk)
				if xr.empty() || yr.empty() {
					return c20empty
				}
				if lo, okLo := c20add(xr.lo, yr.lo); okLo && xr.lo >= 0 && yr.lo >= 0 {
					hi, okHi := c20add(xr.hi, yr.hi)
					if !okHi {
						hi = math.MaxInt64
					}
					return c20iv{lo, hi}.meet(tr)
				}
			}
		}
		return c20arith(x.Op, p.at(x.X, blk), p.at(x.Y, blk), x.Type())
	case *ssa.UnOp:
		switch x.Op {
		case token.SUB:
			r := p.at(x.X, blk)
			if r.empty() {
				return r
			}
			if r.lo == math.MinInt64 {
				return tr
			}
			return c20clip(c20iv{-r.hi, -r.lo}, x.Type())
		case token.MUL:
			return p.load(x).meet(tr)
		}
		return tr
	case *ssa.Convert:
		if !isIntType(x.X.Type()) {
			return tr
		}
		r := p.at(x.X, blk)
		if r.empty() {
			return r
		}
		if c20isU64(x.X.Type()) && r.hi == math.MaxInt64 && !c20isU64(x.Type()) {
			return tr
		}
		return c20clip(r, x.Type())
	case *ssa.ChangeType:
		if isIntType(x.X.Type()) {
			return p.at(x.X, blk).meet(tr)
		}
		return tr
	case *ssa.Index:
		if r, ok := p.tableElems(x.X); ok {
			return r.meet(tr)
		}
		return tr
	case *ssa.Field:
		// u.digits of `for _, u := range []struct{...}{...}`: a member of an element of a table of structs
		if ld, ok := x.X.(*ssa.UnOp); ok && ld.Op == token.MUL {
			if r, ok := p.memberAt(ld.X, x.Field, 0); ok {
				return r.meet(tr)
			}
		}
		return tr
	case *ssa.Call:
		return p.callResult(x, 0, blk).meet(tr)
	case *ssa.Extract:
		if call, ok := x.Tuple.(*ssa.Call); ok {
			return p.callResult(call, x.Index, blk).meet(tr)
		}
		if nx, ok := x.Tuple.(*ssa.Next); ok && nx.IsString && x.Index == 1 {
			return c20iv{0, math.MaxInt64 - 1}.meet(tr) // the key of a range over a string: a valid byte offset, < len
		}
		return tr
	}
	return tr
}

// cursorSum: x = a + n where n is a result of a call of a repository function that was handed X[a:] and returns at
// most the length of that argument plus c: then a + n <= len(X) + c over the integers (X[a:] was evaluated before the
// call, so 0 <= a <= len(X)). The shape of a parser that walks a text with a cursor: n := lex(text[pos:]); pos += n.
func (p *c20prover) cursorSum(x *ssa.BinOp) (ssa.Value, int64, bool) {
	if x.Op != token.ADD {
		return nil, 0, false
	}
	try := func(a, n ssa.Value) (ssa.Value, int64, bool) {
		var call *ssa.Call
		idx := 0
		switch y := n.(type) {
		case *ssa.Call:
			call = y
		case *ssa.Extract:
			call, _ = y.Tuple.(*ssa.Call)
			idx = y.Index
		}
		if call == nil {
			return nil, 0, false
		}
		if sc := call.Call.StaticCallee(); sc == nil || !isRepoFn(sc) {
			return nil, 0, false
		}
		for _, s := range p.symCall(call, idx) {
			if sl, ok := s.X.(*ssa.Slice); ok && sl.Low == a && sl.High == nil && sl.Max == nil {
				return sl.X, s.c, true
			}
		}
		return nil, 0, false
	}
	if X, c, ok := try(x.X, x.Y); ok {
		return X, c, true
	}
	return try(x.Y, x.X)
}

func c20clipKeep(r, tr c20iv) c20iv {
	if r.empty() {
		return r
	}
	return r.meet(tr)
}

func (p *c20prover) callResult(call *ssa.Call, idx int, blk *ssa.BasicBlock) c20iv {
	name := calleeName(&call.Call)
	args := call.Call.Args
	switch name {
	case "builtin.len":
		if len(args) == 1 {
			return p.lenOf(args[0], blk, nil)
		}
	case "builtin.cap":
		if len(args) == 1 {
			return c20iv{p.lenOf(args[0], blk, nil).lo, math.MaxInt64}
		}
	case "builtin.min", "builtin.max":
		if len(args) > 0 && isIntType(call.Type()) {
			r := p.at(args[0], blk)
			for _, a := range args[1:] {
				o := p.at(a, blk)
				if r.empty() || o.empty() {
					return c20empty
				}
				if name == "builtin.min" {
					r = c20iv{minI(r.lo, o.lo), minI(r.hi, o.hi)}
				} else {
					r = c20iv{maxI(r.lo, o.lo), maxI(r.hi, o.hi)}
				}
			}
			return r
		}
	}
	if r, ok := c20contracts[name]; ok && idx == 0 {
		return r
	}
	if rs, ok := c20tupleContracts[name]; ok && idx < len(rs) {
		return rs[idx]
	}
	if indexFamily[name] && len(args) > 0 && idx == 0 {
		n := p.lenOf(args[0], blk, nil)
		if n.empty() {
			return n
		}
		return c20iv{-1, n.hi - 1} // an index is < len, and len <= MaxInt64
	}
	if sc := call.Call.StaticCallee(); sc != nil && isRepoFn(sc) && len(sc.Blocks) > 0 {
		return p.resultRange(sc, idx)
	}
	return c20full
}

func minI(a, b int64) int64 {
	if a < b {
		return a
	}
	return b
}

func maxI(a, b int64) int64 {
	if a > b {
		return a
	}
	return b
}

// resultRange: the union of the idx-th result over the returns of a repository function.
func (p *c20prover) resultRange(fn *ssa.Function, idx int) c20iv {
	if idx >= fn.Signature.Results().Len() {
		return c20full
	}
	tr, isInt := c20typeRange(fn.Signature.Results().At(idx).Type())
	if !isInt {
		return tr
	}
	fa := p.analysis(fn)
	if fa == nil {
		return tr
	}
	if !fa.done {
		p.tflag = true
		return tr
	}
	if fa.tainted {
		p.tflag = true
	}
	r := c20empty
	n := 0
	eachInstr(fn, func(i ssa.Instruction) {
		if ret, ok := i.(*ssa.Return); ok && idx < len(ret.Results) {
			n++
			r = r.union(p.at(ret.Results[idx], ret.Block()))
		}
	})
	if n == 0 || r.empty() {
		return tr
	}
	return r.meet(tr)
}

// paramRange: a parameter of a function whose every call is a static call in the repository ranges over the
// arguments passed there.
func (p *c20prover) paramRange(x *ssa.Parameter) c20iv {
	tr, _ := c20typeRange(x.Type())
	if r, ok := p.params[x]; ok {
		if p.paramBusy[x] || p.paramTaint[x] {
			p.tflag = true
		}
		return r
	}
	p.params[x] = tr // recursion guard
	sites, idx := p.paramSites(x)
	if sites == nil {
		return tr
	}
	p.paramBusy[x] = true
	outerFlag := p.tflag
	p.tflag = false
	defer func() {
		delete(p.paramBusy, x)
		if p.tflag {
			p.paramTaint[x] = true
		}
		p.tflag = outerFlag || p.tflag
	}()
	r := c20empty
	for _, s := range sites {
		cc := s.Common()
		if idx >= len(cc.Args) {
			return tr
		}
		a := p.argAt(cc.Args[idx], s)
		if a.empty() {
			continue // a call in code the caller's analysis found unreachable
		}
		r = r.union(a)
	}
	if r.empty() {
		return tr
	}
	r = r.meet(tr)
	p.params[x] = r
	p.paramsIP[x] = true
	return r
}

// argAt evaluates an argument at its call site; a caller that is being analysed right now contributes the whole type.
func (p *c20prover) argAt(a ssa.Value, site ssa.CallInstruction) c20iv {
	tr, _ := c20typeRange(a.Type())
	if _, isK := a.(*ssa.Const); isK {
		return p.def(a)
	}
	if fa, ok := p.an[site.Parent()]; ok && !fa.done {
		if prm, isP := a.(*ssa.Parameter); isP {
			// the caller's own parameter passed on (atoi(b, i, pad) -> formatInt(&d, i, pad)): its range comes from the
			// caller's call sites, not from the caller's analysis (no refinement by the caller's branch conditions:
			// they may involve values that are still being computed)
			return p.paramRange(prm).meet(tr)
		}
		p.tflag = true
		return tr
	}
	return p.at(a, site.Block())
}

// c20paramSites: the static call sites of the function of parameter x when those are all its calls, and x's index.
func (p *c20prover) paramSites(x *ssa.Parameter) ([]ssa.CallInstruction, int) {
	fn := x.Parent()
	if fn == nil || !p.onlyStatic(fn) {
		return nil, 0
	}
	sites := p.sites[fn]
	if len(sites) == 0 {
		return nil, 0
	}
	for k, q := range fn.Params {
		if q == x {
			return sites, k
		}
	}
	return nil, 0
}

// allFns: the repository's functions including the synthetic package initialisers (which c.AllFns, and with it the
// shared gSites / gAddrTaken indexes, leave out: a helper called only from a package-level initialiser has no site
// there, and a function only referenced from one is not marked as used as a value).
func (p *c20prover) allFns() []*ssa.Function {
	fns := append([]*ssa.Function{}, p.c.AllFns...)
	for _, sp := range p.c.spkgs {
		if f := sp.Func("init"); f != nil && len(f.Blocks) > 0 {
			fns = append(fns, f)
		}
	}
	return fns
}

func (p *c20prover) buildIndex() {
	p.sites = map[*ssa.Function][]ssa.CallInstruction{}
	p.addrTaken = map[*ssa.Function]bool{}
	p.invoked = map[string]bool{}
	p.invokedOn = map[string][]types.Type{}
	for _, f := range p.allFns() {
		eachInstr(f, func(i ssa.Instruction) {
			cc := callCommon(i)
			if ci, ok := i.(ssa.CallInstruction); ok {
				if sc := ci.Common().StaticCallee(); sc != nil && isRepoFn(sc) {
					p.sites[sc] = append(p.sites[sc], ci)
				}
			}
			if cc != nil && cc.IsInvoke() {
				p.invoked[cc.Method.Name()] = true
				p.invokedOn[cc.Method.Name()] = append(p.invokedOn[cc.Method.Name()], cc.Value.Type())
			}
			mc, isMC := i.(*ssa.MakeClosure)
			for _, op := range i.Operands(nil) {
				if op == nil || *op == nil || (cc != nil && !cc.IsInvoke() && *op == cc.Value) {
					continue
				}
				if isMC && *op == mc.Fn {
					continue // making the closure is not a use of it; uses of the closure VALUE count (below)
				}
				switch x := (*op).(type) {
				case *ssa.Function:
					p.addrTaken[x] = true
				case *ssa.MakeClosure:
					if fn, ok := x.Fn.(*ssa.Function); ok {
						p.addrTaken[fn] = true
					}
				}
			}
		})
	}
}

// onlyStatic: every call of fn is one of p.sites[fn].
func (p *c20prover) onlyStatic(fn *ssa.Function) bool {
	if p.addrTaken[fn] {
		return false
	}
	if fn.Parent() != nil {
		return true // a closure that is never used as a value can only be called where it is made
	}
	if isInitFn(fn) || fn.Name() == "main" {
		return false
	}
	if token.IsExported(fn.Name()) && !c20UnexportedRecv(fn) {
		return false // callable from code that is not loaded (an exported method of an unexported type is not)
	}
	if fn.Signature.Recv() != nil && c20MayBeInvoked(fn, p.invokedOn[fn.Name()]) {
		return false
	}
	return true
}

// c20UnexportedRecv: fn is a method of a type whose name is not exported: outside its package it can only be reached
// through an interface (see c20MayBeInvoked) whatever the method is called.
func c20UnexportedRecv(fn *ssa.Function) bool {
	recv := fn.Signature.Recv()
	if recv == nil {
		return false
	}
	t := recv.Type()
	if p, ok := t.(*types.Pointer); ok {
		t = p.Elem()
	}
	n, ok := t.(*types.Named)
	return ok && !n.Obj().Exported()
}

// c20MayBeInvoked: some interface call of a method of this name can select the method fn: the receiver type (or a
// pointer to it) implements the interface the call goes through. (A method called format on a scratch-buffer type is
// not reachable through fmt.Formatter's Format or an io.Writer's Write just because the names coincide.)
func c20MayBeInvoked(fn *ssa.Function, through []types.Type) bool {
	recv := fn.Signature.Recv()
	if recv == nil {
		return false
	}
	rt := recv.Type()
	for _, t := range through {
		it, ok := t.Underlying().(*types.Interface)
		if !ok {
			return true // a type parameter: be conservative
		}
		if types.Implements(rt, it) {
			return true
		}
		if _, isPtr := rt.(*types.Pointer); !isPtr && types.Implements(types.NewPointer(rt), it) {
			return true
		}
	}
	return false
}

// ---- memory: captured variables, tables ------------------------------------------------------------------------------

// load: the interval of *addr.
func (p *c20prover) load(u *ssa.UnOp) c20iv {
	tr, isInt := c20typeRange(u.Type())
	if !isInt {
		return tr
	}
	switch a := u.X.(type) {
	case *ssa.Alloc, *ssa.FreeVar:
		if r, ok := p.cellRange(a); ok {
			return r
		}
	case *ssa.IndexAddr:
		if r, ok := p.elemRange(a); ok {
			return r
		}
	case *ssa.FieldAddr:
		if r, ok := p.memberAt(a.X, a.Field, 0); ok {
			return r
		}
	}
	return tr
}

// cellRange: the values stored into a local variable cell (an Alloc, possibly seen through closure captures) when
// the cell is only ever loaded, stored and captured.
func (p *c20prover) cellRange(cell ssa.Value) (c20iv, bool) {
	roots := map[*ssa.Alloc]bool{}
	var up func(v ssa.Value, d int) bool
	up = func(v ssa.Value, d int) bool {
		if d > 4 {
			return false
		}
		switch x := v.(type) {
		case *ssa.Alloc:
			roots[x] = true
			return true
		case *ssa.FreeVar:
			fn := x.Parent()
			if fn == nil || fn.Parent() == nil {
				return false
			}
			idx := -1
			for k, fv := range fn.FreeVars {
				if fv == x {
					idx = k
				}
			}
			found, ok := false, true
			eachInstr(fn.Parent(), func(i ssa.Instruction) {
				if mc, isMC := i.(*ssa.MakeClosure); isMC && mc.Fn == fn && idx >= 0 && idx < len(mc.Bindings) {
					found = true
					if !up(mc.Bindings[idx], d+1) {
						ok = false
					}
				}
			})
			return found && ok
		}
		return false
	}
	if !up(cell, 0) || len(roots) == 0 {
		return c20iv{}, false
	}
	r := c20empty
	ok := true
	var down func(v ssa.Value, d int)
	down = func(v ssa.Value, d int) {
		refs := v.Referrers()
		if refs == nil || d > 4 {
			ok = false
			return
		}
		for _, ref := range *refs {
			switch y := ref.(type) {
			case *ssa.Store:
				if y.Addr != v {
					ok = false // the address itself is stored somewhere
					return
				}
				r = r.union(p.storedAt(y.Val, y))
			case *ssa.UnOp:
				if y.Op != token.MUL {
					ok = false
				}
			case *ssa.DebugRef:
			case *ssa.MakeClosure:
				fn, isF := y.Fn.(*ssa.Function)
				if !isF {
					ok = false
					return
				}
				for k, b := range y.Bindings {
					if b == v && k < len(fn.FreeVars) {
						down(fn.FreeVars[k], d+1)
					}
				}
			default:
				ok = false
			}
		}
	}
	for a := range roots {
		if tr, isInt := c20typeRange(a.Type().(*types.Pointer).Elem()); !isInt {
			_ = tr
			return c20iv{}, false
		}
		down(a, 0)
	}
	if !ok {
		return c20iv{}, false
	}
	// the cell starts as zero unless the first thing that happens to it is an assignment (a spilled parameter, x := v)
	for a := range roots {
		initialised := false
		for _, in := range a.Block().Instrs {
			uses := false
			for _, op := range in.Operands(nil) {
				if op != nil && *op == ssa.Value(a) {
					uses = true
				}
			}
			if !uses {
				continue
			}
			if st, isSt := in.(*ssa.Store); isSt && st.Addr == a {
				initialised = true
			}
			break
		}
		if !initialised {
			r = r.union(c20pt(0))
		}
	}
	if r.empty() {
		r = c20pt(0)
	}
	return r, true
}

// storedAt evaluates a stored value at its store (in whatever function the store is).
func (p *c20prover) storedAt(v ssa.Value, at ssa.Instruction) c20iv {
	tr, _ := c20typeRange(v.Type())
	if _, isK := v.(*ssa.Const); isK {
		return p.def(v)
	}
	if fa, ok := p.an[at.Parent()]; ok && !fa.done && fa != p.top() {
		p.tflag = true
		return tr
	}
	r := p.at(v, at.Block())
	if r.empty() {
		if fa := p.an[at.Parent()]; fa != nil && !fa.done {
			return r // still ascending in this very function
		}
	}
	return r
}

// elemRange: the values of the elements of a table (a local array or slice literal, a package-level array or slice)
// whose elements only ever receive values with known intervals and that is never handed to anybody else.
func (p *c20prover) elemRange(ia *ssa.IndexAddr) (c20iv, bool) {
	var elemT types.Type
	switch t := ia.X.Type().Underlying().(type) {
	case *types.Pointer:
		if arr, ok := t.Elem().Underlying().(*types.Array); ok {
			elemT = arr.Elem()
		}
	case *types.Slice:
		elemT = t.Elem()
	}
	if elemT == nil {
		return c20iv{}, false
	}
	if _, isInt := c20typeRange(elemT); !isInt {
		return c20iv{}, false
	}
	// the container: a local array, or a package-level variable
	root := ia.X
	for d := 0; d < 4; d++ {
		if s, ok := root.(*ssa.Slice); ok {
			root = s.X
			continue
		}
		break
	}
	return p.tableElems(root)
}

// tableElems: the element values of the table designated by root: a local array (its Alloc, or a loaded copy), a
// package-level array or slice (the variable, or a loaded copy / slice header).
func (p *c20prover) tableElems(root ssa.Value) (c20iv, bool) {
	r := c20pt(0) // elements start as zero
	ok := true
	seen := map[ssa.Value]bool{}
	var uses func(v ssa.Value, d int)
	uses = func(v ssa.Value, d int) {
		if seen[v] || !ok {
			return
		}
		seen[v] = true
		refs := v.Referrers()
		if refs == nil || d > 5 {
			ok = false
			return
		}
		for _, ref := range *refs {
			switch y := ref.(type) {
			case *ssa.IndexAddr:
				if y.X != v {
					ok = false
					return
				}
				for _, r2 := range *y.Referrers() {
					switch z := r2.(type) {
					case *ssa.Store:
						if z.Addr != y {
							ok = false
							return
						}
						r = r.union(p.storedAt(z.Val, z))
					case *ssa.UnOp:
						if z.Op != token.MUL {
							ok = false
						}
					case *ssa.DebugRef:
					default:
						ok = false
					}
				}
			case *ssa.Slice:
				if y.X != v {
					ok = false
					return
				}
				uses(y, d+1)
			case *ssa.Index:
			case *ssa.Call:
				n := calleeName(&y.Call)
				if n != "builtin.len" && n != "builtin.cap" {
					ok = false
				}
			case *ssa.Range, *ssa.DebugRef:
			case *ssa.UnOp:
				if y.Op != token.MUL {
					ok = false
				}
				// a load of the whole array (copy): harmless
			case *ssa.Store:
				// storing the slice into the package-level variable it initialises
				if g, isG := y.Addr.(*ssa.Global); isG && y.Val == v {
					if gr, gok := p.globalElems(g); gok {
						r = r.union(gr)
						continue
					}
				}
				ok = false
			default:
				ok = false
			}
		}
	}
	switch x := root.(type) {
	case *ssa.Alloc:
		uses(x, 0)
	case *ssa.Global:
		gr, gok := p.globalElems(x)
		if !gok {
			return c20iv{}, false
		}
		r = r.union(gr)
	case *ssa.UnOp:
		if x.Op != token.MUL {
			return c20iv{}, false
		}
		switch src := x.X.(type) {
		case *ssa.Global:
			gr, gok := p.globalElems(src)
			if !gok {
				return c20iv{}, false
			}
			r = r.union(gr)
		case *ssa.Alloc:
			if _, isArr := src.Type().(*types.Pointer).Elem().Underlying().(*types.Array); !isArr {
				return c20iv{}, false
			}
			uses(src, 0)
		default:
			return c20iv{}, false
		}
	default:
		return c20iv{}, false
	}
	if !ok {
		return c20iv{}, false
	}
	return r, true
}

// globalUses indexes every instruction of the repository that has a package-level variable as an operand.
func (p *c20prover) globalUses(g *ssa.Global) []ssa.Instruction {
	if !p.gUsesOK {
		p.gUses = map[*ssa.Global][]ssa.Instruction{}
		for _, f := range p.allFns() {
			eachInstr(f, func(i ssa.Instruction) {
				for _, op := range i.Operands(nil) {
					if op == nil || *op == nil {
						continue
					}
					if gg, ok := (*op).(*ssa.Global); ok {
						p.gUses[gg] = append(p.gUses[gg], i)
					}
				}
			})
		}
		p.gUsesOK = true
	}
	return p.gUses[g]
}

// globalElems: the element values of a package-level array or slice variable: every write to an element (through the
// variable, through a loaded copy of the slice header, or into the literal it was initialised from) stores a value
// with a known interval, and neither the variable's address nor the slice goes anywhere else.
func (p *c20prover) globalElems(g *ssa.Global) (c20iv, bool) {
	r := c20pt(0)
	ok := true
	seen := map[ssa.Value]bool{}
	var valueUses func(v ssa.Value, d int) // v: a slice value or a pointer to the array
	var backing func(v ssa.Value, d int)   // v: what is assigned to the variable
	elemUses := func(y *ssa.IndexAddr) {
		for _, r2 := range *y.Referrers() {
			switch z := r2.(type) {
			case *ssa.Store:
				if z.Addr != y {
					ok = false
					return
				}
				r = r.union(p.storedAt(z.Val, z))
			case *ssa.UnOp:
				if z.Op != token.MUL {
					ok = false
				}
			case *ssa.DebugRef:
			default:
				ok = false
			}
		}
	}
	valueUses = func(v ssa.Value, d int) {
		if seen[v] || !ok {
			return
		}
		seen[v] = true
		refs := v.Referrers()
		if refs == nil || d > 5 {
			ok = false
			return
		}
		for _, ref := range *refs {
			switch y := ref.(type) {
			case *ssa.IndexAddr:
				if y.X != v {
					ok = false
					return
				}
				elemUses(y)
			case *ssa.Slice:
				if y.X != v {
					ok = false
					return
				}
				valueUses(y, d+1)
			case *ssa.Index, *ssa.Range, *ssa.DebugRef:
			case *ssa.Call:
				n := calleeName(&y.Call)
				if n != "builtin.len" && n != "builtin.cap" {
					ok = false
				}
			case *ssa.UnOp:
				if y.Op != token.MUL {
					ok = false
				}
			case *ssa.Store:
				if y.Addr == g && y.Val == v {
					continue
				}
				ok = false
			default:
				ok = false
			}
		}
	}
	backing = func(v ssa.Value, d int) {
		if d > 4 || !ok {
			ok = false
			return
		}
		switch x := v.(type) {
		case *ssa.Slice:
			valueUses(x, d)
			backing(x.X, d+1)
		case *ssa.Alloc:
			valueUses(x, d)
		case *ssa.Const:
			// nil slice
		case *ssa.Convert:
			// []byte("...") : fresh bytes of a constant
			if s, isS := constString(x.X); isS {
				for k := 0; k < len(s); k++ {
					r = r.union(c20pt(int64(s[k])))
				}
				valueUses(x, d)
				return
			}
			ok = false
		case *ssa.UnOp:
			if gg, isG := x.X.(*ssa.Global); isG && gg == g && x.Op == token.MUL {
				return
			}
			ok = false
		default:
			ok = false
		}
	}
	_, isArr := g.Type().(*types.Pointer).Elem().Underlying().(*types.Array)
	for _, in := range p.globalUses(g) {
		switch y := in.(type) {
		case *ssa.UnOp:
			if y.Op != token.MUL || y.X != g {
				return c20iv{}, false
			}
			if !isArr {
				valueUses(y, 0)
			}
		case *ssa.Store:
			if y.Addr != g {
				return c20iv{}, false
			}
			if isArr {
				return c20iv{}, false // whole-array assignment: contents unknown
			}
			backing(y.Val, 0)
		case *ssa.IndexAddr:
			if y.X != g {
				return c20iv{}, false
			}
			elemUses(y)
		case *ssa.Slice:
			if y.X != g {
				return c20iv{}, false
			}
			valueUses(y, 0)
		case *ssa.DebugRef:
		default:
			return c20iv{}, false
		}
		if !ok {
			return c20iv{}, false
		}
	}
	return r, ok
}

// ---- lengths ------------------------------------------------------------------------------------------------------------

// lenOf: the interval of len(x) at block blk.
func (p *c20prover) lenOf(x ssa.Value, blk *ssa.BasicBlock, seen map[ssa.Value]bool) c20iv {
	r := p.lenDef(x, blk, seen)
	if blk == nil || r.empty() {
		return r
	}
	// branch conditions on any len(x) of this very value
	for _, f := range p.factsOf(blk) {
		a, b, op, ok := c20cmp(f)
		if !ok {
			continue
		}
		isLen := func(v ssa.Value) bool {
			call, ok := v.(*ssa.Call)
			return ok && calleeName(&call.Call) == "builtin.len" && len(call.Call.Args) == 1 && (call.Call.Args[0] == x || c20sameMemory(call.Call.Args[0], x))
		}
		switch {
		case isLen(a):
			if op == token.NEQ {
				if k, isK := constInt(b); isK && k == r.lo {
					r.lo++
				}
				continue
			}
			r = r.meet(c20allowed(op, p.def(b), false))
		case isLen(b):
			if op == token.NEQ {
				if k, isK := constInt(a); isK && k == r.lo {
					r.lo++
				}
				continue
			}
			r = r.meet(c20allowed(c20swap(op), p.def(a), false))
		}
	}
	return r
}

func (p *c20prover) lenDef(x ssa.Value, blk *ssa.BasicBlock, seen map[ssa.Value]bool) c20iv {
	switch t := x.Type().Underlying().(type) {
	case *types.Array:
		return c20pt(t.Len())
	case *types.Pointer:
		if arr, ok := t.Elem().Underlying().(*types.Array); ok {
			return c20pt(arr.Len())
		}
		return c20nat
	}
	if s, ok := constString(x); ok {
		return c20pt(int64(len(s)))
	}
	if isNilConst(x) {
		return c20pt(0)
	}
	if seen == nil {
		seen = map[ssa.Value]bool{}
	}
	if seen[x] {
		return c20nat
	}
	seen[x] = true
	defer delete(seen, x)
	switch v := x.(type) {
	case *ssa.Convert:
		in := p.lenOf(v.X, blk, seen)
		isStr := func(t types.Type) bool {
			b, ok := t.Underlying().(*types.Basic)
			return ok && b.Info()&types.IsString != 0
		}
		fromStr, toStr := isStr(v.X.Type()), isStr(v.Type())
		elemKind := func(t types.Type) types.BasicKind {
			if s, ok := t.Underlying().(*types.Slice); ok {
				if b, ok := s.Elem().Underlying().(*types.Basic); ok {
					return b.Kind()
				}
			}
			return types.Invalid
		}
		switch {
		case fromStr && elemKind(v.Type()) == types.Uint8, toStr && elemKind(v.X.Type()) == types.Uint8:
			return in // bytes <-> string: same length
		case fromStr && elemKind(v.Type()) == types.Int32:
			lo := int64(0)
			if in.lo > 0 {
				lo = (in.lo + 3) / 4 // a rune takes at most 4 bytes
			}
			return c20iv{lo, in.hi}
		case toStr && elemKind(v.X.Type()) == types.Int32:
			return c20iv{in.lo, math.MaxInt64} // every rune encodes to at least one byte
		}
		return c20nat
	case *ssa.ChangeType:
		return p.lenOf(v.X, blk, seen)
	case *ssa.MakeSlice:
		return p.at(v.Len, v.Block()).meet(c20nat)
	case *ssa.Slice:
		r := p.sliceLen(v, seen)
		if v.High == nil && v.Low != nil && !r.empty() {
			// text[pos:] under `pos < len(text)`: at least one element is left (low <= len(X) - k gives length >= k)
			for _, s := range p.symUB(v.Low, v.Block(), nil, 0) {
				if s.c < 0 && s.c > math.MinInt64 && -s.c > r.lo && -s.c <= r.hi && (s.X == v.X || c20sameMemory(s.X, v.X)) {
					r.lo = -s.c
				}
			}
		}
		return r
	case *ssa.UnOp:
		if g, ok := v.X.(*ssa.Global); ok && v.Op == token.MUL {
			return p.globalLen(g)
		}
		if fv, ok := v.X.(*ssa.FreeVar); ok && v.Op == token.MUL {
			if r, ok := p.capturedLen(v, fv, seen); ok {
				return r.meet(c20nat)
			}
		}
	case *ssa.Call:
		if r, ok := c20lenContracts[calleeName(&v.Call)]; ok {
			return r
		}
	case *ssa.Phi:
		r := c20empty
		for k, e := range v.Edges {
			if k >= len(v.Block().Preds) {
				return c20nat
			}
			r = r.union(p.lenOf(e, v.Block().Preds[k], seen))
		}
		if r.empty() {
			return c20nat
		}
		return r
	case *ssa.Parameter:
		sites, idx := p.paramSites(v)
		if sites == nil {
			return c20nat
		}
		r := c20empty
		for _, s := range sites {
			cc := s.Common()
			if idx >= len(cc.Args) {
				return c20nat
			}
			r = r.union(p.lenOf(cc.Args[idx], s.Block(), seen))
		}
		if r.empty() {
			return c20nat
		}
		return r
	}
	return c20nat
}

// globalLen: the length of a package-level slice (or string) variable: every assignment stores a value of known
// length and the variable's address is never taken.
func (p *c20prover) globalLen(g *ssa.Global) c20iv {
	if r, ok := p.glen[g]; ok {
		return r
	}
	p.glen[g] = c20nat
	outerFlag := p.tflag
	p.tflag = false
	defer func() {
		if p.tflag {
			delete(p.glen, g) // computed while an analysis was in progress: not kept
		}
		p.tflag = outerFlag || p.tflag
	}()
	r := c20empty
	stores := 0
	for _, in := range p.globalUses(g) {
		switch y := in.(type) {
		case *ssa.UnOp:
			if y.Op != token.MUL || y.X != g {
				return c20nat
			}
		case *ssa.Store:
			if y.Addr != g {
				return c20nat
			}
			stores++
			r = r.union(p.lenOf(y.Val, y.Block(), nil))
		case *ssa.DebugRef:
		default:
			return c20nat
		}
	}
	if stores == 0 {
		r = c20pt(0)
	}
	if isExportedGlobal(g) {
		// another package of the repository could assign it: those stores are in AllFns too (globalUses scans the
		// whole repository), so nothing more to do
		_ = g
	}
	p.glen[g] = r
	return r
}

func isExportedGlobal(g *ssa.Global) bool { return token.IsExported(g.Name()) }

// ---- loops with a logarithmic trip count ----------------------------------------------------------------------------------

// tripBound: the maximal number of back-edge traversals of loop l when it carries a value q that is replaced by
// q / k (constant k >= 2) on every back edge and every back edge is only taken while that quotient is non-zero:
// the t-th traversal needs |q0| / k^t >= 1.
func (p *c20prover) tripBound(fa *c20fnAn, l *loop) (int64, bool) {
	if fa.done && fa.tripOK[l.Head] {
		t := fa.trip[l.Head]
		return t, t >= 0
	}
	best := int64(-1)
	for _, in := range l.Head.Instrs {
		q, ok := in.(*ssa.Phi)
		if !ok {
			break
		}
		if !isIntType(q.Type()) || len(q.Edges) != len(l.Head.Preds) {
			continue
		}
		k := int64(0)
		good, nBack := true, 0
		extra := int64(0) // 1 when some back edge is guarded by the carried value itself (for q > 0 { ...; q /= 10 })
		init := c20empty
		for e, val := range q.Edges {
			pred := l.Head.Preds[e]
			if !l.Body[pred] {
				init = init.union(p.atEdge(val, pred, l.Head))
				continue
			}
			nBack++
			bo, isB := val.(*ssa.BinOp)
			if !isB || bo.X != q {
				good = false
				break
			}
			var kk int64
			switch bo.Op {
			case token.QUO:
				d, isK := constInt(bo.Y)
				if !isK || d < 2 {
					good = false
				}
				kk = d
			case token.SHR:
				s, isK := constInt(bo.Y)
				if tq, _ := c20typeRange(q.Type()); !isK || s < 1 || s > 62 || tq.lo < 0 {
					good = false
				}
				kk = int64(1) << uint(s)
			default:
				good = false
			}
			if !good {
				break
			}
			if k == 0 || kk < k {
				k = kk
			}
			if !p.nonZeroOnEdge(val, pred, l.Head) {
				// not guarded by the quotient (`if q == 0 { break }` after the division) - then by the carried value
				// itself before the division (`for q > 0 {`, `for q != 0 {`): one more traversal is possible
				if !p.nonZeroOnEdge(q, pred, l.Head) {
					good = false
					break
				}
				extra = 1
			}
		}
		if !good || nBack == 0 || k < 2 {
			continue
		}
		// M = max |q0|
		m := new(big.Int)
		if init.empty() {
			init, _ = c20typeRange(q.Type())
		}
		if c20isU64(q.Type()) && init.hi == math.MaxInt64 {
			m.SetUint64(math.MaxUint64)
		} else {
			a, b := big.NewInt(init.lo), big.NewInt(init.hi)
			a.Abs(a)
			b.Abs(b)
			if a.Cmp(b) > 0 {
				m = a
			} else {
				m = b
			}
		}
		// T = least t with k^t > M. A back edge taken only while the quotient is non-zero: the j-th traversal needs
		// |q0| / k^j >= 1, so at most T-1 of them. A back edge taken only when the value was non-zero BEFORE the division:
		// the j-th traversal needs |q0| / k^(j-1) >= 1, so at most T.
		t := int64(0)
		pow := big.NewInt(1)
		kb := big.NewInt(k)
		for pow.Cmp(m) <= 0 && t < 70 {
			pow.Mul(pow, kb)
			t++
		}
		n := t - 1 + extra
		if n < 0 {
			n = 0
		}
		if best < 0 || n < best {
			best = n
		}
	}
	if fa.done {
		fa.tripOK[l.Head] = true
		fa.trip[l.Head] = best
	}
	return best, best >= 0
}

// nonZeroOnEdge: some branch condition that holds when control passes pred -> succ excludes val == 0.
func (p *c20prover) nonZeroOnEdge(val ssa.Value, pred, succ *ssa.BasicBlock) bool {
	facts := append([]Fact{}, p.factsOf(pred)...)
	if f, ok := c20edgeFact(pred, succ); ok {
		facts = append(facts, f)
	}
	for _, f := range facts {
		x, y, op, ok := c20cmp(f)
		if !ok {
			continue
		}
		var k int64
		var isK bool
		switch {
		case x == val:
			k, isK = constInt(y)
		case y == val:
			k, isK = constInt(x)
			op = c20swap(op)
		default:
			continue
		}
		if !isK {
			continue
		}
		switch op {
		case token.NEQ:
			if k == 0 {
				return true
			}
		case token.GTR:
			if k >= 0 {
				return true
			}
		case token.GEQ:
			if k >= 1 {
				return true
			}
		case token.LSS:
			if k <= 0 {
				return true
			}
		case token.LEQ:
			if k <= -1 {
				return true
			}
		case token.EQL:
			if k != 0 {
				return true
			}
		}
	}
	return false
}

// boundedPhi: a counter at the head of a loop with a known trip bound that is stepped by constants.
func (p *c20prover) boundedPhi(fa *c20fnAn, phi *ssa.Phi) (c20iv, bool) {
	l := fa.loops[phi.Block()]
	if l == nil || len(phi.Edges) != len(l.Head.Preds) {
		return c20iv{}, false
	}
	var affine func(v ssa.Value, d int) (int64, bool)
	affine = func(v ssa.Value, d int) (int64, bool) {
		if v == phi {
			return 0, true
		}
		if d > 6 {
			return 0, false
		}
		bo, ok := v.(*ssa.BinOp)
		if !ok {
			return 0, false
		}
		if k, isK := constInt(bo.Y); isK && (bo.Op == token.ADD || bo.Op == token.SUB) {
			c, ok := affine(bo.X, d+1)
			if !ok {
				return 0, false
			}
			if bo.Op == token.SUB {
				k = -k
			}
			return c20add(c, k)
		}
		if k, isK := constInt(bo.X); isK && bo.Op == token.ADD {
			c, ok := affine(bo.Y, d+1)
			if !ok {
				return 0, false
			}
			return c20add(c, k)
		}
		return 0, false
	}
	init := c20empty
	cmin, cmax := int64(0), int64(0)
	nBack := 0
	for e, val := range phi.Edges {
		pred := l.Head.Preds[e]
		if !l.Body[pred] {
			init = init.union(p.atEdge(val, pred, l.Head))
			continue
		}
		c, ok := affine(val, 0)
		if !ok {
			return c20iv{}, false
		}
		nBack++
		cmin, cmax = minI(cmin, c), maxI(cmax, c)
	}
	if nBack == 0 {
		return c20iv{}, false
	}
	n, ok := p.tripBound(fa, l)
	if !ok {
		return c20iv{}, false
	}
	if init.empty() {
		return c20empty, true
	}
	dl, ok1 := c20mul(n, cmin)
	dh, ok2 := c20mul(n, cmax)
	if !ok1 || !ok2 {
		return c20iv{}, false
	}
	lo, ok1 := c20add(init.lo, dl)
	hi, ok2 := c20add(init.hi, dh)
	if !ok1 || !ok2 {
		return c20iv{}, false
	}
	tr, _ := c20typeRange(phi.Type())
	r := c20iv{lo, hi}
	if !r.within(tr) {
		return c20iv{}, false
	}
	return r, true
}

// ---- symbolic upper bounds v <= len(X) + c ---------------------------------------------------------------------------------

type c20sym struct {
	X ssa.Value
	c int64
}

type c20symP struct { // callee summary: result <= len(param idx) + c
	idx int
	c   int64
}

func c20symMeet(a, b []c20sym) []c20sym {
	var out []c20sym
	for _, x := range a {
		for _, y := range b {
			if x.X == y.X {
				out = append(out, c20sym{x.X, maxI(x.c, y.c)})
			}
		}
	}
	return out
}

func c20symAdd(a []c20sym, k int64) []c20sym {
	var out []c20sym
	for _, x := range a {
		if c, ok := c20add(x.c, k); ok {
			out = append(out, c20sym{x.X, c})
		}
	}
	return out
}

// symUB lists (X, c) with v <= len(X) + c at block blk.
func (p *c20prover) symUB(v ssa.Value, blk *ssa.BasicBlock, seen map[ssa.Value]bool, depth int) []c20sym {
	if depth > 8 || v == nil {
		return nil
	}
	if seen == nil {
		seen = map[ssa.Value]bool{}
	}
	if seen[v] {
		return nil
	}
	seen[v] = true
	defer delete(seen, v)
	var out []c20sym
	// branch conditions
	if blk != nil {
		for _, f := range p.factsOf(blk) {
			x, y, op, ok := c20cmp(f)
			if !ok {
				continue
			}
			var other ssa.Value
			switch {
			case x == v:
				other = y
			case y == v:
				other, op = x, c20swap(op)
			default:
				continue
			}
			var k int64
			switch op {
			case token.LSS:
				k = -1
			case token.LEQ, token.EQL:
				k = 0
			default:
				continue
			}
			out = append(out, c20symAdd(p.symUB(other, blk, seen, depth+1), k)...)
		}
	}
	// definition
	switch x := v.(type) {
	case *ssa.Call:
		out = append(out, p.symCall(x, 0)...)
	case *ssa.Extract:
		if call, ok := x.Tuple.(*ssa.Call); ok {
			out = append(out, p.symCall(call, x.Index)...)
		}
		if nx, ok := x.Tuple.(*ssa.Next); ok && nx.IsString && x.Index == 1 {
			if rg, ok := nx.Iter.(*ssa.Range); ok {
				out = append(out, c20sym{rg.X, -1}) // the key of a range over a string is a valid offset into it
			}
		}
	case *ssa.BinOp:
		in := x.Block()
		// inner + k keeps an upper bound shifted by k unless it wraps around upwards, i.e. unless k < 0 and inner is
		// within |k| of the minimum (wrapping downwards makes the value negative, which the lower-bound check sees)
		noWrapDown := func(inner ssa.Value, k int64) bool {
			if k >= 0 {
				return true
			}
			r := p.at(inner, in)
			if r.empty() {
				return true
			}
			_, ok := c20add(r.lo, k)
			return ok
		}
		switch x.Op {
		case token.ADD:
			if k, ok := constInt(x.Y); ok && noWrapDown(x.X, k) {
				out = append(out, c20symAdd(p.symUB(x.X, in, seen, depth+1), k)...)
			} else if k, ok := constInt(x.X); ok && noWrapDown(x.Y, k) {
				out = append(out, c20symAdd(p.symUB(x.Y, in, seen, depth+1), k)...)
			} else if X, c, ok := p.cursorSum(x); ok {
				out = append(out, c20sym{X, c})
			}
		case token.SUB:
			if k, ok := constInt(x.Y); ok && k != math.MinInt64 && noWrapDown(x.X, -k) {
				out = append(out, c20symAdd(p.symUB(x.X, in, seen, depth+1), -k)...)
			} else if yr, xr := p.at(x.Y, in), p.at(x.X, in); !yr.empty() && yr.lo >= 0 && !xr.empty() && xr.lo >= 0 {
				out = append(out, p.symUB(x.X, in, seen, depth+1)...)
			}
		case token.QUO, token.SHR:
			if xr := p.at(x.X, in); !xr.empty() && xr.lo >= 0 {
				if yr := p.at(x.Y, in); !yr.empty() && ((x.Op == token.QUO && yr.lo >= 1) || (x.Op == token.SHR && yr.lo >= 0)) {
					out = append(out, p.symUB(x.X, in, seen, depth+1)...)
				}
			}
		}
	case *ssa.Convert:
		if isIntType(x.X.Type()) && staticWidens(x.X.Type(), x.Type()) {
			out = append(out, p.symUB(x.X, x.Block(), seen, depth+1)...)
		}
	case *ssa.ChangeType:
		out = append(out, p.symUB(x.X, x.Block(), seen, depth+1)...)
	case *ssa.Parameter:
		// cut(s, n): n <= len(s) + c holds in the helper when it holds, for the corresponding arguments, at every call
		sites, idx := p.paramSites(x)
		var acc []c20sym
		for k, site := range sites {
			args := site.Common().Args
			if idx >= len(args) {
				acc = nil
				break
			}
			var here []c20sym
			for _, sb := range p.symUB(args[idx], site.Block(), seen, depth+1) {
				for j, a := range args {
					if a == sb.X && j < len(x.Parent().Params) {
						here = append(here, c20sym{x.Parent().Params[j], sb.c})
					}
				}
			}
			if k == 0 {
				acc = here
			} else {
				acc = c20symMeet(acc, here)
			}
			if len(acc) == 0 {
				break
			}
		}
		out = append(out, acc...)
	case *ssa.Phi:
		var acc []c20sym
		for k, e := range x.Edges {
			if k >= len(x.Block().Preds) {
				acc = nil
				break
			}
			pred := x.Block().Preds[k]
			s := p.symUB(e, pred, seen, depth+1)
			if f, ok := c20edgeFact(pred, x.Block()); ok {
				s = append(s, p.symFromFact(e, f, pred, seen, depth+1)...)
			}
			if k == 0 {
				acc = s
			} else {
				acc = c20symMeet(acc, s)
			}
			if len(acc) == 0 {
				break
			}
		}
		out = append(out, acc...)
	}
	return out
}

func (p *c20prover) symFromFact(v ssa.Value, f Fact, blk *ssa.BasicBlock, seen map[ssa.Value]bool, depth int) []c20sym {
	x, y, op, ok := c20cmp(f)
	if !ok {
		return nil
	}
	var other ssa.Value
	switch {
	case x == v:
		other = y
	case y == v:
		other, op = x, c20swap(op)
	default:
		return nil
	}
	switch op {
	case token.LSS:
		return c20symAdd(p.symUB(other, blk, seen, depth+1), -1)
	case token.LEQ, token.EQL:
		return p.symUB(other, blk, seen, depth+1)
	}
	return nil
}

func (p *c20prover) symCall(call *ssa.Call, idx int) []c20sym {
	name := calleeName(&call.Call)
	args := call.Call.Args
	if name == "builtin.len" && len(args) == 1 && idx == 0 {
		return []c20sym{{args[0], 0}}
	}
	if name == "builtin.min" && idx == 0 {
		var out []c20sym
		for _, a := range args {
			out = append(out, p.symUB(a, call.Block(), nil, 2)...)
		}
		return out
	}
	if indexFamily[name] && len(args) > 0 && idx == 0 {
		return []c20sym{{args[0], -1}}
	}
	sc := call.Call.StaticCallee()
	if sc == nil || !isRepoFn(sc) || len(sc.Blocks) == 0 {
		return nil
	}
	var out []c20sym
	for _, s := range p.symSummary(sc, idx) {
		if s.idx < len(args) {
			out = append(out, c20sym{args[s.idx], s.c})
		}
	}
	return out
}

// symSummary: (j, c) such that on every return the idx-th result is <= len(parameter j) + c.
func (p *c20prover) symSummary(fn *ssa.Function, idx int) []c20symP {
	key := fmt.Sprintf("%p/%d", fn, idx)
	if s, ok := p.symSum[key]; ok {
		return s
	}
	if p.symBusy[key] {
		return nil
	}
	p.symBusy[key] = true
	defer delete(p.symBusy, key)
	outerFlag := p.tflag
	p.tflag = false
	defer func() {
		if p.tflag {
			delete(p.symSum, key) // computed while an analysis was in progress: not kept
		}
		p.tflag = outerFlag || p.tflag
	}()
	var acc []c20sym
	first := true
	eachInstr(fn, func(i ssa.Instruction) {
		ret, ok := i.(*ssa.Return)
		if !ok || idx >= len(ret.Results) {
			return
		}
		var here []c20sym
		for _, s := range p.symUB(ret.Results[idx], ret.Block(), nil, 0) {
			if prm, isP := s.X.(*ssa.Parameter); isP && prm.Parent() == fn {
				here = append(here, s)
			}
		}
		if first {
			acc, first = here, false
		} else {
			acc = c20symMeet(acc, here)
		}
	})
	var out []c20symP
	for _, s := range acc {
		for k, prm := range fn.Params {
			if prm == s.X {
				out = append(out, c20symP{k, s.c})
			}
		}
	}
	p.symSum[key] = out
	return out
}

func (p *c20prover) symLE(v ssa.Value, blk *ssa.BasicBlock, X ssa.Value, c int64) bool {
	for _, s := range p.symUB(v, blk, nil, 0) {
		if s.c <= c && (s.X == X || c20sameMemory(s.X, X)) {
			return true
		}
	}
	return false
}

// ---- the bounds obligations --------------------------------------------------------------------------------------------------

// proveBounds: is the index / slice expression in bounds on every execution? The string says why (or what is missing).
func (p *c20prover) proveBounds1(in ssa.Instruction) (bool, string) {
	blk := in.Block()
	index := func(x, idx ssa.Value) (bool, string) {
		n := p.lenOf(x, blk, nil)
		i := p.at(idx, blk)
		if i.empty() {
			return true, "unreachable"
		}
		if c20isU64(idx.Type()) && i.hi == math.MaxInt64 {
			return false, "index has no upper bound"
		}
		if i.lo >= 0 && i.hi < n.lo {
			return true, fmt.Sprintf("index in %s, length %s", i, n)
		}
		if i.lo >= 0 && p.symLE(idx, blk, x, -1) {
			return true, fmt.Sprintf("index in %s and < len of the indexed value by the dominating conditions", i)
		}
		return false, fmt.Sprintf("index in %s, length %s", i, n)
	}
	switch x := in.(type) {
	case *ssa.IndexAddr:
		return index(x.X, x.Index)
	case *ssa.Index:
		return index(x.X, x.Index)
	case *ssa.Lookup:
		if _, isMap := x.X.Type().Underlying().(*types.Map); isMap {
			return true, "map lookup"
		}
		return index(x.X, x.Index)
	case *ssa.Slice:
		if x.Max != nil {
			return false, "three-index slice"
		}
		n := p.lenOf(x.X, blk, nil)
		lo := c20pt(0)
		if x.Low != nil {
			lo = p.at(x.Low, blk)
		}
		if lo.empty() {
			return true, "unreachable"
		}
		if lo.lo < 0 {
			return false, fmt.Sprintf("low bound in %s may be negative", lo)
		}
		if x.High == nil {
			if lo.hi <= n.lo || (x.Low != nil && p.symLE(x.Low, blk, x.X, 0)) {
				return true, fmt.Sprintf("low bound in %s, length %s", lo, n)
			}
			return false, fmt.Sprintf("low bound in %s, length %s", lo, n)
		}
		hi := p.at(x.High, blk)
		if hi.empty() {
			return true, "unreachable"
		}
		if !(hi.hi <= n.lo || p.symLE(x.High, blk, x.X, 0)) {
			return false, fmt.Sprintf("high bound in %s, length %s", hi, n)
		}
		if lo.hi <= hi.lo {
			return true, fmt.Sprintf("bounds %s : %s, length %s", lo, hi, n)
		}
		if x.Low != nil && p.affineLE(x.Low, x.High, blk) {
			return true, fmt.Sprintf("bounds %s : %s, length %s, and the low bound is the high bound minus a constant", lo, hi, n)
		}
		if x.Low != nil && p.sumLE(x.Low, x.High, blk) {
			return true, fmt.Sprintf("bounds %s : %s, length %s, and the high bound is the low bound plus a value that is not negative", lo, hi, n)
		}
		return false, fmt.Sprintf("low bound in %s may exceed the high bound in %s", lo, hi)
	}
	return false, "not an index or slice expression"
}

// nonZero: the interval of v at its use excludes 0.
func (p *c20prover) nonZero1(v ssa.Value, blk *ssa.BasicBlock) (bool, string) {
	r := p.at(v, blk)
	if r.empty() {
		return true, "unreachable"
	}
	if c20isU64(v.Type()) {
		return r.lo > 0, "divisor in " + r.String()
	}
	return r.lo > 0 || r.hi < 0, "divisor in " + r.String()
}

// affine writes v as a*base + c over the mathematical integers (base == nil: a constant). Only +, - and * with constants
// and value-preserving conversions are followed, and only where the operation cannot wrap around in its type for the
// values its operands take at blk (otherwise the step is not followed and v itself is the base).
func (p *c20prover) affine(v ssa.Value, blk *ssa.BasicBlock, depth int) (base ssa.Value, a, c int64, ok bool) {
	if k, isK := constInt(v); isK {
		return nil, 0, k, true
	}
	if depth > 6 {
		return v, 1, 0, true
	}
	switch x := v.(type) {
	case *ssa.BinOp:
		if !p.exact(x, blk) {
			return v, 1, 0, true
		}
		kx, xK := constInt(x.X)
		ky, yK := constInt(x.Y)
		switch {
		case x.Op == token.ADD && yK, x.Op == token.SUB && yK:
			b, a1, c1, ok := p.affine(x.X, blk, depth+1)
			if x.Op == token.SUB {
				if ky == math.MinInt64 {
					return v, 1, 0, true
				}
				ky = -ky
			}
			c2, ok2 := c20add(c1, ky)
			return b, a1, c2, ok && ok2
		case x.Op == token.ADD && xK:
			b, a1, c1, ok := p.affine(x.Y, blk, depth+1)
			c2, ok2 := c20add(c1, kx)
			return b, a1, c2, ok && ok2
		case x.Op == token.MUL && (yK || xK):
			k, inner := ky, x.X
			if !yK {
				k, inner = kx, x.Y
			}
			b, a1, c1, ok := p.affine(inner, blk, depth+1)
			a2, ok2 := c20mul(a1, k)
			c2, ok3 := c20mul(c1, k)
			return b, a2, c2, ok && ok2 && ok3
		}
	case *ssa.Convert:
		if isIntType(x.X.Type()) && isIntType(x.Type()) && staticWidens(x.X.Type(), x.Type()) && !c20isU64(x.X.Type()) {
			return p.affine(x.X, blk, depth+1)
		}
	case *ssa.ChangeType:
		if isIntType(x.X.Type()) {
			return p.affine(x.X, blk, depth+1)
		}
	}
	return v, 1, 0, true
}

// exact: the +, - or * of x gives the mathematical result for every value its operands take at blk (no wrap-around in
// x's type).
func (p *c20prover) exact(x *ssa.BinOp, blk *ssa.BasicBlock) bool {
	tr, isInt := c20typeRange(x.Type())
	if !isInt || c20isU64(x.Type()) {
		return false
	}
	xr, yr := p.at(x.X, blk), p.at(x.Y, blk)
	if xr.empty() || yr.empty() {
		return true // unreachable
	}
	var r c20iv
	switch x.Op {
	case token.ADD, token.SUB:
		r = c20arithRaw(x.Op, xr, yr)
	case token.MUL:
		r = c20empty
		for _, a := range []int64{xr.lo, xr.hi} {
			for _, b := range []int64{yr.lo, yr.hi} {
				m, ok := c20mul(a, b)
				if !ok {
					return false
				}
				r = r.union(c20pt(m))
			}
		}
	default:
		return false
	}
	return !r.empty() && r.within(tr)
}

// affineLE: lo <= hi because both are the same multiple of the same value plus constants in that order
// (s[3*m : 3*m+3]).
func (p *c20prover) affineLE(lo, hi ssa.Value, blk *ssa.BasicBlock) bool {
	b1, a1, c1, ok1 := p.affine(lo, blk, 0)
	b2, a2, c2, ok2 := p.affine(hi, blk, 0)
	return ok1 && ok2 && b1 == b2 && a1 == a2 && c1 <= c2
}

// sumLE: lo <= hi because hi = lo + n with n >= 0 and the sum does not wrap around (text[pos : pos+n]).
func (p *c20prover) sumLE(lo, hi ssa.Value, blk *ssa.BasicBlock) bool {
	b, ok := hi.(*ssa.BinOp)
	if !ok || b.Op != token.ADD {
		return false
	}
	other := b.Y
	switch lo {
	case b.X:
	case b.Y:
		other = b.X
	default:
		return false
	}
	if r := p.at(other, blk); r.empty() || r.lo < 0 {
		return false
	}
	if p.exact(b, blk) {
		return true
	}
	_, c, ok := p.cursorSum(b)
	return ok && c <= 0
}

// sliceLen: the length of v = X[low:high] from the intervals of its bounds.
func (p *c20prover) sliceLen(v *ssa.Slice, seen map[ssa.Value]bool) c20iv {
	base := p.lenOf(v.X, v.Block(), seen)
	lo, hi := c20pt(0), base
	if v.Low != nil {
		lo = p.at(v.Low, v.Block())
	}
	if v.High != nil {
		hi = p.at(v.High, v.Block())
	}
	if lo.empty() || hi.empty() {
		return c20nat
	}
	r := c20arithRaw(token.SUB, hi, lo)
	if r.empty() {
		return c20nat
	}
	if hi.hi == math.MaxInt64 {
		r.hi = math.MaxInt64
	}
	return r.meet(c20nat)
}
