package main

// Overlay mutants added by the third hardening round (the rules are unchanged in what they demand; see c06_canon.go,
// c06_reach.go and the S9 part of c06_round4.go for what was made robust). Benign rewrites of kinds that are not in the
// corpus must stay silent; for every mechanism that was rewritten a breaking counterpart must still be reported.

import (
	"os"
	"strings"
)

func init() {
	p := props["C06"]
	if p == nil {
		return
	}
	if os.Getenv("VERIF_C06_ONLY3") != "" {
		p.Mutants = nil // development: only the mutants of this file
	}
	const gc = "route/glob_cache.go"
	const pk = "route/picker.go"
	const hp = "proxy/http_proxy.go"
	const lg = "logger/logger.go"
	const gz = "proxy/gzip/gzip_handler.go"

	// ---- B2: the guard and the divisor spelled through a one-line accessor; a dividing helper with several call sites
	const ctor = "func NewGlobCache(size int) *GlobCache {"
	capacity := repl{ctor, "func (c *GlobCache) capacity() int { return len(c.l) }\n\n" + ctor}
	const guardOld = "\tif len(c.l) == 0 {\n\t\treturn glbCompiled, nil\n\t}\n"
	const pickersOld = "func rndPicker(r *Route) *Target {\n\tif len(r.wTargets) == 0 {\n\t\treturn nil\n\t}\n\treturn r.wTargets[randIntn(len(r.wTargets))]\n}"
	const rrOld = "\tn := atomic.AddUint64(&r.total, 1) - 1\n\treturn r.wTargets[n%uint64(len(r.wTargets))]\n}"
	const rrNew = "\treturn r.at(atomic.AddUint64(&r.total, 1) - 1)\n}\n\nfunc (r *Route) at(n uint64) *Target { return r.wTargets[n%uint64(len(r.wTargets))] }"
	p.Mutants = append(p.Mutants,
		mutant{Name: "benign: emptiness of the cache ring tested through a capacity accessor", File: gc, Old: guardOld,
			New: "\tif c.capacity() == 0 {\n\t\treturn glbCompiled, nil\n\t}\n", More: []repl{capacity}, Expect: ""},
		mutant{Name: "benign: ring head advanced modulo the capacity accessor, guard on len", File: gc, Old: "\tc.h = (c.h + 1) % len(c.l)\n",
			New: "\tc.h = (c.h + 1) % c.capacity()\n", More: []repl{capacity}, Expect: ""},
		mutant{Name: "benign: capacity kept by an accessor that subtracts nothing, compared with 1", File: gc, Old: guardOld,
			New: "\tif 1 > c.capacity() {\n\t\treturn glbCompiled, nil\n\t}\n", More: []repl{capacity}, Expect: ""},
		mutant{Name: "capacity accessor tested with a relation that never holds", File: gc, Old: guardOld,
			New: "\tif c.capacity() < 0 {\n\t\treturn glbCompiled, nil\n\t}\n", More: []repl{capacity}, Expect: "C06.B2"},
		mutant{Name: "guard tests an accessor of the fill count, not of the ring size", File: gc, Old: guardOld,
			New:  "\tif c.used() < 0 {\n\t\treturn glbCompiled, nil\n\t}\n",
			More: []repl{{ctor, "func (c *GlobCache) used() int { return c.n }\n\n" + ctor}}, Expect: "C06.B2"},
		mutant{Name: "benign: both pickers index the ring through one helper that takes the modulus", File: pk, Old: pickersOld,
			New:  "func rndPicker(r *Route) *Target {\n\tif len(r.wTargets) == 0 {\n\t\treturn nil\n\t}\n\treturn r.at(uint64(randIntn(len(r.wTargets))))\n}",
			More: []repl{{rrOld, rrNew}}, Expect: ""},
		mutant{Name: "shared modulus helper, one of its two call sites lost the emptiness guard", File: pk, Old: pickersOld,
			New:  "func rndPicker(r *Route) *Target {\n\treturn r.at(uint64(randIntn(len(r.wTargets))))\n}",
			More: []repl{{rrOld, rrNew}}, Expect: "C06.B2"},
	)

	// ---- S1 / reach: calls of function values whose origin is a helper's result, a struct field, a parameter, a cell
	imp := repl{"\t\"strings\"\n\t\"time\"\n", "\t\"strings\"\n\t\"sync\"\n\t\"time\"\n"}
	field := func(decl string) repl {
		return repl{"\tUUID func() string\n", "\tUUID func() string\n\n" + decl}
	}
	const serve = "func (p *HTTPProxy) ServeHTTP(w http.ResponseWriter, r *http.Request) {\n"
	before := func(decls, stmts string) repl { return repl{serve, decls + serve + stmts} }
	const useOld = "\t\tid := p.UUID\n\t\tif id == nil {\n\t\t\tid = uuid.NewUUID\n\t\t}\n"
	p.Mutants = append(p.Mutants,
		mutant{Name: "benign: request timing ended by a function a helper returns (defer h()())", File: hp, Old: serve,
			New: "func (p *HTTPProxy) began() func() {\n\tstart := time.Now()\n\treturn func() { _ = time.Since(start) }\n}\n\n" + serve + "\tdefer p.began()()\n", Expect: ""},
		mutant{Name: "benign: clean-up kept in a function-typed field of a per-request struct", File: hp, Old: serve,
			New: "type reqHooks struct{ done func() }\n\n" + serve + "\tt0 := time.Now()\n\thooks := reqHooks{done: func() { _ = time.Since(t0) }}\n\tdefer hooks.done()\n", Expect: ""},
		mutant{Name: "benign: clean-up handed to a helper that runs it", File: hp, Old: serve,
			New: "func (p *HTTPProxy) finally(fn func()) { fn() }\n\n" + serve + "\tt0 := time.Now()\n\tdefer p.finally(func() { _ = time.Since(t0) })\n", Expect: ""},
		mutant{Name: "benign: clean-up assigned to a captured variable by a set-up closure", File: hp, Old: serve,
			New: serve + "\tvar done func()\n\tsetup := func() {\n\t\tstart := time.Now()\n\t\tdone = func() { _ = time.Since(start) }\n\t}\n\tsetup()\n\tdefer done()\n", Expect: ""},
		mutant{Name: "function returned by a helper writes the shared proxy", File: hp, Old: serve,
			New:  "func (p *HTTPProxy) noteHost(host string) func() {\n\treturn func() { p.lastHost = host }\n}\n\n" + serve + "\tdefer p.noteHost(r.Host)()\n",
			More: []repl{field("\tlastHost string\n")}, Expect: "C06.S1"},
		mutant{Name: "function kept in a struct field writes the shared proxy", File: hp, Old: serve,
			New:  "type reqHooks struct{ done func() }\n\n" + serve + "\thooks := reqHooks{done: func() { p.lastHost = r.Host }}\n\tdefer hooks.done()\n",
			More: []repl{field("\tlastHost string\n")}, Expect: "C06.S1"},
		mutant{Name: "function assigned to a captured variable writes the shared proxy", File: hp, Old: serve,
			New:  serve + "\tvar done func()\n\tsetup := func() { done = func() { p.lastHost = r.Host } }\n\tsetup()\n\tdefer done()\n",
			More: []repl{field("\tlastHost string\n")}, Expect: "C06.S1"},
	)

	// ---- S9: the read sits many calls below the synchronisation point
	const setDefault = "\tif p.UUID == nil {\n\t\tp.UUID = uuid.NewUUID\n\t}\n"
	chain := "func (p *HTTPProxy) uuid1() func() string { return p.uuid2() }\nfunc (p *HTTPProxy) uuid2() func() string { return p.uuid3() }\nfunc (p *HTTPProxy) uuid3() func() string { return p.uuid4() }\nfunc (p *HTTPProxy) uuid4() func() string { return p.uuid5() }\nfunc (p *HTTPProxy) uuid5() func() string { return p.UUID }\n\n"
	lazy := "func (p *HTTPProxy) uuidFunc() func() string {\n\tp.initOnce.Do(func() {\n\t" + strings.ReplaceAll(setDefault, "\n\t", "\n\t\t") + "})\n\treturn p.uuid1()\n}\n\n"
	p.Mutants = append(p.Mutants,
		mutant{Name: "benign: lazy default set inside sync.Once.Do, read five calls below it", File: hp, Old: useOld, New: "\t\tid := p.uuidFunc()\n",
			More: []repl{imp, field("\tinitOnce sync.Once\n"), before(lazy+chain, "")}, Expect: ""},
		mutant{Name: "lazy default set inside sync.Once.Do, the deep reader is also entered below the Once", File: hp, Old: useOld, New: "\t\tid := p.uuidFunc()\n",
			More: []repl{imp, field("\tinitOnce sync.Once\n"), before(lazy+chain, ""), {"\tt := p.Lookup(r)\n\n\tif t == nil {\n", "\tt := p.Lookup(r)\n\n\tif t == nil {\n\t\t_ = p.uuid3()\n"}}, Expect: "C06.S9"},
	)

	// ---- S3: the ring's slice header replaced on the request path while its length is read without the lock
	p.Mutants = append(p.Mutants,
		mutant{Name: "ring slice re-assigned under the lock, its length still read before the lock", File: gc, Old: "\t\tc.l[c.n] = pattern\n",
			New: "\t\tc.l = append(c.l[:c.n], pattern)[:len(c.l)]\n", Expect: "C06.S3"},
	)

	// ---- further kinds: a named slice type for the ring, the cached value wrapped in a struct, compile options from a
	// package-level variable that only its initialiser sets
	p.Mutants = append(p.Mutants,
		mutant{Name: "benign: ring slice field of a named slice type", File: gc, Old: "\tl []string\n", New: "\tl patternList\n",
			More: []repl{{ctor, "type patternList []string\n\n" + ctor}}, Expect: ""},
		mutant{Name: "benign: compiled pattern cached inside a small struct", File: gc, Old: "c.m.Store(pattern, glbCompiled)", New: "c.m.Store(pattern, &cachedGlob{g: glbCompiled})", All: true,
			More: []repl{{"glb.(glob.Glob)", "glb.(*cachedGlob).g"}, {"glb.(glob.Glob)", "glb.(*cachedGlob).g"}, {ctor, "type cachedGlob struct{ g glob.Glob }\n\n" + ctor}}, Expect: ""},
		mutant{Name: "benign: compile options taken from a package-level variable that is never assigned", File: gc, Old: "glob.Compile(pattern)", New: "glob.Compile(pattern, globSeparators...)",
			More: []repl{{ctor, "var globSeparators = []rune{}\n\n" + ctor}}, Expect: ""},
		mutant{Name: "compile options taken from a package-level variable that a setter overwrites", File: gc, Old: "glob.Compile(pattern)", New: "glob.Compile(pattern, globSeparators...)",
			More: []repl{{ctor, "var globSeparators = []rune{}\n\n// SetSeparators changes how the following patterns are compiled.\nfunc SetSeparators(s []rune) { globSeparators = s }\n\n" + ctor}}, Expect: "C06.S10"},
	)

	p.Mutants = append(p.Mutants,
		mutant{Name: "benign: every use of the ring size goes through the capacity accessor", File: gc, Old: "len(c.l)", New: "c.capacity()", All: true,
			More: []repl{capacity}, Expect: ""},
		mutant{Name: "benign: ring moved into an embedded struct with its own size accessor (pointer methods)", File: gc, Old: "\tl []string\n", New: "\tring\n",
			More: []repl{{"\t\tl: make([]string, size),\n", "\t\tring: ring{l: make([]string, size)},\n"}, {guardOld, "\tif c.size() == 0 {\n\t\treturn glbCompiled, nil\n\t}\n"},
				{"\tc.h = (c.h + 1) % len(c.l)\n", "\tc.h = c.after(c.h)\n"},
				{ctor, "type ring struct{ l []string }\n\nfunc (r *ring) size() int { return len(r.l) }\n\nfunc (r *ring) after(i int) int { return (i + 1) % len(r.l) }\n\n" + ctor}}, Expect: ""},
	)

	// ---- S8: ordinary ways to write the get / use / put of a pooled buffer
	const logOld = "\tb := pool.Get().(*bytes.Buffer)\n\tb.Reset()\n\tl.p.write(b, &ev)\n\tl.mu.Lock()\n\tl.w.Write(b.Bytes())\n\tl.mu.Unlock()\n\tpool.Put(b)\n}"
	p.Mutants = append(p.Mutants,
		mutant{Name: "benign: log buffer obtained and returned through get/put helpers, reset on return", File: lg, Old: logOld,
			New: "\tb := getBuf()\n\tl.p.write(b, &ev)\n\tl.mu.Lock()\n\tl.w.Write(b.Bytes())\n\tl.mu.Unlock()\n\tputBuf(b)\n}\n\nfunc getBuf() *bytes.Buffer { return pool.Get().(*bytes.Buffer) }\n\nfunc putBuf(b *bytes.Buffer) {\n\tb.Reset()\n\tpool.Put(b)\n}", Expect: ""},
		mutant{Name: "benign: log line rendered inside a with-buffer helper", File: lg, Old: logOld,
			New: "\twithBuf(func(b *bytes.Buffer) {\n\t\tl.p.write(b, &ev)\n\t\tl.mu.Lock()\n\t\tl.w.Write(b.Bytes())\n\t\tl.mu.Unlock()\n\t})\n}\n\nfunc withBuf(fn func(*bytes.Buffer)) {\n\tb := pool.Get().(*bytes.Buffer)\n\tb.Reset()\n\tfn(b)\n\tpool.Put(b)\n}", Expect: ""},
		mutant{Name: "benign: log buffer variable re-pointed to a fresh buffer after the release", File: lg, Old: logOld,
			New: "\tb := pool.Get().(*bytes.Buffer)\n\tb.Reset()\n\tl.p.write(b, &ev)\n\tl.mu.Lock()\n\tl.w.Write(b.Bytes())\n\tl.mu.Unlock()\n\tpool.Put(b)\n\tb = new(bytes.Buffer)\n\tb.WriteString(\"done\")\n}", Expect: ""},
		mutant{Name: "with-buffer helper hands the buffer back before it runs the callback", File: lg, Old: logOld,
			New: "\twithBuf(func(b *bytes.Buffer) {\n\t\tl.p.write(b, &ev)\n\t\tl.mu.Lock()\n\t\tl.w.Write(b.Bytes())\n\t\tl.mu.Unlock()\n\t})\n}\n\nfunc withBuf(fn func(*bytes.Buffer)) {\n\tb := pool.Get().(*bytes.Buffer)\n\tb.Reset()\n\tpool.Put(b)\n\tfn(b)\n}", Expect: "C06.S8"},
		mutant{Name: "benign: log line returned as a clone of the pooled buffer's bytes", File: lg, Old: "// Log writes a log line for the request that was executed\n",
			New: "func (l *logger) render(e *Event) []byte {\n\tb := pool.Get().(*bytes.Buffer)\n\tdefer pool.Put(b)\n\tb.Reset()\n\tl.p.write(b, e)\n\treturn bytes.ToUpper(b.Bytes())\n}\n\n// Log writes a log line for the request that was executed\n", Expect: ""},
		mutant{Name: "benign: gzip writer released from a local, the field cleared afterwards", File: gz, Old: "\tif grw.gzipWriter != nil {\n\t\tgrw.gzipWriter.Close()\n\t\tgzipWriterPool.Put(grw.gzipWriter)\n\t}\n",
			New: "\tzw := grw.gzipWriter\n\tif zw == nil {\n\t\treturn\n\t}\n\tzw.Close()\n\tgzipWriterPool.Put(zw)\n\tgrw.gzipWriter = nil\n", Expect: ""},
		mutant{Name: "benign: gzip writer released by a deferred helper", File: gz, Old: "\tif grw.gzipWriter != nil {\n\t\tgrw.gzipWriter.Close()\n\t\tgzipWriterPool.Put(grw.gzipWriter)\n\t}\n",
			New: "\tif grw.gzipWriter != nil {\n\t\tdefer releaseGzipWriter(grw.gzipWriter)\n\t\tgrw.gzipWriter.Close()\n\t}\n}\n\nfunc releaseGzipWriter(zw *gzip.Writer) {\n\tgzipWriterPool.Put(zw)\n", Expect: ""},
	)
}
