package main

// Rules of C07 added after the third round of independently authored breaking changes (DESIGN 11.10); wired in zzz_round3.go.

import (
	"go/token"
	"strings"

	"golang.org/x/tools/go/ssa"
)

// ---- C07.N2 / C07.W2 ------------------------------------------------------------------------------------------------

// runC07N2: the no-route answer is produced from ONE load of the page.
func runC07N2(c *Ctx) {
	serve := c.method("proxy", "HTTPProxy", "ServeHTTP")
	if serve == nil {
		return
	}
	// loaders of the page: functions of package noroute returning a string that derives from an atomic load
	isLoader := func(fn *ssa.Function) bool {
		if fn == nil || !isRepoFn(fn) || rootPkg(fn) != c.spkg("noroute") || fn.Signature.Results().Len() != 1 {
			return false
		}
		hit := false
		eachInstr(fn, func(i ssa.Instruction) {
			if kind, _, _, ok := atomicOp(callCommon(i)); ok && kind == "load" {
				hit = true
			}
		})
		return hit
	}
	n := 0
	for _, f := range c.region(serve) {
		var loads []ssa.Instruction
		eachInstr(f, func(i ssa.Instruction) {
			if cc := callCommon(i); cc != nil && isLoader(cc.StaticCallee()) {
				loads = append(loads, i)
			}
		})
		n += len(loads)
		for _, a := range loads {
			for _, b := range loads {
				if a != b && canReach(a, b) && a.Pos() < b.Pos() {
					c.check("C07.N2", fnKey(f)+"|no-route page loaded once per answer", b.Pos(), false,
						"the no-route page is loaded a second time on the same path: the page can be replaced between the two loads (watchNoRouteHTML), so what is announced from the first load (length, type) does not describe the bytes written from the second — the client gets a short or cut body instead of either configured page")
				}
			}
		}
	}
	c.atLeast("C07.N2", "loads of the no-route page on the request path", n, 1)
	c.ob("C07.N2", "proxy.(*HTTPProxy).ServeHTTP|one load of the no-route page per path", token.NoPos, OK, "checked "+itoa(n)+" load site(s)")
}

// runC07W2: optional-interface methods of response-writer wrappers (Flush) forward on every path on which the wrapped
// writer supports them.
func runC07W2(c *Ctx) {
	n := 0
	for _, f := range c.fnsWhere("proxy", func(fn *ssa.Function) bool {
		return fn.Signature.Recv() != nil && fn.Name() == "Flush" && fn.Signature.Params().Len() == 0
	}) {
		// the forwarding call: Flush on a value asserted from a field of the receiver
		var fwd []ssa.Instruction
		var assertOK ssa.Value
		eachInstr(f, func(i ssa.Instruction) {
			cc := callCommon(i)
			if cc != nil && cc.IsInvoke() && cc.Method.Name() == "Flush" {
				fwd = append(fwd, i)
			}
			if ta, ok := i.(*ssa.TypeAssert); ok && ta.CommaOk && strings.HasSuffix(typeStr(ta.AssertedType), "http.Flusher") {
				for _, r := range *ta.Referrers() {
					if ex, ok := r.(*ssa.Extract); ok && ex.Index == 1 {
						assertOK = ex
					}
				}
			}
		})
		if len(fwd) == 0 {
			continue
		}
		n++
		// every path from entry to a return passes the forwarding call, except over the edge "not a Flusher"
		open := false
		seen := map[*ssa.BasicBlock]bool{f.Blocks[0]: true}
		stack := []*ssa.BasicBlock{f.Blocks[0]}
		for len(stack) > 0 && !open {
			b := stack[len(stack)-1]
			stack = stack[:len(stack)-1]
			blocked := false
			for _, in := range b.Instrs {
				for _, w := range fwd {
					if in == w {
						blocked = true
					}
				}
				if blocked {
					break
				}
				if _, isRet := in.(*ssa.Return); isRet {
					open = true
				}
			}
			if blocked {
				continue
			}
			for _, s := range b.Succs {
				skipEdge := false
				if assertOK != nil && len(b.Instrs) > 0 {
					if iff, ok := b.Instrs[len(b.Instrs)-1].(*ssa.If); ok && iff.Cond == assertOK && b.Succs[1] == s {
						skipEdge = true // the wrapped writer cannot flush
					}
				}
				if !skipEdge && !seen[s] {
					seen[s] = true
					stack = append(stack, s)
				}
			}
		}
		c.check("C07.W2", fnKey(f)+"|Flush forwarded whenever the wrapped writer can flush", f.Pos(), !open,
			"the wrapper's Flush can return without flushing the wrapped writer: httputil.ReverseProxy relies on Flush after the body to force chunked framing when the upstream sent trailers it had not announced — with the flush swallowed (e.g. 'nothing written since the last flush') the response goes out with Content-Length and the upstream's trailer fields are lost")
	}
	c.atLeast("C07.W2", "Flush methods of response-writer wrappers in package proxy", n, 1)
}
