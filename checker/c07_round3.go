package main

// Rules of C07 added after the third round of independently authored breaking changes (DESIGN 11.10); wired in zzz_round3.go.

import (
	"go/token"
	"strings"

	"golang.org/x/tools/go/ssa"
)

// ---- C07.N2 / C07.W2 ------------------------------------------------------------------------------------------------

// runC07N2: the no-route answer is produced from ONE load of the page.
func runC07N2(c *Ctx) {
	serve := c.method("proxy", "HTTPProxy", "ServeHTTP")
	if serve == nil {
		return
	}
	// loaders of the page: functions of package noroute returning a string that derives from an atomic load
	isLoader := func(fn *ssa.Function) bool {
		if fn == nil || !isRepoFn(fn) || rootPkg(fn) != c.spkg("noroute") || fn.Signature.Results().Len() != 1 {
			return false
		}
		hit := false
		eachInstr(fn, func(i ssa.Instruction) {
			if kind, _, _, ok := atomicOp(callCommon(i)); ok && kind == "load" {
				hit = true
			}
		})
		return hit
	}
	n := 0
	for _, f := range c.region(serve) {
		var loads []ssa.Instruction
		// a load site: a call of a loader, or of a helper of the region that may load the page itself (`x.writePage()`)
		isLoad := liftMay(func(i ssa.Instruction) bool {
			cc := callCommon(i)
			return cc != nil && isLoader(cc.StaticCallee())
		})
		eachInstr(f, func(i ssa.Instruction) {
			if _, isCall := i.(*ssa.Call); isCall && isLoad(i) {
				loads = append(loads, i)
			}
		})
		n += len(loads)
		for _, a := range loads {
			for _, b := range loads {
				if a != b && canReach(a, b) && a.Pos() < b.Pos() {
					c.check("C07.N2", fnKey(f)+"|no-route page loaded once per answer", b.Pos(), false,
						"the no-route page is loaded a second time on the same path: the page can be replaced between the two loads (watchNoRouteHTML), so what is announced from the first load (length, type) does not describe the bytes written from the second — the client gets a short or cut body instead of either configured page")
				}
			}
		}
	}
	c.atLeast("C07.N2", "loads of the no-route page on the request path", n, 1)
	c.ob("C07.N2", "proxy.(*HTTPProxy).ServeHTTP|one load of the no-route page per path", token.NoPos, OK, "checked "+itoa(n)+" load site(s)")
}

// runC07W2: optional-interface methods of response-writer wrappers (Flush) forward on every path on which the wrapped
// writer supports them. The forwarding call is a Flush on an interface value or (*http.ResponseController).Flush, in
// the method or in a helper it delegates to; the only edges a path may leave by without flushing are those on which
// the wrapped writer is known not to be a Flusher (the comma-ok of the type assertion is false, or the Flusher that
// was obtained from such an assertion - possibly when the wrapper was built, kept in a field - is nil).
func runC07W2(c *Ctx) {
	c07buildFields(c.AllFns)
	n := 0
	for _, f := range c.fnsWhere("proxy", func(fn *ssa.Function) bool {
		return fn.Signature.Recv() != nil && fn.Name() == "Flush" && fn.Signature.Params().Len() == 0
	}) {
		if !mayExec(f, c07isFlushForward, 1) {
			continue
		}
		n++
		open := c07flushOpen(f, 0)
		c.check("C07.W2", fnKey(f)+"|Flush forwarded whenever the wrapped writer can flush", f.Pos(), !open,
			"the wrapper's Flush can return without flushing the wrapped writer: httputil.ReverseProxy relies on Flush after the body to force chunked framing when the upstream sent trailers it had not announced — with the flush swallowed (e.g. 'nothing written since the last flush') the response goes out with Content-Length and the upstream's trailer fields are lost")
	}
	c.atLeast("C07.W2", "Flush methods of response-writer wrappers in package proxy", n, 1)
}

func c07isFlushForward(i ssa.Instruction) bool {
	cc := callCommon(i)
	if cc == nil {
		return false
	}
	if _, isCall := i.(*ssa.Call); !isCall {
		return false // go / defer of a flush is not a flush before the return... a deferred one is, but keep it simple
	}
	if cc.IsInvoke() {
		return cc.Method.Name() == "Flush"
	}
	return calleeName(cc) == "(*net/http.ResponseController).Flush"
}

// c07flusherAssert: v is the Flusher obtained by asserting some writer to http.Flusher.
func c07flusherAssert(v ssa.Value) bool {
	if ex, ok := v.(*ssa.Extract); ok && ex.Index == 0 {
		v = ex.Tuple
	}
	ta, ok := v.(*ssa.TypeAssert)
	return ok && strings.HasSuffix(typeStr(ta.AssertedType), "http.Flusher")
}

// c07noFlusherEdge: the edge p -> s is taken only when the wrapped writer cannot flush.
func c07noFlusherEdge(p, s *ssa.BasicBlock) bool {
	f, ok := c07edgeFact(p, s)
	if !ok {
		return false
	}
	if ex, isEx := f.Cond.(*ssa.Extract); isEx && ex.Index == 1 && !f.Truth {
		if ta, isTA := ex.Tuple.(*ssa.TypeAssert); isTA && ta.CommaOk && strings.HasSuffix(typeStr(ta.AssertedType), "http.Flusher") {
			return true
		}
	}
	nonNil, isNil := nilFact(f, func(v ssa.Value) bool {
		if !strings.HasSuffix(typeStr(v.Type()), "http.Flusher") {
			return false
		}
		if c07flusherAssert(v) {
			return true
		}
		// kept in a field of the wrapper when it was built
		sts := c07fieldSources(v)
		for _, st := range sts {
			if !c07comesFrom(st.Val, c07flusherAssert) {
				return false
			}
		}
		return len(sts) > 0
	})
	return isNil && !nonNil
}

// c07flushOpen: f can return without having passed a forwarding Flush, other than over an edge on which the wrapped
// writer is known not to be a Flusher.
func c07flushOpen(f *ssa.Function, depth int) bool {
	if len(f.Blocks) == 0 {
		return true
	}
	passes := func(in ssa.Instruction) bool {
		if c07isFlushForward(in) {
			return true
		}
		call, ok := in.(*ssa.Call)
		if !ok || depth >= 2 {
			return false
		}
		sc := call.Call.StaticCallee()
		if sc == nil || !isRepoFn(sc) || len(sc.Blocks) == 0 {
			return false
		}
		g := unwrap(sc)
		return g != f && mayExec(g, c07isFlushForward, 1) && !c07flushOpen(g, depth+1)
	}
	seen := map[*ssa.BasicBlock]bool{f.Blocks[0]: true}
	stack := []*ssa.BasicBlock{f.Blocks[0]}
	for len(stack) > 0 {
		b := stack[len(stack)-1]
		stack = stack[:len(stack)-1]
		blocked := false
		for _, in := range b.Instrs {
			if passes(in) {
				blocked = true
				break
			}
			if _, isRet := in.(*ssa.Return); isRet {
				return true
			}
		}
		if blocked {
			continue
		}
		for _, s := range b.Succs {
			if !seen[s] && !c07noFlusherEdge(b, s) {
				seen[s] = true
				stack = append(stack, s)
			}
		}
	}
	return false
}
