package main

// Overlay mutants of C17 added in the second hardening round: larger restructurings of proxy/gzip (the decided writer
// as a polymorphic value, the writer state in a nested struct, the content-type matcher as a callback / an interface,
// the release as a callback, the pool behind a small type) as behaviour-preserving rewrites (Expect ""), and breaking
// variants of the same shapes, so that the generalised rules are exercised where the code no longer has the original
// form.

const (
	c17srcFields    = "\twriter       io.Writer\n\tgzipWriter   *gzip.Writer\n"
	c17srcCtor      = "\treturn &GzipResponseWriter{ResponseWriter: w, contentTypes: contentTypes}\n"
	c17srcWriteHead = "\tif grw.writer == nil {\n\t\tif _, ok :="
	c17srcWriteRet  = "\treturn grw.writer.Write(b)\n"
	c17srcPoolVar   = "var gzipWriterPool = sync.Pool{\n\tNew: func() interface{} { return gzip.NewWriter(nil) },\n}\n"
	c17srcIsCompSig = "func isCompressable(header http.Header, contentTypes *regexp.Regexp) bool {\n"
	c17srcMatchRet  = "\treturn contentTypes.MatchString(header.Get(headerContentType))\n"
)

// c17body: the polymorphic-body shape (one field `body responseBody`, implementations plainBody / gzipBody). The
// parts that breaking variants change are parameters.
type c17body struct {
	plainField string // type of plainBody.w
	plainInit  string // what WriteHeader stores on the pass-through edge
	plainWrite string // body of plainBody.Write
	newGzip    string // body of newGzipBody
	finish     string // body of gzipBody.finish
	compress   string // what WriteHeader stores on the compress edge
	writeTail  string // the end of GzipResponseWriter.Write
	cond       string // the condition of the compress edge
	extra      string // further declarations
	whHead     string // WriteHeader before the decision
	whTail     string // WriteHeader after the decision
	gzDecl     string // type gzipBody and its Write
	closeBody  string // body of GzipResponseWriter.Close
}

func c17bodyDefault() c17body {
	return c17body{
		plainField: "http.ResponseWriter",
		plainInit:  "plainBody{w: grw.ResponseWriter}",
		plainWrite: "return pb.w.Write(b)",
		newGzip:    "\tgz := gzipWriterPool.Get().(*gzip.Writer)\n\tgz.Reset(w)\n\treturn gzipBody{gz: gz}\n",
		finish:     "\tgb.gz.Close()\n\tgzipWriterPool.Put(gb.gz)\n",
		compress:   "newGzipBody(grw.ResponseWriter)",
		writeTail:  "\treturn grw.body.Write(b)\n",
		cond:       "isCompressable(grw.Header(), grw.contentTypes)",
		whTail:     "\tgrw.ResponseWriter.WriteHeader(code)\n",
		gzDecl:     "type gzipBody struct {\n\tgz *gzip.Writer\n}\n\nfunc (gb gzipBody) Write(b []byte) (int, error) { return gb.gz.Write(b) }\n\n",
		closeBody:  "\tif grw.body != nil {\n\t\tgrw.body.finish()\n\t}\n",
	}
}

func (p c17body) mutant(name, expect string) mutant {
	types := "type responseBody interface {\n\tio.Writer\n\tfinish()\n}\n\n" +
		"type plainBody struct {\n\tw " + p.plainField + "\n}\n\n" +
		"func (pb plainBody) Write(b []byte) (int, error) { " + p.plainWrite + " }\n\n" +
		"func (pb plainBody) finish() {}\n\n" +
		p.gzDecl +
		"func newGzipBody(w io.Writer) gzipBody {\n" + p.newGzip + "}\n\n" +
		"func (gb gzipBody) finish() {\n" + p.finish + "}\n\n" + p.extra
	wh := "func (grw *GzipResponseWriter) WriteHeader(code int) {\n" + p.whHead + "\tif grw.body == nil {\n\t\tif " + p.cond + " {\n" +
		"\t\t\tgrw.Header().Del(headerContentLength)\n\t\t\tgrw.Header().Set(headerContentEncoding, encodingGzip)\n" +
		"\t\t\tgrw.body = " + p.compress + "\n\t\t} else {\n\t\t\tgrw.body = " + p.plainInit + "\n\t\t}\n\t}\n" + p.whTail + "}\n"
	cl := types + "func (grw *GzipResponseWriter) Close() {\n" + p.closeBody + "}\n"
	return mutant{Name: name, File: c17file, Old: c17srcFields, New: "\tbody         responseBody\n", Expect: expect, More: []repl{
		{c17srcWH, wh},
		{c17srcWriteHead, "\tif grw.body == nil {\n\t\tif _, ok :="},
		{c17srcWriteRet, p.writeTail},
		{c17srcClose, cl},
	}}
}

// c17closer: the decided writer as an io.WriteCloser: *pooledWriter (pointer, built inline) or passThrough (embeds the
// wrapped writer, Write promoted).
func c17closer(name, expect, pooledClose, plainInit string) mutant {
	types := "type pooledWriter struct{ gz *gzip.Writer }\n\n" +
		"func (p *pooledWriter) Write(b []byte) (int, error) { return p.gz.Write(b) }\n\n" +
		"func (p *pooledWriter) Close() error {\n" + pooledClose + "}\n\n" +
		"type passThrough struct{ io.Writer }\n\nfunc (passThrough) Close() error { return nil }\n\n"
	wh := "func (grw *GzipResponseWriter) WriteHeader(code int) {\n\tif grw.out == nil {\n\t\tif isCompressable(grw.Header(), grw.contentTypes) {\n" +
		"\t\t\tgrw.Header().Del(headerContentLength)\n\t\t\tgrw.Header().Set(headerContentEncoding, encodingGzip)\n" +
		"\t\t\tgz := gzipWriterPool.Get().(*gzip.Writer)\n\t\t\tgz.Reset(grw.ResponseWriter)\n\t\t\tgrw.out = &pooledWriter{gz: gz}\n" +
		"\t\t} else {\n\t\t\tgrw.out = " + plainInit + "\n\t\t}\n\t}\n\tgrw.ResponseWriter.WriteHeader(code)\n}\n"
	cl := types + "func (grw *GzipResponseWriter) Close() {\n\tif grw.out != nil {\n\t\tgrw.out.Close()\n\t}\n}\n"
	return mutant{Name: name, File: c17file, Old: c17srcFields, New: "\tout          io.WriteCloser\n", Expect: expect, More: []repl{
		{c17srcWH, wh},
		{c17srcWriteHead, "\tif grw.out == nil {\n\t\tif _, ok :="},
		{c17srcWriteRet, "\treturn grw.out.Write(b)\n"},
		{c17srcClose, cl},
	}}
}

// c17nested: writer and pooled writer live in a state struct nested in the response writer.
func c17nested(name, expect, guard, reset string) mutant {
	wh := "func (grw *GzipResponseWriter) WriteHeader(code int) {\n\tif " + guard + " {\n\t\tif isCompressable(grw.Header(), grw.contentTypes) {\n" +
		"\t\t\tgrw.Header().Del(headerContentLength)\n\t\t\tgrw.Header().Set(headerContentEncoding, encodingGzip)\n" +
		"\t\t\tgrw.st.gz = gzipWriterPool.Get().(*gzip.Writer)\n" + reset + "\t\t\tgrw.st.w = grw.st.gz\n" +
		"\t\t} else {\n\t\t\tgrw.st.w = grw.ResponseWriter\n\t\t}\n\t}\n\tgrw.ResponseWriter.WriteHeader(code)\n}\n"
	cl := "type sinkState struct {\n\tw  io.Writer\n\tgz *gzip.Writer\n}\n\nfunc (grw *GzipResponseWriter) Close() {\n\tif gz := grw.st.gz; gz != nil {\n\t\tgz.Close()\n\t\tgzipWriterPool.Put(gz)\n\t}\n}\n"
	return mutant{Name: name, File: c17file, Old: c17srcFields, New: "\tst           sinkState\n", Expect: expect, More: []repl{
		{c17srcWH, wh},
		{c17srcWriteHead, "\tif grw.st.w == nil {\n\t\tif _, ok :="},
		{c17srcWriteRet, "\treturn grw.st.w.Write(b)\n"},
		{c17srcClose, cl},
	}}
}

// c17matcher: the configured expression behind a callback field.
func c17matcher(name, expect, bind, subject, helper string) mutant {
	return mutant{Name: name, File: c17file, Old: "\tcontentTypes *regexp.Regexp\n\thttp.ResponseWriter\n", New: "\tmatch func(string) bool\n\thttp.ResponseWriter\n", Expect: expect, More: []repl{
		{c17srcCtor, "\treturn &GzipResponseWriter{ResponseWriter: w, match: " + bind + "}\n"},
		{"isCompressable(grw.Header(), grw.contentTypes)", "isCompressable(grw.Header(), grw.match)"},
		{c17srcIsCompSig, helper + "func isCompressable(header http.Header, match func(string) bool) bool {\n"},
		{c17srcMatchRet, "\treturn match(" + subject + ")\n"},
	}}
}

// c17finishFn: no gzip-writer field at all: the release is a closure kept in a field.
func c17finishFn(name, expect, closure, extraWrite string) mutant {
	wh := "func (grw *GzipResponseWriter) WriteHeader(code int) {\n\tif grw.writer == nil {\n\t\tif isCompressable(grw.Header(), grw.contentTypes) {\n" +
		"\t\t\tgrw.Header().Del(headerContentLength)\n\t\t\tgrw.Header().Set(headerContentEncoding, encodingGzip)\n" +
		"\t\t\tgz := gzipWriterPool.Get().(*gzip.Writer)\n\t\t\tgz.Reset(grw.ResponseWriter)\n\t\t\tgrw.finish = " + closure + "\n\t\t\tgrw.writer = gz\n" +
		"\t\t} else {\n\t\t\tgrw.writer = grw.ResponseWriter\n\t\t}\n\t}\n\tgrw.ResponseWriter.WriteHeader(code)\n}\n"
	m := mutant{Name: name, File: c17file, Old: c17srcFields, New: "\twriter       io.Writer\n\tfinish       func()\n", Expect: expect, More: []repl{
		{c17srcWH, wh},
		{c17srcClose, "func (grw *GzipResponseWriter) Close() {\n\tif grw.finish != nil {\n\t\tgrw.finish()\n\t}\n}\n"},
	}}
	if extraWrite != "" {
		m.More = append(m.More, repl{"\treturn grw.writer.Write(b)\n}\n", extraWrite})
	}
	return m
}

func c17round2Mutants() []mutant {
	b := func(name, old, new string, more ...repl) mutant {
		return mutant{Name: "benign: " + name, File: c17file, Old: old, New: new, More: more, Expect: ""}
	}
	x := func(name, expect, old, new string, more ...repl) mutant {
		return mutant{Name: name, File: c17file, Old: old, New: new, More: more, Expect: expect}
	}
	with := func(f func(*c17body)) c17body { p := c17bodyDefault(); f(&p); return p }
	poolType := "type writerPool struct{ sync.Pool }\n\nfunc (p *writerPool) acquire(w io.Writer) *gzip.Writer {\n\tgz := p.Get().(*gzip.Writer)\n\tgz.Reset(w)\n\treturn gz\n}\n\nfunc (p *writerPool) release(gz *gzip.Writer) {\n\tgz.Close()\n\tp.Put(gz)\n}\n\nvar gzipWriterPool = &writerPool{Pool: sync.Pool{\n\tNew: func() interface{} { return gzip.NewWriter(nil) },\n}}\n"
	return []mutant{
		// ---- behaviour-preserving restructurings ---------------------------------------------------------------
		with(func(p *c17body) { p.plainField = "io.Writer" }).mutant("benign: decided writer as a polymorphic body, plain body holds an io.Writer", ""),
		with(func(p *c17body) {
			p.newGzip = "\treturn gzipBody{gz: acquireWriter(w)}\n"
			p.extra = "func acquireWriter(w io.Writer) *gzip.Writer {\n\tgz := gzipWriterPool.Get().(*gzip.Writer)\n\tgz.Reset(w)\n\treturn gz\n}\n\n"
		}).mutant("benign: polymorphic body built through two helpers", ""),
		with(func(p *c17body) {
			p.gzDecl = "type gzipBody struct{ *gzip.Writer }\n\n"
			p.newGzip = "\tgz := gzipWriterPool.Get().(*gzip.Writer)\n\tgz.Reset(w)\n\treturn gzipBody{gz}\n"
			p.finish = "\tgb.Close()\n\tgzipWriterPool.Put(gb.Writer)\n"
		}).mutant("benign: polymorphic body, gzip body embeds the pooled writer", ""),
		with(func(p *c17body) {
			p.closeBody = "\tif gb, ok := grw.body.(gzipBody); ok {\n\t\tgb.finish()\n\t}\n"
		}).mutant("benign: polymorphic body, Close asserts the gzip body", ""),
		b("two sends in WriteHeader, decided case as a guard clause", c17srcWH, "func (grw *GzipResponseWriter) WriteHeader(code int) {\n\tif grw.writer != nil {\n\t\tgrw.ResponseWriter.WriteHeader(code)\n\t\treturn\n\t}\n\t{\n"+c17srcDecide+"\t}\n\tgrw.ResponseWriter.WriteHeader(code)\n}\n"),
		b("status kept in a field before it is forwarded", "\tgrw.ResponseWriter.WriteHeader(code)\n}\n", "\tgrw.status = code\n\tgrw.ResponseWriter.WriteHeader(grw.status)\n}\n",
			repl{c17srcFields, c17srcFields + "\tstatus       int\n"}),
		b("handler type whose writerFor returns the writer and its cleanup", c17srcHandlerFunc,
			"\treturn &gzipHandler{next: h, types: contentTypes}\n}\n\ntype gzipHandler struct {\n\tnext  http.Handler\n\ttypes *regexp.Regexp\n}\n\nfunc (g *gzipHandler) ServeHTTP(w http.ResponseWriter, r *http.Request) {\n\tw.Header().Add(headerVary, headerAcceptEncoding)\n\tout, done := g.writerFor(w, r)\n\tdefer done()\n\tg.next.ServeHTTP(out, r)\n}\n\nfunc (g *gzipHandler) writerFor(w http.ResponseWriter, r *http.Request) (http.ResponseWriter, func()) {\n\tif !acceptsGzip(r) {\n\t\treturn w, func() {}\n\t}\n\tgzw := NewGzipResponseWriter(w, g.types)\n\treturn gzw, gzw.Close\n}\n"),
		x("handler type whose writerFor forgets the cleanup", "C17.T2", c17srcHandlerFunc,
			"\treturn &gzipHandler{next: h, types: contentTypes}\n}\n\ntype gzipHandler struct {\n\tnext  http.Handler\n\ttypes *regexp.Regexp\n}\n\nfunc (g *gzipHandler) ServeHTTP(w http.ResponseWriter, r *http.Request) {\n\tw.Header().Add(headerVary, headerAcceptEncoding)\n\tout, done := g.writerFor(w, r)\n\tdefer done()\n\tg.next.ServeHTTP(out, r)\n}\n\nfunc (g *gzipHandler) writerFor(w http.ResponseWriter, r *http.Request) (http.ResponseWriter, func()) {\n\tif !acceptsGzip(r) {\n\t\treturn w, func() {}\n\t}\n\tgzw := NewGzipResponseWriter(w, g.types)\n\treturn gzw, func() {}\n}\n"),
		x("handler type whose writerFor compresses for everybody", "C17.D1", c17srcHandlerFunc,
			"\treturn &gzipHandler{next: h, types: contentTypes}\n}\n\ntype gzipHandler struct {\n\tnext  http.Handler\n\ttypes *regexp.Regexp\n}\n\nfunc (g *gzipHandler) ServeHTTP(w http.ResponseWriter, r *http.Request) {\n\tw.Header().Add(headerVary, headerAcceptEncoding)\n\tout, done := g.writerFor(w, r)\n\tdefer done()\n\tg.next.ServeHTTP(out, r)\n}\n\nfunc (g *gzipHandler) writerFor(w http.ResponseWriter, r *http.Request) (http.ResponseWriter, func()) {\n\tif r.Method == \"HEAD\" {\n\t\treturn w, func() {}\n\t}\n\tgzw := NewGzipResponseWriter(w, g.types)\n\treturn gzw, gzw.Close\n}\n"),
		x("status field overwritten before it is forwarded", "C17.H1", "\tgrw.ResponseWriter.WriteHeader(code)\n}\n", "\tgrw.status = code\n\tif grw.gzipWriter != nil {\n\t\tgrw.status = http.StatusOK\n\t}\n\tgrw.ResponseWriter.WriteHeader(grw.status)\n}\n",
			repl{c17srcFields, c17srcFields + "\tstatus       int\n"}),
		c17closer("benign: decided writer as io.WriteCloser (pointer wrapper, embedded pass-through)", "",
			"\terr := p.gz.Close()\n\tgzipWriterPool.Put(p.gz)\n\treturn err\n", "passThrough{grw.ResponseWriter}"),
		c17nested("benign: writer state in a nested struct", "", "grw.st.w == nil", "\t\t\tgrw.st.gz.Reset(grw.ResponseWriter)\n"),
		c17matcher("benign: matcher callback as a closure over the expression", "", "func(ct string) bool { return contentTypes.MatchString(ct) }", "header.Get(headerContentType)", ""),
		c17matcher("benign: matcher callback as a bound method, content type in a local", "", "contentTypes.MatchString", "contentTypeOf(header)", "func contentTypeOf(h http.Header) string {\n\tct := h.Get(headerContentType)\n\treturn ct\n}\n\n"),
		b("matcher as a one-method interface", "\tcontentTypes *regexp.Regexp\n\thttp.ResponseWriter\n", "\tcontentTypes typeMatcher\n\thttp.ResponseWriter\n",
			repl{c17srcIsCompSig, "type typeMatcher interface{ MatchString(string) bool }\n\nfunc isCompressable(header http.Header, contentTypes typeMatcher) bool {\n"}),
		c17finishFn("benign: release as a closure kept in a field, no gzip writer field", "", "func() {\n\t\t\t\tgz.Close()\n\t\t\t\tgzipWriterPool.Put(gz)\n\t\t\t}", ""),
		b("pool behind a small type with acquire / release methods", c17srcPoolVar, poolType,
			repl{"\t\t\tgrw.gzipWriter = gzipWriterPool.Get().(*gzip.Writer)\n\t\t\tgrw.gzipWriter.Reset(grw.ResponseWriter)\n", "\t\t\tgrw.gzipWriter = gzipWriterPool.acquire(grw.ResponseWriter)\n"},
			repl{"\t\tgrw.gzipWriter.Close()\n\t\tgzipWriterPool.Put(grw.gzipWriter)\n", "\t\tgzipWriterPool.release(grw.gzipWriter)\n"}),
		b("acceptsGzip takes the header, called with a local", "\t\tif acceptsGzip(r) {\n", "\t\treqHeader := r.Header\n\t\tif acceptsGzip(reqHeader) {\n",
			repl{"func acceptsGzip(r *http.Request) bool {\n\taccept := r.Header.Get(headerAccept)\n", "func acceptsGzip(h http.Header) bool {\n\taccept := h.Get(headerAccept)\n"},
			repl{c17srcAcceptRet, "\treturn strings.Contains(h.Get(headerAcceptEncoding), encodingGzip)\n"}),
		b("wrapped writer as a named field with an explicit Header method", "\tcontentTypes *regexp.Regexp\n\thttp.ResponseWriter\n", "\tcontentTypes *regexp.Regexp\n\tResponseWriter http.ResponseWriter\n",
			repl{"func (grw *GzipResponseWriter) Close() {", "func (grw *GzipResponseWriter) Header() http.Header { return grw.ResponseWriter.Header() }\n\nfunc (grw *GzipResponseWriter) Close() {"}),

		b("Write works on a local copy of the writer, re-read after the decision", "\tif grw.writer == nil {\n\t\tif _, ok :=", "\tw := grw.writer\n\tif w == nil {\n\t\tif _, ok :=",
			repl{c17srcWriteTail, "\t\tgrw.WriteHeader(http.StatusOK)\n\t\tw = grw.writer\n\t}\n\treturn w.Write(b)\n}\n"}),
		b("verdicts carried in a small struct", "\t\tif isCompressable(grw.Header(), grw.contentTypes) {\n", "\t\tif v := inspect(grw.Header(), grw.contentTypes); !v.encoded && v.match {\n",
			repl{c17srcIsCompSig, "type verdict struct{ encoded, match bool }\n\nfunc inspect(header http.Header, contentTypes *regexp.Regexp) verdict {\n\treturn verdict{encoded: header.Get(headerContentEncoding) != \"\", match: contentTypes.MatchString(header.Get(headerContentType))}\n}\n\n" + c17srcIsCompSig}),
		b("isCompressable with a second result", "\t\tif isCompressable(grw.Header(), grw.contentTypes) {\n", "\t\tif ok, _ := isCompressable(grw.Header(), grw.contentTypes); ok {\n",
			repl{c17srcIsCompSig, "func isCompressable(header http.Header, contentTypes *regexp.Regexp) (bool, string) {\n"},
			repl{"\t\treturn false\n\t}\n" + c17srcMatchRet, "\t\treturn false, \"encoded\"\n\t}\n\tct := header.Get(headerContentType)\n\treturn contentTypes.MatchString(ct), ct\n"}),
		b("acceptsGzip takes the two header values", "\t\tif acceptsGzip(r) {\n", "\t\tif acceptsGzip(r.Header.Get(headerAccept), r.Header.Get(headerAcceptEncoding)) {\n",
			repl{"func acceptsGzip(r *http.Request) bool {\n\taccept := r.Header.Get(headerAccept)\n", "func acceptsGzip(accept, acceptEncoding string) bool {\n"},
			repl{c17srcAcceptRet, "\treturn strings.Contains(acceptEncoding, encodingGzip)\n"}),

		x("Write keeps a copy of the writer taken before the decision", "C17.T1", "\tif grw.writer == nil {\n\t\tif _, ok :=", "\tw := grw.writer\n\tif w == nil {\n\t\tif _, ok :=",
			repl{c17srcWriteTail, "\t\tgrw.WriteHeader(http.StatusOK)\n\t}\n\treturn w.Write(b)\n}\n"}),
		x("verdict struct: match does not consult the expression", "C17.D1", "\t\tif isCompressable(grw.Header(), grw.contentTypes) {\n", "\t\tif v := inspect(grw.Header(), grw.contentTypes); !v.encoded && v.match {\n",
			repl{c17srcIsCompSig, "type verdict struct{ encoded, match bool }\n\nfunc inspect(header http.Header, contentTypes *regexp.Regexp) verdict {\n\treturn verdict{encoded: header.Get(headerContentEncoding) != \"\", match: header.Get(headerContentType) != \"\"}\n}\n\n" + c17srcIsCompSig}),
		x("verdict struct: encoded responses compressed when they match", "C17.D1", "\t\tif isCompressable(grw.Header(), grw.contentTypes) {\n", "\t\tif v := inspect(grw.Header(), grw.contentTypes); !v.encoded || v.match {\n",
			repl{c17srcIsCompSig, "type verdict struct{ encoded, match bool }\n\nfunc inspect(header http.Header, contentTypes *regexp.Regexp) verdict {\n\treturn verdict{encoded: header.Get(headerContentEncoding) != \"\", match: contentTypes.MatchString(header.Get(headerContentType))}\n}\n\n" + c17srcIsCompSig}),
		x("verdict struct: encoded never assigned", "C17.D1", "\t\tif isCompressable(grw.Header(), grw.contentTypes) {\n", "\t\tif v := inspect(grw.Header(), grw.contentTypes); !v.encoded && v.match {\n",
			repl{c17srcIsCompSig, "type verdict struct{ encoded, match bool }\n\nfunc inspect(header http.Header, contentTypes *regexp.Regexp) verdict {\n\tv := verdict{match: contentTypes.MatchString(header.Get(headerContentType))}\n\tif len(header) == 0 {\n\t\tv.encoded = header.Get(headerContentEncoding) != \"\"\n\t}\n\treturn v\n}\n\n" + c17srcIsCompSig}),

		b("sniffing guard as a boolean helper", "\t\tif _, ok := grw.Header()[headerContentType]; !ok {\n", "\t\tif !hasKey(grw.Header(), headerContentType) {\n",
			repl{"func acceptsGzip(", "func hasKey(h http.Header, key string) bool {\n\t_, ok := h[key]\n\treturn ok\n}\n\nfunc acceptsGzip("}),
		b("sniffed type written through the map", "\t\t\tgrw.Header().Set(headerContentType, http.DetectContentType(b))\n", "\t\t\tgrw.Header()[headerContentType] = []string{http.DetectContentType(b)}\n"),
		b("sniffing in a helper called under the guard", "\t\t\tgrw.Header().Set(headerContentType, http.DetectContentType(b))\n", "\t\t\tsniffInto(grw.Header(), b)\n",
			repl{"func acceptsGzip(", "func sniffInto(h http.Header, b []byte) {\n\tct := http.DetectContentType(b)\n\th.Set(headerContentType, ct)\n}\n\nfunc acceptsGzip("}),
		x("sniffing guard helper looks at the value", "C17.S2", "\t\tif _, ok := grw.Header()[headerContentType]; !ok {\n", "\t\tif !hasKey(grw.Header(), headerContentType) {\n",
			repl{"func acceptsGzip(", "func hasKey(h http.Header, key string) bool {\n\treturn h.Get(key) != \"\"\n}\n\nfunc acceptsGzip("}),
		x("sniffing guard looks up another key", "C17.S2", "\t\tif _, ok := grw.Header()[headerContentType]; !ok {\n", "\t\tif _, ok := grw.Header()[headerContentEncoding]; !ok {\n"),

		b("explicit decided flag instead of the nil test", c17srcWH, "func (grw *GzipResponseWriter) WriteHeader(code int) {\n\tif !grw.decided {\n\t\tgrw.decided = true\n"+c17srcDecide+"\t}\n\tgrw.ResponseWriter.WriteHeader(code)\n}\n",
			repl{c17srcFields, "\tdecided      bool\n" + c17srcFields},
			repl{c17srcWriteHead, "\tif !grw.decided {\n\t\tif _, ok :="}),
		x("decided flag set without a decision on one path", "C17.T1", c17srcWH, "func (grw *GzipResponseWriter) WriteHeader(code int) {\n\tif !grw.decided {\n\t\tgrw.decided = true\n\t\tif code != http.StatusNoContent {\n"+c17srcDecide+"\t\t}\n\t}\n\tgrw.ResponseWriter.WriteHeader(code)\n}\n",
			repl{c17srcFields, "\tdecided      bool\n" + c17srcFields},
			repl{c17srcWriteHead, "\tif !grw.decided {\n\t\tif _, ok :="}),
		x("decided flag never set: the writer is chosen again at every WriteHeader", "C17.T1", c17srcWH, "func (grw *GzipResponseWriter) WriteHeader(code int) {\n\tif !grw.decided {\n"+c17srcDecide+"\t}\n\tgrw.ResponseWriter.WriteHeader(code)\n}\n",
			repl{c17srcFields, "\tdecided      bool\n" + c17srcFields},
			repl{c17srcWriteTail, "\t\tgrw.WriteHeader(http.StatusOK)\n\t\tgrw.decided = true\n\t}\n\treturn grw.writer.Write(b)\n}\n"}),
		x("decided flag reset after a write error", "C17.T1", c17srcWH, "func (grw *GzipResponseWriter) WriteHeader(code int) {\n\tif !grw.decided {\n\t\tgrw.decided = true\n"+c17srcDecide+"\t}\n\tgrw.ResponseWriter.WriteHeader(code)\n}\n",
			repl{c17srcFields, "\tdecided      bool\n" + c17srcFields},
			repl{c17srcWriteHead, "\tif !grw.decided {\n\t\tif _, ok :="},
			repl{"\treturn grw.writer.Write(b)\n}\n", "\tn, err := grw.writer.Write(b)\n\tif err != nil {\n\t\tgrw.decided = false\n\t}\n\treturn n, err\n}\n"}),

		// ---- breaking variants of the new shapes ------------------------------------------------------------------
		with(func(p *c17body) { p.finish = "\tgzipWriterPool.Put(gb.gz)\n" }).mutant("polymorphic body: finish recycles without Close", "C17.T2"),
		with(func(p *c17body) {
			p.newGzip = "\tgz := gzipWriterPool.Get().(*gzip.Writer)\n\t_ = w\n\treturn gzipBody{gz: gz}\n"
		}).mutant("polymorphic body: pooled writer not Reset", "C17.T2"),
		with(func(p *c17body) { p.plainWrite = "_, err := pb.w.Write(b); return len(b), err" }).mutant("polymorphic body: plain body reports len(b)", "C17.W1"),
		with(func(p *c17body) {
			p.plainField = "io.Writer"
			p.plainInit = "plainBody{w: bufio.NewWriter(grw.ResponseWriter)}"
		}).mutant("polymorphic body: plain body buffers without flushing", "C17.T1"),
		with(func(p *c17body) {
			p.writeTail = "\tn, err := grw.body.Write(b)\n\tif err != nil {\n\t\tgrw.body.finish()\n\t}\n\treturn n, err\n"
		}).mutant("polymorphic body: finish also called on a write error", "C17.T3"),
		with(func(p *c17body) { p.compress = "gzipBody{}" }).mutant("polymorphic body: gzip body without a writer", "C17.T2"),
		with(func(p *c17body) { p.cond = "!isCompressable(grw.Header(), grw.contentTypes)" }).mutant("polymorphic body: arms swapped", "C17.D1"),
		with(func(p *c17body) { p.plainInit = "newGzipBody(grw.ResponseWriter)" }).mutant("polymorphic body: pass-through edge compresses too", "C17.D1"),
		with(func(p *c17body) { p.whHead, p.whTail = p.whTail, "" }).mutant("polymorphic body: headers fixed after they were sent", "C17.H1"),
		c17closer("io.WriteCloser: wrapper recycles without Close", "C17.T2", "\tgzipWriterPool.Put(p.gz)\n\treturn nil\n", "passThrough{grw.ResponseWriter}"),
		c17closer("io.WriteCloser: pass-through wraps something else", "C17.T1", "\terr := p.gz.Close()\n\tgzipWriterPool.Put(p.gz)\n\treturn err\n", "passThrough{io.MultiWriter(grw.ResponseWriter)}"),
		c17nested("nested state: writer decided again for server errors", "C17.T1", "grw.st.w == nil || code >= 500", "\t\t\tgrw.st.gz.Reset(grw.ResponseWriter)\n"),
		c17nested("nested state: Reset lost", "C17.T2", "grw.st.w == nil", ""),
		c17matcher("matcher callback that ignores the expression", "C17.D1", "func(ct string) bool { return ct != \"\" }", "header.Get(headerContentType)", ""),
		c17matcher("matcher callback bound to a package-level expression", "C17.D1", "defaultTypes.MatchString", "header.Get(headerContentType)", "var defaultTypes = regexp.MustCompile(\"^text/\")\n\n"),
		c17matcher("matcher callback applied to another header", "C17.D1", "contentTypes.MatchString", "header.Get(headerAccept)", ""),
		c17matcher("matcher closure with the verdict negated", "C17.D1", "func(ct string) bool { return !contentTypes.MatchString(ct) }", "header.Get(headerContentType)", ""),
		c17finishFn("release closure recycles without Close", "C17.T2", "func() { gzipWriterPool.Put(gz) }", ""),
		c17finishFn("release closure also run on a write error", "C17.T3", "func() {\n\t\t\t\tgz.Close()\n\t\t\t\tgzipWriterPool.Put(gz)\n\t\t\t}",
			"\tn, err := grw.writer.Write(b)\n\tif err != nil && grw.finish != nil {\n\t\tgrw.finish()\n\t}\n\treturn n, err\n}\n"),
		x("pool type: release does not Close", "C17.T2", c17srcPoolVar, "type writerPool struct{ sync.Pool }\n\nfunc (p *writerPool) release(gz *gzip.Writer) {\n\tp.Put(gz)\n}\n\nvar gzipWriterPool = &writerPool{Pool: sync.Pool{\n\tNew: func() interface{} { return gzip.NewWriter(nil) },\n}}\n",
			repl{"\t\tgrw.gzipWriter.Close()\n\t\tgzipWriterPool.Put(grw.gzipWriter)\n", "\t\tgzipWriterPool.release(grw.gzipWriter)\n"}),
	}
}
