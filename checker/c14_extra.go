package main

// Rules of C14 added after the rounds of independently authored breaking changes (DESIGN 11.6, 11.7).

import (
	"golang.org/x/tools/go/ssa"
)

func runC14E1(c *Ctx) {
	f := c.fn("registry/consul", "parseURLPrefixTag")
	if !c.need("C14.E1", f, "registry/consul.parseURLPrefixTag") {
		return
	}
	expands := func(fn *ssa.Function) bool {
		if fn == nil {
			return false
		}
		hit := false
		eachInstr(fn, func(i ssa.Instruction) {
			if cc := callCommon(i); cc != nil && calleeName(cc) == "os.Expand" {
				hit = true
			}
		})
		return hit
	}
	isExpand := func(v ssa.Value) bool {
		call, ok := v.(*ssa.Call)
		if !ok {
			return false
		}
		if calleeName(&call.Call) == "os.Expand" || calleeName(&call.Call) == "os.ExpandEnv" {
			return true
		}
		if sc := call.Call.StaticCallee(); sc != nil && expands(sc) {
			return true
		}
		if mc, ok := call.Call.Value.(*ssa.MakeClosure); ok {
			if fn, ok := mc.Fn.(*ssa.Function); ok && expands(fn) {
				return true
			}
		}
		return false
	}
	nRet, nExp := 0, 0
	eachInstr(f, func(i ssa.Instruction) {
		if v, ok := i.(ssa.Value); ok && isExpand(v) {
			nExp++
		}
		r, ok := i.(*ssa.Return)
		if !ok || len(r.Results) != 3 {
			return
		}
		if k, isK := constString(r.Results[1]); isK && k == "" {
			return
		}
		nRet++
		c.check("C14.E1", "registry/consul.parseURLPrefixTag|options returned verbatim", r.Pos(), !derives(r.Results[1], isExpand),
			"the option part of a tag is returned after os.Expand: only ${DC} is defined there, so the documented redirect variables ($path, $host) and any other '$' in an option value are silently erased — the command still parses but no longer denotes the registered destination/options")
	})
	c.atLeast("C14.E1", "returns of parseURLPrefixTag carrying options", nRet, 1)
	c.atLeast("C14.E1", "expansion sites in parseURLPrefixTag (scope check)", nExp, 1)
}

// ---- C16.H1: the destination host of a gRPC call comes from the dsthost metadata only ------------------------
