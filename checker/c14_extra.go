package main

// Rules of C14 added after the rounds of independently authored breaking changes (DESIGN 11.6, 11.7).

import (
	"go/token"
	"go/types"
	"strings"

	"golang.org/x/tools/go/ssa"
)

// c14isExpand: the value is the result of an environment expansion.
func c14isExpand(v ssa.Value) bool {
	call, ok := v.(*ssa.Call)
	if !ok {
		return false
	}
	n := calleeName(&call.Call)
	if n == "os.Expand" || n == "os.ExpandEnv" {
		return true
	}
	// a repository wrapper (named function, method or closure) around os.Expand
	for _, g := range c14callees(&call.Call) {
		if g != nil && isRepoFn(g) && len(g.Blocks) > 0 && fnCalls(g, "os.Expand", "os.ExpandEnv") {
			return true
		}
	}
	return false
}

var c14optionWords = []string{"proto=", "weight=", "redirect="}

func c14isOptionWord(v ssa.Value) bool {
	s, ok := constString(v)
	if !ok {
		return false
	}
	for _, w := range c14optionWords {
		if strings.HasPrefix(s, w) {
			return true
		}
	}
	return false
}

// c14isOptionKey: the constant is the key of an option the generator interprets, without its "=".
func c14isOptionKey(v ssa.Value) bool {
	s, ok := constString(v)
	if !ok {
		return false
	}
	for _, w := range c14optionWords {
		if s+"=" == w {
			return true
		}
	}
	return false
}

// c14isSplitAtEq: the value is the result of cutting a text at "=" (strings.Cut, Split, SplitN, SplitAfter..).
func c14isSplitAtEq(v ssa.Value) bool {
	call, ok := v.(*ssa.Call)
	if !ok || len(call.Call.Args) < 2 {
		return false
	}
	switch calleeName(&call.Call) {
	case "strings.Cut", "strings.Split", "strings.SplitN", "strings.SplitAfter", "strings.SplitAfterN":
		sep, isK := constString(call.Call.Args[1])
		return isK && sep == "="
	}
	return false
}

// runC14E1: the option words of a routing tag reach the generator verbatim. The option text is identified by its
// role: the values the generator compares with proto=.. or tests for the prefixes weight= / redirect=; their backward
// slice (result-index and field sensitive, so that the route part of the same tag may be expanded) must not contain an
// environment expansion.
func runC14E1(st *c14state) {
	c := st.c
	type site struct {
		in  ssa.Instruction
		val ssa.Value
	}
	var sites []site
	// the word an option is compared with: a constant, or a value taken from a table of such constants
	// (`for _, h := range handlers { strings.CutPrefix(o, h.prefix) }`, a map keyed by option words)
	isWord := func(v ssa.Value) bool {
		if _, isK := v.(*ssa.Const); isK {
			return c14isOptionWord(v)
		}
		if typeStr(v.Type().Underlying()) != "string" {
			return false
		}
		return c14fromTable(v, c14isOptionWord)
	}
	// other spelling: the word is cut at its "=" first (strings.Cut / SplitN / Split) and the KEY is compared with
	// proto / weight / redirect
	isKeyOf := func(k, other ssa.Value) bool {
		return c14isOptionKey(k) && c14derives(other, c14isSplitAtEq)
	}
	eachInstrOf(st.ownerFns(), func(_ *ssa.Function, i ssa.Instruction) {
		switch x := i.(type) {
		case *ssa.BinOp:
			if x.Op != token.EQL && x.Op != token.NEQ {
				return
			}
			switch {
			case isWord(x.Y), isKeyOf(x.Y, x.X):
				sites = append(sites, site{x, x.X})
			case isWord(x.X), isKeyOf(x.X, x.Y):
				sites = append(sites, site{x, x.Y})
			}
		case *ssa.Call:
			n := calleeName(&x.Call)
			if (n == "strings.HasPrefix" || n == "strings.CutPrefix" || n == "strings.TrimPrefix") && len(x.Call.Args) == 2 && isWord(x.Call.Args[1]) {
				sites = append(sites, site{x, x.Call.Args[0]})
			}
		case *ssa.Lookup:
			// a table keyed by the option words: `if scheme, ok := protoSchemes[o]; ok`
			if _, isMap := x.X.Type().Underlying().(*types.Map); isMap && c14mapKeys(x.X, c14isOptionWord) {
				sites = append(sites, site{x, x.Index})
			}
		}
	})
	for _, s := range sites {
		c.check("C14.E1", fnKey(s.in.Parent())+"|options used verbatim", s.in.Pos(), !c14derives(s.val, c14isExpand),
			"the option part of a tag passes through os.Expand before the generator reads it: only ${DC} is defined there, so the documented redirect variables ($path, $host) and any other '$' in an option value are silently erased - the command still parses but no longer denotes the registered destination/options")
	}
	c.atLeast("C14.E1", "places where the generator recognises an option word (proto=, weight=, redirect=)", len(sites), 1)
	// ... and what was recognised is not expanded afterwards on its way into the command
	isOptionText := func(v ssa.Value) bool {
		for _, s := range sites {
			if v == s.val {
				return true
			}
		}
		return false
	}
	seenExp := map[*ssa.Call]bool{}
	for _, sk := range st.sinks {
		c14slice(sk.val, func(x ssa.Value) {
			call, ok := x.(*ssa.Call)
			if !ok || seenExp[call] || !c14isExpand(call) {
				return
			}
			seenExp[call] = true
			for _, a := range call.Call.Args {
				if _, isFn := a.Type().Underlying().(*types.Signature); isFn {
					continue
				}
				if c14derives(a, isOptionText) {
					c.check("C14.E1", fnKey(call.Parent())+"|options used verbatim", call.Pos(), false,
						"an option word the generator has recognised is passed through os.Expand on its way into the command: only ${DC} is defined there, so the documented redirect variables ($path, $host) and any other '$' in an option value are silently erased")
				}
			}
		})
	}
	// scope check: the expansion of the route part is visible to this analysis
	nExp := 0
	for _, s := range st.sinks {
		c14slice(s.val, func(x ssa.Value) {
			if c14isExpand(x) {
				nExp++
			}
		})
	}
	c.atLeast("C14.E1", "environment expansions in the slice of a command (scope check)", nExp, 1)
}

// c14fromTable: v is read from a table (an element / field of a package-level or literal slice, array, struct or map)
// and the constants stored in that table include one satisfying pred.
func c14fromTable(v ssa.Value, pred func(ssa.Value) bool) bool {
	// the value must be a load, not a computed string (o[len("weight="):] is option text, not an option word)
	switch x := v.(type) {
	case *ssa.UnOp:
		if x.Op != token.MUL {
			return false
		}
	case *ssa.Field, *ssa.Index, *ssa.Lookup, *ssa.Extract, *ssa.Parameter, *ssa.FreeVar, *ssa.Phi:
	default:
		return false
	}
	computed := false
	hit := false
	c14derives(v, func(y ssa.Value) bool {
		switch z := y.(type) {
		case *ssa.BinOp, *ssa.Slice:
			if typeStr(z.Type().Underlying()) == "string" {
				computed = true
			}
		case *ssa.Call:
			computed = true
		case *ssa.Const:
			if pred(z) {
				hit = true
			}
		}
		return false
	})
	return hit && !computed
}

// c14mapKeys: the map value m is built (here, or by a package initialiser) with constant keys, one of which satisfies pred.
func c14mapKeys(m ssa.Value, pred func(ssa.Value) bool) bool {
	hit := false
	c14derives(m, func(y ssa.Value) bool {
		if mm, ok := y.(*ssa.MakeMap); ok && mm.Referrers() != nil {
			for _, r := range *mm.Referrers() {
				if mu, ok := r.(*ssa.MapUpdate); ok && mu.Map == mm && pred(mu.Key) {
					hit = true
				}
			}
		}
		return false
	})
	return hit
}
