package main

// Rules of C14 added after the rounds of independently authored breaking changes (DESIGN 11.6, 11.7).

import (
	"go/token"
	"strings"

	"golang.org/x/tools/go/ssa"
)

// c14isExpand: the value is the result of an environment expansion.
func c14isExpand(v ssa.Value) bool {
	call, ok := v.(*ssa.Call)
	if !ok {
		return false
	}
	n := calleeName(&call.Call)
	if n == "os.Expand" || n == "os.ExpandEnv" {
		return true
	}
	// a repository wrapper (named function, method or closure) around os.Expand
	for _, g := range c14callees(&call.Call) {
		if g != nil && isRepoFn(g) && len(g.Blocks) > 0 && fnCalls(g, "os.Expand", "os.ExpandEnv") {
			return true
		}
	}
	return false
}

var c14optionWords = []string{"proto=", "weight=", "redirect="}

func c14isOptionWord(v ssa.Value) bool {
	s, ok := constString(v)
	if !ok {
		return false
	}
	for _, w := range c14optionWords {
		if strings.HasPrefix(s, w) {
			return true
		}
	}
	return false
}

// runC14E1: the option words of a routing tag reach the generator verbatim. The option text is identified by its
// role: the values the generator compares with proto=.. or tests for the prefixes weight= / redirect=; their backward
// slice (result-index and field sensitive, so that the route part of the same tag may be expanded) must not contain an
// environment expansion.
func runC14E1(st *c14state) {
	c := st.c
	type site struct {
		in  ssa.Instruction
		val ssa.Value
	}
	var sites []site
	eachInstrOf(st.ownerFns(), func(_ *ssa.Function, i ssa.Instruction) {
		switch x := i.(type) {
		case *ssa.BinOp:
			if x.Op != token.EQL && x.Op != token.NEQ {
				return
			}
			switch {
			case c14isOptionWord(x.Y):
				sites = append(sites, site{x, x.X})
			case c14isOptionWord(x.X):
				sites = append(sites, site{x, x.Y})
			}
		case *ssa.Call:
			n := calleeName(&x.Call)
			if (n == "strings.HasPrefix" || n == "strings.CutPrefix" || n == "strings.TrimPrefix") && len(x.Call.Args) == 2 && c14isOptionWord(x.Call.Args[1]) {
				sites = append(sites, site{x, x.Call.Args[0]})
			}
		}
	})
	for _, s := range sites {
		c.check("C14.E1", fnKey(s.in.Parent())+"|options used verbatim", s.in.Pos(), !c14derives(s.val, c14isExpand),
			"the option part of a tag passes through os.Expand before the generator reads it: only ${DC} is defined there, so the documented redirect variables ($path, $host) and any other '$' in an option value are silently erased - the command still parses but no longer denotes the registered destination/options")
	}
	c.atLeast("C14.E1", "places where the generator recognises an option word (proto=, weight=, redirect=)", len(sites), 1)
	// scope check: the expansion of the route part is visible to this analysis
	nExp := 0
	for _, s := range st.sinks {
		c14slice(s.val, func(x ssa.Value) {
			if c14isExpand(x) {
				nExp++
			}
		})
	}
	c.atLeast("C14.E1", "environment expansions in the slice of a command (scope check)", nExp, 1)
}
