package main

// Overlay mutants of C14 added in hardening round 3 (after the fourth round of refactorings): the shapes that made
// B1 / A1 / I1 fire on behaviour-preserving code, each with a breaking partner inside the same shape, and further
// benign shapes that are not in the corpus.

import "strings"

const (
	c14fTable = "route/table.go"

	// routecmd.build: the four proto arms
	c14srcProtoArms = `				case o == "proto=tcp":
					dst = "tcp://" + addr

				case o == "proto=https":
					dst = "https://" + addr

				case o == "proto=grpcs":
					dst = "grpcs://" + addr

				case o == "proto=grpc":
					dst = "grpc://" + addr
`
	// parseURLPrefixTag: the options of a tag
	c14srcTagOpts = "\tp := strings.SplitN(s, \" \", 2)\n\tif len(p) == 2 {\n\t\topts = p[1]\n\t}\n"

	// route.NewTable: the loop that applies the commands
	c14srcBuildLoop = `	t = make(Table)
	for _, d := range defs {
		switch d.Cmd {
		case RouteAddCmd:
			err = t.addRoute(d)
		case RouteDelCmd:
			err = t.delRoute(d)
		case RouteWeightCmd:
			err = t.weighRoute(d)
		default:
			err = fmt.Errorf("route: invalid command: %s", d.Cmd)
		}
		if err != nil {
			return nil, err
		}
	}

	// Sort the route table for each hostname
	for _, h := range t {
		sort.Sort(h)
	}

	return t, nil
}

func NewTableCustom(`
	// Table.addRoute: everything after the parse of the target
	c14srcAddCases = `	switch {
	// add new host
	case t[host] == nil:
		g, err := glob.Compile(path)
		if err != nil {
			return err
		}
		r := &Route{Host: host, Path: path, Glob: g}
		r.addTarget(d.Service, targetURL, d.Weight, d.Tags, d.Opts)
		t[host] = Routes{r}

	// add new route to existing host
	case t[host].find(path) == nil:
		g, err := glob.Compile(path)
		if err != nil {
			return err
		}
		r := &Route{Host: host, Path: path, Glob: g}
		r.addTarget(d.Service, targetURL, d.Weight, d.Tags, d.Opts)
		t[host] = append(t[host], r)

	// add new target to existing route
	default:
		t[host].find(path).addTarget(d.Service, targetURL, d.Weight, d.Tags, d.Opts)
	}

	return nil
}
`
	c14srcImportSort = "\t\"sort\"\n"

	// the refusal of seed C14-8, for an existing route r
	c14mixRefusal = `if len(%s.Targets) > 0 && (%s.Targets[0].URL.Scheme == "tcp") != (targetURL.Scheme == "tcp") {
			return fmt.Errorf("route: cannot mix tcp and http targets on %%s%%s", host, path)
		}`
)

func c14mix(r string) string {
	return strings.ReplaceAll(strings.ReplaceAll(c14mixRefusal, "%s", r), "%%s", "%s")
}

func c14mutants3() []mutant {
	// ---- A1: the builder behind an iterator and a dispatch table (range-over-func body = closure, delegated builder)
	const seqBuilder = `	return newTable(slices.Values(defs))
}

// commands maps the route commands to the methods which execute them.
var commands = map[Cmd]func(Table, *RouteDef) error{
	RouteAddCmd:    Table.addRoute,
	RouteDelCmd:    Table.delRoute,
	RouteWeightCmd: Table.weighRoute,
}

// newTable executes the commands in order on an empty routing table.
func newTable(defs iter.Seq[*RouteDef]) (Table, error) {
	t := make(Table)
	for d := range defs {
		exec, ok := commands[d.Cmd]
		if !ok {
			return nil, fmt.Errorf("route: invalid command: %s", d.Cmd)
		}
		if err := exec(t, d); err != nil {
			return nil, err
		}
	}
	for _, h := range t {
		sort.Sort(h)
	}
	return t, nil
}

func NewTableCustom(`
	seqImports := []repl{{c14srcImportSort, "\t\"iter\"\n\t\"slices\"\n\t\"sort\"\n"}}
	const seqOwner = `	return newTable(slices.Values(defs))
}

// newTable executes the commands in order on an empty routing table.
func newTable(defs iter.Seq[*RouteDef]) (Table, error) {
	t := make(Table)
	owner := map[string]string{}
	for d := range defs {
		var err error
		switch d.Cmd {
		case RouteAddCmd:
			if svc, ok := owner[d.Src]; ok && svc != d.Service {
				return nil, fmt.Errorf("route: prefix %s is used by %s and %s", d.Src, svc, d.Service)
			}
			owner[d.Src] = d.Service
			err = t.addRoute(d)
		case RouteDelCmd:
			err = t.delRoute(d)
		case RouteWeightCmd:
			err = t.weighRoute(d)
		default:
			err = fmt.Errorf("route: invalid command: %s", d.Cmd)
		}
		if err != nil {
			return nil, err
		}
	}
	for _, h := range t {
		sort.Sort(h)
	}
	return t, nil
}

func NewTableCustom(`
	// plain extraction of the loop (no iterator)
	const plainBuilder = `	return buildTable(defs)
}

// buildTable executes the commands in order on an empty routing table.
func buildTable(defs []*RouteDef) (Table, error) {
	t := make(Table)
	for _, d := range defs {
		if err := d.Cmd.exec(t, d); err != nil {
			return nil, err
		}
	}
	for _, h := range t {
		sort.Sort(h)
	}
	return t, nil
}

// exec executes a command of this kind on the table.
func (c Cmd) exec(t Table, d *RouteDef) error {
	switch c {
	case RouteAddCmd:
		return t.addRoute(d)
	case RouteDelCmd:
		return t.delRoute(d)
	case RouteWeightCmd:
		return t.weighRoute(d)
	}
	return fmt.Errorf("route: invalid command: %s", c)
}

func NewTableCustom(`

	// ---- A1: addRoute in two steps (validated command in a struct captured by a closure; constructor called in two arms)
	const twoArms = `	a := struct{ host, path string }{host, path}
	addTarget := func(r *Route) {
		r.addTarget(d.Service, targetURL, d.Weight, d.Tags, d.Opts)
		_ = a
	}

	routes := t[a.host]
	if routes == nil {
		// add new host
		r, err := newRoute(a.host, a.path)
		if err != nil {
			return err
		}
		addTarget(r)
		t[a.host] = Routes{r}
	} else if existing := routes.find(a.path); existing != nil {
		// add new target to existing route
		@@
		addTarget(existing)
	} else {
		// add new route to existing host
		r, err := newRoute(a.host, a.path)
		if err != nil {
			return err
		}
		addTarget(r)
		t[a.host] = append(routes, r)
	}

	return nil
}

// newRoute returns a route for host and path which has no targets.
func newRoute(host, path string) (*Route, error) {
	g, err := glob.Compile(path)
	if err != nil {
		return nil, err
	}
	return &Route{Host: host, Path: path, Glob: g}, nil
}
`
	// ---- A1: lookup once, the helper is handed the (nil) routes of the host
	const lookupOnce = `	// routes is nil for a new host
	routes := t[host]

	// add new target to existing route
	if r := routes.find(path); r != nil {
		@@
		r.addTarget(d.Service, targetURL, d.Weight, d.Tags, d.Opts)
		return nil
	}

	// add new route to new or existing host
	g, err := glob.Compile(path)
	if err != nil {
		return err
	}
	r := &Route{Host: host, Path: path, Glob: g}
	r.addTarget(d.Service, targetURL, d.Weight, d.Tags, d.Opts)
	t[host] = append(routes, r)

	return nil
}
`
	// ---- I1: every goroutine is handed the address of its slot
	fan := func(goStmt, decl string) string {
		return `	var (
		wg      sync.WaitGroup
		sem     = make(chan struct{}, n)
		results = make([][]string, len(m))
	)
	slot := 0
	for name, passing := range m {
		wg.Add(1)
` + goStmt + `		slot++
	}
	wg.Wait()

	config := slices.Concat(results...)
` + decl
	}
	const goParam = `		go func(result *[]string, name string, passing map[string]bool) {
			defer wg.Done()
			sem <- struct{}{}
			defer func() { <-sem }()
			*result = w.serviceConfig(name, passing)
		}(&results[@@], name, passing)
`
	const goCaptured = `		result := &results[@@]
		go func() {
			defer wg.Done()
			sem <- struct{}{}
			defer func() { <-sem }()
			*result = w.serviceConfig(name, passing)
		}()
`
	const goMethod = "\t\tgo w.fetch(&results[@@], &wg, sem, name, passing)\n"
	fanImports := []repl{{"\t\"sort\"\n", "\t\"slices\"\n\t\"sort\"\n"}, {"\t\"strings\"\n", "\t\"strings\"\n\t\"sync\"\n"}}
	fetchDecl := []repl{{c14srcServiceConfigDoc, `// fetch stores the config of one service in the slot it is handed.
func (w *ServiceMonitor) fetch(result *[]string, wg *sync.WaitGroup, sem chan struct{}, name string, passing map[string]bool) {
	defer wg.Done()
	sem <- struct{}{}
	defer func() { <-sem }()
	*result = w.serviceConfig(name, passing)
}

` + c14srcServiceConfigDoc}}
	at := func(s, idx string) string { return strings.Replace(s, "@@", idx, 1) }

	return []mutant{
		// B1: facts that hold on every edge into a merge
		{Name: "benign: h3 B1 proto arms merged into one case list, scheme cut from the word", File: c14fRoutecmd, Old: c14srcProtoArms,
			New: "\t\t\t\tcase o == \"proto=tcp\", o == \"proto=https\", o == \"proto=grpcs\", o == \"proto=grpc\":\n\t\t\t\t\tdst = o[len(\"proto=\"):] + \"://\" + addr\n", Expect: ""},
		{Name: "h3 B1 merged proto arms, one alternative is shorter than the cut", File: c14fRoutecmd, Old: c14srcProtoArms,
			New: "\t\t\t\tcase o == \"proto=tcp\", o == \"proto=https\", o == \"proto=grpcs\", o == \"proto=grpc\", o == \"proto\":\n\t\t\t\t\tdst = o[len(\"proto=\"):] + \"://\" + addr\n", Expect: "C14.B1"},
		{Name: "benign: h3 B1 two proto words joined with ||, scheme cut from the word", File: c14fRoutecmd, Old: "\t\t\t\tcase o == \"proto=grpcs\":\n\t\t\t\t\tdst = \"grpcs://\" + addr\n\n\t\t\t\tcase o == \"proto=grpc\":\n\t\t\t\t\tdst = \"grpc://\" + addr\n",
			New: "\t\t\t\tcase o == \"proto=grpcs\" || o == \"proto=grpc\":\n\t\t\t\t\tif scheme := o[6:]; scheme != \"\" {\n\t\t\t\t\t\tdst = scheme + \"://\" + addr\n\t\t\t\t\t}\n", Expect: ""},
		{Name: "benign: h3 B1 weight recognised with strings.Index == 0", File: c14fRoutecmd, Old: "case strings.HasPrefix(o, \"weight=\"):", New: "case strings.Index(o, \"weight=\") == 0:", Expect: ""},
		{Name: "h3 B1 weight recognised with strings.Contains of a shorter text", File: c14fRoutecmd, Old: "case strings.HasPrefix(o, \"weight=\"):", New: "case strings.Contains(o, \"weight\"):", Expect: "C14.B1"},
		{Name: "benign: h3 B1 options of a tag taken when the tag contains the separator", File: c14fRoutecmd, Old: c14srcTagOpts,
			New: "\tp := strings.SplitN(s, \" \", 2)\n\tif strings.Contains(s, \" \") {\n\t\topts = p[1]\n\t}\n", Expect: ""},
		{Name: "h3 B1 options of a tag taken when the tag contains another separator", File: c14fRoutecmd, Old: c14srcTagOpts,
			New: "\tp := strings.SplitN(s, \" \", 2)\n\tif strings.Contains(s, \"\\t\") {\n\t\topts = p[1]\n\t}\n", Expect: "C14.B1"},
		{Name: "benign: h3 B1 options of a tag taken when the separator is found with strings.Index", File: c14fRoutecmd, Old: c14srcTagOpts,
			New: "\tp := strings.SplitN(s, \" \", 2)\n\tif strings.Index(s, \" \") >= 0 {\n\t\topts = p[1]\n\t}\n", Expect: ""},

		// A1: builder behind an iterator + dispatch table
		{Name: "benign: h3 A1 builder behind iter.Seq and a table of commands", File: c14fTable, Old: c14srcBuildLoop, New: seqBuilder, More: seqImports, Expect: ""},
		{Name: "h3 A1 same builder, tcp and http targets refused", File: c14fTable, Old: c14srcBuildLoop, New: seqBuilder,
			More: append(append([]repl{}, seqImports...), repl{"\tdefault:\n\t\tt[host].find(path).addTarget(d.Service, targetURL, d.Weight, d.Tags, d.Opts)\n", "\tdefault:\n\t\tr := t[host].find(path)\n\t\t" + c14mix("r") + "\n\t\tr.addTarget(d.Service, targetURL, d.Weight, d.Tags, d.Opts)\n"}), Expect: "C14.A1"},
		{Name: "h3 A1 range-over-func builder keeps an owner map and refuses a prefix used by two services", File: c14fTable, Old: c14srcBuildLoop, New: seqOwner, More: seqImports, Expect: "C14.A1"},
		{Name: "benign: h3 A1 loop extracted into buildTable, commands executed by a method of Cmd", File: c14fTable, Old: c14srcBuildLoop, New: plainBuilder, Expect: ""},
		{Name: "h3 A1 same, tcp and http targets refused", File: c14fTable, Old: c14srcBuildLoop, New: plainBuilder,
			More: []repl{{"\tdefault:\n\t\tt[host].find(path).addTarget(d.Service, targetURL, d.Weight, d.Tags, d.Opts)\n", "\tdefault:\n\t\tr := t[host].find(path)\n\t\t" + c14mix("r") + "\n\t\tr.addTarget(d.Service, targetURL, d.Weight, d.Tags, d.Opts)\n"}}, Expect: "C14.A1"},

		// A1: the same constructor called in two arms with loads of one local struct
		{Name: "benign: h3 A1 constructor called in two arms with the fields of a captured struct", File: c14fTable, Old: c14srcAddCases, New: at(twoArms, "// nothing else to do"), Expect: ""},
		{Name: "h3 A1 same, tcp and http targets refused for the existing route", File: c14fTable, Old: c14srcAddCases, New: at(twoArms, c14mix("existing")), Expect: "C14.A1"},
		{Name: "h3 A1 same, the path is rewritten between the two constructor calls", File: c14fTable, Old: c14srcAddCases,
			New: strings.Replace(at(twoArms, "// nothing else to do"), "\t} else {\n\t\t// add new route to existing host\n", "\t} else {\n\t\t// add new route to existing host\n\t\ta.path = strings.TrimSuffix(a.path, \"*\") + \"{\"\n", 1), Expect: "C14.A1"},

		// A1: one lookup, helper evaluated with the nil routes of a new host
		{Name: "benign: h3 A1 one lookup, find() handed the routes of the host", File: c14fTable, Old: c14srcAddCases, New: at(lookupOnce, "// one more target"), Expect: ""},
		{Name: "h3 A1 same, tcp and http targets refused", File: c14fTable, Old: c14srcAddCases, New: at(lookupOnce, c14mix("r")), Expect: "C14.A1"},
		{Name: "h3 A1 same, at most 512 routes per host", File: c14fTable, Old: c14srcAddCases,
			New: strings.Replace(at(lookupOnce, "// one more target"), "\t// add new route to new or existing host\n", "\t// add new route to new or existing host\n\tif len(routes) >= 512 {\n\t\treturn errors.New(\"route: too many routes for one host\")\n\t}\n", 1), Expect: "C14.A1"},

		// I1: the slot is handed to the goroutine
		{Name: "benign: h3 I1 goroutine is handed the address of its slot", File: c14fService, Old: c14srcFan, New: fan(at(goParam, "slot"), ""), More: fanImports, Expect: ""},
		{Name: "h3 I1 every goroutine is handed the address of slot 0", File: c14fService, Old: c14srcFan, New: fan(at(goParam, "0"), ""), More: fanImports, Expect: "C14.I1"},
		{Name: "benign: h3 I1 goroutine captures a pointer to its slot", File: c14fService, Old: c14srcFan, New: fan(at(goCaptured, "slot"), ""), More: fanImports, Expect: ""},
		{Name: "h3 I1 every goroutine captures a pointer to slot 0", File: c14fService, Old: c14srcFan, New: fan(at(goCaptured, "0"), ""), More: fanImports, Expect: "C14.I1"},
		{Name: "benign: h3 I1 goroutine is a method handed slot, group and semaphore", File: c14fService, Old: c14srcFan, New: fan(at(goMethod, "slot"), ""), More: append(append([]repl{}, fanImports...), fetchDecl...), Expect: ""},
		{Name: "h3 I1 method goroutine, every one handed slot 0", File: c14fService, Old: c14srcFan, New: fan(at(goMethod, "0"), ""), More: append(append([]repl{}, fanImports...), fetchDecl...), Expect: "C14.I1"},
	}
}
