package main

import (
	"go/token"
	"sort"
	"strings"

	"golang.org/x/tools/go/ssa"
)

func init() {
	register(&propDef{
		ID:      "C14",
		Level:   "other",
		Explain: "Generator/parser agreement for commands derived from service registrations, decided by taint and structure. Sites are found by ROLE, not by function name: a COMMAND SINK is the first place where a string whose backward slice contains the literal 'route add' and a field of consul's api.CatalogService (service name, tags, addresses) enters a list of strings or is sent on a channel of strings, wherever in the repository it is (today: routecmd.build); a list of the parts of one command (joined without a line break) is not a sink. Calls are followed through function values kept in tables and through small interfaces by type (c14_dyn.go), values through package-level tables and through structs filled by helpers that receive a pointer. (T1) every sink value is stored only where a validator verdict on that very value holds - the fact may be a bool or a nil error, may be established in a helper that returns the command together with its verdict, or at the call sites of a helper that does the storing - and the validator (followed through wrappers) says yes only when route.Parse succeeded on the candidate, produced exactly one definition, that definition is a route add, and route.NewTable accepted it; so a registration that cannot be expressed (weight=abc, a tag containing a quote, a newline injecting a second command) is dropped on its own instead of poisoning the text every later table build parses; (Q1) nothing in the slice of a command escapes with %q/strconv.Quote while the parser (the region of route.Parse) takes quoted text verbatim; (I1) one service's failure affects only that service: every goroutine that (transitively) queries the catalog for one service sends its result exactly once on every path on a channel (a worker that takes the services from a job channel: exactly once per job, staying until the job channel is closed, every service put on the job channel exactly once), the collector loop receives from that channel once per iteration, has no exit after the receive, and iterates exactly as often as the loop that spawned the goroutines (other spelling of the join: the goroutine stores its result into its own slot - written by index, or through a pointer to the slot it is handed or captures - or under a mutex and signals a sync.WaitGroup on every path, the spawner adds before each go statement and waits after the loop; or the goroutines are started with errgroup.Group.Go and the group is waited for); the function that queries the catalog returns on the error edge (no exit/panic) and returns only its own slice; (P4) in everything route.Parse can reach in its package (also through a table of builder functions or an interface) a float produced by strconv.ParseFloat leaves the parser only where it is known to be finite - the judgement may sit in the parsing function, in a wrapper that receives the float, or in the callers it is returned to (weight=Inf used to crash the process); (N1) the destination in the slice of a command is built with net.JoinHostPort from ServiceAddress (node Address only where ServiceAddress is known to be empty, or through cmp.Or in that order) and ServicePort, no text carried around the loop that emits the commands flows into a command, and each proto= option selects its own scheme prefix (spelled as one case per option word, a table, or the option's value itself used as the scheme under a membership test (comparisons with the scheme words, or a lookup in a list or set of constants) - the value taken after the prefix proto= or as the value half of a word cut at '=' whose key is compared with proto); (E1) the option words the generator compares with proto=/weight=/redirect= (or, when the word is cut at its '=' first with strings.Cut/SplitN, whose key it compares with proto/weight/redirect) do not pass through os.Expand. Not decided: that the parsed command denotes the registration for every value (string/URL equality after a parse).",
		Run:     runC14,
		Trusted: []string{"route.Parse is the parser NewTable uses (same function)", "hashicorp/consul/api field contents are arbitrary strings"},
		Mutants: c14mutants(),
	})
}

// c14sink is one place where a command derived from a catalog entry enters a list of commands.
type c14sink struct {
	store ssa.Instruction // the store into an element of a list of strings, or the send on a channel of strings
	val   ssa.Value
	fn    *ssa.Function
}

type c14state struct {
	c      *Ctx
	sinks  []c14sink
	owners map[*ssa.Function]bool // functions that own a value in the backward slice of a command (same package as a sink)
}

// c14stateOf: the sinks of the load (found once; C14's later entry points W2 and the quoting rule ask again).
var c14stateCache = map[*Ctx]*c14state{}

func c14stateOf(c *Ctx) *c14state {
	if st := c14stateCache[c]; st != nil {
		return st
	}
	for k := range c14stateCache {
		delete(c14stateCache, k)
	}
	st := &c14state{c: c, owners: map[*ssa.Function]bool{}}
	st.findSinks()
	c14stateCache[c] = st
	return st
}

func runC14(c *Ctx) {
	c14ctx = c
	st := c14stateOf(c)
	c.atLeast("C14.T1", "stores of a catalog-derived 'route add' command into a list of commands (the generator)", len(st.sinks), 1)
	if len(st.sinks) == 0 {
		// the other generator rules have no subject either; they must not pass silently
		for _, r := range []string{"C14.Q1", "C14.N1", "C14.E1"} {
			c.undecided(r, "anchor|command generator", "no place found where a 'route add' command built from an api.CatalogService enters a list of commands")
		}
	} else {
		runC14T1(st)
		c14Quoting(st, "C14.Q1")
		runC14N1(st)
		runC14E1(st)
	}
	runC14I1(c)
	c14FiniteWeight(c, "C14.P4")
}

// ---- roles ---------------------------------------------------------------------------------------------------

func c14isCatalogField(v ssa.Value, field string) bool {
	switch x := v.(type) {
	case *ssa.UnOp:
		if x.Op != token.MUL {
			return false
		}
		fa, ok := x.X.(*ssa.FieldAddr)
		return ok && namedIs(fa.X.Type(), "api.CatalogService") && (field == "" || fieldName(fa.X.Type(), fa.Field) == field)
	case *ssa.Field:
		return namedIs(x.X.Type(), "api.CatalogService") && (field == "" || fieldName(x.X.Type(), x.Field) == field)
	}
	return false
}

// taintedByCatalog: v depends on data of a catalog entry.
func taintedByCatalog(v ssa.Value) bool {
	if c14derives(v, func(x ssa.Value) bool { return c14isCatalogField(x, "") }) {
		return true
	}
	return derivesThroughRepo(v, func(x ssa.Value) bool {
		u, ok := x.(*ssa.UnOp)
		if !ok || u.Op != token.MUL {
			return false
		}
		fa, ok := u.X.(*ssa.FieldAddr)
		return ok && namedIs(fa.X.Type(), "api.CatalogService")
	})
}

func c14isRouteAddText(v ssa.Value) bool {
	s, ok := constString(v)
	return ok && strings.Contains(s, "route add")
}

func (st *c14state) findSinks() {
	var cands []c14sink
	for _, f := range c14fns(st.c) {
		ff := f
		eachInstr(f, func(i ssa.Instruction) {
			var val ssa.Value
			switch x := i.(type) {
			case *ssa.Store:
				if _, isElem := x.Addr.(*ssa.IndexAddr); !isElem {
					return
				}
				val = x.Val
			case *ssa.Send:
				// commands streamed over a channel instead of collected in a list
				val = x.X
			default:
				return
			}
			if typeStr(val.Type().Underlying()) != "string" {
				return
			}
			if _, isK := val.(*ssa.Const); isK {
				return
			}
			// copying an element from one list to another is not an entry: it was checked where it entered the first list
			switch x := c14stripConv(val).(type) {
			case *ssa.UnOp:
				if _, isElem := x.X.(*ssa.IndexAddr); isElem && x.Op == token.MUL {
					return
				}
				if x.Op == token.ARROW {
					return // forwarded from another channel
				}
			case *ssa.Index, *ssa.Lookup:
				return
			case *ssa.Extract:
				if _, isNext := x.Tuple.(*ssa.Next); isNext {
					return
				}
				if u, isRecv := x.Tuple.(*ssa.UnOp); isRecv && u.Op == token.ARROW {
					return
				}
			}
			if !c14derives(val, c14isRouteAddText) || !taintedByCatalog(val) {
				return
			}
			cands = append(cands, c14sink{i, val, ff})
		})
	}
	// a list of the PARTS of one command (`parts := []string{"route add " + name, route, dst}; strings.Join(parts, " ")`)
	// is not a list of commands; and once a command has entered a list or a channel, the places further down that copy
	// or join the collected text (the configuration sent to the update loop) are not entries either: the sink is the
	// first place
	var kept []c14sink
	for _, a := range cands {
		if st, ok := a.store.(*ssa.Store); ok && c14isPartsList(st) {
			continue
		}
		kept = append(kept, a)
	}
	for k, a := range kept {
		downstream := false
		for j, b := range kept {
			if j != k && b.val != a.val && c14derives(a.val, func(v ssa.Value) bool { return v == b.val }) && !c14derives(b.val, func(v ssa.Value) bool { return v == a.val }) {
				downstream = true
			}
		}
		if !downstream {
			st.sinks = append(st.sinks, a)
		}
	}
	for _, s := range st.sinks {
		home := rootPkg(s.fn)
		for f := range c14slice(s.val, nil) {
			if rootPkg(f) == home {
				st.owners[f] = true
			}
		}
		st.owners[s.fn] = true
	}
}

// c14isPartsList: the list the store fills is (also) joined into ONE line: it reaches strings.Join with a constant
// separator that has no line break - forwards through append, reslicing, merges and local variables.
func c14isPartsList(st *ssa.Store) bool {
	ia, ok := st.Addr.(*ssa.IndexAddr)
	if !ok {
		return false
	}
	seen := map[ssa.Value]bool{}
	var fwd func(v ssa.Value, d int) bool
	fwd = func(v ssa.Value, d int) bool {
		if v == nil || seen[v] || d > 12 || v.Referrers() == nil {
			return false
		}
		seen[v] = true
		for _, r := range *v.Referrers() {
			switch x := r.(type) {
			case *ssa.Slice:
				if fwd(x, d+1) {
					return true
				}
			case *ssa.Phi:
				if fwd(x, d+1) {
					return true
				}
			case *ssa.Call:
				n := calleeName(&x.Call)
				if n == "strings.Join" && len(x.Call.Args) == 2 && x.Call.Args[0] == v {
					if sep, isK := constString(x.Call.Args[1]); isK && !strings.ContainsAny(sep, "\n\r") {
						return true
					}
				}
				if n == "builtin.append" && fwd(x, d+1) {
					return true
				}
			case *ssa.Store:
				// kept in a local variable: its later loads
				if cell, isAlloc := x.Addr.(*ssa.Alloc); isAlloc && x.Val == v && cell.Referrers() != nil {
					for _, r2 := range *cell.Referrers() {
						if ld, isLoad := r2.(*ssa.UnOp); isLoad && ld.Op == token.MUL && fwd(ld, d+1) {
							return true
						}
					}
				}
			}
		}
		return false
	}
	return fwd(ia.X, 0)
}

// ownerFns: deterministic order.
func (st *c14state) ownerFns() []*ssa.Function {
	var out []*ssa.Function
	for f := range st.owners {
		out = append(out, f)
	}
	sort.Slice(out, func(i, j int) bool { return out[i].String() < out[j].String() })
	return out
}

// ---- facts, verdicts and what a verdict implies ---------------------------------------------------------------------

type c14nil struct {
	V     ssa.Value
	IsNil bool
}

// c14env: what is known at a program point: branch facts and nil-ness of values.
type c14env struct {
	Facts []Fact
	Nils  []c14nil
}

func c14envAt(blk *ssa.BasicBlock, extra *c14env) c14env {
	var env c14env
	if blk != nil {
		env.Facts = append(env.Facts, factsAt(blk)...)
	}
	if extra != nil {
		env.Facts = append(env.Facts, extra.Facts...)
		env.Nils = append(env.Nils, extra.Nils...)
	}
	// a verdict compared with a boolean constant (`switch ok := valid(cmd); ok { case true:`, `if ok == false`) is the
	// verdict itself
	for k := 0; k < len(env.Facts) && k < 64; k++ {
		ft := env.Facts[k]
		b, ok := ft.Cond.(*ssa.BinOp)
		if !ok || (b.Op != token.EQL && b.Op != token.NEQ) {
			continue
		}
		for _, pair := range [][2]ssa.Value{{b.X, b.Y}, {b.Y, b.X}} {
			kb, isK := constBool(pair[1])
			if _, otherIsK := pair[0].(*ssa.Const); !isK || otherIsK {
				continue
			}
			truth := ((b.Op == token.EQL) == kb) == ft.Truth
			env.Facts = appendCondFacts(env.Facts, pair[0], truth, 0)
			break
		}
	}
	for _, ft := range env.Facts {
		b, ok := ft.Cond.(*ssa.BinOp)
		if !ok || (b.Op != token.EQL && b.Op != token.NEQ) {
			continue
		}
		var other ssa.Value
		switch {
		case isNilConst(b.Y):
			other = b.X
		case isNilConst(b.X):
			other = b.Y
		}
		if other != nil {
			env.Nils = append(env.Nils, c14nil{other, (b.Op == token.EQL) == ft.Truth})
		}
	}
	return env
}

// c14edgeFact: what taking the edge pred -> succ adds to the facts at pred (a merge has no facts of its own, but each
// alternative is chosen on an edge).
func c14edgeFact(pred, succ *ssa.BasicBlock) *c14env {
	if pred == nil || succ == nil || len(pred.Instrs) == 0 || len(pred.Succs) != 2 || pred.Succs[0] == pred.Succs[1] {
		return nil
	}
	iff, ok := pred.Instrs[len(pred.Instrs)-1].(*ssa.If)
	if !ok {
		return nil
	}
	cond, truth := iff.Cond, pred.Succs[0] == succ
	for {
		u, isNot := cond.(*ssa.UnOp)
		if !isNot || u.Op != token.NOT {
			break
		}
		cond, truth = u.X, !truth
	}
	return &c14env{Facts: []Fact{{cond, truth}}}
}

// c14edgeFacts: the branch facts that hold when control goes from pred to succ.
func c14edgeFacts(pred, succ *ssa.BasicBlock) []Fact {
	return c14envAt(pred, c14edgeFact(pred, succ)).Facts
}

// c14verdict: "result Res of Call is true/false" or "result Res of Call (an error) is nil".
type c14verdict struct {
	Call  *ssa.Call
	Res   int
	IsErr bool
	Truth bool // bool verdicts
}

func c14callResult(v ssa.Value) (*ssa.Call, int, bool) {
	switch x := v.(type) {
	case *ssa.Call:
		return x, 0, true
	case *ssa.Extract:
		if call, ok := x.Tuple.(*ssa.Call); ok {
			return call, x.Index, true
		}
	}
	return nil, 0, false
}

func (e c14env) verdicts() []c14verdict {
	var out []c14verdict
	for _, ft := range e.Facts {
		if !c14isBoolType(ft.Cond.Type()) {
			continue
		}
		if call, idx, ok := c14callResult(ft.Cond); ok {
			out = append(out, c14verdict{Call: call, Res: idx, Truth: ft.Truth})
		}
	}
	for _, n := range e.Nils {
		if !n.IsNil || !c14isErrorType(n.V.Type()) {
			continue
		}
		if call, idx, ok := c14callResult(n.V); ok {
			out = append(out, c14verdict{Call: call, Res: idx, IsErr: true})
		}
	}
	return out
}

// c14callees: the repository functions a call can reach: its static callee, the makers funcsOf can see, or - a function
// value from a table, a method of an interface - the candidates by type (c14_dyn.go).
func c14callees(cc *ssa.CallCommon) []*ssa.Function {
	return c14callTargets(cc, c14callerOf(cc))
}

// c14outcomes: the environments under which a returned value val (evaluated at the end of blk) has the outcome of
// verdict v (bool: equals v.Truth; error: is nil). `a && b`, `!x`, early returns and merges are all resolved to edges.
func c14outcomes(val ssa.Value, blk *ssa.BasicBlock, isErr, want bool, out *[]c14env, d int) {
	c14outcomesOn(val, blk, nil, isErr, want, out, d)
}

// c14outcomesOn: edge holds what is known in addition to the facts at blk (the edge on which a merge alternative is chosen).
func c14outcomesOn(val ssa.Value, blk *ssa.BasicBlock, edge *c14env, isErr, want bool, out *[]c14env, d int) {
	with := func(extra *c14env) *c14env {
		if edge == nil {
			return extra
		}
		if extra == nil {
			return edge
		}
		return &c14env{Facts: append(append([]Fact{}, edge.Facts...), extra.Facts...), Nils: append(append([]c14nil{}, edge.Nils...), extra.Nils...)}
	}
	if d > 12 {
		*out = append(*out, c14envAt(blk, with(nil)))
		return
	}
	if phi, ok := val.(*ssa.Phi); ok {
		for k, e := range phi.Edges {
			p := phi.Block().Preds[k]
			c14outcomesOn(e, p, c14edgeFact(p, phi.Block()), isErr, want, out, d+1)
		}
		return
	}
	if !isErr {
		if bv, ok := constBool(val); ok {
			if bv == want {
				*out = append(*out, c14envAt(blk, with(nil)))
			}
			return
		}
		if u, ok := val.(*ssa.UnOp); ok && u.Op == token.NOT {
			c14outcomesOn(u.X, blk, edge, isErr, !want, out, d+1)
			return
		}
		*out = append(*out, c14envAt(blk, with(&c14env{Facts: []Fact{{val, want}}})))
		return
	}
	// an error result: when is it nil?
	if isNilConst(val) {
		*out = append(*out, c14envAt(blk, with(nil)))
		return
	}
	if _, ok := val.(*ssa.MakeInterface); ok {
		return // a concrete error value
	}
	if call, ok := val.(*ssa.Call); ok {
		if n := calleeName(&call.Call); n == "errors.New" || n == "fmt.Errorf" {
			return
		}
	}
	here := c14envAt(blk, with(nil))
	for _, n := range here.Nils {
		if c14sameValue(n.V, val) && !n.IsNil {
			return
		}
	}
	*out = append(*out, c14envAt(blk, with(&c14env{Nils: []c14nil{{val, true}}})))
}

func c14returnEnvs(g *ssa.Function, v c14verdict) []c14env {
	var out []c14env
	eachInstr(g, func(i ssa.Instruction) {
		r, ok := i.(*ssa.Return)
		if !ok || v.Res >= len(r.Results) {
			return
		}
		c14outcomes(r.Results[v.Res], r.Block(), v.IsErr, v.Truth, &out, 0)
	})
	return out
}

// c14leaf names what an environment establishes about the tracked value(s).
type c14leaf func(env c14env, tracked func(ssa.Value) bool) map[string]bool

// c14implies: the labels that hold whenever verdict v holds, where args lists the argument positions of the call that
// carry the tracked value. The callee is looked into (every way of producing the outcome must establish a label), and
// verdicts of further repository functions on the tracked value are followed (wrappers, split validators).
func c14implies(v c14verdict, args []int, leaf c14leaf, depth int) map[string]bool {
	if depth > 3 || len(args) == 0 {
		return nil
	}
	callees := c14callees(&v.Call.Call)
	if len(callees) == 0 {
		return nil
	}
	var out map[string]bool
	first := true
	for _, g := range callees {
		if g == nil || !isRepoFn(g) || len(g.Blocks) == 0 {
			return nil
		}
		p := map[*ssa.Parameter]bool{}
		for pi, prm := range g.Params {
			a := c14argFor(v.Call, g, pi)
			for _, k := range args {
				if a != nil && k < len(v.Call.Call.Args) && a == v.Call.Call.Args[k] {
					p[prm] = true
				}
			}
		}
		tracked := func(x ssa.Value) bool { pp, ok := x.(*ssa.Parameter); return ok && p[pp] }
		envs := c14returnEnvs(g, v)
		if len(envs) == 0 {
			return nil
		}
		for _, env := range envs {
			labels := leaf(env, tracked)
			if labels == nil {
				labels = map[string]bool{}
			}
			for _, v2 := range env.verdicts() {
				if v2.Call == v.Call {
					continue
				}
				var idx []int
				for k, a := range v2.Call.Call.Args {
					if c14derives(a, tracked) {
						idx = append(idx, k)
					}
				}
				for l := range c14implies(v2, idx, leaf, depth+1) {
					labels[l] = true
				}
			}
			if first {
				out, first = labels, false
				continue
			}
			for l := range out {
				if !labels[l] {
					delete(out, l)
				}
			}
		}
	}
	return out
}

// c14cmp normalises a comparison fact to `X op Y` holding (negation folded into op).
func c14cmp(ft Fact) (x ssa.Value, op token.Token, y ssa.Value, ok bool) {
	b, isB := ft.Cond.(*ssa.BinOp)
	if !isB {
		return nil, 0, nil, false
	}
	op = b.Op
	if !ft.Truth {
		switch op {
		case token.EQL:
			op = token.NEQ
		case token.NEQ:
			op = token.EQL
		case token.LSS:
			op = token.GEQ
		case token.GEQ:
			op = token.LSS
		case token.GTR:
			op = token.LEQ
		case token.LEQ:
			op = token.GTR
		default:
			return nil, 0, nil, false
		}
	}
	switch op {
	case token.EQL, token.NEQ, token.LSS, token.GEQ, token.GTR, token.LEQ:
		return b.X, op, b.Y, true
	}
	return nil, 0, nil, false
}

func c14flip(op token.Token) token.Token {
	switch op {
	case token.LSS:
		return token.GTR
	case token.GTR:
		return token.LSS
	case token.LEQ:
		return token.GEQ
	case token.GEQ:
		return token.LEQ
	}
	return op
}

// c14lenBounds: the interval the facts put on len(X) for the X selected by isX.
func c14lenBounds(facts []Fact, isX func(ssa.Value) bool) (lo, hi int64) {
	lo, hi = 0, 1<<40
	isLen := func(v ssa.Value) bool {
		call, ok := v.(*ssa.Call)
		return ok && calleeName(&call.Call) == "builtin.len" && len(call.Call.Args) == 1 && isX(call.Call.Args[0])
	}
	for pass := 0; pass < 3; pass++ {
		for _, ft := range facts {
			x, op, y, ok := c14cmp(ft)
			if !ok {
				continue
			}
			if isLen(y) {
				x, y, op = y, x, c14flip(op)
			}
			k, isK := constInt(y)
			if !isLen(x) || !isK {
				continue
			}
			switch op {
			case token.EQL:
				if k > lo {
					lo = k
				}
				if k < hi {
					hi = k
				}
			case token.NEQ:
				if k == lo {
					lo++
				}
				if k == hi {
					hi--
				}
			case token.LSS:
				if k-1 < hi {
					hi = k - 1
				}
			case token.LEQ:
				if k < hi {
					hi = k
				}
			case token.GTR:
				if k+1 > lo {
					lo = k + 1
				}
			case token.GEQ:
				if k > lo {
					lo = k
				}
			}
		}
	}
	return lo, hi
}

// ---- T1 ------------------------------------------------------------------------------------------------------

var c14need = []struct{ label, text string }{
	{"parse", "no error from route.Parse applied to the candidate"},
	{"one", "exactly one definition"},
	{"add", "a route add command"},
	{"table", "no error from route.NewTable applied to the candidate (a path that is not a valid glob or a target that is not a valid URL passes the parser but fails every later table build)"},
}

// c14leafT1: what an environment says about a candidate command.
func c14leafT1(c *Ctx) c14leaf {
	parse, nt := c.fn("route", "Parse"), c.fn("route", "NewTable")
	return func(env c14env, tracked func(ssa.Value) bool) map[string]bool {
		labels := map[string]bool{}
		resultOf := func(v ssa.Value, fn *ssa.Function, idx int) bool {
			call, k, ok := c14callResult(v)
			if !ok || fn == nil || k != idx || call.Call.StaticCallee() != fn || len(call.Call.Args) == 0 {
				return false
			}
			return c14derives(call.Call.Args[0], tracked)
		}
		for _, n := range env.Nils {
			if !n.IsNil {
				continue
			}
			if resultOf(n.V, parse, 1) {
				labels["parse"] = true
			}
			if resultOf(n.V, nt, 1) {
				labels["table"] = true
			}
		}
		isDefs := func(v ssa.Value) bool { return resultOf(v, parse, 0) }
		if lo, hi := c14lenBounds(env.Facts, isDefs); lo == 1 && hi == 1 {
			labels["one"] = true
		}
		for _, ft := range env.Facts {
			x, op, y, ok := c14cmp(ft)
			if !ok || op != token.EQL {
				continue
			}
			if _, isK := constString(x); isK {
				x, y = y, x
			}
			if s, isK := constString(y); !isK || s != "route add" {
				continue
			}
			if _, isCmd := fieldOf(x, "route.RouteDef", "Cmd"); isCmd && c14derives(x, isDefs) {
				labels["add"] = true
			}
		}
		return labels
	}
}

// isSingleAddValidator: does verdict v on argument positions args of its call mean "fabio's own parser and table
// builder accept the candidate as exactly one route add"? Returns what is missing otherwise.
func isSingleAddValidator(c *Ctx, v c14verdict, args []int) (bool, string) {
	labels := c14implies(v, args, c14leafT1(c), 0)
	var missing []string
	for _, n := range c14need {
		if !labels[n.label] {
			missing = append(missing, "["+n.text+"]")
		}
	}
	if len(missing) == 0 {
		return true, ""
	}
	return false, "a positive verdict does not require " + strings.Join(missing, " ")
}

type c14t1 struct {
	c   *Ctx
	why string
}

// validated: the value e, used at the end of block blk (where additionally `extra` holds), has been accepted by a
// validator.
func (t *c14t1) validated(e ssa.Value, blk *ssa.BasicBlock, extra *c14env, depth int) bool {
	if depth > 6 {
		return false
	}
	env := c14envAt(blk, extra)
	// (A0) the validator's conditions hold right here (the validator was inlined)
	{
		labels := c14leafT1(t.c)(env, func(x ssa.Value) bool { return c14sameValue(x, e) })
		all := true
		for _, n := range c14need {
			if !labels[n.label] {
				all = false
			}
		}
		if all {
			return true
		}
	}
	// (A) a verdict on this very value
	for _, v := range env.verdicts() {
		var idx []int
		for k, a := range v.Call.Call.Args {
			if c14sameValue(a, e) {
				idx = append(idx, k)
			}
		}
		if len(idx) == 0 {
			continue
		}
		ok, why := isSingleAddValidator(t.c, v, idx)
		if ok {
			return true
		}
		name := "?"
		if cs := c14callees(&v.Call.Call); len(cs) > 0 {
			name = fnKey(cs[0])
		}
		t.why = "the validator " + name + " must be 'fabio's parser and table builder accept it as exactly one route add command': " + why
	}
	call, k, isRes := c14callResult(e)
	var h *ssa.Function
	if isRes {
		if cs := c14callees(&call.Call); len(cs) == 1 && isRepoFn(cs[0]) && len(cs[0].Blocks) > 0 {
			h = cs[0]
		}
	}
	if h != nil {
		// (B) the helper returns the command together with a verdict that is known here: `cmd, ok := h(..); if ok`
		for _, ft := range env.Facts {
			fc, j, ok := c14callResult(ft.Cond)
			if !ok || fc != call || j == k || !c14isBoolType(ft.Cond.Type()) {
				continue
			}
			if t.helperResult(h, k, j, ft.Truth, depth) {
				return true
			}
		}
		for _, n := range env.Nils {
			fc, j, ok := c14callResult(n.V)
			if !ok || fc != call || j == k || !n.IsNil || !c14isErrorType(n.V.Type()) {
				continue
			}
			if t.helperResultErr(h, k, j, depth) {
				return true
			}
		}
		// (C) the helper returns only validated commands (or constants)
		if t.helperResult(h, k, -1, true, depth) {
			return true
		}
	}
	// (D) a parameter of a helper that does the storing (a named helper, an emit callback, the body of a range-over-func
	// loop, a method of a small sink interface): validated at every call site - the sites must be ALL its call sites
	if p, ok := e.(*ssa.Parameter); ok {
		fn := p.Parent()
		sites, complete := c14allSites(fn)
		if fn != nil && complete && len(sites) > 0 && len(sites) <= maxHelperSites {
			idx := -1
			for i, q := range fn.Params {
				if q == p {
					idx = i
				}
			}
			all := idx >= 0
			for _, s := range sites {
				if !all {
					break
				}
				arg := c14argFor(s, fn, idx)
				if _, isGo := s.(*ssa.Go); isGo || arg == nil || !t.validated(arg, s.Block(), nil, depth+1) {
					all = false
				}
			}
			if all {
				return true
			}
		}
	}
	// (E) a merge: every non-constant alternative is validated where it is chosen
	if phi, ok := e.(*ssa.Phi); ok {
		n, all := 0, true
		for i, ed := range phi.Edges {
			if _, isK := ed.(*ssa.Const); isK {
				continue
			}
			n++
			if !t.validated(ed, phi.Block().Preds[i], c14edgeFact(phi.Block().Preds[i], phi.Block()), depth+1) {
				all = false
			}
		}
		if n > 0 && all {
			return true
		}
	}
	return false
}

// helperResult: in helper h, every return whose result j can have the value `truth` (j < 0: every return) hands out, as
// result k, a constant or a value that is validated at that return.
func (t *c14t1) helperResult(h *ssa.Function, k, j int, truth bool, depth int) bool {
	n, all := 0, true
	eachInstr(h, func(i ssa.Instruction) {
		r, ok := i.(*ssa.Return)
		if !ok || k >= len(r.Results) || !all {
			return
		}
		if j < 0 {
			if _, isK := r.Results[k].(*ssa.Const); isK {
				return
			}
			n++
			if !t.validated(r.Results[k], r.Block(), nil, depth+1) {
				all = false
			}
			return
		}
		if j >= len(r.Results) {
			all = false
			return
		}
		for _, pr := range c14pairs(r.Results[j], r.Results[k], r.Block(), 0) {
			if bv, isK := constBool(pr.verdict); isK && bv != truth {
				continue
			}
			if _, isK := pr.val.(*ssa.Const); isK {
				continue
			}
			n++
			var extra *c14env
			if _, isK := pr.verdict.(*ssa.Const); !isK {
				cond, tr := pr.verdict, truth
				for {
					u, isNot := cond.(*ssa.UnOp)
					if !isNot || u.Op != token.NOT {
						break
					}
					cond, tr = u.X, !tr
				}
				extra = &c14env{Facts: []Fact{{cond, tr}}}
			}
			if !t.validated(pr.val, pr.blk, c14join(pr.edge, extra), depth+1) {
				all = false
			}
		}
	})
	return n > 0 && all
}

// helperResultErr: like helperResult for `cmd, err := h(..); if err == nil`.
func (t *c14t1) helperResultErr(h *ssa.Function, k, j int, depth int) bool {
	n, all := 0, true
	eachInstr(h, func(i ssa.Instruction) {
		r, ok := i.(*ssa.Return)
		if !ok || k >= len(r.Results) || j >= len(r.Results) || !all {
			return
		}
		for _, pr := range c14pairs(r.Results[j], r.Results[k], r.Block(), 0) {
			var envs []c14env
			c14outcomesOn(pr.verdict, pr.blk, pr.edge, true, true, &envs, 0)
			if len(envs) == 0 {
				continue // this return reports an error
			}
			if _, isK := pr.val.(*ssa.Const); isK {
				continue
			}
			n++
			var extra *c14env
			if !isNilConst(pr.verdict) {
				extra = &c14env{Nils: []c14nil{{pr.verdict, true}}}
			}
			if !t.validated(pr.val, pr.blk, c14join(pr.edge, extra), depth+1) {
				all = false
			}
		}
	})
	return n > 0 && all
}

type c14pair struct {
	verdict, val ssa.Value
	blk          *ssa.BasicBlock
	edge         *c14env // what the edge on which this alternative was chosen adds to the facts at blk
}

// c14join: the union of two (possibly nil) sets of extra knowledge.
func c14join(a, b *c14env) *c14env {
	if a == nil {
		return b
	}
	if b == nil {
		return a
	}
	return &c14env{Facts: append(append([]Fact{}, a.Facts...), b.Facts...), Nils: append(append([]c14nil{}, a.Nils...), b.Nils...)}
}

// c14pairs splits a returned (verdict, value) pair along the merges that produced the verdict, so that each alternative
// is looked at in the block where it was chosen. The value is split only together with the verdict (a verdict computed
// on a merged value is a verdict on the merge, not on its alternatives).
func c14pairs(verdict, val ssa.Value, blk *ssa.BasicBlock, d int) []c14pair {
	return c14pairsOn(verdict, val, blk, nil, d)
}

func c14pairsOn(verdict, val ssa.Value, blk *ssa.BasicBlock, edge *c14env, d int) []c14pair {
	pv, ok1 := verdict.(*ssa.Phi)
	px, ok2 := val.(*ssa.Phi)
	if d < 6 && ok1 {
		var out []c14pair
		for i, e := range pv.Edges {
			x := val
			if ok2 && px.Block() == pv.Block() {
				x = px.Edges[i]
			}
			p := pv.Block().Preds[i]
			out = append(out, c14pairsOn(e, x, p, c14edgeFact(p, pv.Block()), d+1)...)
		}
		return out
	}
	return []c14pair{{verdict, val, blk, edge}}
}

// filteredLater: the candidate enters a list of CANDIDATES: every use of that list, followed forwards (appends, merges,
// local variables, returned to all callers, handed to repository helpers), is harmless (len, reslicing, reading an
// element) and every element read from it is stored into another list / sent on only where it is validated. Anything
// else - the list spread into another list, joined into text, kept in a field - fails.
func (t *c14t1) filteredLater(s c14sink) bool {
	st, ok := s.store.(*ssa.Store)
	if !ok {
		return false
	}
	ia, ok := st.Addr.(*ssa.IndexAddr)
	if !ok {
		return false
	}
	tmp, ok := ia.X.(*ssa.Alloc)
	if !ok || tmp.Referrers() == nil {
		return false // an assignment to an element of an existing list: not followed
	}
	seenL, seenE := map[ssa.Value]bool{}, map[ssa.Value]bool{}
	var list, elem func(v ssa.Value, d int) bool
	cellLoads := func(cell *ssa.Alloc, f func(ssa.Value, int) bool, d int) bool {
		if cell.Referrers() == nil {
			return false
		}
		for _, r := range *cell.Referrers() {
			switch y := r.(type) {
			case *ssa.DebugRef, *ssa.Store:
			case *ssa.UnOp:
				if y.Op != token.MUL || !f(y, d+1) {
					return false
				}
			default:
				return false // captured by a closure, address passed on
			}
		}
		return true
	}
	list = func(v ssa.Value, d int) bool {
		if seenL[v] {
			return true
		}
		seenL[v] = true
		if d > 10 {
			return false
		}
		if v.Referrers() == nil {
			return true
		}
		for _, r := range *v.Referrers() {
			switch x := r.(type) {
			case *ssa.DebugRef:
			case *ssa.IndexAddr:
				if x.X != v || x.Referrers() == nil {
					return false
				}
				for _, r2 := range *x.Referrers() {
					switch y := r2.(type) {
					case *ssa.DebugRef:
					case *ssa.Store:
						if y.Addr != ssa.Value(x) {
							return false
						}
					case *ssa.UnOp:
						if y.Op != token.MUL || !elem(y, d+1) {
							return false
						}
					default:
						return false
					}
				}
			case *ssa.Index:
				if !elem(x, d+1) {
					return false
				}
			case *ssa.Slice:
				if k, isK := constInt(x.High); x.High != nil && isK && k == 0 {
					continue // list[:0]: the storage, none of the elements
				}
				if !list(x, d+1) {
					return false
				}
			case *ssa.Phi:
				if !list(x, d+1) {
					return false
				}
			case *ssa.Store:
				cell, isCell := x.Addr.(*ssa.Alloc)
				if x.Val != v || !isCell || !cellLoads(cell, list, d) {
					return false
				}
			case *ssa.Return:
				fn := x.Parent()
				sites, complete := c14allSites(fn)
				if !complete || len(sites) > maxHelperSites {
					return false
				}
				for k, res := range x.Results {
					if res != v {
						continue
					}
					for _, cs := range sites {
						cv, isVal := cs.(ssa.Value)
						if !isVal {
							return false // go / defer: the result is dropped
						}
						if len(x.Results) == 1 {
							if !list(cv, d+1) {
								return false
							}
							continue
						}
						if cv.Referrers() != nil {
							for _, r2 := range *cv.Referrers() {
								if ex, isEx := r2.(*ssa.Extract); isEx && ex.Index == k && !list(ex, d+1) {
									return false
								}
							}
						}
					}
				}
			case *ssa.Call:
				n := calleeName(&x.Call)
				switch {
				case n == "builtin.len" || n == "builtin.cap":
				case n == "builtin.append":
					if len(x.Call.Args) == 2 && x.Call.Args[1] == v {
						return false // spread into another list: every element copied unjudged
					}
					if !list(x, d+1) {
						return false
					}
				default:
					moved := false
					for _, g := range c14callees(&x.Call) {
						if g == nil || !isRepoFn(g) || len(g.Blocks) == 0 {
							return false
						}
						for k, p := range g.Params {
							if c14argFor(x, g, k) == v {
								moved = true
								if !list(p, d+1) {
									return false
								}
							}
						}
					}
					if !moved {
						return false
					}
				}
			default:
				return false
			}
		}
		return true
	}
	elem = func(v ssa.Value, d int) bool {
		if seenE[v] {
			return true
		}
		seenE[v] = true
		if d > 12 {
			return false
		}
		if v.Referrers() == nil {
			return true
		}
		for _, r := range *v.Referrers() {
			switch x := r.(type) {
			case *ssa.DebugRef:
			case *ssa.Store:
				if x.Val != v {
					return false
				}
				if _, isElem := x.Addr.(*ssa.IndexAddr); isElem {
					if !t.validated(v, x.Block(), nil, 1) {
						return false
					}
					continue
				}
				cell, isCell := x.Addr.(*ssa.Alloc)
				if !isCell || !cellLoads(cell, elem, d) {
					return false
				}
			case *ssa.Send:
				if x.X != v || !t.validated(v, x.Block(), nil, 1) {
					return false
				}
			case *ssa.Phi:
				if !elem(x, d+1) {
					return false
				}
			case *ssa.MakeInterface:
				// boxed for a log line: the box goes into the operand list of a library call
				if x.Referrers() != nil {
					for _, r2 := range *x.Referrers() {
						switch y := r2.(type) {
						case *ssa.DebugRef:
						case *ssa.Store:
							ea, isElem := y.Addr.(*ssa.IndexAddr)
							if !isElem {
								return false
							}
							if _, isTmp := ea.X.(*ssa.Alloc); !isTmp {
								return false
							}
						default:
							return false
						}
					}
				}
			case *ssa.BinOp:
				switch x.Op {
				case token.EQL, token.NEQ, token.LSS, token.LEQ, token.GTR, token.GEQ:
				default:
					return false // new text made of the candidate
				}
			case *ssa.Call:
				n := calleeName(&x.Call)
				if n == "builtin.len" {
					continue
				}
				if sc := x.Call.StaticCallee(); sc != nil && !isRepoFn(sc) {
					// a library call: only those that cannot carry the text into the configuration
					if strings.HasPrefix(n, "log.") || strings.HasPrefix(n, "bytes.NewBuffer") || strings.HasPrefix(n, "strings.NewReader") ||
						n == "strings.HasPrefix" || n == "strings.HasSuffix" || n == "strings.Contains" || n == "strings.EqualFold" {
						continue
					}
					return false
				}
				// a repository function: a judge (bool / error result) may look at it; anything else is followed as an element
				for _, g := range c14callees(&x.Call) {
					if g == nil || !isRepoFn(g) || len(g.Blocks) == 0 {
						return false
					}
					res := g.Signature.Results()
					judge := res.Len() > 0
					for k := 0; k < res.Len(); k++ {
						if tt := res.At(k).Type(); !c14isBoolType(tt) && !c14isErrorType(tt) {
							judge = false
						}
					}
					if judge {
						continue
					}
					for k, p := range g.Params {
						if c14argFor(x, g, k) == v && !elem(p, d+1) {
							return false
						}
					}
				}
			default:
				return false
			}
		}
		return true
	}
	// the list the candidate enters: the result of the append that spreads the temporary, or the literal itself
	started := false
	for _, r := range *tmp.Referrers() {
		sl, isSlice := r.(*ssa.Slice)
		if !isSlice || sl.Referrers() == nil {
			continue
		}
		for _, r2 := range *sl.Referrers() {
			if call, isCall := r2.(*ssa.Call); isCall && calleeName(&call.Call) == "builtin.append" && len(call.Call.Args) == 2 && call.Call.Args[1] == ssa.Value(sl) {
				started = true
				if !list(call, 0) {
					return false
				}
				continue
			}
			if _, isDbg := r2.(*ssa.DebugRef); isDbg {
				continue
			}
			// a literal []string{cfg}: the slice is the list
			started = true
			if !list(sl, 0) {
				return false
			}
			break
		}
	}
	return started
}

func runC14T1(st *c14state) {
	c := st.c
	for _, s := range st.sinks {
		t := &c14t1{c: c}
		ok := t.validated(s.val, s.store.Block(), nil, 0)
		if !ok && t.filteredLater(s) {
			// generate first, filter afterwards: the list the candidate enters is only ever read by code that copies an
			// element onward where a verdict on that element holds
			ok = true
		}
		why := t.why
		if why == "" {
			why = "no verdict of a validator on this very string holds where it is stored"
		}
		c.check("C14.T1", fnKey(s.fn)+"|service-derived command validated before use", s.store.Pos(), ok,
			"a command assembled from catalog data (service name, tags, option strings) enters the configuration without being accepted by fabio's own parser and table builder first: one registration such as 'urlprefix-/x weight=abc', a tag containing a double quote, or a tag with a newline (second command!) makes every later table build fail - or injects a command; "+why)
	}
}

// ---- Q1 ------------------------------------------------------------------------------------------------------

// runQuotingFor is kept for callers that name a producer; the producer is found by role now.
func runQuotingFor(c *Ctx, rule string, _ *ssa.Function) {
	c14ctx = c
	st := c14stateOf(c)
	c.atLeast(rule, "producers of route command text from catalog entries", len(st.sinks), 1)
	c14Quoting(st, rule)
}

func c14Quoting(st *c14state, rule string) {
	c := st.c
	parse := c.fn("route", "Parse")
	if !c.need(rule, parse, "route.Parse") {
		return
	}
	consumerUnquotes := false
	eachInstrOf(c14reach(c, 8, parse), func(_ *ssa.Function, i ssa.Instruction) {
		if cc := callCommon(i); cc != nil {
			if n := calleeName(cc); strings.HasPrefix(n, "strconv.Unquote") || strings.HasPrefix(n, "strconv.QuotedPrefix") {
				consumerUnquotes = true
			}
		}
	})
	for _, s := range st.sinks {
		quotes := false
		pos := s.store.Pos()
		c14slice(s.val, func(x ssa.Value) {
			call, ok := x.(*ssa.Call)
			if !ok {
				return
			}
			name := calleeName(&call.Call)
			if strings.HasPrefix(name, "strconv.Quote") || strings.HasPrefix(name, "strconv.AppendQuote") {
				quotes, pos = true, call.Pos()
			}
			if strings.HasPrefix(name, "fmt.Sprint") || strings.HasPrefix(name, "fmt.Fprint") || strings.HasPrefix(name, "fmt.Append") {
				for _, a := range call.Call.Args {
					if f, ok := constString(a); ok && c14hasQuoteVerb(f) {
						quotes, pos = true, call.Pos()
					}
				}
			}
		})
		c.check(rule, fnKey(s.fn)+"|quoted fields written the way the parser reads them", pos, quotes == consumerUnquotes,
			"the route parser takes the text between the double quotes verbatim (it never unquotes), so a producer that escapes with %q / strconv.Quote writes text that parses into different tags/options (backslashes, non-printable characters) or, for a value containing a quote, into an invalid line")
	}
}

// c14hasQuoteVerb: the format contains a %q verb (flags and width allowed).
func c14hasQuoteVerb(f string) bool {
	for i := 0; i < len(f); i++ {
		if f[i] != '%' {
			continue
		}
		j := i + 1
		for j < len(f) && strings.ContainsRune("+-# 0123456789.[]*", rune(f[j])) {
			j++
		}
		if j < len(f) && f[j] == 'q' {
			return true
		}
		if j < len(f) && f[j] == '%' {
			i = j
		}
	}
	return false
}
