package main

import (
	"go/token"
	"strings"

	"golang.org/x/tools/go/ssa"
)

func init() {
	register(&propDef{
		ID:      "C14",
		Level:   "other",
		Explain: "Generator/parser agreement for commands derived from service registrations, decided by taint and structure: (T1) in consul routecmd.build every string appended to the command list that depends on data of the catalog entry (service name, tags, addresses) is appended only on the true edge of a validator call on that very string, and the validator is 'route.Parse succeeded, produced exactly one definition, and it is a route add' — so a registration that cannot be expressed (weight=abc, a tag containing a quote, a newline injecting a second command) is dropped on its own instead of poisoning the text every later table build parses; (Q1) the generator writes quoted fields the way the parser reads them (no %q/strconv.Quote while the parser takes the text verbatim); (I1) one service's failure affects only that service: serviceConfig returns only its own slice on every path, each per-service goroutine sends exactly one result, and the collector receives exactly len(m) results; (P4) a non-finite weight cannot leave the route parser (weight=Inf used to crash the process); (N1) the destination is built from ServiceAddress (node Address when empty) and ServicePort with net.JoinHostPort, and the scheme prefix comes from the proto= option table. (E1) the option text returned by parseURLPrefixTag does not pass through os.Expand; Not decided: that the parsed command denotes the registration for every value (string/URL equality after a parse).",
		Run:     runC14,
		Trusted: []string{"route.Parse is the parser NewTable uses (same function)", "hashicorp/consul/api field contents are arbitrary strings"},
		Mutants: []mutant{
			{Name: "options expanded with the environment", File: "registry/consul/routecmd.go", Old: "\ts = strings.TrimSpace(s[len(prefix):])\n", New: "\ts = strings.TrimSpace(expand(s[len(prefix):]))\n", Expect: "C14.E1"},

			{Name: "validator bypassed", File: "registry/consul/routecmd.go", Old: "\t\t\tif !validRouteAdd(cfg) {", New: "\t\t\tif false && !validRouteAdd(cfg) {", Expect: "C14.T1"},
			{Name: "validator accepts several commands", File: "registry/consul/routecmd.go", Old: "if err != nil || len(defs) != 1 || defs[0].Cmd != route.RouteAddCmd {", New: "if err != nil || len(defs) < 1 || defs[0].Cmd != route.RouteAddCmd {", Expect: "C14.T1"},
			{Name: "validator ignores the parse error", File: "registry/consul/routecmd.go", Old: "if err != nil || len(defs) != 1 || defs[0].Cmd != route.RouteAddCmd {", New: "if len(defs) != 1 || defs[0].Cmd != route.RouteAddCmd {", Expect: "C14.T1"},
			{Name: "validated string differs from the appended one", File: "registry/consul/routecmd.go", Old: "\t\t\tconfig = append(config, cfg)\n", New: "\t\t\tconfig = append(config, cfg+\" # \"+name)\n", Expect: "C14.T1"},
			{Name: "strconv.Quote again", File: "registry/consul/routecmd.go", Old: "cfg += \" opts \\\"\" + strings.Join(ropts, \" \") + \"\\\"\"", New: "cfg += \" opts \" + strconv.Quote(strings.Join(ropts, \" \"))", Expect: "C14.Q1"},
			{Name: "one failing catalog call empties everything", File: "registry/consul/service.go", Old: "\tvar config []string\n\tfor i := 0; i < len(m); i++ {\n\t\tcfg := <-cfgs\n\t\tconfig = append(config, cfg...)\n\t}", New: "\tvar config []string\n\tfor i := 0; i < len(m); i++ {\n\t\tcfg := <-cfgs\n\t\tif cfg == nil {\n\t\t\treturn \"\"\n\t\t}\n\t\tconfig = append(config, cfg...)\n\t}", Expect: "C14.I1"},
			{Name: "goroutine sends nothing on failure", File: "registry/consul/service.go", Old: "\t\t\tcfgs <- w.serviceConfig(name, passing)\n", New: "\t\t\tif c := w.serviceConfig(name, passing); c != nil {\n\t\t\t\tcfgs <- c\n\t\t\t}\n", Expect: "C14.I1"},
			{Name: "destination from the node address only", File: "registry/consul/routecmd.go", Old: "name, addr, port := r.svc.ServiceName, r.svc.ServiceAddress, r.svc.ServicePort", New: "name, addr, port := r.svc.ServiceName, r.svc.Address, r.svc.ServicePort", Expect: "C14.N1"},
			{Name: "destination hoisted out of the per-tag loop", File: "registry/consul/routecmd.go", Old: "\tfor _, tag := range routetags {\n\t\tif route, opts, ok := parseURLPrefixTag(tag, r.prefix, r.env); ok {\n\t\t\tname, addr, port := r.svc.ServiceName, r.svc.ServiceAddress, r.svc.ServicePort\n\n\t\t\t// use consul node address if service address is not set\n\t\t\tif addr == \"\" {\n\t\t\t\taddr = r.svc.Address\n\t\t\t}\n\n\t\t\t// add .local suffix on OSX for simple host names w/o domain\n\t\t\tif runtime.GOOS == \"darwin\" && !strings.Contains(addr, \".\") && !strings.HasSuffix(addr, \".local\") {\n\t\t\t\taddr += \".local\"\n\t\t\t}\n\n\t\t\taddr = net.JoinHostPort(addr, strconv.Itoa(port))\n\t\t\t//tags := strings.Join(r.tags, \",\")\n\t\t\tdst := \"http://\" + addr + \"/\"\n", New: "\tname, addr, port := r.svc.ServiceName, r.svc.ServiceAddress, r.svc.ServicePort\n\tif addr == \"\" {\n\t\taddr = r.svc.Address\n\t}\n\tif runtime.GOOS == \"darwin\" && !strings.Contains(addr, \".\") && !strings.HasSuffix(addr, \".local\") {\n\t\taddr += \".local\"\n\t}\n\taddr = net.JoinHostPort(addr, strconv.Itoa(port))\n\tdst := \"http://\" + addr + \"/\"\n\tfor _, tag := range routetags {\n\t\tif route, opts, ok := parseURLPrefixTag(tag, r.prefix, r.env); ok {\n", Expect: "C14.N1"},
			{Name: "validator without the table builder", File: "registry/consul/routecmd.go", Old: "\t_, err = route.NewTable(bytes.NewBufferString(cmd))\n\treturn err == nil", New: "\treturn true", Expect: "C14.T1"},
			{Name: "non-finite weights accepted by the parser", File: "route/parse_new.go", Old: "if err != nil || math.IsNaN(f) || math.IsInf(f, 0) {", New: "if err != nil || (f < 0 && (math.IsNaN(f) || math.IsInf(f, 0))) {", Expect: "C14.P4"},
			{Name: "benign: validator result in a local", File: "registry/consul/routecmd.go", Old: "\t\t\tif !validRouteAdd(cfg) {", New: "\t\t\tvalid := validRouteAdd(cfg)\n\t\t\tif !valid {", Expect: ""},
		},
	})
}

func runC14(c *Ctx) {
	build := c.method("registry/consul", "routecmd", "build")
	if !c.need("C14.T1", build, "consul.routecmd.build") {
		return
	}
	runC14T1(c, build)
	runQuotingFor(c, "C14.Q1", build)
	runC14I1(c)
	runC14E1(c)
	tmp := &Ctx{Dir: c.Dir, Pkgs: c.Pkgs, Fset: c.Fset, Prog: c.Prog, spkgs: c.spkgs, ppkgs: c.ppkgs, AllFns: c.AllFns, cg: c.cg}
	runFiniteWeight(tmp, "C14.P4")
	c.Obs = append(c.Obs, tmp.Obs...)
	runC14N1(c, build)
}

func taintedByCatalog(v ssa.Value) bool {
	return derivesThroughRepo(v, func(x ssa.Value) bool {
		u, ok := x.(*ssa.UnOp)
		if !ok || u.Op != token.MUL {
			return false
		}
		fa, ok := u.X.(*ssa.FieldAddr)
		return ok && namedIs(fa.X.Type(), "api.CatalogService")
	})
}

// isSingleAddValidator checks that f(cmd string) bool is: route.Parse(buffer of cmd) && err == nil && len(defs) == 1 && defs[0].Cmd == RouteAddCmd.
func isSingleAddValidator(c *Ctx, f *ssa.Function) (bool, string) {
	if f == nil || len(f.Blocks) == 0 || len(f.Params) != 1 || f.Signature.Results().Len() != 1 {
		return false, "not a func(string) bool"
	}
	parse := c.fn("route", "Parse")
	var pc *ssa.Call
	eachInstr(f, func(i ssa.Instruction) {
		if call, ok := i.(*ssa.Call); ok && call.Call.StaticCallee() == parse {
			pc = call
		}
	})
	if pc == nil {
		return false, "does not call route.Parse"
	}
	if !derives(pc.Call.Args[0], func(v ssa.Value) bool { return v == f.Params[0] }) {
		return false, "route.Parse is not applied to the candidate command"
	}
	isErr := func(v ssa.Value) bool { e, ok := v.(*ssa.Extract); return ok && e.Tuple == pc && e.Index == 1 }
	isDefs := func(v ssa.Value) bool { e, ok := v.(*ssa.Extract); return ok && e.Tuple == pc && e.Index == 0 }
	// every way of returning true requires: err == nil, len(defs) == 1, Cmd == RouteAddCmd
	okAll, n := true, 0
	why := ""
	checkEdge := func(val ssa.Value, blk *ssa.BasicBlock) {
		if bv, isK := constBool(val); isK && !bv {
			return
		}
		n++
		fs := factsAt(blk)
		// the value itself may be the last conjunct
		if b, ok := val.(*ssa.BinOp); ok {
			fs = append(fs, Fact{b, true})
		}
		errNil, one, add := false, false, false
		for _, ft := range fs {
			if nn, ok := nilFact(ft, isErr); ok && !nn {
				errNil = true
			}
			if b, ok := ft.Cond.(*ssa.BinOp); ok && ((b.Op == token.EQL && ft.Truth) || (b.Op == token.NEQ && !ft.Truth)) {
				if lc, ok := b.X.(*ssa.Call); ok && calleeName(&lc.Call) == "builtin.len" && isDefs(lc.Call.Args[0]) {
					if k, ok := constInt(b.Y); ok && k == 1 {
						one = true
					}
				}
				if s, ok := constString(b.Y); ok && s == "route add" {
					if _, isCmd := fieldOf(b.X, "route.RouteDef", "Cmd"); isCmd {
						add = true
					}
				}
			}
		}
		if !errNil || !one || !add {
			okAll = false
			why = "a true verdict does not require"
			if !errNil {
				why += " [no parse error]"
			}
			if !one {
				why += " [exactly one definition]"
			}
			if !add {
				why += " [a route add command]"
			}
		}
	}
	eachInstr(f, func(i ssa.Instruction) {
		r, ok := i.(*ssa.Return)
		if !ok {
			return
		}
		if phi, isPhi := r.Results[0].(*ssa.Phi); isPhi {
			for k, e := range phi.Edges {
				checkEdge(e, phi.Block().Preds[k])
			}
			return
		}
		checkEdge(r.Results[0], r.Block())
	})
	if !(okAll && n > 0) {
		return false, why
	}
	// the table builder must accept it too (addRoute rejects invalid glob paths and target URLs):
	// every true verdict is under `NewTable(cmd) err == nil`
	nt := c.fn("route", "NewTable")
	var ntc *ssa.Call
	eachInstr(f, func(i ssa.Instruction) {
		if call, ok := i.(*ssa.Call); ok && call.Call.StaticCallee() == nt {
			ntc = call
		}
	})
	if ntc == nil || !derives(ntc.Call.Args[0], func(v ssa.Value) bool { return v == f.Params[0] }) {
		return false, "the command is not applied to an empty table (route.NewTable): a path that is not a valid glob or a target that is not a valid URL passes the parser but fails every later table build"
	}
	isNTErr := func(v ssa.Value) bool { e, ok := v.(*ssa.Extract); return ok && e.Tuple == ntc && e.Index == 1 }
	okNT := true
	eachInstr(f, func(i ssa.Instruction) {
		r, ok := i.(*ssa.Return)
		if !ok {
			return
		}
		check := func(val ssa.Value, blk *ssa.BasicBlock) {
			if bv, isK := constBool(val); isK && !bv {
				return
			}
			fs := factsAt(blk)
			if b, ok := val.(*ssa.BinOp); ok {
				fs = append(fs, Fact{b, true})
			}
			good := false
			for _, ft := range fs {
				if nn, ok := nilFact(ft, isNTErr); ok && !nn {
					good = true
				}
			}
			if !good {
				okNT = false
			}
		}
		if phi, isPhi := r.Results[0].(*ssa.Phi); isPhi {
			for k, e := range phi.Edges {
				check(e, phi.Block().Preds[k])
			}
			return
		}
		check(r.Results[0], r.Block())
	})
	if !okNT {
		return false, "a true verdict does not require route.NewTable to accept the command"
	}
	return true, ""
}

func runC14T1(c *Ctx, build *ssa.Function) {
	n := 0
	eachInstr(build, func(i ssa.Instruction) {
		call, ok := i.(*ssa.Call)
		if !ok || calleeName(&call.Call) != "builtin.append" || typeStr(call.Type()) != "[]string" {
			return
		}
		// the appended element(s)
		var elems []ssa.Value
		if sl, ok := call.Call.Args[1].(*ssa.Slice); ok {
			if arr, ok := sl.X.(*ssa.Alloc); ok {
				for _, r := range *arr.Referrers() {
					if ia, ok := r.(*ssa.IndexAddr); ok {
						for _, r2 := range *ia.Referrers() {
							if st, ok := r2.(*ssa.Store); ok {
								elems = append(elems, st.Val)
							}
						}
					}
				}
			}
		}
		// only the command list: elements that contain the literal "route add"
		isCmd := false
		for _, e := range elems {
			if derives(e, func(v ssa.Value) bool { s, ok := constString(v); return ok && strings.Contains(s, "route add") }) {
				isCmd = true
			}
		}
		if !isCmd {
			return
		}
		for _, e := range elems {
			if !taintedByCatalog(e) {
				continue
			}
			n++
			// validated on the true edge, on the very same value
			var vcall *ssa.Call
			for _, ft := range factsAt(call.Block()) {
				if vc, ok := ft.Cond.(*ssa.Call); ok && ft.Truth && vc.Call.StaticCallee() != nil && isRepoFn(vc.Call.StaticCallee()) && len(vc.Call.Args) == 1 && vc.Call.Args[0] == e {
					vcall = vc
				}
			}
			if vcall == nil {
				c.check("C14.T1", "(registry/consul.routecmd).build|service-derived command validated before use", call.Pos(), false,
					"a command assembled from catalog data (service name, tags, option strings) is appended to the configuration without being accepted by fabio's own parser first: one registration such as 'urlprefix-/x weight=abc', a tag containing a double quote, or a tag with a newline (second command!) makes every later table build fail — or injects a command")
				continue
			}
			ok, why := isSingleAddValidator(c, vcall.Call.StaticCallee())
			c.check("C14.T1", "(registry/consul.routecmd).build|service-derived command validated before use", call.Pos(), ok,
				"the validator "+fnKey(vcall.Call.StaticCallee())+" must be 'route.Parse accepts it as exactly one route add command': "+why)
		}
	})
	c.atLeast("C14.T1", "service-derived commands appended in routecmd.build", n, 1)
}

func runQuotingFor(c *Ctx, rule string, p *ssa.Function) {
	tmp := &Ctx{Dir: c.Dir, Pkgs: c.Pkgs, Fset: c.Fset, Prog: c.Prog, spkgs: c.spkgs, ppkgs: c.ppkgs, AllFns: c.AllFns, cg: c.cg}
	runQuoting(tmp, rule)
	for _, o := range tmp.Obs {
		if strings.Contains(o.Construct, "routecmd") || strings.HasPrefix(o.Construct, "anchor|") {
			c.Obs = append(c.Obs, o)
		}
	}
}

func runC14I1(c *Ctx) {
	mk := c.method("registry/consul", "ServiceMonitor", "makeConfig")
	sc := c.method("registry/consul", "ServiceMonitor", "serviceConfig")
	if !c.need("C14.I1", mk, "consul.ServiceMonitor.makeConfig") || !c.need("C14.I1", sc, "consul.ServiceMonitor.serviceConfig") {
		return
	}
	// per-service goroutine: exactly one unconditional send of serviceConfig's result
	var g *ssa.Function
	eachInstr(mk, func(i ssa.Instruction) {
		if gi, ok := i.(*ssa.Go); ok {
			if mc, ok := gi.Call.Value.(*ssa.MakeClosure); ok {
				g = mc.Fn.(*ssa.Function)
			}
		}
	})
	if g == nil {
		c.undecided("C14.I1", "consul.makeConfig|per-service goroutine", "not found")
		return
	}
	var sends []*ssa.Send
	eachInstr(g, func(i ssa.Instruction) {
		if s, ok := i.(*ssa.Send); ok && typeStr(s.X.Type()) == "[]string" {
			sends = append(sends, s)
		}
	})
	okSend := len(sends) == 1
	if okSend {
		s := sends[0]
		// on every path to return, exactly once: the send's block dominates all returns and is not in a loop
		eachInstr(g, func(i ssa.Instruction) {
			if r, ok := i.(*ssa.Return); ok && !dominatesInstr(s, r) {
				okSend = false
			}
		})
		if pathAvoiding(s, s, nil) {
			okSend = false
		}
		if call, ok := s.X.(*ssa.Call); !ok || call.Call.StaticCallee() != sc {
			okSend = false
		}
	}
	c.check("C14.I1", "consul.makeConfig$goroutine|exactly one result per service on every path", g.Pos(), okSend,
		"each per-service goroutine must send its (possibly empty) result exactly once on every path; a goroutine that sends nothing on failure makes the collector wait forever (all route updates stop), one that sends twice shifts results")
	// collector: receives len(m) results, no early exit from the loop
	okLoop := false
	for _, l := range loopsOf(mk) {
		recv := false
		for b := range l.Body {
			for _, in := range b.Instrs {
				if u, ok := in.(*ssa.UnOp); ok && u.Op == token.ARROW && typeStr(u.Type()) == "[]string" {
					recv = true
				}
			}
		}
		if !recv {
			continue
		}
		early := false
		for b := range l.Body {
			if b == l.Head {
				continue
			}
			for _, sx := range b.Succs {
				if !l.Body[sx] {
					early = true
				}
			}
		}
		// bound: i < len(m) with m the map ranged over when spawning
		bound := false
		if iff, ok := l.Head.Instrs[len(l.Head.Instrs)-1].(*ssa.If); ok {
			if b, ok := iff.Cond.(*ssa.BinOp); ok && b.Op == token.LSS {
				if lc, ok := b.Y.(*ssa.Call); ok && calleeName(&lc.Call) == "builtin.len" {
					if _, isMap := lc.Call.Args[0].(*ssa.MakeMap); isMap {
						bound = true
					}
				}
			}
		}
		okLoop = !early && bound
	}
	c.check("C14.I1", "(*registry/consul.ServiceMonitor).makeConfig|collector takes exactly one result per service", mk.Pos(), okLoop,
		"the collector must receive len(m) results and keep going whatever a single service returned: aborting on one empty/failed result drops the routes of all other services (and leaks the remaining goroutines)")
	// serviceConfig: error paths return nil / its own slice only
	okRet := true
	eachInstr(sc, func(i ssa.Instruction) {
		r, ok := i.(*ssa.Return)
		if !ok {
			return
		}
		if !isNilConst(r.Results[0]) {
			// must be the local accumulator
			if _, isPhi := r.Results[0].(*ssa.Phi); !isPhi {
				if _, isCall := r.Results[0].(*ssa.Call); !isCall {
					okRet = false
				}
			}
		}
	})
	// the catalog error edge returns (does not panic / exit)
	var catErrOK bool
	eachInstr(sc, func(i ssa.Instruction) {
		call, ok := i.(*ssa.Call)
		if !ok || calleeName(&call.Call) != "(*"+apiPkg+".Catalog).Service" {
			return
		}
		for _, b := range sc.Blocks {
			if len(b.Preds) == 1 && knownNonNil(b, func(v ssa.Value) bool { e, ok := v.(*ssa.Extract); return ok && e.Tuple == call && e.Index == 2 }) {
				if _, isRet := b.Instrs[len(b.Instrs)-1].(*ssa.Return); isRet {
					catErrOK = true
				}
			}
		}
	})
	c.check("C14.I1", "(*registry/consul.ServiceMonitor).serviceConfig|a failing catalog query drops only this service", sc.Pos(), okRet && catErrOK,
		"when the catalog query for one service fails, serviceConfig must return (nil) for that service only")
}

func runC14N1(c *Ctx, build *ssa.Function) {
	// dst = scheme + net.JoinHostPort(addr, Itoa(ServicePort)), addr from ServiceAddress with node Address as fallback
	var join *ssa.Call
	eachInstr(build, func(i ssa.Instruction) {
		if call, ok := i.(*ssa.Call); ok && calleeName(&call.Call) == "net.JoinHostPort" {
			join = call
		}
	})
	if join == nil {
		c.check("C14.N1", "(registry/consul.routecmd).build|destination host:port", build.Pos(), false, "the destination must be built with net.JoinHostPort (IPv6 literals need brackets)")
		return
	}
	hasField := func(v ssa.Value, field string) bool {
		return derivesThroughRepo(v, func(x ssa.Value) bool { _, ok := fieldOf(x, "api.CatalogService", field); return ok })
	}
	addr := join.Call.Args[0]
	okAddr := hasField(addr, "ServiceAddress") && hasField(addr, "Address")
	// the node address is only the fallback: its edge is taken under ServiceAddress == ""
	if okAddr {
		fb := false
		for _, d := range defsOf(addr) {
			if _, isNode := fieldOf(d.Val, "api.CatalogService", "Address"); isNode && d.Block != nil {
				for _, ft := range factsAt(d.Block) {
					if b, ok := ft.Cond.(*ssa.BinOp); ok && b.Op == token.EQL && ft.Truth {
						if s, ok := constString(b.Y); ok && s == "" {
							fb = true
						}
					}
				}
			}
		}
		// darwin suffix handling wraps the phi: accept when some nested definition shows the fallback
		if !fb {
			derives(addr, func(x ssa.Value) bool {
				for _, d := range defsOf(x) {
					if _, isNode := fieldOf(d.Val, "api.CatalogService", "Address"); isNode && d.Block != nil {
						for _, ft := range factsAt(d.Block) {
							if b, ok := ft.Cond.(*ssa.BinOp); ok && b.Op == token.EQL && ft.Truth {
								if s, ok := constString(b.Y); ok && s == "" {
									fb = true
								}
							}
						}
					}
				}
				return false
			})
		}
		okAddr = fb
	}
	okPort := hasField(join.Call.Args[1], "ServicePort")
	// the destination is computed afresh for every routing tag: the value pasted into the command must not be
	// carried over from the previous tag (an earlier tag's proto=/redirect= destination would leak into later ones)
	var outer *loop
	for _, l := range loopsOf(build) {
		if l.Body[join.Block()] && (outer == nil || len(l.Body) > len(outer.Body)) {
			outer = l
		}
	}
	carried := outer == nil
	if outer != nil {
		eachInstr(build, func(i ssa.Instruction) {
			b, ok := i.(*ssa.BinOp)
			if !ok || b.Op != token.ADD {
				return
			}
			// "route add " + name + " " + route + " " + dst : find concatenations whose left part contains the literal
			if !derives(b.X, func(v ssa.Value) bool { s, ok := constString(v); return ok && strings.HasPrefix(s, "route add") }) {
				return
			}
			if derives(b.Y, func(v ssa.Value) bool {
				phi, ok := v.(*ssa.Phi)
				return ok && phi.Block() == outer.Head && phi.Comment != "rangeindex" // the iteration's own index is not carried state
			}) {
				carried = true
			}
		})
	}
	c.check("C14.N1", "(registry/consul.routecmd).build|destination computed per routing tag", join.Pos(), !carried,
		"the destination of a route command must be built inside the iteration for its own routing tag; a destination initialised once before the loop is overwritten by an earlier tag's proto=/redirect= option and leaks into the commands of later tags (valid syntax, wrong target)")
	c.check("C14.N1", "(registry/consul.routecmd).build|destination is the service address (node address as fallback) and the service port", join.Pos(), okAddr && okPort,
		"the route must point at the registered instance: ServiceAddress, falling back to the node's Address only when it is empty, joined with ServicePort")
	// proto table
	want := map[string]string{"proto=tcp": "tcp://", "proto=https": "https://", "proto=grpc": "grpc://", "proto=grpcs": "grpcs://"}
	seen := map[string]bool{}
	eachInstr(build, func(i ssa.Instruction) {
		b, ok := i.(*ssa.BinOp)
		if !ok || b.Op != token.ADD {
			return
		}
		s, isS := constString(b.X)
		if !isS || !strings.HasSuffix(s, "://") {
			return
		}
		for opt, scheme := range want {
			if scheme != s {
				continue
			}
			for _, ft := range factsAt(b.Block()) {
				if cmp, ok := ft.Cond.(*ssa.BinOp); ok && cmp.Op == token.EQL && ft.Truth {
					if o, ok := constString(cmp.Y); ok && o == opt {
						seen[opt] = true
					}
				}
			}
		}
	})
	okProto := true
	for opt := range want {
		if !seen[opt] {
			okProto = false
		}
	}
	c.check("C14.N1", "(registry/consul.routecmd).build|scheme prefix follows the proto= option", build.Pos(), okProto,
		"each proto= option (tcp, https, grpc, grpcs) must select its own scheme prefix for the destination; http:// is the default")
}
