package main

// C11.M1, strictness kept as an enumerated mode instead of a bool (`mode := modeOf(strict)`, `if mode == strictOnly`): the
// sense of a comparison with a constant is read off the places where the compared value gets its constants.

import (
	"go/token"
	"go/types"

	"golang.org/x/tools/go/ssa"
)

// c11kleaf: one constant a value can be, and the points control passed where it was chosen.
type c11kleaf struct {
	k     *ssa.Const
	chain []c11at
}

// c11constOrigins enumerates the constants v can be (through merges, local cells, results of repository helpers, helper
// parameters, captured variables, fields). false when some origin is not a constant.
func c11constOrigins(v ssa.Value, chain []c11at, depth int, seen map[ssa.Value]bool, out *[]c11kleaf) bool {
	if v == nil || depth > 8 {
		return false
	}
	if seen[v] {
		return true
	}
	seen[v] = true
	defer delete(seen, v)
	with := func(b ...c11at) []c11at { return append(append([]c11at{}, chain...), b...) }
	results := func(call *ssa.Call, idx int) bool {
		sc := c11callee(&call.Call)
		if sc == nil || len(sc.Blocks) == 0 {
			return false
		}
		ok := true
		eachInstr(sc, func(i ssa.Instruction) {
			if r, isRet := i.(*ssa.Return); isRet && idx < len(r.Results) {
				if !c11constOrigins(r.Results[idx], with(c11at{b: call.Block()}, c11at{b: r.Block()}), depth+1, seen, out) {
					ok = false
				}
			}
		})
		return ok
	}
	switch x := v.(type) {
	case *ssa.Const:
		*out = append(*out, c11kleaf{x, chain})
		return true
	case *ssa.Phi:
		for k, e := range x.Edges {
			if !c11constOrigins(e, with(c11at{b: x.Block().Preds[k], to: x.Block()}), depth+1, seen, out) {
				return false
			}
		}
		return true
	case *ssa.Convert:
		return c11constOrigins(x.X, chain, depth+1, seen, out)
	case *ssa.ChangeType:
		return c11constOrigins(x.X, chain, depth+1, seen, out)
	case *ssa.Extract:
		if call, ok := x.Tuple.(*ssa.Call); ok {
			return results(call, x.Index)
		}
	case *ssa.Call:
		return results(x, 0)
	case *ssa.UnOp:
		if x.Op != token.MUL {
			return false
		}
		if _, isAlloc := x.X.(*ssa.Alloc); isAlloc {
			ds := defsOf(x)
			for _, d := range ds {
				if !c11constOrigins(d.Val, with(c11at{b: d.Block}), depth+1, seen, out) {
					return false
				}
			}
			return len(ds) > 0
		}
		if fv, isFV := x.X.(*ssa.FreeVar); isFV {
			return c11constOrigins(fv, chain, depth+1, seen, out)
		}
		if sts, isLoad := c11storesInto(x); isLoad {
			for _, st := range sts {
				if !c11constOrigins(st.Val, with(c11at{b: st.Block()}), depth+1, seen, out) {
					return false
				}
			}
			return len(sts) > 0
		}
	case *ssa.Field:
		if sts, isLoad := c11storesInto(x); isLoad {
			for _, st := range sts {
				if !c11constOrigins(st.Val, with(c11at{b: st.Block()}), depth+1, seen, out) {
					return false
				}
			}
			return len(sts) > 0
		}
	case *ssa.Parameter:
		fn := x.Parent()
		if fn == nil || len(gSites[fn]) == 0 || !onlyStaticallyCalled(fn) {
			return false
		}
		for k, p := range fn.Params {
			if p != x {
				continue
			}
			for _, s := range gSites[fn] {
				cc := s.Common()
				if k >= len(cc.Args) || s.Block() == nil || !c11constOrigins(cc.Args[k], with(c11at{b: s.Block()}), depth+1, seen, out) {
					return false
				}
			}
			return true
		}
	case *ssa.FreeVar:
		fn := x.Parent()
		if fn == nil || fn.Parent() == nil {
			return false
		}
		ok, n := true, 0
		for k, fv := range fn.FreeVars {
			if fv != x {
				continue
			}
			eachInstr(fn.Parent(), func(i ssa.Instruction) {
				mc, isMC := i.(*ssa.MakeClosure)
				if !isMC || mc.Fn != fn || k >= len(mc.Bindings) {
					return
				}
				n++
				if a, isAlloc := mc.Bindings[k].(*ssa.Alloc); isAlloc {
					for _, r := range *a.Referrers() {
						if st, isSt := r.(*ssa.Store); isSt && st.Addr == a {
							if !c11constOrigins(st.Val, with(c11at{b: st.Block()}), depth+1, seen, out) {
								ok = false
							}
						}
					}
					return
				}
				if !c11constOrigins(mc.Bindings[k], with(c11at{b: mc.Block()}), depth+1, seen, out) {
					ok = false
				}
			})
		}
		return ok && n > 0
	}
	return false
}

// modeSense: the sense of `x == k` for an enumerated mode x: +1 when x is k exactly where strict matching is known on and
// something else exactly where it is known off, -1 the other way round, 0 when the constants of x are not chosen by the
// strictness flag.
func (m *c11Model) modeSense(x ssa.Value, k *ssa.Const, depth int) int {
	b, ok := x.Type().Underlying().(*types.Basic)
	if !ok || b.Info()&types.IsInteger == 0 && b.Info()&types.IsString == 0 || k.Value == nil {
		return 0
	}
	var leaves []c11kleaf
	if !c11constOrigins(x, nil, 0, map[ssa.Value]bool{}, &leaves) || len(leaves) < 2 {
		return 0
	}
	eq, ne := 0, 0 // the known strictness where x is k / is something else; 2 = contradictory or unknown
	merge := func(cur *int, s int) {
		switch {
		case s == 0:
			*cur = 2
		case *cur == 0:
			*cur = s
		case *cur != s:
			*cur = 2
		}
	}
	nEq, nNe := 0, 0
	senses := make([]int, len(leaves))
	last := func(l c11kleaf) *ssa.BasicBlock {
		if len(l.chain) == 0 {
			return nil
		}
		return l.chain[len(l.chain)-1].b
	}
	for i, l := range leaves {
		if l.k.Value == nil {
			return 0
		}
		for _, at := range l.chain {
			if senses[i] = m.strictKnownAtDepth(at, depth+1); senses[i] != 0 {
				break
			}
		}
	}
	// default-then-override (`mode := fallbackToFirst; if strict { mode = strictOnly }` on a variable kept in memory): the
	// default survives exactly where the override, placed under a known sense, did not happen
	for i, l := range leaves {
		if senses[i] != 0 || last(l) == nil {
			continue
		}
		over := 0
		for j, o := range leaves {
			if j == i || o.k.Value.ExactString() == l.k.Value.ExactString() {
				continue
			}
			if senses[j] == 0 || last(o) == nil || last(o) == last(l) || !last(l).Dominates(last(o)) || (over != 0 && over != senses[j]) {
				over = 2
				break
			}
			over = senses[j]
		}
		if over == 1 || over == -1 {
			senses[i] = -over
		}
	}
	for i, l := range leaves {
		s := senses[i]
		if l.k.Value.ExactString() == k.Value.ExactString() {
			nEq++
			merge(&eq, s)
		} else {
			nNe++
			merge(&ne, s)
		}
	}
	if nEq == 0 || nNe == 0 || eq == 2 || ne == 2 || eq == ne {
		return 0
	}
	return eq
}
