package main

// Source texts of the overlay mutants of C18 (the table itself is in c18.go): whole-function rewrites of the shutdown
// code of fabio, each either a behaviour-preserving refactoring (must stay silent) or a break of the property
// written in the refactored shape (must be reported by the rule named in the table).

// ---- proxy/serve.go: func Shutdown ------------------------------------------------------------------------------------

const c18SrcShutdown = `func Shutdown(timeout time.Duration) {
	mu.Lock()
	srvs := make(map[string]Server, len(servers))
	for k, v := range servers {
		srvs[k] = v
	}
	servers = make(map[string]Server)
	mu.Unlock()

	var wg sync.WaitGroup
	for _, srv := range srvs {
		wg.Add(1)
		go func(srv Server) {
			defer wg.Done()
			ctx, cancel := context.WithTimeout(context.Background(), timeout)
			defer cancel()
			srv.Shutdown(ctx)
		}(srv)
	}
	wg.Wait()
}
`

// fan-out in a helper, the goroutine is a named function, one Add(len) before the loop, registry swapped without a
// copy loop. %WAIT% / %LOOPWAIT% / %DONE% / %TIMEOUT% are the places the breaking variants change.
const c18SrcShutdownSplit = `func Shutdown(timeout time.Duration) {
	mu.Lock()
	srvs := servers
	servers = make(map[string]Server)
	mu.Unlock()
	shutdownAll(srvs, timeout)
}

func shutdownAll(srvs map[string]Server, wait time.Duration) {
	var wg sync.WaitGroup
	wg.Add(len(srvs))
	for _, srv := range srvs {
		go shutdownOne(&wg, srv, wait)
	}
	wg.Wait()
}

func shutdownOne(wg *sync.WaitGroup, srv Server, wait time.Duration) {
	defer wg.Done()
	bg := context.Background()
	ctx, cancel := context.WithTimeout(bg, wait)
	defer cancel()
	srv.Shutdown(ctx)
}
`

const c18SrcShutdownSplitConstTimeout = `func Shutdown(timeout time.Duration) {
	mu.Lock()
	srvs := servers
	servers = make(map[string]Server)
	mu.Unlock()
	shutdownAll(srvs, timeout)
}

func shutdownAll(srvs map[string]Server, wait time.Duration) {
	var wg sync.WaitGroup
	wg.Add(len(srvs))
	for _, srv := range srvs {
		go shutdownOne(&wg, srv, wait)
	}
	wg.Wait()
}

func shutdownOne(wg *sync.WaitGroup, srv Server, wait time.Duration) {
	defer wg.Done()
	bg := context.Background()
	ctx, cancel := context.WithTimeout(bg, time.Minute)
	defer cancel()
	srv.Shutdown(ctx)
}
`

const c18SrcShutdownSplitNoDone = `func Shutdown(timeout time.Duration) {
	mu.Lock()
	srvs := servers
	servers = make(map[string]Server)
	mu.Unlock()
	shutdownAll(srvs, timeout)
}

func shutdownAll(srvs map[string]Server, wait time.Duration) {
	var wg sync.WaitGroup
	wg.Add(len(srvs))
	for _, srv := range srvs {
		go shutdownOne(&wg, srv, wait)
	}
	wg.Wait()
}

func shutdownOne(wg *sync.WaitGroup, srv Server, wait time.Duration) {
	bg := context.Background()
	ctx, cancel := context.WithTimeout(bg, wait)
	defer cancel()
	if err := srv.Shutdown(ctx); err != nil {
		return
	}
	wg.Done()
}
`

const c18SrcShutdownSplitWaitInLoop = `func Shutdown(timeout time.Duration) {
	mu.Lock()
	srvs := servers
	servers = make(map[string]Server)
	mu.Unlock()
	shutdownAll(srvs, timeout)
}

func shutdownAll(srvs map[string]Server, wait time.Duration) {
	var wg sync.WaitGroup
	for _, srv := range srvs {
		wg.Add(1)
		go shutdownOne(&wg, srv, wait)
		wg.Wait()
	}
}

func shutdownOne(wg *sync.WaitGroup, srv Server, wait time.Duration) {
	defer wg.Done()
	bg := context.Background()
	ctx, cancel := context.WithTimeout(bg, wait)
	defer cancel()
	srv.Shutdown(ctx)
}
`

const c18SrcShutdownSplitNoWait = `func Shutdown(timeout time.Duration) {
	mu.Lock()
	srvs := servers
	servers = make(map[string]Server)
	mu.Unlock()
	shutdownAll(srvs, timeout)
}

func shutdownAll(srvs map[string]Server, wait time.Duration) {
	var wg sync.WaitGroup
	wg.Add(len(srvs))
	for _, srv := range srvs {
		go shutdownOne(&wg, srv, wait)
	}
	if len(srvs) > 8 {
		return
	}
	wg.Wait()
}

func shutdownOne(wg *sync.WaitGroup, srv Server, wait time.Duration) {
	defer wg.Done()
	bg := context.Background()
	ctx, cancel := context.WithTimeout(bg, wait)
	defer cancel()
	srv.Shutdown(ctx)
}
`

const c18SrcShutdownSplitLockHeld = `func Shutdown(timeout time.Duration) {
	mu.Lock()
	srvs := servers
	servers = make(map[string]Server)
	shutdownAll(srvs, timeout)
	mu.Unlock()
}

func shutdownAll(srvs map[string]Server, wait time.Duration) {
	var wg sync.WaitGroup
	wg.Add(len(srvs))
	for _, srv := range srvs {
		go shutdownOne(&wg, srv, wait)
	}
	wg.Wait()
}

func shutdownOne(wg *sync.WaitGroup, srv Server, wait time.Duration) {
	defer wg.Done()
	bg := context.Background()
	ctx, cancel := context.WithTimeout(bg, wait)
	defer cancel()
	srv.Shutdown(ctx)
}
`

const c18SrcShutdownSplitSharedCancel = `func Shutdown(timeout time.Duration) {
	mu.Lock()
	srvs := servers
	servers = make(map[string]Server)
	mu.Unlock()
	shutdownAll(srvs, timeout)
}

func shutdownAll(srvs map[string]Server, wait time.Duration) {
	var wg sync.WaitGroup
	ctx, cancel := context.WithTimeout(context.Background(), wait)
	wg.Add(len(srvs))
	for _, srv := range srvs {
		go shutdownOne(&wg, srv, ctx, cancel)
	}
	wg.Wait()
}

func shutdownOne(wg *sync.WaitGroup, srv Server, ctx context.Context, done func()) {
	defer wg.Done()
	defer done()
	srv.Shutdown(ctx)
}
`

const c18SrcShutdownSplitAddAfterGo = `func Shutdown(timeout time.Duration) {
	mu.Lock()
	srvs := servers
	servers = make(map[string]Server)
	mu.Unlock()
	shutdownAll(srvs, timeout)
}

func shutdownAll(srvs map[string]Server, wait time.Duration) {
	var wg sync.WaitGroup
	for _, srv := range srvs {
		go shutdownOne(&wg, srv, wait)
		wg.Add(1)
	}
	wg.Wait()
}

func shutdownOne(wg *sync.WaitGroup, srv Server, wait time.Duration) {
	defer wg.Done()
	bg := context.Background()
	ctx, cancel := context.WithTimeout(bg, wait)
	defer cancel()
	srv.Shutdown(ctx)
}
`

// explicit Done and cancel at the end of the goroutine instead of defers; wait captured through a local
const c18SrcShutdownExplicitDone = `func Shutdown(timeout time.Duration) {
	mu.Lock()
	srvs := make(map[string]Server, len(servers))
	for k, v := range servers {
		srvs[k] = v
	}
	clear(servers)
	mu.Unlock()

	wait := timeout
	wg := new(sync.WaitGroup)
	for _, srv := range srvs {
		wg.Add(1)
		go func(srv Server) {
			ctx, cancel := context.WithTimeout(context.Background(), wait)
			srv.Shutdown(ctx)
			cancel()
			wg.Done()
		}(srv)
	}
	wg.Wait()
}
`

// snapshot and reset in two helpers called under one lock hold
const c18SrcShutdownHelpersUnderLock = `func Shutdown(timeout time.Duration) {
	mu.Lock()
	srvs := copyServers()
	resetServers()
	mu.Unlock()

	var wg sync.WaitGroup
	for _, srv := range srvs {
		wg.Add(1)
		go func(srv Server) {
			defer wg.Done()
			ctx, cancel := context.WithTimeout(context.Background(), timeout)
			defer cancel()
			srv.Shutdown(ctx)
		}(srv)
	}
	wg.Wait()
}

func copyServers() []Server {
	var out []Server
	for _, srv := range servers {
		out = append(out, srv)
	}
	return out
}

func resetServers() {
	servers = make(map[string]Server)
}
`

// snapshot and reset each take the lock on their own: a server registered in between is dropped without being shut down
const c18SrcShutdownTwoSections = `func Shutdown(timeout time.Duration) {
	srvs := copyServers()
	resetServers()

	var wg sync.WaitGroup
	for _, srv := range srvs {
		wg.Add(1)
		go func(srv Server) {
			defer wg.Done()
			ctx, cancel := context.WithTimeout(context.Background(), timeout)
			defer cancel()
			srv.Shutdown(ctx)
		}(srv)
	}
	wg.Wait()
}

func copyServers() []Server {
	mu.Lock()
	defer mu.Unlock()
	var out []Server
	for _, srv := range servers {
		out = append(out, srv)
	}
	return out
}

func resetServers() {
	mu.Lock()
	defer mu.Unlock()
	servers = make(map[string]Server)
}
`

// ---- proxy/serve.go: the registry wrapped into a small type -----------------------------------------------------------

const c18SrcRegistryBlock = `var (
	// mu guards servers which contains the list
	// of running proxy servers.
	mu      sync.Mutex
	servers = make(map[string]Server)
)

func CloseProxy(address string) error {
	mu.Lock()
	defer mu.Unlock()
	if srv, ok := servers[address]; ok {
		err := srv.Close()
		if err != nil {
			return err
		}
		log.Printf("[INFO] Dynamic TCP listener on %s has been terminated", address)
		delete(servers, address)
	}
	return nil
}

func Close() {
	mu.Lock()
	for _, srv := range servers {
		srv.Close()
	}
	servers = make(map[string]Server)
	mu.Unlock()
}

` + c18SrcShutdown

const c18SrcRegistryWrapped = `// running is the registry of running proxy servers.
type running struct {
	sync.Mutex
	byAddr map[string]Server
}

var reg = &running{byAddr: make(map[string]Server)}

func (r *running) add(addr string, srv Server) {
	r.Lock()
	defer r.Unlock()
	r.byAddr[addr] = srv
}

// take empties the registry and returns what was in it.
func (r *running) take() map[string]Server {
	r.Lock()
	defer r.Unlock()
	was := r.byAddr
	r.byAddr = make(map[string]Server)
	return was
}

func CloseProxy(address string) error {
	reg.Lock()
	defer reg.Unlock()
	if srv, ok := reg.byAddr[address]; ok {
		err := srv.Close()
		if err != nil {
			return err
		}
		log.Printf("[INFO] Dynamic TCP listener on %s has been terminated", address)
		delete(reg.byAddr, address)
	}
	return nil
}

func Close() {
	for _, srv := range reg.take() {
		srv.Close()
	}
}

func Shutdown(timeout time.Duration) {
	var wg sync.WaitGroup
	for _, srv := range reg.take() {
		wg.Add(1)
		go func(srv Server) {
			defer wg.Done()
			ctx, cancel := context.WithTimeout(context.Background(), timeout)
			defer cancel()
			srv.Shutdown(ctx)
		}(srv)
	}
	wg.Wait()
}
`

const c18SrcServeHead = `func serve(ln net.Listener, srv Server) error {
	mu.Lock()
	servers[ln.Addr().String()] = srv
	mu.Unlock()
	err := srv.Serve(ln)
`

const c18SrcServeHeadWrapped = `func serve(ln net.Listener, srv Server) error {
	reg.add(ln.Addr().String(), srv)
	err := srv.Serve(ln)
`

// serve renamed, registration in a helper
const c18SrcServeHeadRegisterHelper = `func register(addr string, srv Server) {
	mu.Lock()
	defer mu.Unlock()
	servers[addr] = srv
}

func run(ln net.Listener, srv Server) error {
	register(ln.Addr().String(), srv)
	err := srv.Serve(ln)
`

const c18SrcServeHeadRegisterAfter = `func serve(ln net.Listener, srv Server) error {
	err := srv.Serve(ln)
	mu.Lock()
	servers[ln.Addr().String()] = srv
	mu.Unlock()
`

const c18SrcServeHeadRegisterUnlocked = `func register(addr string, srv Server) {
	servers[addr] = srv
}

func serve(ln net.Listener, srv Server) error {
	register(ln.Addr().String(), srv)
	err := srv.Serve(ln)
`

const c18SrcServeHeadRegisterSometimes = `func serve(ln net.Listener, srv Server) error {
	if _, ok := srv.(*http.Server); ok {
		mu.Lock()
		servers[ln.Addr().String()] = srv
		mu.Unlock()
	}
	err := srv.Serve(ln)
`

// ---- proxy/grpc_handler.go: (*gRPCServer).Shutdown ---------------------------------------------------------------------

const c18SrcGrpcShutdown = `func (s *gRPCServer) Shutdown(ctx context.Context) error {
	// GracefulStop waits for all open streams which may never end.
	// Stop the server forcibly once the deadline has passed.
	done := make(chan struct{})
	go func() {
		s.server.GracefulStop()
		close(done)
	}()
	select {
	case <-done:
	case <-ctx.Done():
		s.server.Stop()
	}
	return nil
}
`

// the method delegates to an unexported one; the race sits in a further helper
const c18SrcGrpcShutdownDelegated = `func (s *gRPCServer) Shutdown(ctx context.Context) error {
	return s.stopWithin(ctx)
}

func (s *gRPCServer) stopWithin(ctx context.Context) error {
	done := make(chan struct{})
	go s.drain(done)
	s.await(ctx, done)
	return nil
}

func (s *gRPCServer) drain(done chan<- struct{}) {
	defer close(done)
	s.server.GracefulStop()
}

func (s *gRPCServer) await(ctx context.Context, done <-chan struct{}) {
	select {
	case <-done:
	case <-ctx.Done():
		s.server.Stop()
	}
}
`

// after the forced Stop the completion of GracefulStop is awaited (Trusted: Stop ends the open streams)
const c18SrcGrpcShutdownAwaitAfterStop = `func (s *gRPCServer) Shutdown(ctx context.Context) error {
	done := make(chan struct{})
	go func() {
		s.server.GracefulStop()
		close(done)
	}()
	select {
	case <-done:
	case <-ctx.Done():
		s.server.Stop()
		<-done
	}
	return nil
}
`

const c18SrcGrpcShutdownDeferredGraceful = `func (s *gRPCServer) Shutdown(ctx context.Context) error {
	defer s.server.GracefulStop()
	select {
	case <-ctx.Done():
	default:
	}
	return nil
}
`

const c18SrcGrpcShutdownCtxOnlyLogged = `func (s *gRPCServer) Shutdown(ctx context.Context) error {
	go s.server.GracefulStop()
	s.note(ctx)
	return nil
}

func (s *gRPCServer) note(ctx context.Context) {
	log.Printf("[INFO] grpc server shutting down (%v)", ctx)
}
`

const c18SrcGrpcShutdownAwaitUnbounded = `func (s *gRPCServer) Shutdown(ctx context.Context) error {
	done := s.drain()
	select {
	case <-done:
	case <-ctx.Done():
	}
	<-done
	return nil
}

func (s *gRPCServer) drain() <-chan struct{} {
	done := make(chan struct{})
	go func() {
		defer close(done)
		s.server.GracefulStop()
	}()
	return done
}
`

// ---- proxy/tcp/server.go ------------------------------------------------------------------------------------------------

const c18SrcTCPShutdown = `func (s *Server) Shutdown(ctx context.Context) error {
	s.closeListeners()
	if ctx != nil {
		<-ctx.Done()
	}
	return s.closeConns()
}
`

// closeListeners inlined, select instead of the plain receive, the branch turned around
const c18SrcTCPShutdownInlined = `func (s *Server) Shutdown(ctx context.Context) error {
	s.mu.Lock()
	for _, l := range s.lns {
		l.Close()
	}
	s.lns = nil
	s.mu.Unlock()
	if ctx != nil {
		select {
		case <-ctx.Done():
		}
		return s.closeConns()
	}
	return s.closeConns()
}
`

const c18SrcTCPShutdownInlinedLate = `func (s *Server) Shutdown(ctx context.Context) error {
	if ctx != nil {
		select {
		case <-ctx.Done():
		}
	}
	s.mu.Lock()
	for _, l := range s.lns {
		l.Close()
	}
	s.lns = nil
	s.mu.Unlock()
	return s.closeConns()
}
`

// the wait in a helper, everything closed by one call after it
const c18SrcTCPShutdownWaitHelper = `func (s *Server) Shutdown(ctx context.Context) error {
	s.closeListeners()
	untilDone(ctx)
	return s.Close()
}

func untilDone(ctx context.Context) {
	if ctx == nil {
		return
	}
	<-ctx.Done()
}
`

const c18SrcTCPShutdownConnsLeftOpen = `func (s *Server) Shutdown(ctx context.Context) error {
	s.closeListeners()
	if ctx != nil {
		<-ctx.Done()
		if len(s.conns) > 64 {
			return nil
		}
	}
	return s.closeConns()
}
`

const c18SrcTCPCloseConns = `func (s *Server) closeConns() error {
	s.mu.Lock()
	for c := range s.conns {
		c.Close()
	}
	s.conns = nil
	s.mu.Unlock()
	return nil
}
`

const c18SrcTCPCloseConnsWrappers = `func (s *Server) lock()   { s.mu.Lock() }
func (s *Server) unlock() { s.mu.Unlock() }

func (s *Server) closeConns() error {
	s.lock()
	for c := range s.conns {
		c.Close()
	}
	s.conns = nil
	s.unlock()
	return nil
}
`

const c18SrcTCPCloseConnsWrappersLeak = `func (s *Server) lock()   { s.mu.Lock() }
func (s *Server) unlock() { s.mu.Unlock() }

func (s *Server) closeConns() error {
	s.lock()
	if len(s.conns) == 0 {
		return nil
	}
	for c := range s.conns {
		c.Close()
	}
	s.conns = nil
	s.unlock()
	return nil
}
`

// ---- main.go: the exit handler --------------------------------------------------------------------------------------------

const c18SrcExitHandler = `	exit.Listen(func(s os.Signal) {
		atomic.StoreInt32(&shuttingDown, 1)
		if registry.Default != nil {
			registry.Default.DeregisterAll()
		}
		time.Sleep(cfg.Proxy.DeregisterGracePeriod)
		proxy.Shutdown(cfg.Proxy.ShutdownWait)
`

// deregistration and grace period in a local closure, guard around the sleep, locals for the two durations
const c18SrcExitHandlerLocalClosure = `	leave := func() {
		if registry.Default != nil {
			registry.Default.DeregisterAll()
		}
		if grace := cfg.Proxy.DeregisterGracePeriod; grace > 0 {
			time.Sleep(grace)
		}
	}
	exit.Listen(func(s os.Signal) {
		atomic.StoreInt32(&shuttingDown, 1)
		leave()
		wait := cfg.Proxy.ShutdownWait
		proxy.Shutdown(wait)
`

const c18SrcExitHandlerLocalClosureLate = `	leave := func() {
		if registry.Default != nil {
			registry.Default.DeregisterAll()
		}
		if grace := cfg.Proxy.DeregisterGracePeriod; grace > 0 {
			time.Sleep(grace)
		}
	}
	exit.Listen(func(s os.Signal) {
		atomic.StoreInt32(&shuttingDown, 1)
		wait := cfg.Proxy.ShutdownWait
		proxy.Shutdown(wait)
		leave()
`

const c18SrcExitHandlerSleepOnlyOnTerm = `	exit.Listen(func(s os.Signal) {
		atomic.StoreInt32(&shuttingDown, 1)
		if registry.Default != nil {
			registry.Default.DeregisterAll()
		}
		if s != os.Interrupt {
			time.Sleep(cfg.Proxy.DeregisterGracePeriod)
		}
		proxy.Shutdown(cfg.Proxy.ShutdownWait)
`

// ---- exit/listen.go ---------------------------------------------------------------------------------------------------------

const c18SrcExitCall = `			if fn != nil {
				fn(sig)
			}
			return
		}
	}()
}
`

const c18SrcExitCallHelper = `			handle(fn, sig)
			return
		}
	}()
}

func handle(fn func(os.Signal), sig os.Signal) {
	if fn != nil {
		fn(sig)
	}
}
`

const c18SrcExitCallHelperReset = `			handle(fn, sig)
			return
		}
	}()
}

func handle(fn func(os.Signal), sig os.Signal) {
	signal.Reset()
	if fn != nil {
		fn(sig)
	}
}
`

const c18SrcExitCallReleaseHelper = `			release(sigchan)
			if fn != nil {
				fn(sig)
			}
			return
		}
	}()
}

func release(c chan os.Signal) {
	signal.Stop(c)
	close(c)
}
`

// ---- proxy/inetaf_tcpproxy.go --------------------------------------------------------------------------------------------

const c18SrcInetAfFanOut = `	errChan := make(chan error, len(tps.children))
	for _, sl := range tps.children {
		go func(sl *childProxy) {
			errChan <- sl.s.Shutdown(ctx)
		}(sl)
	}
	for range tps.children {
		err := <-errChan
		if firstErr == nil {
			firstErr = err
		}
		if err != nil {
			log.Print("[ERROR] ", err)
		}
	}
	return firstErr
}
`

// the children are joined with a local WaitGroup instead of counting results on a channel
const c18SrcInetAfFanOutWaitGroup = `	var wg sync.WaitGroup
	errs := make([]error, len(tps.children))
	for i, sl := range tps.children {
		wg.Add(1)
		go func(i int, sl *childProxy) {
			defer wg.Done()
			errs[i] = sl.s.Shutdown(ctx)
		}(i, sl)
	}
	wg.Wait()
	for _, err := range errs {
		if firstErr == nil {
			firstErr = err
		}
		if err != nil {
			log.Print("[ERROR] ", err)
		}
	}
	return firstErr
}
`

const c18SrcGrpcShutdownLocalJoin = `func (s *gRPCServer) Shutdown(ctx context.Context) error {
	var wg sync.WaitGroup
	wg.Add(1)
	go func() {
		defer wg.Done()
		s.server.GracefulStop()
	}()
	select {
	case <-ctx.Done():
		s.server.Stop()
	default:
	}
	wg.Wait()
	return nil
}
`

// proxy.Shutdown joins the per-server goroutines over a channel (the style of InetAfTCPProxyServer.Shutdown)
const c18SrcShutdownChanJoin = `func Shutdown(timeout time.Duration) {
	mu.Lock()
	srvs := make(map[string]Server, len(servers))
	for k, v := range servers {
		srvs[k] = v
	}
	servers = make(map[string]Server)
	mu.Unlock()

	done := make(chan struct{}, len(srvs))
	for _, srv := range srvs {
		go func(srv Server) {
			defer func() { done <- struct{}{} }()
			ctx, cancel := context.WithTimeout(context.Background(), timeout)
			defer cancel()
			srv.Shutdown(ctx)
		}(srv)
	}
	for range srvs {
		<-done
	}
}
`

const c18SrcShutdownChanJoinSerial = `func Shutdown(timeout time.Duration) {
	mu.Lock()
	srvs := make(map[string]Server, len(servers))
	for k, v := range servers {
		srvs[k] = v
	}
	servers = make(map[string]Server)
	mu.Unlock()

	done := make(chan struct{}, len(srvs))
	for _, srv := range srvs {
		go func(srv Server) {
			defer func() { done <- struct{}{} }()
			ctx, cancel := context.WithTimeout(context.Background(), timeout)
			defer cancel()
			srv.Shutdown(ctx)
		}(srv)
		<-done
	}
}
`

// closure -> method of a small struct that carries the WaitGroup and the wait; context from a helper
const c18SrcShutdownDrainer = `type drainer struct {
	wg   sync.WaitGroup
	wait time.Duration
}

func deadline(wait time.Duration) (context.Context, context.CancelFunc) {
	return context.WithTimeout(context.Background(), wait)
}

func (d *drainer) one(srv Server) {
	defer d.wg.Done()
	ctx, cancel := deadline(d.wait)
	defer cancel()
	srv.Shutdown(ctx)
}

func (d *drainer) start(srv Server) {
	d.wg.Add(1)
	go d.one(srv)
}

func Shutdown(timeout time.Duration) {
	mu.Lock()
	srvs := make([]Server, 0, len(servers))
	for _, srv := range servers {
		srvs = append(srvs, srv)
	}
	servers = map[string]Server{}
	mu.Unlock()

	d := &drainer{wait: timeout}
	for _, srv := range srvs {
		d.start(srv)
	}
	d.wg.Wait()
}
`

const c18SrcShutdownDrainerNoWait = `type drainer struct {
	wg   sync.WaitGroup
	wait time.Duration
}

func deadline(wait time.Duration) (context.Context, context.CancelFunc) {
	return context.WithTimeout(context.Background(), wait)
}

func (d *drainer) one(srv Server) {
	defer d.wg.Done()
	ctx, cancel := deadline(d.wait)
	defer cancel()
	srv.Shutdown(ctx)
}

func (d *drainer) start(srv Server) {
	d.wg.Add(1)
	go d.one(srv)
}

func Shutdown(timeout time.Duration) {
	mu.Lock()
	srvs := make([]Server, 0, len(servers))
	for _, srv := range servers {
		srvs = append(srvs, srv)
	}
	servers = map[string]Server{}
	mu.Unlock()

	d := &drainer{wait: timeout}
	for _, srv := range srvs {
		d.start(srv)
	}
}
`
