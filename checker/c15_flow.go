package main

// C15.R2 / C15.R3: the order of the configuration sources in FlagSet.ParseFlags and the names under which the
// environment is consulted. The only names relied upon are exported API (config.FlagSet.ParseFlags, the methods of
// flag.FlagSet, strings.ToUpper/Replace, properties.Properties); everything else is found by role in the region of
// ParseFlags (its helpers, its closures, the callbacks it hands to Visit / VisitAll and what those call).

import (
	"fmt"
	"go/token"
	"go/types"
	"os"
	"strings"

	"golang.org/x/tools/go/ssa"
)

const c15propsRecv = "(*github.com/magiconair/properties.Properties)."

func c15flagCall(names ...string) func(ssa.Instruction) bool {
	return func(i ssa.Instruction) bool {
		cc := callCommon(i)
		if cc == nil {
			return false
		}
		n := calleeName(cc)
		for _, w := range names {
			if n == "(*flag.FlagSet)."+w {
				return true
			}
		}
		return false
	}
}

func c15isStringMap(t types.Type, elem string) bool {
	m, ok := t.Underlying().(*types.Map)
	if !ok {
		return false
	}
	if b, ok := m.Key().Underlying().(*types.Basic); !ok || b.Kind() != types.String {
		return false
	}
	return elem == "" || typeStr(m.Elem().Underlying()) == elem
}

// c15isEnvMap: the case-insensitive copy of the environment (the only map[string]string of ParseFlags).
func c15isEnvMap(v ssa.Value) bool { return c15isStringMap(v.Type(), "string") }

// c15isSetMap: a map keyed by flag name that is a field of config.FlagSet and does not hold strings: FlagSet.set,
// whatever its name and whether it maps to bool or to struct{}.
func c15isSetMap(v ssa.Value) bool {
	if !c15isStringMap(v.Type(), "") || c15isEnvMap(v) {
		return false
	}
	return derives(v, func(x ssa.Value) bool {
		fa, ok := x.(*ssa.FieldAddr)
		return ok && namedIs(fa.X.Type(), "config.FlagSet")
	})
}

// c15isMark: records a flag as set.
func c15isMark(i ssa.Instruction) bool {
	mu, ok := i.(*ssa.MapUpdate)
	if !ok || !c15isSetMap(mu.Map) {
		return false
	}
	if v, isK := constBool(mu.Value); isK {
		return v
	}
	return true // map[string]struct{}
}

func c15isEnvLookup(i ssa.Instruction) bool {
	lk, ok := i.(*ssa.Lookup)
	return ok && c15isEnvMap(lk.X)
}

func c15isPropsCall(i ssa.Instruction) bool {
	cc := callCommon(i)
	return cc != nil && (strings.HasPrefix(calleeName(cc), c15propsRecv) || c15dynProps(cc))
}

// c15dynProps: a dynamic call (interface of the repository, function from a list) that can enter a method of
// properties.Properties directly.
func c15dynProps(cc *ssa.CallCommon) bool {
	for _, e := range c15dyn(cc).exts() {
		if strings.HasPrefix(e, c15propsRecv) {
			return true
		}
	}
	return false
}

// c15isApply: assigns a value to a flag with the parsing the command line uses (flag.Value.Set, directly or through
// flag.FlagSet.Set).
func c15isApply(i ssa.Instruction) bool {
	cc := callCommon(i)
	if cc == nil {
		return false
	}
	n := calleeName(cc)
	return n == "(*flag.FlagSet).Set" || n == "(flag.Value).Set"
}

func c15appliedValue(i ssa.Instruction) ssa.Value {
	cc := callCommon(i)
	if cc == nil || len(cc.Args) == 0 {
		return nil
	}
	return cc.Args[len(cc.Args)-1]
}

func c15anyEnv(v ssa.Value) bool {
	lk, ok := v.(*ssa.Lookup)
	return ok && c15isEnvMap(lk.X)
}

func c15anyProps(v ssa.Value) bool {
	call, ok := v.(*ssa.Call)
	return ok && (strings.HasPrefix(calleeName(&call.Call), c15propsRecv) || c15dynProps(&call.Call))
}

// c15sourceValue: the value part (not the presence part) of a lookup in a source.
func c15sourceValue(v ssa.Value) bool {
	switch x := v.(type) {
	case *ssa.Extract:
		if n, isNext := x.Tuple.(*ssa.Next); isNext && !n.IsString {
			// the value (not the key) of an iteration over a map obtained from a source
			rg, isRange := n.Iter.(*ssa.Range)
			return x.Index == 2 && isRange && (c15isEnvMap(rg.X) || c15derives(rg.X, c15anyProps))
		}
		if x.Index != 0 {
			return false
		}
		return c15anyEnv(x.Tuple) || c15anyProps(x.Tuple)
	case *ssa.Lookup:
		return !x.CommaOk && c15isEnvMap(x.X)
	case *ssa.Call:
		_, isTuple := x.Type().(*types.Tuple)
		if n := calleeName(&x.Call); n == c15propsRecv+"Keys" || n == c15propsRecv+"Len" {
			return false // the list / number of keys is not the value of an option
		}
		// (a map, a filtered copy, the list of keys of the properties are not the value of an option either)
		b, isBasic := x.Type().Underlying().(*types.Basic)
		return !isTuple && c15anyProps(x) && isBasic && b.Kind() == types.String
	}
	return false
}

func c15isBool(t types.Type) bool {
	b, ok := t.Underlying().(*types.Basic)
	return ok && b.Kind() == types.Bool
}

// c15presence: v is true exactly when a source has a value for the flag ("comma ok" of the environment map, the
// second result of Properties.Get, or such a bit handed through helper results, merges and local variables).
func c15presence(v ssa.Value, depth int) (env, props, ok bool) {
	if v == nil || depth > 6 {
		return false, false, false
	}
	ofResult := func(call *ssa.Call, idx int) (bool, bool, bool) {
		gs := c15callees(&call.Call)
		if len(gs) == 0 {
			return false, false, false
		}
		e, p, n := false, false, 0
		for _, g := range gs {
			bad := false
			eachInstr(g, func(i ssa.Instruction) {
				r, isR := i.(*ssa.Return)
				if !isR || bad {
					return
				}
				if idx >= len(r.Results) {
					bad = true
					return
				}
				res := r.Results[idx]
				if k, isK := constBool(res); isK {
					if !k {
						return
					}
					e2, p2, ok2 := c15blockPresence(r.Block(), depth+1)
					if !ok2 {
						bad = true
						return
					}
					e, p, n = e || e2, p || p2, n+1
					return
				}
				e2, p2, ok2 := c15presence(res, depth+1)
				if !ok2 {
					bad = true
					return
				}
				e, p, n = e || e2, p || p2, n+1
			})
			if bad {
				return false, false, false
			}
		}
		return e, p, n > 0
	}
	switch x := v.(type) {
	case *ssa.Extract:
		if !c15isBool(x.Type()) {
			return false, false, false
		}
		switch t := x.Tuple.(type) {
		case *ssa.Lookup:
			if t.CommaOk && x.Index == 1 && c15isEnvMap(t.X) {
				return true, false, true
			}
		case *ssa.Call:
			if info := c15dyn(&t.Call); info != nil {
				// a source behind an interface / in a list of functions: the bit is a presence bit when it is one for
				// every implementation
				e, p, n := false, false, 0
				if len(info.repoFns()) > 0 {
					e2, p2, ok2 := ofResult(t, x.Index)
					if !ok2 {
						return false, false, false
					}
					e, p, n = e2, p2, 1
				}
				for _, ext := range info.exts() {
					if ext != c15propsRecv+"Get" || x.Index != 1 {
						return false, false, false
					}
					p, n = true, n+1
				}
				return e, p, n > 0
			}
			if c15anyProps(t) {
				return false, true, true
			}
			return ofResult(t, x.Index)
		}
	case *ssa.Call:
		if c15isBool(x.Type()) {
			return ofResult(x, 0)
		}
	case *ssa.Phi:
		e, p, n := false, false, 0
		for k, ed := range x.Edges {
			if kb, isK := constBool(ed); isK {
				if !kb {
					continue
				}
				e2, p2, ok2 := c15blockPresence(x.Block().Preds[k], depth+1)
				if !ok2 {
					return false, false, false
				}
				e, p, n = e || e2, p || p2, n+1
				continue
			}
			e2, p2, ok2 := c15presence(ed, depth+1)
			if !ok2 {
				return false, false, false
			}
			e, p, n = e || e2, p || p2, n+1
		}
		return e, p, n > 0
	case *ssa.UnOp:
		if x.Op == token.MUL && c15isBool(x.Type()) {
			e, p, n := false, false, 0
			for _, sv := range c15stores(x.X) {
				if kb, isK := constBool(sv); isK {
					if kb {
						return false, false, false
					}
					continue
				}
				e2, p2, ok2 := c15presence(sv, depth+1)
				if !ok2 {
					return false, false, false
				}
				e, p, n = e || e2, p || p2, n+1
			}
			return e, p, n > 0
		}
	}
	return false, false, false
}

// c15blockPresence: some branch fact at b says that a source has a value.
func c15blockPresence(b *ssa.BasicBlock, depth int) (env, props, ok bool) {
	for _, f := range localFactsAt(b) {
		if !f.Truth {
			continue
		}
		if e, p, isP := c15presence(f.Cond, depth); isP {
			env, props, ok = env || e, props || p, true
		}
	}
	return
}

// c15setTest: v tests whether the flag is already set; positive = v is true when it is set.
func c15setTest(v ssa.Value, depth int) (positive, ok bool) {
	if depth > 4 {
		return false, false
	}
	switch x := v.(type) {
	case *ssa.UnOp:
		if x.Op == token.NOT {
			p, ok := c15setTest(x.X, depth+1)
			return !p, ok
		}
	case *ssa.Lookup:
		if !x.CommaOk && c15isSetMap(x.X) && c15isBool(x.Type()) {
			return true, true
		}
	case *ssa.Extract:
		if lk, isLk := x.Tuple.(*ssa.Lookup); isLk && lk.CommaOk && x.Index == 1 && c15isSetMap(lk.X) {
			return true, true
		}
	case *ssa.Call:
		if !c15isBool(x.Type()) {
			return false, false
		}
		gs := c15callees(&x.Call)
		if len(gs) != 1 {
			return false, false
		}
		pos, n, bad := false, 0, false
		eachInstr(gs[0], func(i ssa.Instruction) {
			if r, isR := i.(*ssa.Return); isR && len(r.Results) == 1 {
				p, ok := c15setTest(r.Results[0], depth+1)
				if !ok || (n > 0 && p != pos) {
					bad = true
				}
				pos, n = p, n+1
			}
		})
		return pos, n > 0 && !bad
	}
	return false, false
}

// c15flow holds what the R2 / R3 rules look at.
type c15flow struct {
	c     *Ctx
	pf    *ssa.Function
	reg   []*ssa.Function // region of ParseFlags
	fbs   []*ssa.Function // callbacks handed to VisitAll
	fbReg []*ssa.Function // what they can enter
	sites c15siteIndex
	stop  map[*ssa.Function]bool
}

func c15newFlow(c *Ctx, rule string) *c15flow {
	c15use(c)
	pf := c.method("config", "FlagSet", "ParseFlags")
	if !c.need(rule, pf, "config.FlagSet.ParseFlags") {
		return nil
	}
	fl := &c15flow{c: c, pf: pf, stop: map[*ssa.Function]bool{}}
	fl.reg = c.c15closure(5, pf)
	isVisitAll := c15flagCall("VisitAll")
	eachInstrOf(fl.reg, func(_ *ssa.Function, i ssa.Instruction) {
		if isVisitAll(i) {
			cc := callCommon(i)
			for _, g := range c15funcsOf(cc.Args[len(cc.Args)-1]) {
				if !fl.stop[g] {
					fl.stop[g] = true
					fl.fbs = append(fl.fbs, g)
				}
			}
		}
	})
	fl.fbReg = c.c15closure(5, fl.fbs...)
	all := append([]*ssa.Function{}, fl.reg...)
	have := map[*ssa.Function]bool{}
	for _, f := range all {
		have[f] = true
	}
	for _, f := range fl.fbReg {
		if !have[f] {
			have[f] = true
			all = append(all, f)
		}
	}
	fl.reg = all
	fl.sites = c15buildSites(all)
	return fl
}

func c15landmarks(f *ssa.Function, pred func(ssa.Instruction) bool) []ssa.Instruction {
	var out []ssa.Instruction
	eachInstr(f, func(i ssa.Instruction) {
		if c15may(i, pred) {
			out = append(out, i)
		}
	})
	return out
}

// core descends from a callback into the function in which the sources are consulted: as long as a function does
// nothing with the sources but call one helper, the helper is looked at instead.
func (fl *c15flow) core(f *ssa.Function) *ssa.Function {
	any := func(i ssa.Instruction) bool { return c15isApply(i) || c15isEnvLookup(i) || c15isPropsCall(i) }
	for d := 0; d < 4; d++ {
		lm := c15landmarks(f, any)
		if len(lm) != 1 || any(lm[0]) {
			return f
		}
		gs := c15callees(callCommon(lm[0]))
		if len(gs) != 1 {
			return f
		}
		f = gs[0]
	}
	return f
}

// orderOK: no consultation of the properties can be followed by a consultation of the environment, and every
// consultation of the properties can be preceded by one of the environment.
func (fl *c15flow) orderOK(f *ssa.Function, depth int) bool {
	es, gs := c15landmarks(f, c15isEnvLookup), c15landmarks(f, c15isPropsCall)
	for _, g := range gs {
		preceded := false
		for _, e := range es {
			if e == g {
				if c15dyn(callCommon(g)).both() {
					// one dynamic call that reaches either source: the order is that of the list of sources (3g)
					preceded = true
					continue
				}
				// both inside one helper
				ok := depth < 3
				for _, h := range c15callees(callCommon(g)) {
					if c15mayFn(h, c15isPropsCall, 1) && !fl.orderOK(h, depth+1) {
						ok = false
					}
				}
				if !ok {
					return false
				}
				preceded = true
				continue
			}
			if pathAvoiding(g, e, nil) {
				return false
			}
			if pathAvoiding(e, g, nil) {
				preceded = true
			}
		}
		if !preceded {
			return false
		}
	}
	return true
}

// c15entered: the repository functions a call can enter: its callees, or - for flag.FlagSet.Visit / VisitAll - the
// callback handed to the library.
func c15entered(i ssa.Instruction) []*ssa.Function {
	cc := callCommon(i)
	if cc == nil {
		return nil
	}
	if _, isGo := i.(*ssa.Go); isGo {
		return nil
	}
	if gs := c15callees(cc); len(gs) > 0 {
		return gs
	}
	var out []*ssa.Function
	if c15flagCall("Visit", "VisitAll")(i) && len(cc.Args) > 0 {
		for _, g := range c15funcsOf(cc.Args[len(cc.Args)-1]) {
			if isRepoFn(g) && len(g.Blocks) > 0 {
				out = append(out, g)
			}
		}
	}
	return out
}

// c15mayCB: c15may that also enters the callbacks of Visit / VisitAll (a whole pass over the flags is then one
// landmark of the function that starts it).
func c15mayCB(i ssa.Instruction, pred func(ssa.Instruction) bool, depth int) bool {
	if pred(i) {
		return true
	}
	if depth > 5 {
		return false
	}
	for _, g := range c15entered(i) {
		hit := false
		eachInstr(g, func(j ssa.Instruction) {
			if !hit && c15mayCB(j, pred, depth+1) {
				hit = true
			}
		})
		if hit {
			return true
		}
	}
	return false
}

// passOrderOK: orderOK for a function that consults the sources in separate passes (a VisitAll pass for the
// environment, then a pass over the flags or over the keys of the properties): no place that can consult the
// properties can be followed by one that can consult the environment, and each can be preceded by one.
func (fl *c15flow) passOrderOK(f *ssa.Function, depth int) bool {
	var es, gs []ssa.Instruction
	eachInstr(f, func(i ssa.Instruction) {
		if c15mayCB(i, c15isEnvLookup, 0) {
			es = append(es, i)
		}
		if c15mayCB(i, c15isPropsCall, 0) {
			gs = append(gs, i)
		}
	})
	for _, g := range gs {
		preceded := false
		for _, e := range es {
			if e == g {
				if c15dyn(callCommon(g)).both() {
					preceded = true // (the order of the list of sources: 3g)
					continue
				}
				// both behind one call: decided inside
				ok := depth < 5
				for _, h := range c15entered(g) {
					if !fl.passOrderOK(h, depth+1) {
						ok = false
					}
				}
				if !ok {
					return false
				}
				preceded = true
				continue
			}
			if pathAvoiding(g, e, nil) {
				return false
			}
			if pathAvoiding(e, g, nil) {
				preceded = true
			}
		}
		if !preceded {
			return false
		}
	}
	return true
}

// dynOrderOK: the list a dynamic source call takes its callee from holds the environment source(s) before the
// properties in every alternative the list can be, and is walked forwards.
func (fl *c15flow) dynOrderOK(info *c15dynInfo) (bool, string) {
	if info == nil || !info.fromList || len(info.lists) == 0 {
		return false, "the call does not take its callee from a list whose construction the rule can read"
	}
	anyEnv := false
	for _, l := range info.lists {
		seenProps := false
		for _, im := range l {
			e, p := im.kind()
			switch {
			case e == p:
				return false, "an element of the list is neither an environment source nor the properties"
			case p:
				seenProps = true
			case seenProps:
				return false, "the list holds the properties before an environment source"
			default:
				anyEnv = true
			}
		}
	}
	if !anyEnv {
		return false, "no alternative of the list holds an environment source"
	}
	if info.index == nil || c15countsDown(info.index) {
		return false, "the list is walked backwards"
	}
	return true, ""
}

// dynStopOK: no path leads from the dynamic source call d back to d (or on to another dynamic source call) without
// leaving a test of the presence bit d returned on its false edge.
func (fl *c15flow) dynStopOK(d ssa.Instruction) bool {
	dv, ok := d.(ssa.Value)
	if !ok {
		return false
	}
	isD := func(x ssa.Value) bool { return x == dv }
	absent := func(cond ssa.Value, truth bool) bool {
		if truth || !c15isBool(cond.Type()) {
			return false
		}
		if _, _, isP := c15presence(cond, 0); !isP {
			return false
		}
		return c15derives(cond, isD)
	}
	bad := false
	eachInstr(d.Parent(), func(j ssa.Instruction) {
		if cc := callCommon(j); cc != nil && c15dyn(cc).both() && c15pathCut(d, j, absent) {
			bad = true
		}
	})
	return !bad
}

// c15propsValue: the result of a lookup in the properties (not the list or the number of their keys).
func c15propsValue(v ssa.Value) bool {
	call, ok := v.(*ssa.Call)
	if !ok || !c15anyProps(call) {
		return false
	}
	n := calleeName(&call.Call)
	return n != c15propsRecv+"Keys" && n != c15propsRecv+"Len"
}

// c15keyedBySource: v is the result of a lookup in the properties under a key that was taken from the properties'
// own list of keys (a loop over Properties.Keys()): the source then has a value for it.
func c15keyedBySource(v ssa.Value) bool {
	isKeys := func(x ssa.Value) bool {
		call, ok := x.(*ssa.Call)
		return ok && calleeName(&call.Call) == c15propsRecv+"Keys"
	}
	return c15derives(v, func(x ssa.Value) bool {
		// key and value of an iteration over a map obtained from the properties (Properties.Map(), FilterPrefix(..).Map())
		if n, isNext := x.(*ssa.Next); isNext && !n.IsString {
			if rg, isRange := n.Iter.(*ssa.Range); isRange && c15derives(rg.X, c15anyProps) {
				return true
			}
		}
		call, ok := x.(*ssa.Call)
		if !ok || !c15propsValue(call) || len(call.Call.Args) < 2 {
			return false
		}
		for _, a := range call.Call.Args[1:] {
			if c15derives(a, isKeys) {
				return true
			}
		}
		return false
	})
}

// reportsApplied: helper g tells its caller through the bool result idx that it applied a value: every return that
// can follow an application returns the constant true.
func (fl *c15flow) reportsApplied(g *ssa.Function, idx int) bool {
	as := c15landmarks(g, c15isApply)
	ok := len(as) > 0
	eachInstr(g, func(i ssa.Instruction) {
		r, isR := i.(*ssa.Return)
		if !isR || idx >= len(r.Results) {
			return
		}
		for _, a := range as {
			if pathAvoiding(a, r, nil) {
				if k, isK := constBool(r.Results[idx]); !isK || !k {
					ok = false
				}
			}
		}
	})
	return ok
}

// appliedCut: the branch edge on which the helper call `a` is known NOT to have applied a value.
func (fl *c15flow) appliedCut(a ssa.Instruction) func(ssa.Value, bool) bool {
	call, ok := a.(*ssa.Call)
	if !ok || c15isApply(a) {
		return nil
	}
	gs := c15callees(&call.Call)
	return func(cond ssa.Value, truth bool) bool {
		if truth {
			return false
		}
		idx := 0
		switch x := cond.(type) {
		case *ssa.Call:
			if x != call {
				return false
			}
		case *ssa.Extract:
			if x.Tuple != ssa.Value(call) {
				return false
			}
			idx = x.Index
		default:
			return false
		}
		if !c15isBool(cond.Type()) || len(gs) == 0 {
			return false
		}
		for _, g := range gs {
			if !fl.reportsApplied(g, idx) {
				return false
			}
		}
		return true
	}
}

// stopOK: once a value has been applied no other application can follow in the same pass over the flag.
func (fl *c15flow) stopOK(f *ssa.Function, depth int) (bool, ssa.Instruction) {
	as := c15landmarks(f, c15isApply)
	for _, a := range as {
		// a path that, after a, passes a renewed "not yet set" test on its not-set edge belongs to the treatment of
		// another flag (a loop over the keys of a source): the marks (markedOK) make the test fail for the same flag
		applied := fl.appliedCut(a)
		cut := func(cond ssa.Value, truth bool) bool {
			if applied != nil && applied(cond, truth) {
				return true
			}
			pos, isT := c15setTest(cond, 0)
			return isT && truth != pos
		}
		for _, b := range as {
			if c15pathCut(a, b, cut) {
				return false, b
			}
		}
		if !c15isApply(a) && depth < 3 {
			for _, g := range c15callees(callCommon(a)) {
				if ok, at := fl.stopOK(g, depth+1); !ok {
					return false, at
				}
			}
		}
	}
	return true, nil
}

// markedOK: every application is accompanied by recording the flag as set.
func (fl *c15flow) markedOK(f *ssa.Function, depth int) (bool, ssa.Instruction) {
	var marks []ssa.Instruction
	eachInstr(f, func(i ssa.Instruction) {
		if c15must(i, c15isMark) {
			marks = append(marks, i)
		}
	})
	for _, a := range c15landmarks(f, c15isApply) {
		done := false
		for _, m := range marks {
			if m == a || dominatesInstr(m, a) {
				done = true
			}
		}
		if !done {
			if _, reach := exitReachableAvoiding(a, c15isMark); !reach {
				done = true
			}
		}
		if !done && !c15isApply(a) && depth < 3 {
			done = true
			for _, g := range c15callees(callCommon(a)) {
				if ok, _ := fl.markedOK(g, depth+1); !ok {
					done = false
				}
			}
		}
		if !done {
			return false, a
		}
	}
	return true, nil
}

// precedenceOK: a value from the properties is applied only on paths on which the environment was found to have
// none: every path from a consultation of the environment to the place where the properties' value becomes the
// applied one leaves a test of the environment's presence bit on its false edge.
//
// retMode: f is a helper that looks both sources up and returns the value; its returns are then the places where a
// value is chosen.
func (fl *c15flow) precedenceOK(f *ssa.Function, depth int, retMode bool) (bool, ssa.Instruction) {
	es := c15landmarks(f, c15isEnvLookup)
	envAbsent := func(cond ssa.Value, truth bool) bool {
		if truth {
			return false
		}
		e, p, ok := c15presence(cond, 0)
		return ok && e && !p
	}
	apps := c15landmarks(f, c15isApply)
	isApp := map[ssa.Instruction]bool{}
	for _, a := range apps {
		isApp[a] = true
	}
	var inner []ssa.Instruction // calls of helpers that consult both sources
	eachInstr(f, func(i ssa.Instruction) {
		if r, ok := i.(*ssa.Return); ok && retMode {
			apps = append(apps, r)
		}
		if _, ok := i.(*ssa.Call); ok && !c15isPropsCall(i) && c15may(i, c15isPropsCall) && c15may(i, c15isEnvLookup) {
			inner = append(inner, i)
		}
	})
	for _, l := range inner {
		if depth < 3 {
			for _, g := range c15callees(callCommon(l)) {
				if ok, at := fl.precedenceOK(g, depth+1, !isApp[l]); !ok {
					return false, at
				}
			}
		}
	}
	for _, a := range apps {
		var targets []ssa.Instruction
		if _, isRet := a.(*ssa.Return); !isRet && !c15isApply(a) && c15may(a, c15isPropsCall) {
			if c15may(a, c15isEnvLookup) {
				continue // everything inside one helper: decided there (above)
			}
			targets = append(targets, a)
		}
		var vals []ssa.Value
		if r, isRet := a.(*ssa.Return); isRet {
			vals = append(vals, r.Results...)
		} else if c15isApply(a) {
			vals = append(vals, c15appliedValue(a))
		} else if cc := callCommon(a); cc != nil {
			vals = append(vals, cc.Args...)
		}
		for _, v := range vals {
			if v == nil {
				continue
			}
			// where does the properties' value become the one that is applied? where a merge chooses it over the
			// environment's value, or - when no such merge is involved - at the application itself
			defs := defsOf(v)
			merged := false
			for _, d := range defs {
				if c15derives(d.Val, c15anyEnv) {
					merged = true
				}
			}
			for _, d := range defs {
				if !c15derives(d.Val, c15anyProps) || c15derives(d.Val, c15anyEnv) {
					continue
				}
				t := a
				if merged && d.Block != nil && d.Block != a.Block() && len(d.Block.Instrs) > 0 && d.Block.Parent() == a.Parent() {
					t = d.Block.Instrs[len(d.Block.Instrs)-1]
				}
				targets = append(targets, t)
			}
		}
		for _, t := range targets {
			for _, e := range es {
				if e != t && c15pathCut(e, t, envAbsent) {
					return false, t
				}
			}
		}
	}
	return true, nil
}

func runC15R2(c *Ctx) {
	fl := c15newFlow(c, "C15.R2")
	if fl == nil {
		return
	}
	pf := fl.pf
	pfKey := fnKey(pf)
	isParse, isVisit, isVisitAll := c15flagCall("Parse"), c15flagCall("Visit"), c15flagCall("VisitAll")
	// 1. command line, then mark what it set, then the fallbacks
	okPV, nVisit := c15before(pf, isParse, isVisit, 0)
	okVA, nVisitAll := c15before(pf, isVisit, isVisitAll, 0)
	// a fallback value assigned outside the VisitAll pass (a loop over the keys of a source) must come after the marks
	// of the command line as well
	okVApply, _ := c15before(pf, isVisit, c15isApply, 0)
	ok := okPV && okVA && okVApply && nVisit > 0 && nVisitAll > 0 && c15mayFn(pf, isParse, 0)
	c.check("C15.R2", pfKey+"|command line, then mark, then fallbacks", pf.Pos(), ok,
		"the command line must be parsed first, the flags set there marked (Visit) and only then the fallback sources consulted (VisitAll, or any other place that assigns a fallback value); any other order lets the environment or the file override the command line")
	if !ok {
		return
	}
	// 2. the Visit callback marks
	marks, nV := true, 0
	var visitPos token.Pos
	eachInstrOf(fl.reg, func(_ *ssa.Function, i ssa.Instruction) {
		if !isVisit(i) {
			return
		}
		cc := callCommon(i)
		nV++
		visitPos = i.Pos()
		gs := c15funcsOf(cc.Args[len(cc.Args)-1])
		if len(gs) == 0 {
			marks = false
		}
		for _, g := range gs {
			if !c15mayFn(g, c15isMark, 0) {
				marks = false
			}
		}
	})
	c.check("C15.R2", pfKey+"|flags given on the command line are marked as set", visitPos, marks && nV > 0, "the Visit pass must record every flag the command line set")
	// 3. the fallback pass
	if len(fl.fbs) == 0 {
		c.undecided("C15.R2", pfKey+"|fallback callback", "the function handed to VisitAll does not resolve")
		return
	}
	fbKey := pfKey + "$fallback"
	var applies []ssa.Instruction
	nEnv, nProps := 0, 0
	eachInstrOf(fl.reg, func(f *ssa.Function, i ssa.Instruction) {
		if c15isEnvLookup(i) {
			nEnv++
		}
		if c15isPropsCall(i) {
			nProps++
		}
	})
	// every place of the region that assigns a value to a flag is a fallback assignment (the command line is applied
	// inside package flag): those of the VisitAll pass(es) and those of any other pass (a loop over the keys of the
	// properties after the VisitAll pass over the environment)
	inFallback := map[*ssa.Function]bool{}
	for _, f := range fl.fbReg {
		inFallback[f] = true
	}
	outer := false // some assignment is outside the VisitAll callbacks
	eachInstrOf(fl.reg, func(f *ssa.Function, i ssa.Instruction) {
		if c15isApply(i) {
			applies = append(applies, i)
			if !inFallback[f] {
				outer = true
			}
		}
	})
	if nEnv == 0 || nProps == 0 || len(applies) == 0 {
		c.check("C15.R2", fbKey+"|environment and properties both consulted", fl.fbs[0].Pos(), false, "a fallback source is missing, or no value is assigned through FlagSet.Set")
		return
	}
	// 3a. a flag that is already set is left alone
	notSet := func(_ ssa.Instruction, fs []Fact) bool {
		for _, f := range fs {
			if pos, isT := c15setTest(f.Cond, 0); isT && f.Truth != pos {
				return true
			}
		}
		return false
	}
	guarded := true
	guardPos := fl.fbs[0].Pos()
	for _, a := range applies {
		if !c15holdsAt(a, fl.sites, fl.stop, notSet, 0) {
			guarded, guardPos = false, a.Pos()
		}
	}
	c.check("C15.R2", fbKey+"|a flag that is already set is left alone", guardPos, guarded,
		"the fallback pass must do nothing for a flag that is already set: every assignment of a fallback value must be under the test that the flag is not marked, otherwise the environment or the properties file overrides the command line")
	// 3b. a value is applied exactly when a source supplies one, and whether it is applied does not depend on the value
	envApplied, propsApplied := false, false
	presOK, presPos, presWhy := true, fl.fbs[0].Pos(), ""
	for _, a := range applies {
		v := c15appliedValue(a)
		fromEnv, fromProps := c15derives(v, c15anyEnv), c15derives(v, c15anyProps)
		envApplied, propsApplied = envApplied || fromEnv, propsApplied || fromProps
		if !fromEnv && !fromProps {
			presOK, presPos, presWhy = false, a.Pos(), "the assigned value does not come from the environment or the properties"
			continue
		}
		// the presence bit must be that of the source(s) the value handed on at that place comes from
		present := func(at ssa.Instruction, fs []Fact) bool {
			needEnv, needProps := false, false
			if cc := callCommon(at); cc != nil {
				for _, arg := range cc.Args {
					needEnv = needEnv || c15derives(arg, c15anyEnv)
					needProps = needProps || c15derives(arg, c15anyProps)
				}
			}
			for _, f := range fs {
				if !f.Truth {
					continue
				}
				if e, p, isP := c15presence(f.Cond, 0); isP && (e || !needEnv) && (p || !needProps) {
					return true
				}
			}
			// a value looked up under a key taken from the source's own list of keys is present by construction
			if cc := callCommon(at); cc != nil && needProps && !needEnv {
				all := true
				for _, arg := range cc.Args {
					if c15derives(arg, c15propsValue) && !c15keyedBySource(arg) {
						all = false
					}
				}
				return all
			}
			return false
		}
		if !c15holdsAt(a, fl.sites, fl.stop, present, 0) {
			presOK, presPos, presWhy = false, a.Pos(), "the assignment is not under the test that the source has a value for the flag (the `ok` of the map lookup / of Properties.Get)"
		}
		for _, f := range c15factsChain(a, fl.sites, fl.stop) {
			if _, _, isP := c15presence(f.Cond, 0); isP {
				continue
			}
			if _, isT := c15setTest(f.Cond, 0); isT {
				continue
			}
			if c15derives(f.Cond, c15sourceValue) {
				presOK, presPos, presWhy = false, a.Pos(), "whether the value is assigned depends on the value itself: a value that is present but, e.g., empty is treated as absent, so `-x=` on the command line and `X=` in the environment or the file no longer mean the same"
			}
		}
	}
	if !envApplied || !propsApplied {
		presOK, presWhy = false, "values of only one fallback source are assigned"
	}
	c.check("C15.R2", fbKey+"|a source's value is assigned exactly when the source has one", presPos, presOK,
		"each fallback source supplies a value exactly when the key is present in it; the value must then be assigned through FlagSet.Set: "+presWhy)
	// 3c-f. in the function(s) where the sources are consulted
	seenCore := map[*ssa.Function]bool{}
	var cores []*ssa.Function
	for _, fb := range fl.fbs {
		if core := fl.core(fb); !seenCore[core] {
			seenCore[core] = true
			cores = append(cores, core)
		}
	}
	if outer && !seenCore[pf] {
		// fallback values are also assigned outside the VisitAll pass(es): ParseFlags itself is looked at in the same
		// way (its helpers are entered from the landmarks)
		seenCore[pf] = true
		cores = append(cores, pf)
	}
	orderMsg := "the environment must be consulted before the properties file (documented precedence); the properties lookup must not be able to run first"
	passOrder := false
	for _, core := range cores {
		if len(c15landmarks(core, c15isEnvLookup)) == 0 && len(c15landmarks(core, c15isPropsCall)) > 0 {
			// this pass consults the properties only: its place relative to the pass over the environment is decided in
			// ParseFlags (below)
			passOrder = true
		} else {
			c.check("C15.R2", fbKey+"|environment before properties", core.Pos(), fl.orderOK(core, 0), orderMsg)
		}
		okM, at := fl.markedOK(core, 0)
		pos := core.Pos()
		if at != nil {
			pos = at.Pos()
		}
		c.check("C15.R2", fbKey+"|a supplied value marks the flag as set", pos, okM,
			"when a fallback source supplies a value the flag must be recorded as set (the set-map of FlagSet, read by IsSet, means 'set by any source') on every path that assigns it, in whichever pass over the flags or over the keys of a source the assignment is made: otherwise the option does not take the same effect from every source - IsSet() reports it as not given and load() overwrites registry.consul.register.addr with ui.addr although the file or the environment set it")
		okS, at := fl.stopOK(core, 0)
		pos = core.Pos()
		if at != nil {
			pos = at.Pos()
		}
		c.check("C15.R2", fbKey+"|the first source that supplies a value ends the search", pos, okS,
			"after a value has been assigned no lower-priority source (a later prefix, the properties) may assign another one")
		okP, at := fl.precedenceOK(core, 0, false)
		pos = core.Pos()
		if at != nil {
			pos = at.Pos()
		}
		c.check("C15.R2", fbKey+"|properties only when the environment has no value", pos, okP,
			"the value of the properties file may become the assigned one only on paths on which the environment lookup reported no value")
	}
	// 3g. sources consulted through one dynamic call (an interface of the repository, a list of lookup functions) that
	// can reach the environment as well as the properties: the precedence is the order of the list the callee is taken
	// from, walked forwards, and the walk must end at the first source that reports a value
	eachInstrOf(fl.reg, func(f *ssa.Function, i ssa.Instruction) {
		cc := callCommon(i)
		if cc == nil {
			return
		}
		info := c15dyn(cc)
		if !info.both() {
			return
		}
		okL, whyL := fl.dynOrderOK(info)
		if os.Getenv("C15_DEBUG") != "" {
			fmt.Fprintf(os.Stderr, "DBG dyn %s fromList=%v lists=%d impls=%d: %s\n", c.Fset.Position(i.Pos()), info.fromList, len(info.lists), len(info.impls), whyL)
		}
		c.check("C15.R2", fbKey+"|environment before properties", i.Pos(), okL, orderMsg+" (the sources are consulted through one dynamic call, so their precedence is the order of the list they are taken from: "+whyL+")")
		c.check("C15.R2", fbKey+"|the first source that supplies a value ends the search", i.Pos(), fl.dynStopOK(i),
			"after a source of the list has reported a value no further source may be consulted: otherwise a lower-priority source (the properties) can replace the value of a higher-priority one (the environment)")
	})
	if passOrder {
		// separate passes: the pass over the environment marks what it assigns (above), the later pass leaves marked
		// flags alone (3a); what remains is that the properties' pass cannot run before the environment's
		c.check("C15.R2", fbKey+"|environment before properties", pf.Pos(), fl.passOrderOK(pf, 0), orderMsg+" (the sources are consulted in separate passes: the pass over the properties must follow the pass over the environment)")
	}
}

// ---- R3: names ------------------------------------------------------------------------------------------------------

// c15strSlices resolves a []string value to the literal(s) it can be: through parameters (to the arguments of the
// static callers), local variables, package-level variables, merges and helper results.
func (c *Ctx) c15strSlices(v ssa.Value, depth int, seen map[ssa.Value]bool) (lits [][]string, ok bool) {
	if v == nil || depth > 8 || seen[v] {
		return nil, false
	}
	seen[v] = true
	all := func(vs []ssa.Value) ([][]string, bool) {
		var out [][]string
		if len(vs) == 0 {
			return nil, false
		}
		for _, x := range vs {
			l, ok := c.c15strSlices(x, depth+1, seen)
			if !ok {
				return nil, false
			}
			out = append(out, l...)
		}
		return out, true
	}
	switch x := v.(type) {
	case *ssa.Const:
		if x.Value == nil {
			return [][]string{{}}, true
		}
	case *ssa.Slice:
		arr, isA := x.X.(*ssa.Alloc)
		if !isA || x.Low != nil || x.High != nil {
			return nil, false
		}
		at, isArr := arr.Type().(*types.Pointer).Elem().Underlying().(*types.Array)
		if !isArr {
			return nil, false
		}
		elems := make([]string, at.Len())
		for _, r := range *arr.Referrers() {
			ia, isIA := r.(*ssa.IndexAddr)
			if !isIA {
				continue
			}
			k, isK := constInt(ia.Index)
			if !isK || k < 0 || k >= at.Len() {
				return nil, false
			}
			for _, r2 := range *ia.Referrers() {
				if st, isSt := r2.(*ssa.Store); isSt && st.Addr == ia {
					s, isS := constString(st.Val)
					if !isS {
						return nil, false
					}
					elems[k] = s
				}
			}
		}
		return [][]string{elems}, true
	case *ssa.Phi:
		return all(x.Edges)
	case *ssa.ChangeType:
		return c.c15strSlices(x.X, depth+1, seen)
	case *ssa.Parameter:
		fn := x.Parent()
		var args []ssa.Value
		for k, p := range fn.Params {
			if p == x {
				for _, s := range gSites[fn] {
					if k < len(s.Common().Args) {
						args = append(args, s.Common().Args[k])
					}
				}
			}
		}
		return all(args)
	case *ssa.UnOp:
		if x.Op != token.MUL {
			return nil, false
		}
		if g, isG := x.X.(*ssa.Global); isG {
			var vals []ssa.Value
			for _, f := range c.AllFns {
				eachInstr(f, func(i ssa.Instruction) {
					if st, isSt := i.(*ssa.Store); isSt && st.Addr == g {
						vals = append(vals, st.Val)
					}
				})
			}
			if init := g.Pkg.Func("init"); init != nil {
				eachInstr(init, func(i ssa.Instruction) {
					if st, isSt := i.(*ssa.Store); isSt && st.Addr == g {
						vals = append(vals, st.Val)
					}
				})
			}
			return all(vals)
		}
		return all(c15stores(x.X))
	case *ssa.Call:
		var vals []ssa.Value
		for _, g := range c15callees(&x.Call) {
			eachInstr(g, func(i ssa.Instruction) {
				if r, isR := i.(*ssa.Return); isR && len(r.Results) == 1 {
					vals = append(vals, r.Results[0])
				}
			})
		}
		return all(vals)
	}
	return nil, false
}

// c15leaf is one operand of the concatenation that forms a name, with the case normalisation applied on the way.
type c15leaf struct {
	v    ssa.Value
	norm string // "upper", "lower" or ""
}

// c15flatten splits a string value into the operands of its concatenation, looking through strings.ToUpper /
// ToLower, local variables with one definition and helpers with one return (parameters are replaced by arguments).
func c15flatten(v ssa.Value, norm string, ctx []*ssa.Call, depth int) []c15leaf {
	if v == nil || depth > 12 {
		return []c15leaf{{v, norm}}
	}
	switch x := v.(type) {
	case *ssa.Const:
		if s, ok := constString(x); ok && s == "" {
			return nil
		}
	case *ssa.BinOp:
		if x.Op == token.ADD {
			return append(c15flatten(x.X, norm, ctx, depth+1), c15flatten(x.Y, norm, ctx, depth+1)...)
		}
	case *ssa.UnOp:
		if x.Op == token.MUL {
			if sv := c15stores(x.X); len(sv) == 1 {
				return c15flatten(sv[0], norm, ctx, depth+1)
			}
		}
	case *ssa.Parameter:
		if n := len(ctx); n > 0 {
			fn := x.Parent()
			for _, g := range c15callees(&ctx[n-1].Call) {
				if g == fn {
					for k, p := range fn.Params {
						if a := c15argAt(&ctx[n-1].Call, fn, k); p == x && a != nil {
							return c15flatten(a, norm, ctx[:n-1], depth+1)
						}
					}
				}
			}
		}
	case *ssa.Call:
		n := calleeName(&x.Call)
		if n == "strings.ToUpper" || n == "strings.ToLower" {
			k := "upper"
			if n == "strings.ToLower" {
				k = "lower"
			}
			if norm == "" {
				norm = k
			}
			return c15flatten(x.Call.Args[0], norm, ctx, depth+1)
		}
		if n == "fmt.Sprintf" || n == "strings.Join" {
			if parts, ok := c15concatCall(x); ok {
				var out []c15leaf
				for _, p := range parts {
					out = append(out, c15flatten(p, norm, ctx, depth+1)...)
				}
				return out
			}
		}
		if gs := c15callees(&x.Call); len(gs) == 1 {
			var rets []*ssa.Return
			eachInstr(gs[0], func(i ssa.Instruction) {
				if r, ok := i.(*ssa.Return); ok {
					rets = append(rets, r)
				}
			})
			if len(rets) == 1 && len(rets[0].Results) == 1 {
				return c15flatten(rets[0].Results[0], norm, append(append([]*ssa.Call{}, ctx...), x), depth+1)
			}
		}
	}
	return []c15leaf{{v, norm}}
}

// c15sliceElems: the values stored into the elements of a slice literal, in index order.
func c15sliceElems(v ssa.Value) ([]ssa.Value, bool) {
	sl, ok := v.(*ssa.Slice)
	if !ok {
		return nil, false
	}
	arr, ok := sl.X.(*ssa.Alloc)
	if !ok {
		return nil, false
	}
	at, ok := arr.Type().(*types.Pointer).Elem().Underlying().(*types.Array)
	if !ok {
		return nil, false
	}
	out := make([]ssa.Value, at.Len())
	for _, r := range *arr.Referrers() {
		ia, isIA := r.(*ssa.IndexAddr)
		if !isIA {
			continue
		}
		k, isK := constInt(ia.Index)
		if !isK || k < 0 || k >= at.Len() {
			return nil, false
		}
		for _, r2 := range *ia.Referrers() {
			if st, isSt := r2.(*ssa.Store); isSt && st.Addr == ia {
				out[k] = st.Val
			}
		}
	}
	for _, x := range out {
		if x == nil {
			return nil, false
		}
	}
	return out, true
}

// c15concatCall: the operands of a call that only concatenates them: fmt.Sprintf with a format of %s / %v verbs only,
// strings.Join(literal, "").
func c15concatCall(call *ssa.Call) ([]ssa.Value, bool) {
	strip := func(vs []ssa.Value) []ssa.Value {
		var out []ssa.Value
		for _, v := range vs {
			if mi, ok := v.(*ssa.MakeInterface); ok {
				v = mi.X
			}
			out = append(out, v)
		}
		return out
	}
	a := call.Call.Args
	switch calleeName(&call.Call) {
	case "fmt.Sprintf":
		if len(a) != 2 {
			return nil, false
		}
		f, ok := constString(a[0])
		if !ok || strings.Trim(strings.NewReplacer("%s", "", "%v", "").Replace(f), "") != "" {
			return nil, false
		}
		el, ok := c15sliceElems(a[1])
		return strip(el), ok
	case "strings.Join":
		if len(a) != 2 {
			return nil, false
		}
		if sep, ok := constString(a[1]); !ok || sep != "" {
			return nil, false
		}
		return c15sliceElems(a[0])
	}
	return nil, false
}

func c15isFlagName(v ssa.Value) bool {
	_, ok := fieldOf(v, "flag.Flag", "Name")
	return ok
}

// c15dotsToUnderscores: v is strings.Replace(x, ".", "_", <0) / strings.ReplaceAll(x, ".", "_"); returns x.
func c15dotsToUnderscores(v ssa.Value) (ssa.Value, bool) {
	call, ok := isCallTo(v, "strings.Replace", "strings.ReplaceAll")
	if !ok || len(call.Call.Args) < 3 {
		return nil, false
	}
	o, _ := constString(call.Call.Args[1])
	n, _ := constString(call.Call.Args[2])
	if o != "." || n != "_" {
		return nil, false
	}
	if len(call.Call.Args) == 4 {
		if k, isK := constInt(call.Call.Args[3]); !isK || k >= 0 {
			return nil, false
		}
	}
	return call.Call.Args[0], true
}

// derives: c15derives, where the parameter of a closure that is only called through a local variable derives from
// the arguments of those calls.
func (fl *c15flow) derives(v ssa.Value, pred func(ssa.Value) bool) bool {
	seen := map[ssa.Value]bool{}
	var p2 func(ssa.Value) bool
	p2 = func(x ssa.Value) bool {
		if pred(x) {
			return true
		}
		p, ok := x.(*ssa.Parameter)
		if !ok || seen[x] || len(gSites[p.Parent()]) > 0 {
			return false
		}
		seen[x] = true
		for k, q := range p.Parent().Params {
			if q != p {
				continue
			}
			for _, s := range fl.sites[p.Parent()] {
				if a := c15argAt(callCommon(s), p.Parent(), k); a != nil && c15derives(a, p2) {
					return true
				}
			}
		}
		return false
	}
	return c15derives(v, p2)
}

// c15countsDown: v is a loop counter that is decremented (i--, i -= k).
func c15countsDown(v ssa.Value) bool {
	seen := map[ssa.Value]bool{}
	var walk func(x ssa.Value, d int) bool
	walk = func(x ssa.Value, d int) bool {
		if x == nil || seen[x] || d > 6 {
			return false
		}
		seen[x] = true
		switch y := x.(type) {
		case *ssa.Phi:
			for _, e := range y.Edges {
				if walk(e, d+1) {
					return true
				}
			}
		case *ssa.BinOp:
			if k, ok := constInt(y.Y); ok {
				if _, isPhi := y.X.(*ssa.Phi); isPhi && ((y.Op == token.SUB && k > 0) || (y.Op == token.ADD && k < 0)) {
					return true
				}
			}
			return walk(y.X, d+1)
		}
		return false
	}
	return walk(v, 0)
}

func runC15R3(c *Ctx) {
	fl := c15newFlow(c, "C15.R3")
	if fl == nil {
		return
	}
	pf := fl.pf
	pfKey := fnKey(pf)
	// a. the prefixes handed to ParseFlags by the non-test callers
	nSites, okPfx := 0, true
	var pfxPos token.Pos
	why := ""
	for _, s := range gSites[pf] {
		args := s.Common().Args
		if len(args) < 4 {
			continue
		}
		nSites++
		pfxPos = s.Pos()
		lits, ok := c.c15strSlices(args[3], 0, map[ssa.Value]bool{})
		if !ok || len(lits) == 0 {
			okPfx, why = false, "the prefix list is not a literal the rule can resolve"
			continue
		}
		for _, l := range lits {
			if len(l) != 2 || l[0] != "FABIO_" || l[1] != "" {
				okPfx, why = false, "found "+strings.Join(l, ",")
			}
		}
	}
	if nSites == 0 {
		c.undecided("C15.R3", "anchor|callers of "+pfKey, "no call of ParseFlags in non-test code")
	} else {
		c.check("C15.R3", "config.Load|environment prefixes [\"FABIO_\", \"\"] in that order", pfxPos, okPfx, "the FABIO_-prefixed variable must win over the plain one: the prefixes must be passed as [\"FABIO_\", \"\"] ("+why+")")
	}
	// b. the environment map is keyed by the case-normalised, complete variable name
	mangled := func(x ssa.Value) bool {
		switch y := x.(type) {
		case *ssa.Slice:
			if y.Low != nil {
				if k, isK := constInt(y.Low); !isK || k != 0 {
					return true
				}
			}
		case *ssa.Call:
			switch calleeName(&y.Call) {
			case "strings.TrimPrefix", "strings.CutPrefix", "strings.TrimLeft", "strings.TrimLeftFunc", "strings.Replace", "strings.ReplaceAll", "strings.TrimSuffix", "strings.Trim":
				return true
			}
		}
		return false
	}
	keyNorm := ""
	nKeys, okKey := 0, true
	var keyPos token.Pos
	eachInstrOf(fl.reg, func(_ *ssa.Function, i ssa.Instruction) {
		mu, isMU := i.(*ssa.MapUpdate)
		if !isMU || !c15isEnvMap(mu.Map) {
			return
		}
		nKeys++
		keyPos = i.Pos()
		leaves := c15flatten(mu.Key, "", nil, 0)
		if len(leaves) != 1 || leaves[0].norm == "" || c15derives(leaves[0].v, mangled) {
			okKey = false
			return
		}
		if keyNorm != "" && keyNorm != leaves[0].norm {
			okKey = false
		}
		keyNorm = leaves[0].norm
	})
	c.check("C15.R3", pfKey+"|environment map keyed by the upper-cased name", keyPos, okKey && nKeys > 0,
		"environment variables are case-insensitive: the map must be keyed by strings.ToUpper of the complete variable name (prefix included, so that the prefixed and the plain variable stay apart)")
	// c. the names under which the map is consulted
	nLk, okName := 0, true
	var lkPos token.Pos
	whyName := ""
	eachInstrOf(fl.reg, func(_ *ssa.Function, i ssa.Instruction) {
		lk, isLk := i.(*ssa.Lookup)
		if !isLk || !c15isEnvMap(lk.X) {
			return
		}
		nLk++
		lkPos = i.Pos()
		leaves := c15flatten(lk.Index, "", nil, 0)
		if len(leaves) != 2 {
			okName, whyName = false, "the name is not the concatenation of a prefix and the flag name"
			return
		}
		pfx, name := leaves[0], leaves[1]
		if pfx.norm == "" || name.norm == "" || pfx.norm != name.norm || (keyNorm != "" && pfx.norm != keyNorm) {
			okName, whyName = false, "prefix and name are not both normalised to the letter case of the map keys"
			return
		}
		src, isRep := c15dotsToUnderscores(name.v)
		if !isRep || !fl.derives(src, c15isFlagName) {
			okName, whyName = false, "the second part is not the flag name with '.' replaced by '_'"
			return
		}
		fromSlice := fl.derives(pfx.v, func(x ssa.Value) bool {
			ia, ok := x.(*ssa.IndexAddr)
			return ok && typeStr(ia.X.Type().Underlying()) == "[]string"
		})
		if !fromSlice || fl.derives(pfx.v, c15isFlagName) {
			okName, whyName = false, "the first part is not an element of the prefix list"
			return
		}
		// the prefixes are tried in the order of the list: the index into it must not count down
		fl.derives(pfx.v, func(x ssa.Value) bool {
			ia, ok := x.(*ssa.IndexAddr)
			if ok && typeStr(ia.X.Type().Underlying()) == "[]string" && c15countsDown(ia.Index) {
				okName, whyName = false, "the prefix list is walked backwards: the plain variable is tried before the prefixed one"
			}
			return false
		})
	})
	c.check("C15.R3", pfKey+"$fallback|environment name is ToUpper(prefix + name with '.' -> '_')", lkPos, okName && nLk > 0,
		"the environment variable of option a.b.c must be looked up as ToUpper(prefix + \"a_b_c\") against the upper-cased map; otherwise options given in the environment (in any letter case) are not found, or the prefixed and the plain variable are not told apart ("+whyName+")")
}
