package main

// Values carried in struct fields between construction and use (round 2 of the hardening, DESIGN 11.8): a refactoring
// that replaces a constructor function and its closure by a small type with methods (`upstream{target, tr, flush}` with
// `handler()` and `direct(req)`) moves what used to be parameters and captured variables into fields of a struct of the
// repository. The rules of C07 that ask "where does this value come from" therefore read through such fields:
// field-based and object-insensitive - a read of field F of carrier type T stands for every value stored to field F of
// any T in the repository. That is a may-analysis: rules of the form "EVERY source is ..." get stricter by it, never
// laxer.
//
// Not every repository struct is a carrier: the rules name fields of the configuration (config.*) and of the routing
// table (route.*) as the SOURCES of values; reads of those stay leaves.

import (
	"go/token"
	"go/types"
	"strconv"
	"strings"

	"golang.org/x/tools/go/ssa"
)

type c07fieldIndex struct {
	stores map[string][]*ssa.Store // carrier field -> stores to it (through FieldAddr), anywhere in the repository
	loads  map[string][]ssa.Value  // carrier field -> reads of it (loads through FieldAddr, Field of a struct value)
}

// c07fields is rebuilt by runC07 for every load of the program (clean tree, overlay mutants).
var c07fields = &c07fieldIndex{stores: map[string][]*ssa.Store{}, loads: map[string][]ssa.Value{}}

// c07carrierKey: the key of field idx of the struct type behind t (pointers stripped) when that type is a carrier: a
// named struct declared in the repository outside the packages whose fields the rules treat as sources.
func c07carrierKey(t types.Type, idx int) (string, bool) {
	for {
		p, ok := t.Underlying().(*types.Pointer)
		if !ok {
			break
		}
		t = p.Elem()
	}
	if a, ok := t.(*types.Alias); ok {
		t = types.Unalias(a)
	}
	n, ok := t.(*types.Named)
	if !ok || n.Obj().Pkg() == nil {
		return "", false
	}
	if _, isStruct := n.Underlying().(*types.Struct); !isStruct {
		return "", false
	}
	path := n.Obj().Pkg().Path()
	if !strings.HasPrefix(path, repoMod) {
		return "", false
	}
	switch n.Obj().Pkg().Name() {
	case "config", "route":
		return "", false // sources: configuration and routing table
	}
	return path + "." + n.Obj().Name() + "#" + strconv.Itoa(idx), true
}

// c07fieldRead: v reads a field of a carrier struct (`x.f` with x a pointer or a struct value).
func c07fieldRead(v ssa.Value) (key string, ok bool) {
	switch x := v.(type) {
	case *ssa.Field:
		return c07carrierKey(x.X.Type(), x.Field)
	case *ssa.UnOp:
		if fa, isFA := x.X.(*ssa.FieldAddr); isFA && x.Op == token.MUL {
			return c07carrierKey(fa.X.Type(), fa.Field)
		}
	}
	return "", false
}

func c07buildFields(fns []*ssa.Function) {
	idx := &c07fieldIndex{stores: map[string][]*ssa.Store{}, loads: map[string][]ssa.Value{}}
	eachInstrOf(fns, func(_ *ssa.Function, i ssa.Instruction) {
		if st, ok := i.(*ssa.Store); ok {
			if fa, ok := st.Addr.(*ssa.FieldAddr); ok {
				if k, ok := c07carrierKey(fa.X.Type(), fa.Field); ok {
					idx.stores[k] = append(idx.stores[k], st)
				}
			}
			return
		}
		if v, ok := i.(ssa.Value); ok {
			if k, ok := c07fieldRead(v); ok {
				idx.loads[k] = append(idx.loads[k], v)
			}
		}
	})
	c07fields = idx
	// tables may be filled by the package initialisers (synthetic, not among fns)
	c07tableFns = append([]*ssa.Function{}, fns...)
	seen := map[*ssa.Package]bool{}
	for _, f := range fns {
		if f.Pkg != nil && !seen[f.Pkg] {
			seen[f.Pkg] = true
			if in := f.Pkg.Func("init"); in != nil && len(in.Blocks) > 0 {
				c07tableFns = append(c07tableFns, in)
			}
		}
	}
}

// c07fieldSources: the values stored to the carrier field that v reads (nil when v is not such a read or nothing is
// stored to the field by the repository: then the read itself is the leaf).
func c07fieldSources(v ssa.Value) []*ssa.Store {
	k, ok := c07fieldRead(v)
	if !ok {
		return nil
	}
	return c07fields.stores[k]
}

// c07carrierOf: the type of v (pointers stripped) is a carrier struct one of whose fields holds a value of the set S
// (somewhere in the repository a member of S is stored into that field).
func c07carrierOf(t types.Type, S map[ssa.Value]bool) bool {
	for {
		p, ok := t.Underlying().(*types.Pointer)
		if !ok {
			break
		}
		t = p.Elem()
	}
	st, ok := t.Underlying().(*types.Struct)
	if !ok {
		return false
	}
	for k := 0; k < st.NumFields(); k++ {
		key, ok := c07carrierKey(t, k)
		if !ok {
			return false
		}
		for _, s := range c07fields.stores[key] {
			if S[s.Val] {
				return true
			}
		}
	}
	return false
}

// c07funcsOf: funcsOf, and through carrier fields: a function value that was put into a field of a struct
// (`upstream{director: f}` ... `Director: u.director`) denotes whatever is stored to that field.
func c07funcsOf(v ssa.Value) []*ssa.Function {
	var out []*ssa.Function
	seenFn := map[*ssa.Function]bool{}
	seen := map[ssa.Value]bool{}
	var walk func(x ssa.Value, d int)
	walk = func(x ssa.Value, d int) {
		if x == nil || seen[x] || d > 6 {
			return
		}
		seen[x] = true
		for _, f := range funcsOf(x) {
			if !seenFn[f] {
				seenFn[f] = true
				out = append(out, f)
			}
		}
		switch y := x.(type) {
		case *ssa.Phi:
			for _, e := range y.Edges {
				walk(e, d+1)
			}
		case *ssa.ChangeType:
			walk(y.X, d+1)
		case *ssa.Parameter:
			// a helper that receives the function: what its static callers pass
			fn := y.Parent()
			if fn == nil || !c07allCallsKnown(fn) {
				return
			}
			for k, p := range fn.Params {
				if p != y {
					continue
				}
				for _, s := range gSites[fn] {
					if cc := s.Common(); k < len(cc.Args) {
						walk(cc.Args[k], d+1)
					}
				}
			}
		case *ssa.Call:
			if sc := y.Call.StaticCallee(); sc != nil && isRepoFn(sc) {
				eachInstr(sc, func(i ssa.Instruction) {
					if r, ok := i.(*ssa.Return); ok && len(r.Results) == 1 {
						walk(r.Results[0], d+1)
					}
				})
			}
		}
		for _, st := range c07fieldSources(x) {
			walk(st.Val, d+1)
		}
	}
	walk(v, 0)
	return out
}

// c07comesFrom: some value in the backward slice of v satisfies pred. Like the shared derives, but field-sensitive on
// carrier structs: `a.page` comes from what is stored to the field page, not from whatever was put into any field of
// the struct (derives walks from a struct to all of its fields, which lets `io.WriteString(a.w, "fixed")` pass as "derives
// from noroute.GetHTML()" because a.page does).
func c07comesFrom(v ssa.Value, pred func(ssa.Value) bool) bool {
	seen := map[ssa.Value]bool{}
	var walk func(v ssa.Value, d int) bool
	any := func(d int, vs ...ssa.Value) bool {
		for _, x := range vs {
			if walk(x, d+1) {
				return true
			}
		}
		return false
	}
	walk = func(v ssa.Value, d int) bool {
		if v == nil || seen[v] || d > 32 {
			return false
		}
		seen[v] = true
		if pred(v) {
			return true
		}
		if _, isCarrier := c07fieldRead(v); isCarrier {
			for _, st := range c07fieldSources(v) {
				if walk(st.Val, d+1) {
					return true
				}
			}
			return false
		}
		switch x := v.(type) {
		case *ssa.Parameter:
			fn := x.Parent()
			if fn == nil || len(gSites[fn]) > c07maxSites {
				return false
			}
			for k, p := range fn.Params {
				if p != x {
					continue
				}
				for _, s := range gSites[fn] {
					if cc := s.Common(); k < len(cc.Args) && walk(cc.Args[k], d+1) {
						return true
					}
				}
			}
		case *ssa.FreeVar:
			fn := x.Parent()
			if fn == nil || fn.Parent() == nil {
				return false
			}
			found := false
			for k, fv := range fn.FreeVars {
				if fv != x {
					continue
				}
				eachInstr(fn.Parent(), func(i ssa.Instruction) {
					if mc, ok := i.(*ssa.MakeClosure); ok && mc.Fn == fn && k < len(mc.Bindings) && !found && walk(mc.Bindings[k], d+1) {
						found = true
					}
				})
			}
			return found
		case *ssa.Phi:
			return any(d, x.Edges...)
		case *ssa.UnOp:
			if x.Op == token.MUL {
				if a, ok := x.X.(*ssa.Alloc); ok && a.Referrers() != nil {
					for _, r := range *a.Referrers() {
						if st, ok := r.(*ssa.Store); ok && st.Addr == a && walk(st.Val, d+1) {
							return true
						}
					}
				}
				if fa, ok := x.X.(*ssa.FieldAddr); ok {
					// a field of a struct that is not a carrier (url.URL literal ...): stores to the same field of a local
					if a, ok := fa.X.(*ssa.Alloc); ok && a.Referrers() != nil {
						for _, r := range *a.Referrers() {
							if fa2, ok := r.(*ssa.FieldAddr); ok && fa2.Field == fa.Field && fa2.Referrers() != nil {
								for _, r2 := range *fa2.Referrers() {
									if st, ok := r2.(*ssa.Store); ok && st.Addr == fa2 && walk(st.Val, d+1) {
										return true
									}
								}
							}
						}
					}
				}
			}
			return walk(x.X, d+1)
		case *ssa.BinOp:
			return any(d, x.X, x.Y)
		case *ssa.Convert:
			return walk(x.X, d+1)
		case *ssa.ChangeType:
			return walk(x.X, d+1)
		case *ssa.ChangeInterface:
			return walk(x.X, d+1)
		case *ssa.MakeInterface:
			return walk(x.X, d+1)
		case *ssa.TypeAssert:
			return walk(x.X, d+1)
		case *ssa.Extract:
			return walk(x.Tuple, d+1)
		case *ssa.Next:
			return walk(x.Iter, d+1)
		case *ssa.Range:
			return walk(x.X, d+1)
		case *ssa.FieldAddr:
			return walk(x.X, d+1)
		case *ssa.Field:
			return walk(x.X, d+1)
		case *ssa.IndexAddr:
			return any(d, x.X, x.Index)
		case *ssa.Index:
			return any(d, x.X, x.Index)
		case *ssa.Lookup:
			return any(d, x.X, x.Index)
		case *ssa.Slice:
			return walk(x.X, d+1)
		case *ssa.Call:
			n := calleeName(&x.Call)
			if isTransparent(n) || strings.HasPrefix(n, "builtin.") {
				if x.Call.IsInvoke() && walk(x.Call.Value, d+1) {
					return true
				}
				return any(d, x.Call.Args...)
			}
			if sc := x.Call.StaticCallee(); sc != nil && isRepoFn(sc) && len(sc.Blocks) > 0 {
				found := false
				eachInstr(sc, func(i ssa.Instruction) {
					if r, ok := i.(*ssa.Return); ok && !found && any(d, r.Results...) {
						found = true
					}
				})
				return found
			}
		}
		return false
	}
	return walk(v, 0)
}

// ---- tables ---------------------------------------------------------------------------------------------------------

// c07allFnsAndInits: the functions in which a table can be filled (set by c07buildFields).
var c07tableFns []*ssa.Function

// c07chain: addr as a path of element / field steps over a root value: IndexAddr contributes -1, FieldAddr its index.
func c07chain(addr ssa.Value) (root ssa.Value, path []int) {
	for {
		switch x := addr.(type) {
		case *ssa.IndexAddr:
			path = append(path, -1)
			addr = x.X
			continue
		case *ssa.FieldAddr:
			path = append(path, x.Field)
			addr = x.X
			continue
		case *ssa.Slice:
			addr = x.X
			continue
		}
		return addr, path
	}
}

func c07samePath(a, b []int) bool {
	if len(a) != len(b) {
		return false
	}
	for k := range a {
		if a[k] != b[k] {
			return false
		}
	}
	return true
}

// c07tableSources: v reads an element (or a field of an element) of a table - a slice / array literal that is a local
// of the function or the initial value of a package-level variable (`for _, name := range managed { ... }`,
// `for _, d := range []struct{ name, value string }{...} { d.name }`): the values stored at that position of any
// element. Copies of whole structs (the element built in a temporary, the range variable) are followed. ok is false
// when v is no such read or the table cannot be enumerated (then the read stays a leaf).
func c07tableSources(v ssa.Value) (vals []ssa.Value, ok bool) {
	// fields of an element that was copied out as a whole
	var outer []int
	for {
		f, isField := v.(*ssa.Field)
		if !isField {
			break
		}
		outer = append(outer, f.Field)
		v = f.X
	}
	ld, isLoad := v.(*ssa.UnOp)
	if !isLoad || ld.Op != token.MUL {
		return nil, false
	}
	root, path := c07chain(ld.X)
	path = append(outer, path...)
	crossed := false
	vals, ok = c07pathSources(root, path, true, &crossed, 0)
	return vals, ok && crossed && len(vals) > 0
}

// c07pathSources: the values stored at `path` below root (a local or the value of a package-level variable).
// *crossed is set when an element step (a table) was passed on the way.
func c07pathSources(root ssa.Value, path []int, top bool, crossed *bool, depth int) (vals []ssa.Value, ok bool) {
	if depth > 5 {
		return nil, false
	}
	hasIndex := false
	for _, p := range path {
		if p == -1 {
			hasIndex = true
		}
	}
	var arrays []*ssa.Alloc
	var global *ssa.Global
	switch r := root.(type) {
	case *ssa.Alloc:
		arrays = append(arrays, r)
	case *ssa.UnOp:
		g, isG := r.X.(*ssa.Global)
		if r.Op != token.MUL || !isG || !hasIndex {
			return nil, false
		}
		global = g
		// the arrays the variable is set to (normally one: its initialiser)
		bad := false
		eachInstrOf(c07tableFns, func(_ *ssa.Function, i ssa.Instruction) {
			if st, isSt := i.(*ssa.Store); isSt && st.Addr == ssa.Value(g) {
				if a, _ := c07chain(st.Val); a != nil {
					if al, isA := a.(*ssa.Alloc); isA {
						arrays = append(arrays, al)
						return
					}
				}
				bad = true // set to something that is not a literal
			}
		})
		if bad {
			return nil, false
		}
	default:
		return nil, false
	}
	if len(arrays) == 0 {
		return nil, false
	}
	if hasIndex {
		*crossed = true
	}
	isRoot := func(r2 ssa.Value) bool {
		for _, a := range arrays {
			if r2 == ssa.Value(a) {
				return true
			}
		}
		if u, isU := r2.(*ssa.UnOp); isU && global != nil && u.Op == token.MUL && u.X == ssa.Value(global) {
			return true
		}
		return false
	}
	scan := c07tableFns
	if global == nil {
		scan = []*ssa.Function{arrays[0].Parent()}
	}
	ok = true
	direct := 0
	eachInstrOf(scan, func(_ *ssa.Function, i ssa.Instruction) {
		st, isSt := i.(*ssa.Store)
		if !isSt || !ok {
			return
		}
		r2, p2 := c07chain(st.Addr)
		if !isRoot(r2) || len(p2) > len(path) || !c07samePath(path[len(path)-len(p2):], p2) {
			return
		}
		if len(p2) == len(path) {
			direct++
			vals = append(vals, st.Val)
			return
		}
		// a store of a whole struct that contains the position: the same position of the struct it was copied from
		src, isLd := st.Val.(*ssa.UnOp)
		if !isLd || src.Op != token.MUL {
			ok = false
			return
		}
		r3, p3 := c07chain(src.X)
		more, ok3 := c07pathSources(r3, append(append([]int{}, path[:len(path)-len(p2)]...), p3...), false, crossed, depth+1)
		if !ok3 {
			ok = false
			return
		}
		vals = append(vals, more...)
	})
	if top && !hasIndex && direct > 0 {
		// a plain local struct that is written field by field: its reads are flow-sensitive, not a table
		return nil, false
	}
	return vals, ok
}

// c07mapKeys: v is the key variable of `for k := range m` where m is a map literal of the function or the initial value
// of a package-level variable that is assigned nowhere else: the keys of the literal.
func c07mapKeys(v *ssa.Extract) (keys []ssa.Value, ok bool) {
	nx, isNext := v.Tuple.(*ssa.Next)
	if !isNext || v.Index != 1 || nx.IsString {
		return nil, false
	}
	rg, isRange := nx.Iter.(*ssa.Range)
	if !isRange {
		return nil, false
	}
	var maps []*ssa.MakeMap
	switch m := rg.X.(type) {
	case *ssa.MakeMap:
		maps = append(maps, m)
	case *ssa.UnOp:
		g, isG := m.X.(*ssa.Global)
		if m.Op != token.MUL || !isG {
			return nil, false
		}
		bad := false
		eachInstrOf(c07tableFns, func(_ *ssa.Function, i ssa.Instruction) {
			if st, isSt := i.(*ssa.Store); isSt && st.Addr == ssa.Value(g) {
				if mm, isMM := st.Val.(*ssa.MakeMap); isMM {
					maps = append(maps, mm)
				} else {
					bad = true
				}
			}
		})
		if bad {
			return nil, false
		}
		// entries added later through the variable
		eachInstrOf(c07tableFns, func(_ *ssa.Function, i ssa.Instruction) {
			if mu, isMU := i.(*ssa.MapUpdate); isMU {
				if ld, isLd := mu.Map.(*ssa.UnOp); isLd && ld.Op == token.MUL && ld.X == ssa.Value(g) {
					keys = append(keys, mu.Key)
				}
			}
		})
	default:
		return nil, false
	}
	for _, mm := range maps {
		if mm.Referrers() == nil {
			continue
		}
		for _, r := range *mm.Referrers() {
			switch x := r.(type) {
			case *ssa.MapUpdate:
				if x.Map == ssa.Value(mm) {
					keys = append(keys, x.Key)
				}
			case *ssa.Range, *ssa.Lookup, *ssa.Store, *ssa.DebugRef:
			default:
				if _, isCall := r.(ssa.CallInstruction); isCall {
					if cc := callCommon(r); cc != nil && strings.HasPrefix(calleeName(cc), "builtin.") {
						continue // len, delete
					}
				}
				return nil, false // the map is handed to something that may add keys
			}
		}
	}
	return keys, len(keys) > 0
}
