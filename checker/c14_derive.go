package main

// c14derives: C14's own backward value slice. It is a variant of derives (ssahelp.go, shared, read-only) with the
// differences the rules of C14 need in order not to depend on how the generator is cut into functions:
//
//   - result-index sensitive: `route, opts, ok := helper(...)`; the slice of `opts` follows the 2nd result of every
//     return of the helper only (derives follows all results, so "opts does not pass through os.Expand" could not be
//     asked from the caller's side);
//   - field sensitive for locally built structs (and structs returned by repository helpers): a load of x.F follows the
//     stores to field F only;
//   - knows strings.Builder / bytes.Buffer (String() derives from everything written), map literals (a lookup derives
//     from the inserted keys and values), range loops, variables captured and assigned by closures, calls of function
//     values that resolve to repository functions (funcsOf), cmp.Or / slices / os.Expand as transparent calls.
//
// pred is called on every visited value; returning true stops the walk. A pred that always returns false therefore
// enumerates the whole slice (used to collect "the functions that contribute to a command").

import (
	"go/token"
	"go/types"
	"strings"

	"golang.org/x/tools/go/ssa"
)

// c14maxHops: interprocedural steps of one walk (helper results, helper parameters, captured variables). derives uses
// 3; a generator cut into command / tag / expansion helpers needs more.
const c14maxHops = 7

var c14transparent = []string{"cmp.Or", "slices.", "maps.", "os.Expand", "unicode.", "unicode/utf8.", "net/netip.", "(net/netip.", "net/url.", "(*net/url.URL).", "(net/url.URL).", "path/filepath.", "html.", "net.ParseIP", "(net.IP).String"}

func c14isTransparent(name string) bool {
	if isTransparent(name) || strings.HasPrefix(name, "builtin.") {
		return true
	}
	name = typeArgs.ReplaceAllString(name, "")
	for _, p := range c14transparent {
		if strings.HasPrefix(name, p) {
			return true
		}
	}
	return false
}

// c14isBuilderRead: x.String() / x.Bytes() of a strings.Builder or bytes.Buffer.
func c14isBuilderRead(name string) bool {
	switch name {
	case "(*strings.Builder).String", "(*bytes.Buffer).String", "(*bytes.Buffer).Bytes":
		return true
	}
	return false
}

func c14derives(v ssa.Value, pred func(ssa.Value) bool) bool {
	type key struct {
		v   ssa.Value
		ctx ssa.CallInstruction
		fld int // 0: the value itself; k+1: field k of the struct the value denotes / points to
	}
	seen := map[key]bool{}
	hops := 0
	// the calls the walk has descended through: a parameter of frame.fn stands for the argument at frame.call (the
	// callee is recorded because a call of a function value / an interface method has no static callee to compare with)
	type frame struct {
		call ssa.CallInstruction
		fn   *ssa.Function
	}
	var stack []frame
	topFrame := func() *frame {
		if len(stack) > 0 {
			return &stack[len(stack)-1]
		}
		return nil
	}
	top := func() ssa.CallInstruction {
		if len(stack) > 0 {
			return stack[len(stack)-1].call
		}
		return nil
	}
	var walk func(v ssa.Value) bool
	var walkField func(base ssa.Value, idx int) bool

	// args maps a parameter to the arguments it can stand for (context sensitive as in derives) and applies f.
	params := func(x *ssa.Parameter, f func(ssa.Value) bool) bool {
		fn := x.Parent()
		sites := gSites[fn]
		t := topFrame()
		if fn != nil && t == nil && len(sites) == 0 && fn.Parent() != nil && hops < c14maxHops {
			// the body of a range-over-func loop: `for o := range strings.FieldsSeq(s)` hands the loop variable to a
			// synthetic closure that is passed to the iterator; the variable derives from the iterator's source
			hops++
			defer func() { hops-- }()
			found := false
			eachInstr(fn.Parent(), func(i ssa.Instruction) {
				mc, ok := i.(*ssa.MakeClosure)
				if !ok || mc.Fn != fn || mc.Referrers() == nil || found {
					return
				}
				for _, r := range *mc.Referrers() {
					call, ok := r.(*ssa.Call)
					if !ok || call.Call.IsInvoke() {
						continue
					}
					if seq, ok := call.Call.Value.(*ssa.Call); ok && c14isTransparent(calleeName(&seq.Call)) && f(seq) {
						found = true
					}
				}
			})
			if found {
				return true
			}
		}
		if fn != nil && t == nil {
			// a function that is (also) called as a value or through an interface: the call sites by type
			sites = c14sitesOf(fn)
		}
		if fn == nil || (t == nil && (len(sites) == 0 || len(sites) > maxHelperSites || hops >= c14maxHops)) {
			return false
		}
		idx := -1
		for k, p := range fn.Params {
			if p == x {
				idx = k
			}
		}
		if idx < 0 {
			return false
		}
		if t != nil && t.fn == fn {
			fr := *t
			stack = stack[:len(stack)-1]
			defer func() { stack = append(stack, fr) }()
			a := c14argFor(fr.call, fn, idx)
			return a != nil && f(a)
		}
		if t != nil {
			return false
		}
		hops++
		defer func() { hops-- }()
		for _, s := range sites {
			if a := c14argFor(s, fn, idx); a != nil && f(a) {
				return true
			}
		}
		return false
	}
	// freevar maps a captured variable to its binding in the enclosing function.
	freevar := func(x *ssa.FreeVar, f func(ssa.Value) bool) bool {
		fn := x.Parent()
		if fn == nil || fn.Parent() == nil || hops >= c14maxHops {
			return false
		}
		idx := -1
		for k, fv := range fn.FreeVars {
			if fv == x {
				idx = k
			}
		}
		if idx < 0 {
			return false
		}
		hops++
		defer func() { hops-- }()
		found := false
		eachInstr(fn.Parent(), func(i ssa.Instruction) {
			if mc, ok := i.(*ssa.MakeClosure); ok && mc.Fn == fn && idx < len(mc.Bindings) && !found {
				if f(mc.Bindings[idx]) {
					found = true
				}
			}
		})
		return found
	}
	// results descends into the returns of a repository function called by call (result idx only; idx<0: all).
	results := func(call ssa.CallInstruction, sc *ssa.Function, idx int, f func(ssa.Value) bool) bool {
		if sc == nil || !isRepoFn(sc) || len(sc.Blocks) == 0 || hops >= c14maxHops {
			return false
		}
		hops++
		stack = append(stack, frame{call, sc})
		defer func() { hops--; stack = stack[:len(stack)-1] }()
		if c14enter != nil {
			c14enter(sc)
		}
		found := false
		eachInstr(sc, func(i ssa.Instruction) {
			r, ok := i.(*ssa.Return)
			if !ok || found {
				return
			}
			for k, res := range r.Results {
				if (idx < 0 || k == idx) && f(res) {
					found = true
					return
				}
			}
		})
		return found
	}
	// closureStores: the stores closures perform on a captured local cell.
	closureStores := func(a *ssa.Alloc, f func(ssa.Value) bool) bool {
		refs := a.Referrers()
		if refs == nil {
			return false
		}
		for _, r := range *refs {
			mc, ok := r.(*ssa.MakeClosure)
			if !ok {
				continue
			}
			fn, ok := mc.Fn.(*ssa.Function)
			if !ok {
				continue
			}
			for k, b := range mc.Bindings {
				if b != a || k >= len(fn.FreeVars) {
					continue
				}
				if fr := fn.FreeVars[k].Referrers(); fr != nil {
					for _, r2 := range *fr {
						if st, ok := r2.(*ssa.Store); ok && st.Addr == fn.FreeVars[k] && f(st.Val) {
							return true
						}
					}
				}
			}
		}
		return false
	}
	calleesOf := func(cc *ssa.CallCommon) []*ssa.Function {
		return c14callees(cc)
	}
	// mutations: what the repository functions that receive the address `addr` (a locally built struct handed to
	// `apply(s, ...)`, `s.set(...)`, a handler taken from a table) store through it - into field idx (idx < 0: anywhere).
	var mutations func(addr ssa.Value, idx int, f func(ssa.Value) bool, d int) bool
	mutations = func(addr ssa.Value, idx int, f func(ssa.Value) bool, d int) bool {
		refs := addr.Referrers()
		if refs == nil || d > 2 || hops >= c14maxHops {
			return false
		}
		for _, r := range *refs {
			ci, ok := r.(ssa.CallInstruction)
			if !ok {
				continue
			}
			if _, isGo := ci.(*ssa.Go); isGo {
				continue
			}
			cc := ci.Common()
			if sc := cc.StaticCallee(); sc != nil && !isRepoFn(sc) {
				continue
			}
			for _, g := range calleesOf(cc) {
				if g == nil || !isRepoFn(g) || len(g.Blocks) == 0 {
					continue
				}
				for k, p := range g.Params {
					if c14argFor(ci, g, k) != addr || p.Referrers() == nil {
						continue
					}
					hops++
					stack = append(stack, frame{ci, g})
					if c14enter != nil {
						c14enter(g)
					}
					found := false
					for _, pr := range *p.Referrers() {
						switch y := pr.(type) {
						case *ssa.FieldAddr:
							if idx >= 0 && y.Field != idx {
								continue
							}
							for _, r2 := range *y.Referrers() {
								if st, ok := r2.(*ssa.Store); ok && st.Addr == y && f(st.Val) {
									found = true
								}
							}
						case *ssa.Store:
							if y.Addr == p && idx < 0 && f(y.Val) {
								found = true
							}
						}
						if found {
							break
						}
					}
					if !found && mutations(p, idx, f, d+1) {
						found = true
					}
					stack = stack[:len(stack)-1]
					hops--
					if found {
						return true
					}
				}
			}
		}
		return false
	}
	// addrStores: the values stored through addresses computed from base (fields of elements of a literal table).
	var addrStores func(base ssa.Value, f func(ssa.Value) bool, d int) bool
	addrStores = func(base ssa.Value, f func(ssa.Value) bool, d int) bool {
		refs := base.Referrers()
		if refs == nil || d > 3 {
			return false
		}
		for _, r := range *refs {
			switch y := r.(type) {
			case *ssa.FieldAddr:
				if y.X != base {
					continue
				}
			case *ssa.IndexAddr:
				if y.X != base {
					continue
				}
			default:
				continue
			}
			a := r.(ssa.Value)
			for _, r2 := range *a.Referrers() {
				if st, ok := r2.(*ssa.Store); ok && st.Addr == a && f(st.Val) {
					return true
				}
			}
			if addrStores(a, f, d+1) {
				return true
			}
		}
		return false
	}

	walk = func(v ssa.Value) bool {
		if v == nil {
			return false
		}
		k := key{v, top(), 0}
		if seen[k] {
			return false
		}
		seen[k] = true
		if pred(v) {
			return true
		}
		switch x := v.(type) {
		case *ssa.Parameter:
			return params(x, walk)
		case *ssa.FreeVar:
			return freevar(x, walk)
		case *ssa.Phi:
			for _, e := range x.Edges {
				if walk(e) {
					return true
				}
			}
		case *ssa.UnOp:
			if x.Op != token.MUL {
				return walk(x.X)
			}
			switch a := x.X.(type) {
			case *ssa.FieldAddr:
				return walkField(a.X, a.Field)
			case *ssa.FreeVar:
				// a captured variable: what this closure assigns to it, and what the enclosing function does
				if fr := a.Referrers(); fr != nil {
					for _, r := range *fr {
						if st, ok := r.(*ssa.Store); ok && st.Addr == a && walk(st.Val) {
							return true
						}
					}
				}
				return walk(a)
			}
			return walk(x.X)
		case *ssa.Alloc:
			if refs := x.Referrers(); refs != nil {
				for _, r := range *refs {
					switch y := r.(type) {
					case *ssa.Store:
						if y.Addr == x && walk(y.Val) {
							return true
						}
					}
				}
			}
			if addrStores(x, walk, 0) || mutations(x, -1, walk, 0) {
				return true
			}
			return closureStores(x, walk)
		case *ssa.Global:
			// a package-level variable (a table of options, schemes, builders): what is assigned to it anywhere
			for _, st := range gGlobalStores[x] {
				if walk(st.Val) {
					return true
				}
			}
		case *ssa.MakeMap:
			if refs := x.Referrers(); refs != nil {
				for _, r := range *refs {
					if mu, ok := r.(*ssa.MapUpdate); ok && mu.Map == x && (walk(mu.Key) || walk(mu.Value)) {
						return true
					}
				}
			}
		case *ssa.BinOp:
			return walk(x.X) || walk(x.Y)
		case *ssa.Convert:
			return walk(x.X)
		case *ssa.ChangeType:
			return walk(x.X)
		case *ssa.ChangeInterface:
			return walk(x.X)
		case *ssa.MakeInterface:
			return walk(x.X)
		case *ssa.SliceToArrayPointer:
			return walk(x.X)
		case *ssa.TypeAssert:
			return walk(x.X)
		case *ssa.Next:
			return walk(x.Iter)
		case *ssa.Range:
			return walk(x.X)
		case *ssa.Extract:
			if call, ok := x.Tuple.(*ssa.Call); ok && !c14isTransparent(calleeName(&call.Call)) {
				for _, sc := range calleesOf(&call.Call) {
					if results(call, sc, x.Index, walk) {
						return true
					}
				}
				return pred(call)
			}
			return walk(x.Tuple)
		case *ssa.FieldAddr:
			return walk(x.X)
		case *ssa.Field:
			return walkField(x.X, x.Field)
		case *ssa.IndexAddr:
			return walk(x.X) || walk(x.Index)
		case *ssa.Index:
			return walk(x.X) || walk(x.Index)
		case *ssa.Lookup:
			return walk(x.X) || walk(x.Index)
		case *ssa.Slice:
			return walk(x.X)
		case *ssa.Call:
			n := calleeName(&x.Call)
			if c14isBuilderRead(n) && len(x.Call.Args) > 0 {
				return c14builderWrites(x.Call.Args[0], walk)
			}
			if c14isTransparent(n) {
				if x.Call.IsInvoke() && walk(x.Call.Value) {
					return true
				}
				for _, a := range x.Call.Args {
					if walk(a) {
						return true
					}
				}
				return false
			}
			for _, sc := range calleesOf(&x.Call) {
				if results(x, sc, -1, walk) {
					return true
				}
			}
		}
		return false
	}

	walkField = func(base ssa.Value, idx int) bool {
		if base == nil {
			return false
		}
		k := key{base, top(), idx + 1}
		if seen[k] {
			return false
		}
		seen[k] = true
		if pred(base) {
			return true
		}
		field := func(v ssa.Value) bool { return walkField(v, idx) }
		switch x := base.(type) {
		case *ssa.Alloc:
			if refs := x.Referrers(); refs != nil {
				for _, r := range *refs {
					switch y := r.(type) {
					case *ssa.FieldAddr:
						if y.Field != idx {
							continue
						}
						for _, r2 := range *y.Referrers() {
							if st, ok := r2.(*ssa.Store); ok && st.Addr == y && walk(st.Val) {
								return true
							}
						}
					case *ssa.Store:
						// the cell of a pointer variable, or a whole-struct assignment
						if y.Addr == x && walkField(y.Val, idx) {
							return true
						}
					}
				}
			}
			return mutations(x, idx, walk, 0)
		case *ssa.UnOp:
			if x.Op == token.MUL {
				if a, ok := x.X.(*ssa.Alloc); ok {
					return walkField(a, idx)
				}
			}
			return walk(base)
		case *ssa.Phi:
			for _, e := range x.Edges {
				if walkField(e, idx) {
					return true
				}
			}
			return false
		case *ssa.Parameter:
			return params(x, field)
		case *ssa.FreeVar:
			return freevar(x, field)
		case *ssa.MakeInterface:
			return walkField(x.X, idx)
		case *ssa.ChangeType:
			return walkField(x.X, idx)
		case *ssa.Extract:
			if call, ok := x.Tuple.(*ssa.Call); ok {
				for _, sc := range calleesOf(&call.Call) {
					if results(call, sc, x.Index, field) {
						return true
					}
				}
				return false
			}
		case *ssa.Call:
			scs := calleesOf(&x.Call)
			for _, sc := range scs {
				if results(x, sc, -1, field) {
					return true
				}
			}
			if len(scs) > 0 {
				return false
			}
		}
		// not a struct we can look into (a field of a field, an element of a slice, foreign data): field-insensitive
		return walk(base)
	}
	return walk(v)
}

// c14builderWrites: everything written to the strings.Builder / bytes.Buffer whose address is b (method calls with b
// as receiver, fmt.Fprint*(b, ...), io.WriteString(b, ...)).
func c14builderWrites(b ssa.Value, f func(ssa.Value) bool) bool {
	var visit func(addr ssa.Value, d int) bool
	visit = func(addr ssa.Value, d int) bool {
		refs := addr.Referrers()
		if refs == nil || d > 2 {
			return false
		}
		for _, r := range *refs {
			switch y := r.(type) {
			case *ssa.MakeInterface:
				if visit(y, d+1) {
					return true
				}
			case *ssa.ChangeInterface:
				if visit(y, d+1) {
					return true
				}
			case ssa.CallInstruction:
				cc := y.Common()
				n := calleeName(cc)
				if c14isBuilderRead(n) || strings.HasSuffix(n, ").Len") || strings.HasSuffix(n, ").Reset") || strings.HasSuffix(n, ").Grow") {
					continue
				}
				// the writing call itself is part of the slice (fmt.Fprintf(&b, "%q", ...) is a quoting site)
				if cv, ok := y.(*ssa.Call); ok && f(cv) {
					return true
				}
				for _, a := range cc.Args {
					if a == addr {
						continue
					}
					if sl, ok := a.(*ssa.Slice); ok {
						// variadic ...any: the boxed operands
						if arr, ok := sl.X.(*ssa.Alloc); ok {
							a = arr
						}
					}
					if f(a) {
						return true
					}
				}
			}
		}
		return false
	}
	return visit(b, 0)
}

// c14slice enumerates the backward slice of v and returns the functions that own a visited value.
func c14slice(v ssa.Value, visit func(ssa.Value)) map[*ssa.Function]bool {
	owners := map[*ssa.Function]bool{}
	// a helper whose results are constants, or which only stores constants through a pointer it was given, contributes
	// no instruction value of its own: the walk reports the functions it enters
	enter := func(g *ssa.Function) {
		if g != nil && isRepoFn(g) && len(g.Blocks) > 0 {
			owners[unwrap(g)] = true
		}
	}
	old := c14enter
	c14enter = enter
	defer func() { c14enter = old }()
	c14derives(v, func(x ssa.Value) bool {
		if f := c14parent(x); f != nil {
			owners[f] = true
		}
		if visit != nil {
			c14enter = nil
			visit(x)
			c14enter = enter
		}
		return false
	})
	return owners
}

// c14enter, when set, is told every function a walk of c14derives descends into (results of a call, stores through a
// pointer argument).
var c14enter func(*ssa.Function)

func c14parent(v ssa.Value) *ssa.Function {
	switch x := v.(type) {
	case ssa.Instruction:
		return x.Parent()
	case *ssa.Parameter:
		return x.Parent()
	case *ssa.FreeVar:
		return x.Parent()
	}
	return nil
}

// c14sameValue: a and b denote the same value: the same SSA value, or two loads of the same local cell with no
// assignment in between (a variable captured by a closure is a cell, not a register).
func c14sameValue(a, b ssa.Value) bool {
	a, b = c14stripConv(a), c14stripConv(b)
	if a == b {
		return true
	}
	la, ok1 := a.(*ssa.UnOp)
	lb, ok2 := b.(*ssa.UnOp)
	if !ok1 || !ok2 || la.Op != token.MUL || lb.Op != token.MUL || la.X != lb.X || la.Parent() != lb.Parent() {
		return false
	}
	cell, ok := la.X.(*ssa.Alloc)
	if !ok {
		return false
	}
	first, second := ssa.Instruction(la), ssa.Instruction(lb)
	if !dominatesInstr(first, second) {
		first, second = second, first
		if !dominatesInstr(first, second) {
			return false
		}
	}
	for _, r := range *cell.Referrers() {
		switch y := r.(type) {
		case *ssa.Store:
			if y.Addr == cell && canReach(first, y) && pathAvoiding(y, second, func(i ssa.Instruction) bool { return i == first }) {
				return false
			}
		case *ssa.MakeClosure:
			// a closure that assigns the cell may run between the two loads
			if fn, ok := y.Fn.(*ssa.Function); ok {
				for k, bnd := range y.Bindings {
					if bnd != cell || k >= len(fn.FreeVars) {
						continue
					}
					if fr := fn.FreeVars[k].Referrers(); fr != nil {
						for _, r2 := range *fr {
							if st, ok := r2.(*ssa.Store); ok && st.Addr == fn.FreeVars[k] {
								return false
							}
						}
					}
				}
			}
		}
	}
	return true
}

func c14isErrorType(t types.Type) bool {
	return t != nil && types.Identical(t, types.Universe.Lookup("error").Type())
}

func c14isBoolType(t types.Type) bool {
	b, ok := t.Underlying().(*types.Basic)
	return ok && b.Info()&types.IsBoolean != 0
}

// c14stripConv removes conversions between types with the same underlying type (`type command string`).
func c14stripConv(v ssa.Value) ssa.Value {
	for {
		switch x := v.(type) {
		case *ssa.ChangeType:
			v = x.X
			continue
		case *ssa.Convert:
			if types.Identical(x.Type().Underlying(), x.X.Type().Underlying()) {
				v = x.X
				continue
			}
		}
		return v
	}
}
