package main

// The location builder of C13, found by ROLE: the functions of package route from whose request parameter the "$path"
// substitution derives — whatever they are called, whether the location is stored into Target.RedirectURL by the
// builder itself (BuildRedirectURL today) or returned to the caller (a pure `redirectURLFor(u) *url.URL` with the
// store in Table.Lookup), and however the work is cut into steps (template / paths / substitution helpers).

import (
	"go/token"

	"golang.org/x/tools/go/ssa"
)

// c13subst: the call substitutes a "$..." variable of the redirect template. Recognised by what it does, not by the
// spelling: strings.Replace(s, "$path", x, n) / strings.ReplaceAll(s, "$path", x) with the variable as a constant, or a
// call of a repository helper that is handed the variable as a constant argument and does the substitution with it -
// through strings.Replace / ReplaceAll on its parameter, through a hand-written equivalent (strings.Cut / Index /
// Split at the variable, the pieces glued round the replacement), or by passing both on to another such helper
// (`expandVar(s, "$path", x)`, `(pathPair).replace("$path", repl)`). Returns the variable and the replacement operand
// (a value of the function that contains the call).
func c13subst(cc *ssa.CallCommon) (variable string, repl ssa.Value, ok bool) {
	if old, nw, isStd := c13stdSubst(cc); isStd {
		if s, isK := c13constStr(old); isK && (s == "$path" || s == "$host") {
			return s, nw, true
		}
		return "", nil, false
	}
	sc := cc.StaticCallee()
	if cc.IsInvoke() || sc == nil || !isRepoFn(sc) || len(sc.Blocks) == 0 || len(sc.Params) != len(cc.Args) {
		return "", nil, false
	}
	for k, a := range cc.Args {
		s, isK := c13constStr(a)
		if !isK || (s != "$path" && s != "$host") {
			continue
		}
		if idx, isSub := c13substituter(sc, k, 0); isSub && idx < len(cc.Args) {
			return s, cc.Args[idx], true
		}
	}
	return "", nil, false
}

// c13stdSubst: the standard-library spellings of "replace old by new in s".
func c13stdSubst(cc *ssa.CallCommon) (old, nw ssa.Value, ok bool) {
	if cc.IsInvoke() {
		return nil, nil, false
	}
	n := calleeName(cc)
	if (n == "strings.Replace" && len(cc.Args) == 4) || (n == "strings.ReplaceAll" && len(cc.Args) == 3) {
		return cc.Args[1], cc.Args[2], true
	}
	return nil, nil, false
}

// c13constStr: v is a string constant, also behind a conversion (a small `type variable string`).
func c13constStr(v ssa.Value) (string, bool) {
	for depth := 0; depth < 3; depth++ {
		switch x := v.(type) {
		case *ssa.ChangeType:
			v = x.X
			continue
		case *ssa.Convert:
			v = x.X
			continue
		}
		break
	}
	if s, ok := constString(v); ok {
		return s, true
	}
	// a package-level `var pathVar = "$path"`: the one constant its package initialiser stores
	if u, ok := v.(*ssa.UnOp); ok && u.Op == token.MUL {
		if g, isG := u.X.(*ssa.Global); isG && g.Pkg != nil {
			if ini := g.Pkg.Func("init"); ini != nil {
				val, n := "", 0
				eachInstr(ini, func(i ssa.Instruction) {
					if st, isSt := i.(*ssa.Store); isSt && st.Addr == g {
						n++
						if k, isK := constString(st.Val); isK {
							val = k
						} else {
							n += 2
						}
					}
				})
				if n == 1 {
					return val, true
				}
			}
		}
	}
	return "", false
}

// c13paramIndex: v is parameter number k of fn (receiver first) - itself, a load of the cell it was spilled to, or a
// conversion of it; -1 otherwise.
func c13paramIndex(fn *ssa.Function, v ssa.Value) int {
	for depth := 0; depth < 4; depth++ {
		switch x := v.(type) {
		case *ssa.Parameter:
			for k, p := range fn.Params {
				if p == x {
					return k
				}
			}
			return -1
		case *ssa.ChangeType:
			v = x.X
		case *ssa.Convert:
			v = x.X
		case *ssa.UnOp:
			a, isA := x.X.(*ssa.Alloc)
			if x.Op != token.MUL || !isA {
				return -1
			}
			var only ssa.Value
			for _, r := range *a.Referrers() {
				if st, isSt := r.(*ssa.Store); isSt && st.Addr == a {
					if only != nil {
						return -1
					}
					only = st.Val
				}
			}
			if only == nil {
				return -1
			}
			v = only
		default:
			return -1
		}
	}
	return -1
}

// c13fromParamOf: the first parameter of fn other than `not` from which v derives; -1 if none.
func c13fromParamOf(fn *ssa.Function, v ssa.Value, not map[int]bool) int {
	for k, p := range fn.Params {
		if not[k] {
			continue
		}
		if derives(v, sameVal(p)) {
			return k
		}
	}
	return -1
}

// c13substituter: fn replaces the variable it receives as parameter idxOld by (a value derived from) another of its
// parameters; returns the index of that parameter.
func c13substituter(fn *ssa.Function, idxOld, depth int) (idxNew int, ok bool) {
	if depth > 2 || idxOld >= len(fn.Params) {
		return 0, false
	}
	idxNew = -1
	for _, b := range fn.Blocks {
		for _, i := range b.Instrs {
			cc := callCommon(i)
			if cc == nil || idxNew >= 0 {
				continue
			}
			if old, nw, isStd := c13stdSubst(cc); isStd {
				if c13paramIndex(fn, old) == idxOld {
					idxNew = c13fromParamOf(fn, nw, map[int]bool{idxOld: true})
				}
				continue
			}
			switch n := calleeName(cc); n {
			case "strings.Cut", "strings.Index", "strings.Split", "strings.SplitN", "strings.SplitAfterN", "strings.Fields":
				// the hand-written replace: s is cut at the variable and the pieces are glued round the replacement
				if cc.IsInvoke() || len(cc.Args) < 2 || c13paramIndex(fn, cc.Args[1]) != idxOld {
					continue
				}
				not := map[int]bool{idxOld: true}
				subj := c13fromParamOf(fn, cc.Args[0], not)
				if subj >= 0 {
					not[subj] = true
				}
				call, _ := i.(*ssa.Call)
				piece := func(v ssa.Value) bool {
					return (call != nil && derives(v, sameVal(call))) || (subj >= 0 && derives(v, sameVal(fn.Params[subj])))
				}
				for _, b2 := range fn.Blocks {
					for _, j := range b2.Instrs {
						bo, isBo := j.(*ssa.BinOp)
						if !isBo || bo.Op != token.ADD || idxNew >= 0 || typeStr(bo.Type().Underlying()) != "string" {
							continue
						}
						// a piece of the subject glued to something that comes from another parameter
						for _, side := range [][2]ssa.Value{{bo.X, bo.Y}, {bo.Y, bo.X}} {
							if idxNew < 0 && piece(side[0]) {
								idxNew = c13fromParamOf(fn, side[1], not)
							}
						}
					}
				}
				continue
			}
			sc := cc.StaticCallee()
			if cc.IsInvoke() || sc == nil || sc == fn || !isRepoFn(sc) || len(sc.Blocks) == 0 || len(sc.Params) != len(cc.Args) {
				continue
			}
			for k, a := range cc.Args {
				if c13paramIndex(fn, a) != idxOld {
					continue
				}
				if inner, isSub := c13substituter(sc, k, depth+1); isSub && inner < len(cc.Args) {
					idxNew = c13fromParamOf(fn, cc.Args[inner], map[int]bool{idxOld: true})
				}
			}
		}
	}
	return idxNew, idxNew >= 0
}

type c13builders struct {
	fns    []*ssa.Function        // the builder family, callers before callees as far as known
	params map[*ssa.Parameter]int // their request parameters (-> index in fn.Params = index in the call's Args)
	kind   string                 // type of those parameters: "*net/url.URL", or "*net/http.Request" when no function takes the URL
}

func (b *c13builders) isParam(v ssa.Value) bool {
	p, ok := v.(*ssa.Parameter)
	if !ok {
		return false
	}
	_, ok = b.params[p]
	return ok
}

// c13findBuilders: the family is looked for around the functions that contain a "$path" substitution: those
// functions, the same-package helpers they call (steps that compute the replacement) and their static callers in the
// package (wrappers that pass the request on). A function belongs to it when it has a *url.URL parameter from which the
// replacement derives; only when no function takes the URL, a *http.Request parameter counts instead.
func c13findBuilders(c *Ctx) *c13builders { return c13findBuildersFor(c, false) }

// c13findBuildersFor: withHost also counts the "$host" substitution, so that a builder whose $path replacement no
// longer comes from the request at all (the very defect P1 reports) still resolves through its $host substitution.
func c13findBuildersFor(c *Ctx, withHost bool) *c13builders {
	sp := c.spkg("route")
	if sp == nil {
		return &c13builders{params: map[*ssa.Parameter]int{}}
	}
	all := c.fnsWhere("route", func(*ssa.Function) bool { return true })
	var repls []ssa.Value
	var core []*ssa.Function
	for _, f := range all {
		has := false
		eachInstr(f, func(i ssa.Instruction) {
			if cc := callCommon(i); cc != nil {
				if v, r, ok := c13subst(cc); ok && (v == "$path" || withHost) {
					repls = append(repls, r)
					has = true
				}
			}
		})
		if has {
			core = append(core, f)
		}
	}
	// scope: the core functions, what they call, and who calls them (three levels up)
	scope := map[*ssa.Function]bool{}
	var order []*ssa.Function
	up := core
	var ancestors []*ssa.Function
	seenUp := map[*ssa.Function]bool{}
	for _, f := range core {
		seenUp[f] = true
	}
	for level := 0; level < 3; level++ {
		var next []*ssa.Function
		for _, f := range up {
			for _, s := range gSites[f] {
				g := s.Parent()
				for g != nil && g.Parent() != nil {
					g = g.Parent()
				}
				if g == nil || seenUp[g] || rootPkg(g) != sp {
					continue
				}
				seenUp[g] = true
				next = append(next, g)
			}
		}
		ancestors = append(next, ancestors...)
		up = next
	}
	for _, f := range append(ancestors, c.region(core...)...) {
		if !scope[f] {
			scope[f] = true
			order = append(order, f)
		}
	}
	collect := func(kind string) *c13builders {
		b := &c13builders{params: map[*ssa.Parameter]int{}, kind: kind}
		for _, f := range order {
			member := false
			for k, p := range f.Params {
				if typeStr(p.Type()) != kind {
					continue
				}
				for _, r := range repls {
					if derives(r, sameVal(p)) {
						b.params[p] = k
						member = true
						break
					}
				}
			}
			if member {
				b.fns = append(b.fns, f)
			}
		}
		return b
	}
	if b := collect("*net/url.URL"); len(b.fns) > 0 {
		return b
	}
	return collect("*net/http.Request")
}

// c13isLocation: v is the location built for the request: Target.RedirectURL, or a value that is stored there (the
// result of a builder that returns the URL, held in a local before it is put into the request's copy of the target).
func c13isLocation(v ssa.Value) bool {
	if c13targetField(v, "RedirectURL") {
		return true
	}
	if !namedIs(v.Type(), "url.URL") {
		return false
	}
	switch v.(type) {
	case *ssa.Call, *ssa.Alloc, *ssa.Phi, *ssa.Extract:
	default:
		return false
	}
	refs := v.Referrers()
	if refs == nil {
		return false
	}
	for _, r := range *refs {
		if st, ok := r.(*ssa.Store); ok && st.Val == v && c13targetField(st.Addr, "RedirectURL") {
			return true
		}
	}
	return false
}
