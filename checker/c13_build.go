package main

// The location builder of C13, found by ROLE: the functions of package route from whose request parameter the "$path"
// substitution derives — whatever they are called, whether the location is stored into Target.RedirectURL by the
// builder itself (BuildRedirectURL today) or returned to the caller (a pure `redirectURLFor(u) *url.URL` with the
// store in Table.Lookup), and however the work is cut into steps (template / paths / substitution helpers).

import (
	"golang.org/x/tools/go/ssa"
)

// c13subst: the call substitutes a "$..." variable of the redirect template: strings.Replace(s, "$path", x, n) /
// strings.ReplaceAll(s, "$path", x). Returns the variable and the replacement operand.
func c13subst(cc *ssa.CallCommon) (variable string, repl ssa.Value, ok bool) {
	n := calleeName(cc)
	if !(n == "strings.Replace" && len(cc.Args) == 4) && !(n == "strings.ReplaceAll" && len(cc.Args) == 3) {
		return "", nil, false
	}
	old, isK := constString(cc.Args[1])
	if !isK || (old != "$path" && old != "$host") {
		return "", nil, false
	}
	return old, cc.Args[2], true
}

type c13builders struct {
	fns    []*ssa.Function        // the builder family, callers before callees as far as known
	params map[*ssa.Parameter]int // their request parameters (-> index in fn.Params = index in the call's Args)
	kind   string                 // type of those parameters: "*net/url.URL", or "*net/http.Request" when no function takes the URL
}

func (b *c13builders) isParam(v ssa.Value) bool {
	p, ok := v.(*ssa.Parameter)
	if !ok {
		return false
	}
	_, ok = b.params[p]
	return ok
}

// c13findBuilders: the family is looked for around the functions that contain a "$path" substitution: those
// functions, the same-package helpers they call (steps that compute the replacement) and their static callers in the
// package (wrappers that pass the request on). A function belongs to it when it has a *url.URL parameter from which the
// replacement derives; only when no function takes the URL, a *http.Request parameter counts instead.
func c13findBuilders(c *Ctx) *c13builders {
	sp := c.spkg("route")
	if sp == nil {
		return &c13builders{params: map[*ssa.Parameter]int{}}
	}
	all := c.fnsWhere("route", func(*ssa.Function) bool { return true })
	var repls []ssa.Value
	var core []*ssa.Function
	for _, f := range all {
		has := false
		eachInstr(f, func(i ssa.Instruction) {
			if cc := callCommon(i); cc != nil {
				if v, r, ok := c13subst(cc); ok && v == "$path" {
					repls = append(repls, r)
					has = true
				}
			}
		})
		if has {
			core = append(core, f)
		}
	}
	// scope: the core functions, what they call, and who calls them (three levels up)
	scope := map[*ssa.Function]bool{}
	var order []*ssa.Function
	up := core
	var ancestors []*ssa.Function
	seenUp := map[*ssa.Function]bool{}
	for _, f := range core {
		seenUp[f] = true
	}
	for level := 0; level < 3; level++ {
		var next []*ssa.Function
		for _, f := range up {
			for _, s := range gSites[f] {
				g := s.Parent()
				for g != nil && g.Parent() != nil {
					g = g.Parent()
				}
				if g == nil || seenUp[g] || rootPkg(g) != sp {
					continue
				}
				seenUp[g] = true
				next = append(next, g)
			}
		}
		ancestors = append(next, ancestors...)
		up = next
	}
	for _, f := range append(ancestors, c.region(core...)...) {
		if !scope[f] {
			scope[f] = true
			order = append(order, f)
		}
	}
	collect := func(kind string) *c13builders {
		b := &c13builders{params: map[*ssa.Parameter]int{}, kind: kind}
		for _, f := range order {
			member := false
			for k, p := range f.Params {
				if typeStr(p.Type()) != kind {
					continue
				}
				for _, r := range repls {
					if derives(r, sameVal(p)) {
						b.params[p] = k
						member = true
						break
					}
				}
			}
			if member {
				b.fns = append(b.fns, f)
			}
		}
		return b
	}
	if b := collect("*net/url.URL"); len(b.fns) > 0 {
		return b
	}
	return collect("*net/http.Request")
}

// c13isLocation: v is the location built for the request: Target.RedirectURL, or a value that is stored there (the
// result of a builder that returns the URL, held in a local before it is put into the request's copy of the target).
func c13isLocation(v ssa.Value) bool {
	if c13targetField(v, "RedirectURL") {
		return true
	}
	if !namedIs(v.Type(), "url.URL") {
		return false
	}
	switch v.(type) {
	case *ssa.Call, *ssa.Alloc, *ssa.Phi, *ssa.Extract:
	default:
		return false
	}
	refs := v.Referrers()
	if refs == nil {
		return false
	}
	for _, r := range *refs {
		if st, ok := r.(*ssa.Store); ok && st.Val == v && c13targetField(st.Addr, "RedirectURL") {
			return true
		}
	}
	return false
}
