package main

// C02.P9 — every Route carries a Glob that is the result of a successful glob.Compile (the glob matcher dereferences
// it). The stores to Route.Glob are found in the whole package route; the stored value is followed through helpers
// (a compile wrapper that returns (glob, error), a route constructor that receives the compiled glob as a parameter).

import (
	"go/token"
	"strings"

	"golang.org/x/tools/go/ssa"
)

// c02isGlobCompile: the library call that compiles a pattern and reports failure as an error.
func c02isGlobCompile(call *ssa.Call) bool {
	return strings.HasSuffix(calleeName(&call.Call), "gobwas/glob.Compile")
}

// validGlob: at block at, v is the glob of a glob.Compile call that returned no error.
func (x *c02pubs) validGlob(v ssa.Value, at *ssa.BasicBlock, depth int, seen map[ssa.Value]bool) bool {
	v = c02strip(v)
	if isNilConst(v) || depth > 4 {
		return false
	}
	if seen[v] {
		return true
	}
	seen[v] = true
	errNilAt := func(call *ssa.Call, at *ssa.BasicBlock) bool {
		return at != nil && knownNil(at, func(o ssa.Value) bool {
			e, ok := o.(*ssa.Extract)
			return ok && e.Tuple == ssa.Value(call) && e.Index == 1
		})
	}
	switch y := v.(type) {
	case *ssa.Extract:
		call, isCall := y.Tuple.(*ssa.Call)
		if !isCall || y.Index != 0 || call.Call.Signature().Results().Len() != 2 {
			return false
		}
		if c02isGlobCompile(call) {
			return errNilAt(call, at)
		}
		sc := call.Call.StaticCallee()
		if sc == nil || !isRepoFn(sc) || len(sc.Blocks) == 0 || typeStr(sc.Signature.Results().At(1).Type()) != "error" {
			return false
		}
		if !errNilAt(call, at) {
			return false
		}
		// a compile wrapper: every return with a nil error carries a valid glob
		sc = unwrap(sc)
		ok, n := true, 0
		eachInstr(sc, func(i ssa.Instruction) {
			r, isR := i.(*ssa.Return)
			if !isR || len(r.Results) != 2 {
				return
			}
			if inner, isE := r.Results[0].(*ssa.Extract); isE {
				if e1, isE1 := r.Results[1].(*ssa.Extract); isE1 && e1.Tuple == inner.Tuple && inner.Index == 0 && e1.Index == 1 {
					// return glob.Compile(p): the caller's err == nil test is the test of this call
					if ic, isC := inner.Tuple.(*ssa.Call); isC && c02isGlobCompile(ic) {
						n++
						return
					}
				}
			}
			if !c02defNil(r.Results[1], r.Block(), map[ssa.Value]bool{}) {
				return // error return: the caller does not use the glob
			}
			n++
			if !x.validGlob(r.Results[0], r.Block(), depth+1, seen) {
				ok = false
			}
		})
		return ok && n > 0
	case *ssa.Call:
		sc := y.Call.StaticCallee()
		if sc == nil || !isRepoFn(sc) || len(sc.Blocks) == 0 || sc.Signature.Results().Len() != 1 {
			return false
		}
		sc = unwrap(sc)
		ok, n := true, 0
		eachInstr(sc, func(i ssa.Instruction) {
			if r, isR := i.(*ssa.Return); isR && len(r.Results) == 1 {
				n++
				if !x.validGlob(r.Results[0], r.Block(), depth+1, seen) {
					ok = false
				}
			}
		})
		return ok && n > 0
	case *ssa.Phi:
		for k, e := range y.Edges {
			if !x.validGlob(e, y.Block().Preds[k], depth, seen) {
				return false
			}
		}
		return true
	case *ssa.Parameter:
		return x.liftParam(y, depth, func(arg ssa.Value, blk *ssa.BasicBlock) bool {
			return x.validGlob(arg, blk, depth+1, seen)
		})
	case *ssa.UnOp:
		if y.Op != token.MUL {
			return false
		}
		// the Glob of an existing route (a copy keeps the invariant)
		if _, ok := fieldOf(y.X, "route.Route", "Glob"); ok {
			return true
		}
		if a, isAlloc := y.X.(*ssa.Alloc); isAlloc {
			n := 0
			for _, r := range *a.Referrers() {
				if st, ok := r.(*ssa.Store); ok && st.Addr == a {
					n++
					if !x.validGlob(st.Val, st.Block(), depth, seen) {
						return false
					}
				}
			}
			return n > 0
		}
	}
	return false
}

func runC02P9(c *Ctx, x *c02pubs) {
	n := 0
	for _, f := range c.AllFns {
		if rootPkg(f) != c.spkg("route") {
			continue
		}
		eachInstr(f, func(i ssa.Instruction) {
			st, ok := i.(*ssa.Store)
			if !ok {
				return
			}
			if _, isGlob := fieldOf(st.Addr, "route.Route", "Glob"); !isGlob {
				return
			}
			n++
			c.check("C02.P9", fnKey(f)+"|Route.Glob is a successfully compiled pattern", st.Pos(), x.validGlob(st.Val, st.Block(), 0, map[ssa.Value]bool{}),
				"the glob matcher calls r.Glob.Match on every route of the looked-up host; a route whose Glob is not the result of a glob.Compile that succeeded (err == nil edge) makes lookups under proxy.matcher=glob dereference nil — a route configuration text then crashes request handling")
		})
	}
	c.atLeast("C02.P9", "stores to Route.Glob", n, 1)
	// Route literals must set it at all
	for _, f := range c.AllFns {
		if rootPkg(f) != c.spkg("route") {
			continue
		}
		for _, a := range allocsOf(f, "route.Route") {
			if a.Comment != "complit" {
				continue
			}
			c.check("C02.P9", fnKey(f)+"|Route literal sets Glob", a.Pos(), len(fieldStores(a)["Glob"]) > 0, "a Route built without a compiled Glob panics in the glob matcher")
		}
	}
}
