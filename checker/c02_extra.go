package main

// Rules of C02 added after the rounds of independently authored breaking changes (DESIGN 11.6, 11.7).

import (
	"strings"

	"golang.org/x/tools/go/ssa"
)

func runC02P9(c *Ctx) {
	n := 0
	for _, f := range c.AllFns {
		if rootPkg(f) != c.spkg("route") {
			continue
		}
		eachInstr(f, func(i ssa.Instruction) {
			st, ok := i.(*ssa.Store)
			if !ok {
				return
			}
			if _, isGlob := fieldOf(st.Addr, "route.Route", "Glob"); !isGlob {
				return
			}
			n++
			// value: result #0 of glob.Compile, stored on the err == nil edge of that call
			okV := false
			if e, isE := st.Val.(*ssa.Extract); isE && e.Index == 0 {
				if call, isC := e.Tuple.(*ssa.Call); isC && strings.HasSuffix(calleeName(&call.Call), "glob.Compile") {
					okV = knownNil(st.Block(), func(v ssa.Value) bool { x, ok := v.(*ssa.Extract); return ok && x.Tuple == call && x.Index == 1 })
				}
			}
			c.check("C02.P9", fnKey(f)+"|Route.Glob is a successfully compiled pattern", st.Pos(), okV,
				"the glob matcher calls r.Glob.Match on every route of the looked-up host; a route whose Glob is not the result of a glob.Compile that succeeded (err == nil edge) makes lookups under proxy.matcher=glob dereference nil — a route configuration text then crashes request handling")
		})
	}
	c.atLeast("C02.P9", "stores to Route.Glob", n, 2)
	// Route literals must set it at all
	for _, f := range c.AllFns {
		if rootPkg(f) != c.spkg("route") {
			continue
		}
		for _, a := range allocsOf(f, "route.Route") {
			if a.Comment != "complit" {
				continue
			}
			c.check("C02.P9", fnKey(f)+"|Route literal sets Glob", a.Pos(), len(fieldStores(a)["Glob"]) > 0, "a Route built without a compiled Glob panics in the glob matcher")
		}
	}
}

// ---- C04.R6: a weight computed by subtraction is clamped at zero ---------------------------------------
