package main

// C02.P9 — every Route carries a Glob that is the result of a successful glob.Compile (the glob matcher dereferences
// it). The stores to Route.Glob are found in the whole package route; the stored value is followed through helpers
// (a compile wrapper that returns (glob, error), a route constructor that receives the compiled glob as a parameter).

import (
	"go/token"
	"go/types"
	"strings"

	"golang.org/x/tools/go/ssa"
)

// c02isGlobCompile: the library call that compiles a pattern and reports failure as an error.
func c02isGlobCompile(call *ssa.Call) bool {
	return strings.HasSuffix(calleeName(&call.Call), "gobwas/glob.Compile")
}

// validGlob: at block at, v is the glob of a glob.Compile call that returned no error.
func (x *c02pubs) validGlob(v ssa.Value, at *ssa.BasicBlock, depth int, seen map[ssa.Value]bool) bool {
	v = c02strip(v)
	if isNilConst(v) || depth > 4 {
		return false
	}
	if seen[v] {
		return true
	}
	seen[v] = true
	errNilAt := func(call *ssa.Call, at *ssa.BasicBlock) bool {
		return at != nil && knownNil(at, func(o ssa.Value) bool {
			e, ok := o.(*ssa.Extract)
			return ok && e.Tuple == ssa.Value(call) && e.Index == 1
		})
	}
	switch y := v.(type) {
	case *ssa.TypeAssert:
		// v.(glob.Glob) of what a cache yielded
		if !y.CommaOk {
			return x.cachedGlob(y.X, at, depth, seen)
		}
		return false
	case *ssa.Lookup:
		// g := cache[p]: nil for a pattern that is not in the cache
		if y.CommaOk || !knownNonNil(at, sameVal(v)) {
			return false
		}
		return x.cachedGlob(y, at, depth, seen)
	case *ssa.Extract:
		if lk, isLk := y.Tuple.(*ssa.Lookup); isLk {
			// g, ok := cache[p], used where ok holds
			return y.Index == 0 && lk.CommaOk && c02knownTrue(at, lk, 1) && x.cachedGlob(lk, at, depth, seen)
		}
		if ta, isTA := y.Tuple.(*ssa.TypeAssert); isTA {
			// g, _ := v.(glob.Glob): every value the cache holds is a glob, so the assertion succeeds when the load did
			return y.Index == 0 && x.cachedGlob(ta.X, at, depth, seen)
		}
		call, isCall := y.Tuple.(*ssa.Call)
		if !isCall || y.Index != 0 || call.Call.Signature().Results().Len() != 2 {
			return false
		}
		if n := calleeName(&call.Call); n == "(*sync.Map).Load" || n == "(*sync.Map).LoadOrStore" || n == "(*sync.Map).Swap" {
			return x.cachedGlob(y, at, depth, seen)
		}
		if c02isGlobCompile(call) {
			return errNilAt(call, at)
		}
		sc := call.Call.StaticCallee()
		if sc == nil || !isRepoFn(sc) || len(sc.Blocks) == 0 || typeStr(sc.Signature.Results().At(1).Type()) != "error" {
			return false
		}
		if !errNilAt(call, at) {
			return false
		}
		// a compile wrapper: every return with a nil error carries a valid glob
		sc = unwrap(sc)
		ok, n := true, 0
		eachInstr(sc, func(i ssa.Instruction) {
			r, isR := i.(*ssa.Return)
			if !isR || len(r.Results) != 2 {
				return
			}
			// a wrapper with a deferred call returns through result slots: what the return block stored there
			res0, res1 := c02slotValue(r.Results[0], r), c02slotValue(r.Results[1], r)
			if inner, isE := res0.(*ssa.Extract); isE {
				if e1, isE1 := res1.(*ssa.Extract); isE1 && e1.Tuple == inner.Tuple && inner.Index == 0 && e1.Index == 1 {
					// return glob.Compile(p): the caller's err == nil test is the test of this call
					if ic, isC := inner.Tuple.(*ssa.Call); isC && c02isGlobCompile(ic) {
						n++
						return
					}
				}
			}
			if !c02defNil(res1, r.Block(), map[ssa.Value]bool{}) {
				return // error return: the caller does not use the glob
			}
			n++
			if !x.validGlob(res0, r.Block(), depth+1, seen) {
				ok = false
			}
		})
		return ok && n > 0
	case *ssa.Call:
		sc := y.Call.StaticCallee()
		if sc == nil || !isRepoFn(sc) || len(sc.Blocks) == 0 || sc.Signature.Results().Len() != 1 {
			return false
		}
		sc = unwrap(sc)
		ok, n := true, 0
		eachInstr(sc, func(i ssa.Instruction) {
			if r, isR := i.(*ssa.Return); isR && len(r.Results) == 1 {
				n++
				if !x.validGlob(r.Results[0], r.Block(), depth+1, seen) {
					ok = false
				}
			}
		})
		return ok && n > 0
	case *ssa.Phi:
		for k, e := range y.Edges {
			if !x.validGlob(e, y.Block().Preds[k], depth, seen) {
				return false
			}
		}
		return true
	case *ssa.Parameter:
		return x.liftParam(y, depth, func(arg ssa.Value, blk *ssa.BasicBlock) bool {
			return x.validGlob(arg, blk, depth+1, seen)
		})
	case *ssa.UnOp:
		if y.Op != token.MUL {
			return false
		}
		// the Glob of an existing route (a copy keeps the invariant)
		if _, ok := fieldOf(y.X, "route.Route", "Glob"); ok {
			return true
		}
		if a, isAlloc := y.X.(*ssa.Alloc); isAlloc {
			n := 0
			for _, r := range *a.Referrers() {
				if st, ok := r.(*ssa.Store); ok && st.Addr == a {
					n++
					if !x.validGlob(st.Val, st.Block(), depth, seen) {
						return false
					}
				}
			}
			return n > 0
		}
	}
	return false
}

// c02slotValue: v as seen by instruction at - for a load of a local slot (a result variable of a function with a
// deferred call) the value the same block stored into the slot last before the load; v itself otherwise.
func c02slotValue(v ssa.Value, at ssa.Instruction) ssa.Value {
	u, ok := v.(*ssa.UnOp)
	if !ok || u.Op != token.MUL || u.Block() != at.Block() {
		return v
	}
	a, isAlloc := u.X.(*ssa.Alloc)
	if !isAlloc {
		return v
	}
	for k := instrIndex(u) - 1; k >= 0; k-- {
		if st, isSt := u.Block().Instrs[k].(*ssa.Store); isSt && st.Addr == ssa.Value(a) {
			return st.Val
		}
	}
	return v
}

// c02knownTrue: component idx of the tuple (the ok of a comma-ok form) is known to be true at block at.
func c02knownTrue(at *ssa.BasicBlock, tuple ssa.Value, idx int) bool {
	if at == nil {
		return false
	}
	for _, f := range factsAt(at) {
		if e, ok := f.Cond.(*ssa.Extract); ok && f.Truth && e.Tuple == tuple && e.Index == idx {
			return true
		}
	}
	return false
}

// cachedGlob: v was taken out of a memo of compiled patterns - a map (v is the Lookup) or a sync.Map (v is the value
// component of Load/LoadOrStore/Swap, used where the load is known to have found something) - and everything that is
// ever put into that memo is the result of a successful glob.Compile. The memo is identified by its memory path
// (package-level variable, field of one) and its writers are searched in the whole package; a local map by its value
// in the same function.
func (x *c02pubs) cachedGlob(v ssa.Value, at *ssa.BasicBlock, depth int, seen map[ssa.Value]bool) bool {
	if depth > 4 {
		return false
	}
	var cache ssa.Value
	syncMap := false
	switch y := v.(type) {
	case *ssa.Lookup:
		if _, isMap := y.X.Type().Underlying().(*types.Map); !isMap {
			return false
		}
		cache = y.X
	case *ssa.Extract:
		call, ok := y.Tuple.(*ssa.Call)
		if !ok || y.Index != 0 || len(call.Call.Args) == 0 {
			return false
		}
		switch calleeName(&call.Call) {
		case "(*sync.Map).Load":
			if !c02knownTrue(at, call, 1) {
				return false
			}
		case "(*sync.Map).LoadOrStore":
			// either what was stored before or the value handed in, which is judged with the other stores below
		default:
			return false
		}
		cache, syncMap = call.Call.Args[0], true
	default:
		return false
	}
	global := c02globalRoot(cache, 0) != nil
	path := accessPath(cache)
	same := func(o ssa.Value, in *ssa.Function) bool {
		if o == cache {
			return true
		}
		if !global {
			return false // a local memo: same value only
		}
		return c02globalRoot(o, 0) != nil && accessPath(o) == path
	}
	ok, n := true, 0
	var fns []*ssa.Function
	if global {
		for _, f := range c02fns(x.c) {
			if at != nil && rootPkg(f) == rootPkg(at.Parent()) {
				fns = append(fns, f)
			}
		}
	} else if at != nil {
		fns = withAnon(at.Parent())
	}
	eachInstrOf(fns, func(f *ssa.Function, i ssa.Instruction) {
		var stored ssa.Value
		switch w := i.(type) {
		case *ssa.MapUpdate:
			if !syncMap && same(w.Map, f) {
				stored = w.Value
			}
		case *ssa.Call:
			if !syncMap || len(w.Call.Args) < 3 || !same(w.Call.Args[0], f) {
				return
			}
			switch calleeName(&w.Call) {
			case "(*sync.Map).Store", "(*sync.Map).LoadOrStore", "(*sync.Map).Swap":
				stored = w.Call.Args[2]
			case "(*sync.Map).CompareAndSwap":
				if len(w.Call.Args) >= 4 {
					stored = w.Call.Args[3]
				}
			}
		}
		if stored == nil {
			return
		}
		n++
		// judged on its own at the place of the store (the same value may be valid where it is returned, after the
		// error test, and not yet where it is stored); the depth bound ends a memo that is filled from itself
		if !x.validGlob(stored, i.Block(), depth+1, map[ssa.Value]bool{}) {
			ok = false
		}
	})
	return ok && n > 0
}

// validGlobBeforeEscape: the store fills the Glob of a route that was made in this function and that nobody else can
// see yet (`r := &Route{...}; r.Glob, err = glob.Compile(p); if err != nil { return err }`): what counts is that the
// stored value is a successfully compiled pattern wherever the route leaves the function's hands - is stored, passed,
// returned, merged.
func (x *c02pubs) validGlobBeforeEscape(st *ssa.Store) bool {
	fa, ok := st.Addr.(*ssa.FieldAddr)
	if !ok {
		return false
	}
	a, ok := fa.X.(*ssa.Alloc)
	if !ok || a.Referrers() == nil {
		return false
	}
	for _, r := range *a.Referrers() {
		switch y := r.(type) {
		case *ssa.DebugRef:
			continue
		case *ssa.FieldAddr:
			if y.X == ssa.Value(a) {
				continue // access to a field of the route
			}
		}
		if r.Block() == nil || !x.validGlob(st.Val, r.Block(), 0, map[ssa.Value]bool{}) {
			return false
		}
	}
	return true
}

func runC02P9(c *Ctx, x *c02pubs) {
	n := 0
	for _, f := range c02fns(c) {
		if rootPkg(f) != c.spkg("route") {
			continue
		}
		eachInstr(f, func(i ssa.Instruction) {
			st, ok := i.(*ssa.Store)
			if !ok {
				return
			}
			if _, isGlob := fieldOf(st.Addr, "route.Route", "Glob"); !isGlob {
				return
			}
			n++
			c.check("C02.P9", fnKey(f)+"|Route.Glob is a successfully compiled pattern", st.Pos(), x.validGlob(st.Val, st.Block(), 0, map[ssa.Value]bool{}) || x.validGlobBeforeEscape(st),
				"the glob matcher calls r.Glob.Match on every route of the looked-up host; a route whose Glob is not the result of a glob.Compile that succeeded (err == nil edge) makes lookups under proxy.matcher=glob dereference nil — a route configuration text then crashes request handling")
		})
	}
	c.atLeast("C02.P9", "stores to Route.Glob", n, 1)
	// Route literals must set it at all
	for _, f := range c02fns(c) {
		if rootPkg(f) != c.spkg("route") {
			continue
		}
		for _, a := range allocsOf(f, "route.Route") {
			if a.Comment != "complit" {
				continue
			}
			c.check("C02.P9", fnKey(f)+"|Route literal sets Glob", a.Pos(), len(fieldStores(a)["Glob"]) > 0, "a Route built without a compiled Glob panics in the glob matcher")
		}
	}
}
