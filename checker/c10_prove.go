package main

import (
	"fmt"
	"go/constant"
	"go/token"
	"go/types"
	"math"

	"golang.org/x/tools/go/ssa"
)

// The C10 prover: a difference-bound system over TERMS instead of raw SSA values. A term is an integer SSA value or
// the LENGTH of a slice/string SSA value (every `len(x)` call on the same x is the same term, so a test of len(data)
// in one place speaks about the index into data in another). It differs from dbm.go (shared, read-only) in four
// ways that matter for a claim at level "proof":
//
//   - arithmetic is wrap-aware: v = x-4 only becomes the constraint v - x = -4 when x-4 provably does not wrap in the
//     type of v (a uint16 subtraction does, an int one on a 16-bit quantity does not);
//   - length terms have definitions: len(x[a:b]) = b-a, len(make([]T, n)) = n, len(string(b)) = len(b);
//   - it is interprocedural in both directions. Parameters of a helper whose every call site is a static call in the
//     repository carry the differences proved between the corresponding arguments at ALL those sites ("what is
//     indexed is the parameter b, every caller passes a slice of length >= 3"). Results of repository helpers carry the
//     constant bounds proved at every return that is compatible with what the caller knows about the error result;
//   - nothing is keyed by function name, line or expression text: a residual bounds check is identified by the SSA
//     instruction at the position the compiler reports and is proved from the facts that dominate it.
//
// Sound and incomplete: an unanswered query leaves the obligation undischarged.

type c10term struct {
	v     ssa.Value
	isLen bool
	fld   int // k+1: the term speaks about field k of the struct VALUE v (c10_fields.go); 0: about v itself
}

func c10val(v ssa.Value) c10term { return c10term{v: v} }
func c10len(v ssa.Value) c10term { return c10term{v: v, isLen: true} }
func c10k(k int64) c10term {
	return c10term{v: ssa.NewConst(constant.MakeInt64(k), types.Typ[types.Int])}
}

const (
	c10MaxDepth = 6
	c10MaxLen   = int64(1) << 56 // no slice or string is longer than this (address space)
	c10Inf      = int64(math.MaxInt64)
)

// c10prover holds what is shared by all constraint systems of one run.
type c10prover struct {
	roots   map[*ssa.Function]bool // entry points fed with hostile bytes: nothing is assumed about their parameters
	memo    map[c10memoKey]*c10dbm
	phiBusy map[*ssa.Phi]bool
	// memory (c10_mem.go)
	loadBusy  map[*ssa.UnOp]bool
	mayWrite  map[string]bool
	canonMemo map[*ssa.UnOp]ssa.Value
	canonBusy map[*ssa.UnOp]bool
}

type c10memoKey struct {
	b     *ssa.BasicBlock
	depth int
	asm   string
}

func newC10Prover(roots map[*ssa.Function]bool) *c10prover {
	return &c10prover{roots: roots, memo: map[c10memoKey]*c10dbm{}, phiBusy: map[*ssa.Phi]bool{}, loadBusy: map[*ssa.UnOp]bool{}, mayWrite: map[string]bool{}, canonMemo: map[*ssa.UnOp]ssa.Value{}, canonBusy: map[*ssa.UnOp]bool{}}
}

type c10dbm struct {
	px       *c10prover
	block    *ssa.BasicBlock
	depth    int
	idx      map[c10term]int
	terms    []c10term
	edges    []dbmEdge // v - u <= w  (edge u -> v with weight w)
	facts    []Fact
	neq      []c10neq
	pending  []int // nodes with a definition that needs bounds of its operands (re-evaluated until stable)
	imported map[*ssa.Function]bool
	added    map[[2]int]int64 // tightest edge added so far per (u,v): keeps refinement rounds finite
	settling bool
	postDone bool
	relDone  map[*ssa.Call]bool
	asm      []c10asm // what is assumed beyond the branch facts (results of an inner call on the path a caller is on)
}

// c10asm: an assumption about a value at a return of a helper, made because the caller is on the edge where the
// corresponding result is nil (an error), true or false (a success flag).
type c10asm struct {
	v    ssa.Value
	kind int
}

const (
	c10isNil = iota
	c10isTrue
	c10isFalse
)

type c10neq struct {
	x int
	k int64
}

// at returns the constraint system holding at block b.
func (px *c10prover) at(b *ssa.BasicBlock, depth int) *c10dbm { return px.atAssume(b, depth, nil) }

// atAssume: the system at b under additional assumptions about values (see c10asm).
func (px *c10prover) atAssume(b *ssa.BasicBlock, depth int, asm []c10asm) *c10dbm {
	key := c10memoKey{b, depth, ""}
	for _, a := range asm {
		key.asm += fmt.Sprintf("%p/%d;", a.v, a.kind)
	}
	if d := px.memo[key]; d != nil {
		return d
	}
	d := &c10dbm{px: px, block: b, depth: depth, idx: map[c10term]int{}, imported: map[*ssa.Function]bool{}, added: map[[2]int]int64{}, asm: asm}
	d.terms = append(d.terms, c10term{}) // node 0 = the constant zero
	px.memo[key] = d
	d.facts = c10factsAt(b)
	// an assumed truth value is a branch fact like any other (and is unfolded like one: ok := err == nil)
	for _, a := range asm {
		if a.kind == c10isTrue || a.kind == c10isFalse {
			n := len(d.facts)
			d.facts = appendCondFacts(d.facts, a.v, a.kind == c10isTrue, 0)
			for _, f := range append([]Fact{}, d.facts[n:]...) {
				d.facts = c10unfoldVerdict(d.facts, f, 0)
			}
		}
	}
	for _, f := range d.facts {
		d.assume(f)
	}
	return d
}

func isConstInt(v ssa.Value) bool { _, ok := constInt(v); return ok }

// termOf canonicalises an integer SSA value: a call of len is the length term of its argument.
func c10termOf(v ssa.Value) c10term {
	if call, ok := v.(*ssa.Call); ok && len(call.Call.Args) == 1 && calleeName(&call.Call) == "builtin.len" {
		if c10hasLen(call.Call.Args[0].Type()) {
			return c10len(call.Call.Args[0])
		}
	}
	return c10val(v)
}

// c10hasLen: slices and strings (arrays and pointers to arrays have a constant length, handled by c10lenOf).
func c10hasLen(t types.Type) bool {
	switch u := t.Underlying().(type) {
	case *types.Slice:
		return true
	case *types.Basic:
		return u.Info()&types.IsString != 0
	}
	return false
}

// c10lenOf: the term standing for the number of elements of x (a constant for arrays).
func c10lenOf(x ssa.Value) (c10term, bool) {
	t := x.Type().Underlying()
	if p, ok := t.(*types.Pointer); ok {
		t = p.Elem().Underlying()
	}
	if a, ok := t.(*types.Array); ok {
		return c10k(a.Len()), true
	}
	if c10hasLen(x.Type()) {
		return c10len(x), true
	}
	return c10term{}, false
}

func (d *c10dbm) le(x, y int, c int64) {
	key := [2]int{y, x}
	if old, ok := d.added[key]; ok && old <= c {
		return
	}
	d.added[key] = c
	d.edges = append(d.edges, dbmEdge{y, x, c})
}

func (d *c10dbm) eq(x, y int, k int64) { // x = y + k
	d.le(x, y, k)
	d.le(y, x, -k)
}

func (d *c10dbm) node(t c10term) int {
	if !t.isLen && t.fld == 0 {
		if k, ok := constInt(t.v); ok {
			// constants are shared by value
			for i, o := range d.terms {
				if i > 0 && !o.isLen {
					if k2, ok2 := constInt(o.v); ok2 && k2 == k {
						return i
					}
				}
			}
		}
	}
	if i, ok := d.idx[t]; ok {
		return i
	}
	i := len(d.terms)
	d.idx[t] = i
	d.terms = append(d.terms, t)
	d.define(t, i)
	return i
}

// c10typeRange: the values an integer type can hold, as far as int64 can say it.
func c10typeRange(t types.Type) (lo, hi int64, okLo, okHi bool) {
	b, ok := t.Underlying().(*types.Basic)
	if !ok || b.Info()&types.IsInteger == 0 {
		return 0, 0, false, false
	}
	switch b.Kind() {
	case types.Uint8:
		return 0, 255, true, true
	case types.Uint16:
		return 0, 65535, true, true
	case types.Uint32:
		return 0, math.MaxUint32, true, true
	case types.Int8:
		return -128, 127, true, true
	case types.Int16:
		return -32768, 32767, true, true
	case types.Int32:
		return math.MinInt32, math.MaxInt32, true, true
	case types.Uint, types.Uint64, types.Uintptr:
		return 0, 0, true, false
	}
	return 0, 0, false, false
}

// c10fits: can every integer in [lo,hi] be represented in t without wrapping? (64-bit types: the int64 range, and
// lo >= 0 for the unsigned ones; bounds near the ends of int64 are refused so that the sums computed here cannot wrap.)
func c10fits(t types.Type, lo, hi int64) bool {
	const guard = int64(1) << 58
	if lo < -guard || hi > guard || lo > hi {
		return false
	}
	tl, th, okLo, okHi := c10typeRange(t)
	if okLo && lo < tl {
		return false
	}
	if okHi && hi > th {
		return false
	}
	return true
}

// define adds what follows from the definition of t alone; definitions that need bounds of operands are queued.
func (d *c10dbm) define(t c10term, i int) {
	if t.fld != 0 {
		d.defineField(t, i)
		return
	}
	if t.isLen {
		d.le(0, i, 0)         // len >= 0
		d.le(i, 0, c10MaxLen) // and not astronomically large
		switch x := t.v.(type) {
		case *ssa.Const:
			if x.Value == nil {
				d.eq(i, 0, 0)
			} else if x.Value.Kind() == constant.String {
				d.eq(i, 0, int64(len(constant.StringVal(x.Value))))
			}
		case *ssa.MakeSlice:
			d.eq(i, d.node(c10termOf(x.Len)), 0)
		case *ssa.Convert:
			if c10hasLen(x.X.Type()) && c10sameLenConv(x.X.Type(), x.Type()) {
				d.eq(i, d.node(c10len(x.X)), 0)
			}
		case *ssa.ChangeType:
			if c10hasLen(x.X.Type()) {
				d.eq(i, d.node(c10len(x.X)), 0)
			}
		case *ssa.Slice:
			d.pending = append(d.pending, i)
		case *ssa.Parameter:
			d.importParams(x.Parent())
		case *ssa.Call, *ssa.Extract:
			d.importResult(t, i)
		case *ssa.Phi:
			d.importPhi(t, x, i)
		case *ssa.UnOp:
			d.importLoad(t, x, i)
		}
		return
	}
	if k, ok := constInt(t.v); ok {
		d.eq(i, 0, k)
		return
	}
	if !isIntType(t.v.Type()) {
		return
	}
	if lo, hi, okLo, okHi := c10typeRange(t.v.Type()); okLo || okHi {
		if okLo {
			d.le(0, i, -lo)
		}
		if okHi {
			d.le(i, 0, hi)
		}
	}
	switch x := t.v.(type) {
	case *ssa.BinOp:
		switch x.Op {
		case token.ADD, token.SUB, token.MUL, token.QUO, token.REM, token.SHL, token.SHR, token.OR, token.AND, token.XOR, token.AND_NOT:
			d.pending = append(d.pending, i)
			d.congruent(x, i)
		}
	case *ssa.Convert:
		if !isIntType(x.X.Type()) {
			return
		}
		if staticWidens(x.X.Type(), x.Type()) {
			d.eq(i, d.node(c10termOf(x.X)), 0)
		} else {
			d.pending = append(d.pending, i)
		}
	case *ssa.ChangeType:
		if isIntType(x.X.Type()) {
			d.eq(i, d.node(c10termOf(x.X)), 0)
		}
	case *ssa.Parameter:
		d.importParams(x.Parent())
	case *ssa.Call:
		switch calleeName(&x.Call) {
		case "builtin.len", "builtin.cap":
			d.le(0, i, 0)
			d.le(i, 0, c10MaxLen)
			if calleeName(&x.Call) == "builtin.cap" && len(x.Call.Args) == 1 && c10hasLen(x.Call.Args[0].Type()) {
				d.le(d.node(c10len(x.Call.Args[0])), i, 0) // len <= cap
			}
			return
		case "builtin.min", "builtin.max":
			d.pending = append(d.pending, i)
			return
		}
		d.importResult(t, i)
	case *ssa.Extract:
		d.importResult(t, i)
	case *ssa.Phi:
		d.importPhi(t, x, i)
	case *ssa.UnOp:
		if x.Op == token.MUL {
			d.importLoad(t, x, i)
		}
	}
}

// congruent: the same operation on provably equal operands yields the same value (`c.off+n` written once in the test
// and once in the slice expression; go/ssa does not share them, and with operands loaded from memory they are not even
// the same SSA operands). Operands are equal when they are the same term or the system already holds a - b = 0.
func (d *c10dbm) congruent(x *ssa.BinOp, i int) {
	same := func(a, b ssa.Value) bool {
		ta, tb := c10termOf(a), c10termOf(b)
		if ta == tb {
			return true
		}
		if !isIntType(a.Type()) || !isIntType(b.Type()) {
			return false
		}
		na, nb := d.node(ta), d.node(tb)
		if na == nb {
			return true
		}
		u1, ok1 := d.rawUpper(na, nb)
		u2, ok2 := d.rawUpper(nb, na)
		return ok1 && ok2 && u1 == 0 && u2 == 0
	}
	for j := 1; j < len(d.terms); j++ {
		o := d.terms[j]
		if j == i || o.isLen {
			continue
		}
		y, ok := o.v.(*ssa.BinOp)
		if !ok || y == x || y.Op != x.Op || !types.Identical(y.Type(), x.Type()) || !types.Identical(y.X.Type(), x.X.Type()) {
			continue
		}
		if same(y.X, x.X) && same(y.Y, x.Y) {
			d.eq(i, j, 0)
			return
		}
	}
}

// c10sameLenConv: conversions between string, []byte and named variants of them keep the length ([]rune does not).
func c10sameLenConv(from, to types.Type) bool {
	byteLike := func(t types.Type) bool {
		switch u := t.Underlying().(type) {
		case *types.Basic:
			return u.Info()&types.IsString != 0
		case *types.Slice:
			b, ok := u.Elem().Underlying().(*types.Basic)
			return ok && (b.Kind() == types.Uint8)
		}
		return false
	}
	return byteLike(from) && byteLike(to)
}

// ---- branch facts ---------------------------------------------------------------------------------------------------

func (d *c10dbm) assume(f Fact) {
	b, ok := f.Cond.(*ssa.BinOp)
	if !ok {
		return
	}
	if b.Op == token.EQL || b.Op == token.NEQ {
		// s == "" speaks about len(s)
		s, k := b.X, b.Y
		if _, isK := constString(s); isK {
			s, k = k, s
		}
		if str, isK := constString(k); isK && str == "" && c10hasLen(s.Type()) {
			i := d.node(c10len(s))
			if (b.Op == token.EQL) == f.Truth {
				d.eq(i, 0, 0)
			} else {
				d.neq = append(d.neq, c10neq{i, 0})
			}
			return
		}
	}
	if !isIntType(b.X.Type()) || !isIntType(b.Y.Type()) {
		return
	}
	op := b.Op
	if !f.Truth {
		switch op {
		case token.LSS:
			op = token.GEQ
		case token.GEQ:
			op = token.LSS
		case token.GTR:
			op = token.LEQ
		case token.LEQ:
			op = token.GTR
		case token.EQL:
			op = token.NEQ
		case token.NEQ:
			op = token.EQL
		default:
			return
		}
	}
	switch op {
	case token.LSS, token.LEQ, token.GTR, token.GEQ, token.EQL, token.NEQ:
	default:
		return
	}
	x, y := d.node(c10termOf(b.X)), d.node(c10termOf(b.Y))
	switch op {
	case token.LSS: // x < y
		d.le(x, y, -1)
	case token.LEQ:
		d.le(x, y, 0)
	case token.GTR:
		d.le(y, x, -1)
	case token.GEQ:
		d.le(y, x, 0)
	case token.EQL:
		d.eq(x, y, 0)
	case token.NEQ:
		if k, ok := constInt(b.Y); ok {
			d.neq = append(d.neq, c10neq{x, k})
		} else if k, ok := constInt(b.X); ok {
			d.neq = append(d.neq, c10neq{y, k})
		}
	}
}

// ---- shortest paths ---------------------------------------------------------------------------------------------------

// dist computes the shortest distances from node src (Bellman-Ford). A negative cycle means the facts are
// contradictory (the point is unreachable); every bound then holds vacuously and the distances are still sound
// upper bounds because relaxation only ever uses true constraints.
func (d *c10dbm) dist(src int) []int64 {
	n := len(d.terms)
	dist := make([]int64, n)
	for i := range dist {
		dist[i] = c10Inf
	}
	dist[src] = 0
	for it := 0; it <= n; it++ {
		ch := false
		for _, e := range d.edges {
			if e.u >= n || e.v >= n {
				continue
			}
			if dist[e.u] == c10Inf || (e.w > 0 && dist[e.u] > c10Inf-e.w) || (e.w < 0 && dist[e.u] < math.MinInt64-e.w) {
				continue // unreachable, or the sum would leave int64
			}
			if dist[e.u]+e.w < dist[e.v] {
				dist[e.v] = dist[e.u] + e.w
				ch = true
			}
		}
		if !ch {
			break
		}
	}
	return dist
}

func (d *c10dbm) rawUpper(x, y int) (int64, bool) {
	v := d.dist(y)[x]
	return v, v != c10Inf
}

func (d *c10dbm) rawLower(x int) (int64, bool) {
	v := d.dist(x)[0]
	if v == c10Inf {
		return 0, false
	}
	return -v, true
}

// upper: the least proved c with x - y <= c.
func (d *c10dbm) upper(x, y c10term) (int64, bool) {
	d.importPost()
	xi, yi := d.nodeOrZero(x), d.nodeOrZero(y)
	d.settle()
	return d.rawUpper(xi, yi)
}

// lower: the greatest proved c with x >= c.
func (d *c10dbm) lower(x c10term) (int64, bool) {
	d.importPost()
	xi := d.nodeOrZero(x)
	d.settle()
	return d.rawLower(xi)
}

func (d *c10dbm) nodeOrZero(t c10term) int {
	if t.v == nil {
		return 0
	}
	return d.node(t)
}

// proveLE: x - y <= c holds at this point.
func (d *c10dbm) proveLE(x, y c10term, c int64) bool {
	u, ok := d.upper(x, y)
	return ok && u <= c
}

// ---- definitions that need operand bounds ------------------------------------------------------------------------------

// settle re-evaluates the queued definitions until no new constraint appears (at most a few rounds: every round only
// adds strictly tighter edges, and refinement stops after c10Rounds).
const c10Rounds = 6

func (d *c10dbm) settle() {
	if d.settling {
		return
	}
	d.settling = true
	defer func() { d.settling = false }()
	for round := 0; round < c10Rounds; round++ {
		before := len(d.edges)
		for k := 0; k < len(d.pending); k++ { // pending may grow while we iterate
			d.refine(d.pending[k])
		}
		for _, q := range d.neq {
			if lo, ok := d.rawLower(q.x); ok && lo == q.k {
				d.le(0, q.x, -(q.k + 1))
			}
			if hi, ok := d.rawUpper(q.x, 0); ok && hi == q.k {
				d.le(q.x, 0, q.k-1)
			}
		}
		if len(d.edges) == before {
			return
		}
	}
}

type c10rng struct {
	lo, hi     int64
	okLo, okHi bool
}

func (d *c10dbm) rng(i int) c10rng {
	var r c10rng
	r.lo, r.okLo = d.rawLower(i)
	r.hi, r.okHi = d.rawUpper(i, 0)
	const guard = int64(1) << 57
	if r.okLo && (r.lo < -guard || r.lo > guard) {
		r.okLo = false
	}
	if r.okHi && (r.hi < -guard || r.hi > guard) {
		r.okHi = false
	}
	return r
}

func (r c10rng) both() bool   { return r.okLo && r.okHi }
func (r c10rng) nonNeg() bool { return r.okLo && r.lo >= 0 }

// setRange constrains node i to [lo,hi] provided the whole interval is representable in typ (otherwise the
// operation may wrap and only the type's own range, added at creation, is known).
func (d *c10dbm) setRange(i int, typ types.Type, lo, hi int64) bool {
	if !c10fits(typ, lo, hi) {
		return false
	}
	d.le(0, i, -lo)
	d.le(i, 0, hi)
	return true
}

func (d *c10dbm) refine(i int) {
	t := d.terms[i]
	if t.isLen {
		if s, ok := t.v.(*ssa.Slice); ok {
			d.refineSliceLen(i, s)
		}
		return
	}
	switch x := t.v.(type) {
	case *ssa.Convert:
		// a narrowing or sign-changing conversion preserves the value when the operand's proved range fits
		src := d.node(c10termOf(x.X))
		if r := d.rng(src); r.both() && c10fits(x.Type(), r.lo, r.hi) {
			d.eq(i, src, 0)
		}
	case *ssa.Call: // min / max
		name := calleeName(&x.Call)
		var lo, hi int64
		okLo, okHi := true, true
		for k, a := range x.Call.Args {
			ai := d.node(c10termOf(a))
			r := d.rng(ai)
			if name == "builtin.min" {
				d.le(i, ai, 0)
			} else {
				d.le(ai, i, 0)
			}
			okLo, okHi = okLo && r.okLo, okHi && r.okHi
			if k == 0 {
				lo, hi = r.lo, r.hi
				continue
			}
			if name == "builtin.min" {
				lo, hi = min(lo, r.lo), min(hi, r.hi)
			} else {
				lo, hi = max(lo, r.lo), max(hi, r.hi)
			}
		}
		if okLo {
			d.le(0, i, -lo)
		}
		if okHi {
			d.le(i, 0, hi)
		}
	case *ssa.BinOp:
		xi, yi := d.node(c10termOf(x.X)), d.node(c10termOf(x.Y))
		rx, ry := d.rng(xi), d.rng(yi)
		typ := x.Type()
		switch x.Op {
		case token.ADD:
			if rx.both() && ry.both() && c10fits(typ, rx.lo+ry.lo, rx.hi+ry.hi) {
				// no wrap: v = x + y exactly, so v - x is within y's range and v - y within x's
				d.le(i, xi, ry.hi)
				d.le(xi, i, -ry.lo)
				d.le(i, yi, rx.hi)
				d.le(yi, i, -rx.lo)
			}
		case token.SUB:
			if rx.both() && ry.both() && c10fits(typ, rx.lo-ry.hi, rx.hi-ry.lo) {
				d.le(i, xi, -ry.lo)
				d.le(xi, i, ry.hi)
				d.setRange(i, typ, rx.lo-ry.hi, rx.hi-ry.lo)
			}
		case token.MUL:
			if rx.both() && ry.both() && rx.lo >= 0 && ry.lo >= 0 && rx.hi < 1<<30 && ry.hi < 1<<30 {
				d.setRange(i, typ, rx.lo*ry.lo, rx.hi*ry.hi)
			}
		case token.QUO:
			if k, ok := constInt(x.Y); ok && k > 0 && rx.nonNeg() {
				d.le(0, i, -(rx.lo / k))
				if rx.okHi {
					d.le(i, 0, rx.hi/k)
				}
				d.le(i, xi, 0) // x/k <= x for x >= 0
			}
		case token.REM:
			if k, ok := constInt(x.Y); ok && k > 0 && rx.nonNeg() {
				d.le(0, i, 0)
				d.le(i, 0, k-1)
				d.le(i, xi, 0)
			}
		case token.SHL:
			if k, ok := constInt(x.Y); ok && k >= 0 && k < 48 && rx.both() && rx.lo >= 0 && rx.hi < 1<<(56-uint(k)) {
				d.setRange(i, typ, rx.lo<<uint(k), rx.hi<<uint(k))
			}
		case token.SHR:
			if k, ok := constInt(x.Y); ok && k >= 0 && k < 63 && rx.nonNeg() {
				d.le(0, i, -(rx.lo >> uint(k)))
				if rx.okHi {
					d.le(i, 0, rx.hi>>uint(k))
				}
				d.le(i, xi, 0)
			}
		case token.OR, token.XOR:
			if rx.both() && ry.both() && rx.lo >= 0 && ry.lo >= 0 {
				// for non-negative operands a|b <= a+b and a|b >= max(a,b); a^b <= a+b and >= 0
				lo := int64(0)
				if x.Op == token.OR {
					lo = max(rx.lo, ry.lo)
					d.le(xi, i, 0)
					d.le(yi, i, 0)
				}
				d.setRange(i, typ, lo, rx.hi+ry.hi)
			}
		case token.AND:
			if rx.nonNeg() && ry.nonNeg() {
				d.le(0, i, 0)
				d.le(i, xi, 0)
				d.le(i, yi, 0)
			} else if ry.nonNeg() {
				d.le(0, i, 0)
				d.le(i, yi, 0)
			} else if rx.nonNeg() {
				d.le(0, i, 0)
				d.le(i, xi, 0)
			}
		case token.AND_NOT:
			if rx.nonNeg() {
				d.le(0, i, 0)
				d.le(i, xi, 0)
			}
		}
	}
}

// refineSliceLen: s = x[lo:hi] (executed successfully, else control does not get past it) has len(s) = hi' - lo with
// hi' = hi or len(x).
func (d *c10dbm) refineSliceLen(i int, s *ssa.Slice) {
	var hi int
	if s.High != nil {
		hi = d.node(c10termOf(s.High))
	} else {
		lt, ok := c10lenOf(s.X)
		if !ok {
			return
		}
		hi = d.node(lt)
	}
	if s.Low == nil {
		d.eq(i, hi, 0)
		return
	}
	lo := d.node(c10termOf(s.Low))
	// x[off : off+n] has length n: the sum did not wrap (both operands bounded, the result fits its type)
	if add, ok := s.High.(*ssa.BinOp); ok && add.Op == token.ADD {
		for k, op := range []ssa.Value{add.X, add.Y} {
			other := add.Y
			if k == 1 {
				other = add.X
			}
			oi, ni := d.node(c10termOf(op)), d.node(c10termOf(other))
			u1, ok1 := d.rawUpper(oi, lo)
			u2, ok2 := d.rawUpper(lo, oi)
			ro, rn := d.rng(oi), d.rng(ni)
			if ok1 && ok2 && u1 == 0 && u2 == 0 && ro.both() && rn.both() && c10fits(add.Type(), ro.lo+rn.lo, ro.hi+rn.hi) {
				d.eq(i, ni, 0)
				break
			}
		}
	}
	r := d.rng(lo)
	if r.okLo {
		d.le(i, hi, -r.lo) // len(s) <= hi' - min(lo)
	}
	if r.okHi {
		d.le(hi, i, r.hi) // len(s) >= hi' - max(lo)
	}
	// lo = hi' - len(s) as well
	ri := d.rng(i)
	if ri.okLo {
		d.le(lo, hi, -ri.lo)
	}
}

// c10allCallersKnown: every call of f is one of the static call sites in gSites. Beyond onlyStaticallyCalled (shared)
// this refuses functions that escape as METHOD VALUES or method expressions: go/ssa wraps those in synthetic
// $bound / $thunk functions, which the shared address-taken scan does not attribute to the wrapped method.
func c10allCallersKnown(f *ssa.Function) bool {
	return onlyStaticallyCalled(f) && !c10wrapped()[f]
}

// c10wrappedFor: methods handed out as values somewhere in the repository (set at the start of each run).
var c10wrappedFor map[*ssa.Function]bool

func c10wrapped() map[*ssa.Function]bool { return c10wrappedFor }

func c10scanWrapped(fns []*ssa.Function) map[*ssa.Function]bool {
	out := map[*ssa.Function]bool{}
	for _, f := range fns {
		eachInstr(f, func(i ssa.Instruction) {
			for _, op := range i.Operands(nil) {
				if op == nil || *op == nil {
					continue
				}
				var g *ssa.Function
				switch x := (*op).(type) {
				case *ssa.Function:
					g = x
				case *ssa.MakeClosure:
					g, _ = x.Fn.(*ssa.Function)
				}
				if g != nil && g.Synthetic != "" {
					if w := unwrap(g); w != g {
						out[w] = true
					}
				}
			}
		})
	}
	return out
}

// ---- parameters: what all callers guarantee -------------------------------------------------------------------------

// c10paramTerms: the terms of f's parameters the prover can speak about.
func c10paramTerms(f *ssa.Function) []c10term {
	var out []c10term
	for _, p := range f.Params {
		switch {
		case isIntType(p.Type()):
			out = append(out, c10val(p))
		case c10hasLen(p.Type()):
			out = append(out, c10len(p))
		default:
			out = append(out, c10fieldTerms(p)...) // a struct passed by value: its integer and slice fields
		}
	}
	return out
}

// importParams adds, for a helper all of whose callers are known, every difference a - b <= w between two parameter
// terms (or a parameter term and zero) that holds between the corresponding arguments at EVERY call site.
func (d *c10dbm) importParams(f *ssa.Function) {
	if f == nil || d.imported[f] {
		return
	}
	d.imported[f] = true
	if d.px.roots[f] || d.depth >= c10MaxDepth || !c10allCallersKnown(f) {
		return
	}
	sites := gSites[f]
	if len(sites) == 0 || len(sites) > 8 {
		return
	}
	pts := append([]c10term{{}}, c10paramTerms(f)...)
	if len(pts) < 2 || len(pts) > 12 {
		return
	}
	argOf := func(t c10term, site ssa.CallInstruction, sd *c10dbm) (c10term, bool) {
		if t.v == nil {
			return t, true
		}
		cc := site.Common()
		for k, p := range f.Params {
			if ssa.Value(p) == t.v {
				if k >= len(cc.Args) {
					return c10term{}, false
				}
				// (a field behind a pointer parameter: what the caller's memory holds there when it calls)
				return sd.restate(t, cc.Args[k], site)
			}
		}
		return c10term{}, false
	}
	var sds []*c10dbm
	for _, s := range sites {
		if s.Block() == nil || s.Parent() == f {
			return // recursion: nothing is imported
		}
		sds = append(sds, d.px.at(s.Block(), d.depth+1))
	}
	for _, a := range pts {
		for _, b := range pts {
			if a == b {
				continue
			}
			w, ok := int64(math.MinInt64), true
			for k, s := range sites {
				ta, ok1 := argOf(a, s, sds[k])
				tb, ok2 := argOf(b, s, sds[k])
				if !ok1 || !ok2 {
					ok = false
					break
				}
				u, okU := sds[k].upper(ta, tb)
				if !okU {
					ok = false
					break
				}
				w = max(w, u)
			}
			if ok {
				d.le(d.nodeOrZero(a), d.nodeOrZero(b), w)
			}
		}
	}
}

// ---- results of helpers ------------------------------------------------------------------------------------------------

// c10sameRes: v is result k of call (the call itself when it has a single result).
func c10sameRes(v ssa.Value, call *ssa.Call, k int) bool {
	if e, ok := v.(*ssa.Extract); ok {
		return e.Tuple == ssa.Value(call) && e.Index == k
	}
	return v == ssa.Value(call) && k == 0 && call.Call.Signature().Results().Len() == 1
}

// knows: the branch facts or the assumptions of this system say that v is nil / true / false.
func (d *c10dbm) knows(same func(ssa.Value) bool, kind int) bool {
	for _, a := range d.asm {
		if a.kind == kind && same(a.v) {
			return true
		}
	}
	for _, f := range d.facts {
		switch kind {
		case c10isNil:
			if nn, ok := nilFact(f, same); ok && !nn {
				return true
			}
		case c10isTrue:
			if f.Truth && same(f.Cond) {
				return true
			}
		case c10isFalse:
			if !f.Truth && same(f.Cond) {
				return true
			}
		}
	}
	return false
}

// c10known: what a caller knows about the OTHER results of a call (error nil, flag true/false).
type c10known struct {
	k    int
	kind int
}

func (d *c10dbm) knownResults(call *ssa.Call, except int) []c10known {
	res := call.Call.Signature().Results()
	var out []c10known
	for k := 0; k < res.Len(); k++ {
		if k == except {
			continue
		}
		kk := k
		same := func(v ssa.Value) bool { return c10sameRes(v, call, kk) }
		switch {
		case typeStr(res.At(k).Type()) == "error":
			if d.knows(same, c10isNil) {
				out = append(out, c10known{k, c10isNil})
			}
		case c10isBool(res.At(k).Type()):
			if d.knows(same, c10isTrue) {
				out = append(out, c10known{k, c10isTrue})
			} else if d.knows(same, c10isFalse) {
				out = append(out, c10known{k, c10isFalse})
			}
		}
	}
	return out
}

func c10isBool(t types.Type) bool {
	b, ok := t.Underlying().(*types.Basic)
	return ok && b.Kind() == types.Bool
}

// c10returnExcluded: the return r cannot be the one taken given what the caller knows about the results.
func c10returnExcluded(r *ssa.Return, kn []c10known) bool {
	for _, q := range kn {
		if q.k >= len(r.Results) {
			continue
		}
		v := r.Results[q.k]
		switch q.kind {
		case c10isNil:
			if c10certainlyNonNil(v, r.Block()) {
				return true
			}
		case c10isTrue:
			if b, ok := constBool(v); ok && !b {
				return true
			}
		case c10isFalse:
			if b, ok := constBool(v); ok && b {
				return true
			}
		}
	}
	return false
}

// c10returnAsm: the caller's knowledge, restated about the values returned at r.
func c10returnAsm(r *ssa.Return, kn []c10known) []c10asm {
	var out []c10asm
	for _, q := range kn {
		if q.k < len(r.Results) {
			if _, isK := r.Results[q.k].(*ssa.Const); !isK {
				out = append(out, c10asm{r.Results[q.k], q.kind})
			}
		}
	}
	return out
}

// importResult bounds the (length of the) result of a call of a repository function by what holds at each of its
// returns: constant bounds, and bounds relative to the function's parameters (len(result) - n = 0 for a helper that
// returns b[:n]), restated about the arguments of this call. Returns that cannot be the one taken given what the
// caller knows (error certainly non-nil while the caller is on the err == nil edge, flag constant false while the caller
// is on the ok edge) are left out; at the others that knowledge is assumed about the returned values, so that a helper
// that forwards the results of an inner call is seen through.
func (d *c10dbm) importResult(t c10term, i int) {
	var call *ssa.Call
	idx := 0
	switch x := t.v.(type) {
	case *ssa.Call:
		call = x
	case *ssa.Extract:
		call, _ = x.Tuple.(*ssa.Call)
		idx = x.Index
	}
	d.importCallResult(t, i, call, idx)
}

// importCallResult: node i is (the length of / the field t.fld-1 of) result idx of call.
func (d *c10dbm) importCallResult(t c10term, i int, call *ssa.Call, idx int) {
	if call == nil || d.depth >= c10MaxDepth {
		return
	}
	// the one library contract the handler relies on: (*bufio.Reader).Peek(n) returns exactly n bytes when its error is nil
	if t.isLen && idx == 0 && !call.Call.IsInvoke() && calleeName(&call.Call) == "(*bufio.Reader).Peek" && len(call.Call.Args) == 2 {
		if d.knows(func(v ssa.Value) bool { return c10sameRes(v, call, 1) }, c10isNil) {
			d.eq(i, d.node(c10termOf(call.Call.Args[1])), 0)
		}
		return
	}
	g := call.Call.StaticCallee()
	if g == nil || !isRepoFn(g) || len(g.Blocks) == 0 || g == call.Parent() {
		return
	}
	d.importResultRelations(call)
	kn := d.knownResults(call, idx)
	// parameter terms of g and the corresponding argument terms of this call (zero first)
	pts, ats := d.paramArgTerms(g, call)
	if len(pts) > 6 {
		pts, ats = pts[:6], ats[:6]
	}
	up := make([]int64, len(pts)) // result - param <= up
	dn := make([]int64, len(pts)) // param - result <= dn
	okUp := make([]bool, len(pts))
	okDn := make([]bool, len(pts))
	for k := range pts {
		up[k], dn[k], okUp[k], okDn[k] = math.MinInt64, math.MinInt64, true, true
	}
	n := 0
	eachInstr(g, func(in ssa.Instruction) {
		r, ok := in.(*ssa.Return)
		if !ok || idx >= len(r.Results) || c10returnExcluded(r, kn) {
			return
		}
		n++
		rd := d.px.atAssume(r.Block(), d.depth+1, c10returnAsm(r, kn))
		rt, okRt := rd.restate(t, r.Results[idx], r)
		if !okRt {
			for k := range pts {
				okUp[k], okDn[k] = false, false
			}
			return
		}
		for k, p := range pts {
			if okUp[k] {
				if u, ok := rd.upper(rt, p); ok {
					up[k] = max(up[k], u)
				} else {
					okUp[k] = false
				}
			}
			if okDn[k] {
				if u, ok := rd.upper(p, rt); ok {
					dn[k] = max(dn[k], u)
				} else {
					okDn[k] = false
				}
			}
		}
	})
	if n == 0 {
		return
	}
	for k := range pts {
		a := d.nodeOrZero(ats[k])
		if okUp[k] {
			d.le(i, a, up[k])
		}
		if okDn[k] {
			d.le(a, i, dn[k])
		}
	}
}

// c10certainlyNonNil: the error value v returned from block b cannot be nil.
func c10certainlyNonNil(v ssa.Value, b *ssa.BasicBlock) bool {
	switch x := v.(type) {
	case *ssa.MakeInterface:
		return true
	case *ssa.Call:
		switch calleeName(&x.Call) {
		case "errors.New", "fmt.Errorf":
			return true
		}
	}
	if sentinelError(v) {
		return true
	}
	return c10knownNonNil(b, sameVal(v))
}

// importPhi: a merged value lies within the hull of its inputs, each bounded where it flows in.
func (d *c10dbm) importPhi(t c10term, p *ssa.Phi, i int) {
	if d.px.phiBusy[p] || d.depth >= c10MaxDepth {
		return
	}
	d.px.phiBusy[p] = true
	defer delete(d.px.phiBusy, p)
	lo, hi := c10Inf, int64(math.MinInt64)
	okLo, okHi := true, true
	for k, e := range p.Edges {
		if k >= len(p.Block().Preds) {
			return
		}
		pd := d.px.at(p.Block().Preds[k], d.depth+1)
		et := c10re(t, e)
		l, ok1 := pd.lower(et)
		u, ok2 := pd.upper(et, c10term{})
		okLo, okHi = okLo && ok1, okHi && ok2
		lo, hi = min(lo, l), max(hi, u)
	}
	if okLo {
		d.le(0, i, -lo)
	}
	if okHi {
		d.le(i, 0, hi)
	}
}

// ---- obligations ----------------------------------------------------------------------------------------------------------

// c10boundsOK proves that the index / slice / conversion instruction in cannot fail, from the facts dominating it.
// Slices are proved against the LENGTH of the operand (stricter than the capacity the language checks): reading
// between len and cap is reading bytes the surrounding checks did not account for.
func (px *c10prover) boundsOK(in ssa.Instruction) (bool, string) {
	d := px.at(in.Block(), 0)
	switch x := in.(type) {
	case *ssa.IndexAddr:
		return d.indexOK(x.X, x.Index)
	case *ssa.Index:
		return d.indexOK(x.X, x.Index)
	case *ssa.Lookup:
		if !c10hasLen(x.X.Type()) {
			return true, "" // map lookup
		}
		return d.indexOK(x.X, x.Index)
	case *ssa.Slice:
		n, ok := c10lenOf(x.X)
		if !ok {
			return false, "operand without a length"
		}
		zero := c10term{}
		lo := c10k(0)
		if x.Low != nil {
			lo = c10termOf(x.Low)
			if !d.proveLE(zero, lo, 0) {
				return false, "low bound >= 0 not proved"
			}
		}
		hi := n
		if x.High != nil {
			hi = c10termOf(x.High)
			if !d.proveLE(hi, n, 0) {
				return false, "high bound <= len(" + x.X.Name() + ") not proved"
			}
		}
		if !d.proveLE(lo, hi, 0) {
			return false, "low bound <= high bound (len(" + x.X.Name() + ") when omitted) not proved"
		}
		if x.Max != nil {
			mx := c10termOf(x.Max)
			if !d.proveLE(hi, mx, 0) || !d.proveLE(mx, n, 0) {
				return false, "max bound not proved"
			}
		}
		return true, ""
	case *ssa.SliceToArrayPointer:
		p, _ := x.Type().Underlying().(*types.Pointer)
		if p == nil {
			return false, "not a pointer to an array"
		}
		a, _ := p.Elem().Underlying().(*types.Array)
		if a == nil {
			return false, "not a pointer to an array"
		}
		if !d.proveLE(c10k(a.Len()), c10len(x.X), 0) {
			return false, "len(operand) >= array length not proved"
		}
		return true, ""
	}
	return false, "unknown instruction"
}

func (d *c10dbm) indexOK(x, index ssa.Value) (bool, string) {
	n, ok := c10lenOf(x)
	if !ok {
		return false, "operand without a length"
	}
	it := c10termOf(index)
	if !d.proveLE(c10term{}, it, 0) {
		return false, "index >= 0 not proved"
	}
	if !d.proveLE(it, n, -1) {
		return false, "index < len(" + x.Name() + ") not proved"
	}
	return true, ""
}
