package main

// C12.F1 / F2 / F3 / X1 (loop part): the decision functions fail closed. The exported methods (Target.Authorized,
// Target.AccessDeniedHTTP, Target.AccessDeniedTCP, Target.ProcessAccessRules) are named; the per-address decision
// function, the X-Forwarded-For walk and the place where rule errors are handled are found by role.

import (
	"go/token"
	"go/types"

	"golang.org/x/tools/go/ssa"
)

func runC12F(c *Ctx) {
	c12InitRules(c)
	runC12F1Auth(c)

	deny := c12DecisionFn(c)
	if c.need("C12.F3", deny, "the per-address decision function of package route (bool result, consults Target.accessRules by tag and net.IPNet.Contains)") {
		runDenyByIP(c, deny)
		runC12Walks(c, deny)
	}

	// ---- F2: a target must not stay unrestricted after a rule error
	runC12F2(c)
}

// ---- F1: Target.Authorized fails closed --------------------------------------------------------------------------

// c12EmptyString: cond/truth states that v == "" for a v satisfying is.
func c12EmptyString(cond ssa.Value, truth bool, is func(ssa.Value) bool) bool {
	b, ok := cond.(*ssa.BinOp)
	if !ok {
		return false
	}
	x, y := b.X, b.Y
	if _, isK := x.(*ssa.Const); isK {
		x, y = y, x
	}
	switch b.Op {
	case token.EQL, token.NEQ:
		if (b.Op == token.EQL) != truth {
			return false
		}
		if s, isS := constString(y); isS && s == "" && is(x) {
			return true
		}
		// len(v) == 0
		if n, isN := constInt(y); isN && n == 0 {
			if call, isC := x.(*ssa.Call); isC && calleeName(&call.Call) == "builtin.len" && is(call.Call.Args[0]) {
				return true
			}
		}
	}
	return false
}

// c12LenZero: cond/truth states len(v) == 0 for a v satisfying is (== 0, != 0, > 0, < 1, >= 1, <= 0 with either operand order).
func c12LenZero(cond ssa.Value, truth bool, is func(ssa.Value) bool) bool {
	b, ok := cond.(*ssa.BinOp)
	if !ok {
		return false
	}
	x, y, op := b.X, b.Y, b.Op
	if _, isK := x.(*ssa.Const); isK {
		x, y = y, x
		switch op {
		case token.LSS:
			op = token.GTR
		case token.GTR:
			op = token.LSS
		case token.LEQ:
			op = token.GEQ
		case token.GEQ:
			op = token.LEQ
		}
	}
	call, isC := x.(*ssa.Call)
	if !isC || calleeName(&call.Call) != "builtin.len" || !is(call.Call.Args[0]) {
		return false
	}
	n, isN := constInt(y)
	if !isN {
		return false
	}
	switch {
	case op == token.EQL && n == 0, op == token.LSS && n == 1, op == token.LEQ && n == 0:
		return truth
	case op == token.NEQ && n == 0, op == token.GTR && n == 0, op == token.GEQ && n == 1:
		return !truth
	}
	return false
}

func runC12F1Auth(c *Ctx) {
	auth := c.method("route", "Target", "Authorized")
	if !c.need("C12.F1", auth, "route.Target.Authorized") {
		return
	}
	isScheme := func(v ssa.Value) bool {
		// the scheme name of the target, also as the parameter of a helper that is handed it
		return c12AliasIs(v, func(x ssa.Value) bool { _, ok := fieldOf(x, "route.Target", "AuthScheme"); return ok })
	}
	noScheme := &c12Eng{leaf: func(cond ssa.Value, truth bool) (ssa.Value, bool) {
		return nil, c12EmptyString(cond, truth, isScheme)
	}}
	verdict := &c12Eng{leaf: func(cond ssa.Value, truth bool) (ssa.Value, bool) {
		call, ok := cond.(*ssa.Call)
		return nil, ok && truth && call.Call.IsInvoke() && call.Call.Method.Name() == "Authorized"
	}}
	n, nVerdict := 0, 0
	for _, vr := range c12VirtualReturns(auth, 0) {
		n++
		if !vr.val {
			continue // deny
		}
		_, byScheme := verdict.holds(vr)
		_, unset := noScheme.holds(vr)
		if byScheme {
			nVerdict++
		}
		key := "route.(*Target).Authorized|return true"
		c.check("C12.F1", key, vr.pos, byScheme || unset,
			"Authorized may answer true only when no auth scheme is configured (AuthScheme == \"\") or as the configured scheme's own Authorized verdict; an unknown scheme must reject")
	}
	c.atLeast("C12.F1", "outcomes of Target.Authorized", n, 1)
	c.atLeast("C12.F1", "outcomes of Target.Authorized that are the scheme's verdict", nVerdict, 1)
}

// ---- the per-address decision function ------------------------------------------------------------------------------

func c12IsContains(i ssa.Instruction) bool {
	cc := callCommon(i)
	if cc == nil {
		return false
	}
	switch calleeName(cc) {
	case "(*net.IPNet).Contains", "(net/netip.Prefix).Contains":
		return true
	}
	return false
}

// c12DecisionFn: the function of package route that decides one address: bool result, its region consults the rule
// lists by tag and asks net.IPNet.Contains. Today's name first, else the unique / outermost function in that role.
func c12DecisionFn(c *Ctx) *ssa.Function {
	role := func(f *ssa.Function) bool {
		res := f.Signature.Results()
		if f.Parent() != nil || res.Len() != 1 || !types.Identical(res.At(0).Type().Underlying(), types.Typ[types.Bool]) {
			return false
		}
		hasIP := false
		for _, p := range f.Params {
			if typeStr(p.Type()) == "net.IP" || typeStr(p.Type()) == "net/netip.Addr" {
				hasIP = true
			}
		}
		if !hasIP {
			return false
		}
		tags, contains := false, false
		eachInstrOf(c12Region(c, f), func(_ *ssa.Function, i ssa.Instruction) {
			if c12IsContains(i) {
				contains = true
			}
			if c12TagSource(i) {
				tags = true
			}
		})
		return tags && contains
	}
	if f := c.fnByRole("route", "denyByIP", role); f != nil {
		return f
	}
	// the rule set may have moved to a package of its own (route/acl: `func (rs Rules) Denies(ip net.IP) bool`)
	var cands []*ssa.Function
	for _, f := range c.AllFns {
		if isRepoFn(f) && len(f.Blocks) > 0 && role(f) {
			cands = append(cands, f)
		}
	}
	if len(cands) == 1 {
		return cands[0]
	}
	for _, f := range cands {
		reg := map[*ssa.Function]bool{}
		for _, g := range c12Region(c, f) {
			reg[g] = true
		}
		all := true
		for _, g := range cands {
			all = all && reg[g]
		}
		if all {
			return f
		}
	}
	return nil
}

func runDenyByIP(c *Ctx, deny *ssa.Function) {
	key := func(what string) string { return "route.(*Target).denyByIP|" + what }
	var ipParam *ssa.Parameter
	for _, p := range deny.Params {
		if typeStr(p.Type()) == "net.IP" {
			ipParam = p
		}
	}
	tagEng := func(kind string) *c12Eng {
		return &c12Eng{leaf: func(cond ssa.Value, truth bool) (ssa.Value, bool) {
			return nil, c12ListPresent(cond, truth, kind)
		}}
	}
	allowE, denyE := tagEng("allow"), tagEng("deny")
	containsE := &c12Eng{leaf: func(cond ssa.Value, truth bool) (ssa.Value, bool) {
		call, ok := cond.(*ssa.Call)
		return nil, ok && truth && c12IsContains(call)
	}}
	noRulesE := newC12NoRules()
	isIP := func(v ssa.Value) bool { return typeStr(v.Type()) == "net.IP" }
	nilLeaf := func(cond ssa.Value, truth bool) (ssa.Value, bool) {
		if b, ok := cond.(*ssa.BinOp); ok && (b.Op == token.EQL || b.Op == token.NEQ) && (b.Op == token.EQL) == truth {
			switch {
			case isNilConst(b.Y) && isIP(b.X):
				return b.X, true
			case isNilConst(b.X) && isIP(b.Y):
				return b.Y, true
			}
		}
		var subj ssa.Value
		if c12LenZero(cond, truth, func(v ssa.Value) bool { subj = v; return isIP(v) }) {
			return subj, true
		}
		return nil, false
	}
	nilE := &c12Eng{leaf: nilLeaf}

	roles := map[string]int{}
	seenNil := false
	for _, vr := range c12VirtualReturns(deny, 0) {
		noRules := noRulesE.holds(vr)
		nilSubj, ipNil := nilE.holds(vr)
		if ipNil && ipParam != nil && !c12AliasIs(c12Unspill(nilSubj), func(x ssa.Value) bool { return x == ssa.Value(ipParam) }) {
			ipNil = false
		}
		_, inAllow := allowE.holds(vr)
		_, inDeny := denyE.holds(vr)
		_, contains := containsE.holds(vr)
		switch {
		case noRules:
			c.check("C12.F3", key("no rules"), vr.pos, !vr.val, "without rules nothing is denied")
		case ipNil:
			seenNil = true
			c.check("C12.F1", key("ip == nil"), vr.pos, vr.val,
				"an address that could not be parsed (nil IP; e.g. zone-scoped IPv6 'fe80::1%eth0' from RemoteAddr) must be denied when rules are configured; returning false lets it bypass an allow list")
		case inAllow:
			if contains {
				roles["allow match"]++
				c.check("C12.F3", key("allow match"), vr.pos, !vr.val, "an address inside an allow block is admitted")
			} else {
				roles["allow list exhausted"]++
				c.check("C12.F3", key("allow list exhausted"), vr.pos, vr.val, "with an allow list, an address outside every block must be denied (return true)")
			}
		case inDeny && contains:
			roles["deny match"]++
			c.check("C12.F3", key("deny match"), vr.pos, vr.val, "an address inside a deny block must be denied (return true)")
		default:
			roles["default"]++
			c.check("C12.F3", key("default"), vr.pos, !vr.val, "default: not denied (a denying outcome must lie under `allow list present` or under `deny list present and Contains(ip)`)")
		}
	}
	for _, r := range []string{"allow match", "allow list exhausted", "deny match", "default"} {
		if roles[r] == 0 {
			c.undecided("C12.F3", "anchor|outcomes of the per-address decision in the role '"+r+"'",
				"no outcome of "+fnKey(deny)+" is recognised as '"+r+"': the decision must branch on the PRESENCE of the allow / deny tag in Target.accessRules (`_, ok := t.accessRules[tag]`) and on net.IPNet.Contains(ip). Testing the length of a list instead of the presence of its tag turns the empty allow list that a failed rule parse installs (deny-all) into `no allow list`, i.e. into an unrestricted target")
		}
	}
	if ipParam == nil {
		return
	}
	// the nil IP must be decided: a return under ip==nil, or `ip == nil || ... => return`, or never passed in
	if !seenNil {
		for _, b := range deny.Blocks {
			if len(b.Instrs) == 0 {
				continue
			}
			iff, ok := b.Instrs[len(b.Instrs)-1].(*ssa.If)
			if !ok {
				continue
			}
			for k, truth := range []bool{true, false} {
				cond, t := iff.Cond, truth
				for {
					u, isNot := cond.(*ssa.UnOp)
					if !isNot || u.Op != token.NOT {
						break
					}
					cond, t = u.X, !t
				}
				if s, isNil := nilLeaf(cond, t); isNil && c12Unspill(s) == ssa.Value(ipParam) {
					if bv, isRet := returnsConstBool(b.Succs[k]); isRet {
						c.check("C12.F1", key("ip == nil"), iff.Pos(), bv,
							"an address that could not be parsed (nil IP; e.g. zone-scoped IPv6 'fe80::1%eth0' from RemoteAddr) must be denied when rules are configured; `ip == nil || len(rules) == 0 => return false` lets it bypass an allow list")
						seenNil = true
					}
				}
			}
		}
	}
	if !seenNil {
		// decided by every caller?
		sites := gSites[deny]
		all := len(sites) > 0
		idx := -1
		for k, p := range deny.Params {
			if p == ipParam {
				idx = k
			}
		}
		for _, s := range sites {
			cc := s.Common()
			if idx < 0 || idx >= len(cc.Args) || s.Block() == nil || !knownNonNil(s.Block(), sameVal(cc.Args[idx])) {
				all = false
			}
		}
		if !all {
			c.undecided("C12.F1", key("ip == nil"), "no decision on a nil IP found in the per-address decision function or at its call sites (net.IPNet.Contains(nil) is false, so an allow list would deny; a deny list would admit)")
		}
	}
}

// ---- X1 (walk part): every address of the request is put to the decision function and a denying verdict stands ------

// c12Honoured: a true verdict of call makes its function return true, and so on up to entry.
func c12Honoured(call ssa.CallInstruction, entry *ssa.Function, region map[*ssa.Function]bool, depth int) bool {
	v, isVal := call.(*ssa.Call)
	if !isVal || depth > 3 {
		return false
	}
	fn := v.Parent()
	if res := fn.Signature.Results(); res.Len() != 1 {
		return false
	}
	eng := &c12Eng{leaf: func(cond ssa.Value, truth bool) (ssa.Value, bool) { return nil, cond == ssa.Value(v) && truth }}
	if c12IsYield(fn) {
		// body of a range-over-func loop: under `call == true` it must make the enclosing function return true
		n := 0
		ok := true
		eachInstr(fn, func(i ssa.Instruction) {
			r, isR := i.(*ssa.Return)
			if !isR {
				return
			}
			if _, under := eng.at(r.Block(), 0); under {
				n++
				if bv, isK := constBool(r.Results[0]); !isK || bv || !c12YieldStoresTrue(r.Block()) {
					ok = false
				}
			}
		})
		if !ok || n == 0 {
			return false
		}
		parent := fn.Parent()
		if parent == entry {
			return true
		}
		sites := 0
		for _, s := range gSites[parent] {
			if s.Parent() != nil && region[s.Parent()] {
				sites++
				if !c12Honoured(s, entry, region, depth+1) {
					return false
				}
			}
		}
		return sites > 0
	}
	// some outcome exists under `call == true`, and every such outcome is true
	n := 0
	for _, vr := range c12VirtualReturns(fn, 0) {
		if _, under := eng.holds(vr); under {
			n++
			if !vr.val {
				return false
			}
		}
	}
	if n == 0 {
		return false
	}
	if fn == entry {
		return true
	}
	sites := 0
	if fn.Parent() != nil {
		// a predicate handed to slices.ContainsFunc: its `true` is the call's `true`
		for _, user := range c12ContainsFuncCalls(fn) {
			sites++
			if !c12Honoured(user, entry, region, depth+1) {
				return false
			}
		}
	}
	for _, s := range gSites[fn] {
		if s.Parent() == nil || !region[s.Parent()] {
			continue
		}
		sites++
		if !c12Honoured(s, entry, region, depth+1) {
			return false
		}
	}
	return sites > 0
}

func runC12Walks(c *Ctx, deny *ssa.Function) {
	inDeny := map[*ssa.Function]bool{}
	for _, f := range c12Region(c, deny) {
		inDeny[f] = true
	}
	isDenyCall := func(i ssa.Instruction) bool {
		_, isCall := i.(*ssa.Call)
		return isCall && c12MayCall(i, deny)
	}
	for _, e := range []struct {
		name  string
		roles []string
	}{{"AccessDeniedHTTP", []string{"peer", "xff"}}, {"AccessDeniedTCP", []string{"peer"}}} {
		entry := c.method("route", "Target", e.name)
		if !c.need("C12.X1", entry, "route.Target."+e.name) {
			continue
		}
		key := "route.(*Target)." + e.name
		region := map[*ssa.Function]bool{}
		var fns []*ssa.Function
		for _, f := range c12Region(c, entry) {
			if !inDeny[f] {
				region[f] = true
				fns = append(fns, f)
			}
		}
		// every verdict of the decision function is honoured
		seen := map[string]bool{}
		eachInstrOf(fns, func(f *ssa.Function, i ssa.Instruction) {
			if !isDenyCall(i) {
				return
			}
			call := i.(*ssa.Call)
			c.check("C12.X1", key+"|denyByIP verdict honoured", i.Pos(), c12Honoured(call, entry, region, 0),
				"a true verdict of the per-address decision must make "+e.name+" return true")
			var ipArg ssa.Value
			for _, a := range call.Call.Args {
				if ts := typeStr(a.Type()); ts == "net.IP" || ts == "net/netip.Addr" {
					ipArg = a
				}
			}
			if ipArg == nil {
				return
			}
			c12Slice(ipArg, nil, func(v ssa.Value) bool {
				if c12IsXFF(v) {
					seen["xff"] = true
				}
				if _, ok := fieldOf(v, "http.Request", "RemoteAddr"); ok {
					seen["peer"] = true
				}
				if cc, ok := v.(*ssa.Call); ok && cc.Call.IsInvoke() && cc.Call.Method.Name() == "RemoteAddr" {
					seen["peer"] = true
				}
				return false
			})
		})
		for _, r := range e.roles {
			n := 0
			if seen[r] {
				n = 1
			}
			c.atLeast("C12.X1", "calls of the per-address decision on the "+r+" address in "+e.name, n, 1)
		}
		// no way round the decision: a `false` of the exported gate is preceded by a call of the decision function on
		// every path, except on the edges `no rules` / `no target` and the two trusted anomalies
		var recv *ssa.Parameter
		if len(entry.Params) > 0 {
			recv = entry.Params[0]
		}
		allowed := &c12Eng{leaf: func(cond ssa.Value, truth bool) (ssa.Value, bool) {
			if _, ok := c12NoRulesLeaf(cond, truth); ok {
				return nil, true
			}
			if ex, ok := cond.(*ssa.Extract); ok && !truth && ex.Index == 1 {
				if ta, ok := ex.Tuple.(*ssa.TypeAssert); ok && ta.CommaOk {
					if call, ok := ta.X.(*ssa.Call); ok && call.Call.IsInvoke() && call.Call.Method.Name() == "RemoteAddr" {
						return nil, true // trusted: every fabio listener yields *net.TCPAddr
					}
				}
			}
			x, cons := c12ConsOfFact(cond, truth)
			if cons.kind == 'n' && x != cond {
				if cons.eq && recv != nil && x == ssa.Value(recv) {
					return nil, true // nil target: nothing to protect
				}
				if ex, ok := x.(*ssa.Extract); ok && !cons.eq {
					if call, ok := ex.Tuple.(*ssa.Call); ok && calleeName(&call.Call) == "net.SplitHostPort" {
						return nil, true // trusted: net/http sets RemoteAddr to ip:port
					}
				}
			}
			return nil, false
		}}
		noRules := newC12NoRules()
		decides := map[*ssa.Function]bool{}
		for _, f := range fns {
			if f != entry && mayExec(f, isDenyCall, 0) {
				decides[f] = true
			}
		}
		decided := func(i ssa.Instruction) bool {
			if isDenyCall(i) {
				return true
			}
			call, ok := i.(*ssa.Call)
			if !ok {
				return false
			}
			sc := call.Call.StaticCallee()
			return sc != nil && decides[unwrap(sc)]
		}
		for _, vr := range c12VirtualReturns(entry, 0) {
			if vr.val {
				continue
			}
			_, ok := allowed.holds(vr)
			ok = ok || noRules.holds(vr)
			if !ok {
				ok = !c12ReachAvoiding(entry, vr.ret, decided, func(cond ssa.Value, truth bool) bool {
					_, est := allowed.fromFact(cond, truth, 0)
					return est || noRules.fromFact(cond, truth)
				})
			}
			c.check("C12.F1", key+"|no way round the decision", vr.pos, ok,
				e.name+" answers `not denied` on a path on which no address was put to the rules: only `no rules configured` (and the trusted anomalies: RemoteAddr not ip:port / not a *net.TCPAddr) may skip the per-address decision")
		}
		if e.name != "AccessDeniedHTTP" {
			continue
		}
		// the X-Forwarded-For walk: loops that put elements to the decision function can be left early only by denying
		nLoops := 0
		for _, f := range fns {
			for _, l := range loopsOf(f) {
				// the loop puts elements to the decision function: in its body, or right where an edge leaves it
				decides := false
				for b := range l.Body {
					for _, blk := range append([]*ssa.BasicBlock{b}, b.Succs...) {
						for _, i := range blk.Instrs {
							if liftMay(isDenyCall)(i) {
								decides = true
							}
						}
					}
				}
				if !decides {
					continue
				}
				nLoops++
				for b := range l.Body {
					for _, s := range b.Succs {
						if l.Body[s] || b == l.Head {
							continue
						}
						// (inside a helper, the helper's `true` must reach the caller's result: "verdict honoured" above)
						ok := c12ExitDenies(b, s) || c12ExhaustedExit(b, s)
						c.check("C12.X1", key+"|loop exit", s.Instrs[len(s.Instrs)-1].Pos(), ok,
							"the X-Forwarded-For loop may be left early only by denying (return true); a break/return false lets an address behind a denied hop pass unchecked")
					}
				}
			}
		}
		// slices.ContainsFunc(elements, pred) visits every element until pred answers true: a walk that can be left
		// early only with `true` by construction (that `true` is honoured is checked above)
		for _, f := range fns {
			if len(c12ContainsFuncCalls(f)) > 0 && mayExec(f, isDenyCall, 0) {
				nLoops++
			}
			// the body of `for x := range seq`: it stops the iteration (returns false) only to make the gate return true
			if c12IsYield(f) && mayExec(f, isDenyCall, 0) {
				nLoops++
				eachInstr(f, func(i ssa.Instruction) {
					r, isR := i.(*ssa.Return)
					if !isR || len(r.Results) != 1 {
						return
					}
					if bv, isK := constBool(r.Results[0]); isK && bv {
						return // next element
					}
					c.check("C12.X1", key+"|loop exit", r.Pos(), c12YieldStoresTrue(r.Block()),
						"the X-Forwarded-For loop may be left early only by denying (return true); a break/return false lets an address behind a denied hop pass unchecked")
				})
			}
		}
		c.atLeast("C12.X1", "loops over the X-Forwarded-For elements that call the per-address decision", nLoops, 1)
	}
}

// c12ContainsFuncCalls: the calls slices.ContainsFunc(_, fn) in the function that makes the closure fn.
func c12ContainsFuncCalls(fn *ssa.Function) []*ssa.Call {
	var out []*ssa.Call
	if fn.Parent() == nil {
		return nil
	}
	eachInstr(fn.Parent(), func(i ssa.Instruction) {
		call, ok := i.(*ssa.Call)
		if !ok || c12BaseName(calleeName(&call.Call)) != "slices.ContainsFunc" || len(call.Call.Args) != 2 {
			return
		}
		for _, g := range funcsOf(call.Call.Args[1]) {
			if g == fn {
				out = append(out, call)
			}
		}
	})
	return out
}

// c12ReachAvoiding: is the end of block target reachable from fn's entry without executing an instruction for which
// blocked holds and without taking a branch that establishes the fact est?
func c12ReachAvoiding(fn *ssa.Function, target *ssa.BasicBlock, blocked func(ssa.Instruction) bool, est func(cond ssa.Value, truth bool) bool) bool {
	seen := map[*ssa.BasicBlock]bool{}
	var visit func(b *ssa.BasicBlock) bool
	visit = func(b *ssa.BasicBlock) bool {
		if seen[b] {
			return false
		}
		seen[b] = true
		for _, i := range b.Instrs {
			if blocked(i) {
				return false
			}
		}
		if b == target {
			return true
		}
		for _, s := range b.Succs {
			if f, ok := c12EdgeFact(b, s); ok {
				if est(f.Cond, f.Truth) {
					continue
				}
			}
			if visit(s) {
				return true
			}
		}
		return false
	}
	return len(fn.Blocks) > 0 && visit(fn.Blocks[0])
}

// c12ExitDenies: leaving through the edge b->s ends in `return true` (directly, through a jump-only block, or as the
// value a phi takes for this edge).
func c12ExitDenies(b, s *ssa.BasicBlock) bool {
	prev, cur := b, s
	for step := 0; step < 4 && cur != nil && len(cur.Instrs) > 0; step++ {
		switch t := cur.Instrs[len(cur.Instrs)-1].(type) {
		case *ssa.Return:
			if len(t.Results) != 1 {
				return false
			}
			v := t.Results[0]
			if phi, ok := v.(*ssa.Phi); ok && phi.Block() == cur {
				for k, p := range cur.Preds {
					if p == prev {
						v = phi.Edges[k]
					}
				}
			}
			bv, isK := constBool(v)
			return isK && bv
		case *ssa.Jump:
			prev, cur = cur, cur.Succs[0]
		default:
			return false
		}
	}
	return false
}

// c12ExhaustedExit: the edge is taken because the input is used up: the `found` result of strings.Cut is false.
func c12ExhaustedExit(b, s *ssa.BasicBlock) bool {
	if len(b.Instrs) == 0 || len(b.Succs) != 2 {
		return false
	}
	iff, ok := b.Instrs[len(b.Instrs)-1].(*ssa.If)
	if !ok {
		return false
	}
	cond, truth := iff.Cond, b.Succs[0] == s
	for {
		u, isNot := cond.(*ssa.UnOp)
		if !isNot || u.Op != token.NOT {
			break
		}
		cond, truth = u.X, !truth
	}
	ex, ok := cond.(*ssa.Extract)
	if !ok || ex.Index != 2 || truth {
		return false
	}
	call, ok := ex.Tuple.(*ssa.Call)
	return ok && calleeName(&call.Call) == "strings.Cut"
}

// ---- F2 -----------------------------------------------------------------------------------------------------------

// c12RulesStore classifies a store to Target.accessRules (or through a pointer to the rule set, `*rs = ...` in a method
// of the rule set type; or to the allow member of a rule set given as a struct): denyAll = the stored map gets an
// "allow..." key / the allow member becomes a fresh empty list (present + no block = nobody is admitted); open = nil
// or a map without such a key.
func c12RulesStore(st *ssa.Store) (isRules, denyAll, open bool) {
	if fa, ok := st.Addr.(*ssa.FieldAddr); ok && !c12IsTargetRulesField(st.Addr) && c12IsRulesBase(fa.X) {
		if c12TagKind(fieldName(fa.X.Type(), fa.Field)) != "allow" {
			return false, false, false
		}
		switch st.Val.(type) {
		case *ssa.Slice, *ssa.MakeSlice, *ssa.MakeMap, *ssa.Alloc:
			return true, true, false // rules.allow = ipBlocks{}
		}
		if isNilConst(st.Val) {
			return true, false, true
		}
		if bv, isK := constBool(st.Val); isK {
			return true, bv, !bv // rules.hasAllow = true
		}
		return false, false, false // an append: the parser at work
	}
	_, local := st.Addr.(*ssa.Alloc)
	if !c12IsTargetRulesField(st.Addr) && (local || !c12IsRulesType(st.Addr.Type())) {
		return false, false, false
	}
	denyAll, open = c12RulesValue(st.Val, 0)
	return true, denyAll, open
}

// c12RulesValue classifies a rule-set value: denyAll = a map that gets an "allow..." key, open = nil or a map without
// such a key; a value built by a repository function is judged by what that function returns; neither = a form this
// rule cannot judge.
func c12RulesValue(v ssa.Value, depth int) (denyAll, open bool) {
	if isNilConst(v) {
		return false, true
	}
	switch x := v.(type) {
	case *ssa.ChangeType:
		return c12RulesValue(x.X, depth)
	case *ssa.MakeMap:
		for _, r := range *x.Referrers() {
			if mu, ok := r.(*ssa.MapUpdate); ok && mu.Map == ssa.Value(x) {
				if k, isK := constString(mu.Key); isK && c12TagKind(k) == "allow" {
					return true, false
				}
			}
		}
		return false, true
	case *ssa.Call:
		sc := x.Call.StaticCallee()
		if sc == nil || depth > 2 {
			return false, false
		}
		sc = unwrap(sc)
		if !isRepoFn(sc) || len(sc.Blocks) == 0 || sc.Signature.Results().Len() != 1 {
			return false, false
		}
		n, all := 0, true
		eachInstr(sc, func(i ssa.Instruction) {
			if r, ok := i.(*ssa.Return); ok && len(r.Results) == 1 {
				d, o := c12RulesValue(r.Results[0], depth+1)
				n++
				all = all && d
				open = open || o
			}
		})
		return n > 0 && all && !open, open
	}
	return false, false
}

// c12ClosesRules: i makes the target deny-all: a store of a deny-all rule set, or a call of a Target method that
// does that and nothing else with the rules. unknown: the rules are overwritten in a way this rule cannot judge.
func c12ClosesRules(i ssa.Instruction, depth int) (closes, opens bool) {
	switch x := i.(type) {
	case *ssa.Store:
		isRules, denyAll, open := c12RulesStore(x)
		if isRules {
			return denyAll || !open, open
		}
	case *ssa.MapUpdate:
		// rs[ipAllowTag] = nil in a method of the rule set: the allow list becomes present
		if k, isK := constString(x.Key); isK && c12TagKind(k) == "allow" && c12IsRulesField(x.Map) {
			switch x.Value.(type) {
			case *ssa.Const, *ssa.Slice, *ssa.MakeSlice: // nil or a fresh empty list - not the parser appending a block
				return true, false
			}
		}
	case *ssa.Call:
		sc := x.Call.StaticCallee()
		if sc == nil || depth > 2 {
			return false, false
		}
		sc = unwrap(sc)
		if !isRepoFn(sc) || len(sc.Blocks) == 0 {
			return false, false
		}
		eachInstr(sc, func(j ssa.Instruction) {
			cl, op := c12ClosesRules(j, depth+1)
			closes, opens = closes || cl, opens || op
		})
	}
	return closes, opens
}

func runC12F2(c *Ctx) {
	par := c.method("route", "Target", "ProcessAccessRules")
	if !c.need("C12.F2", par, "route.Target.ProcessAccessRules") {
		return
	}
	// does the parser itself leave a deny-all rule set behind whenever it fails?
	parserCloses := true
	eachInstr(par, func(i ssa.Instruction) {
		r, ok := i.(*ssa.Return)
		if !ok || len(r.Results) == 0 {
			return
		}
		if c12Sat(r.Results[len(r.Results)-1], c12Cons{kind: 'n', eq: false}) == c12No {
			return // return nil
		}
		dominated := false
		eachInstr(par, func(j ssa.Instruction) {
			if st, isSt := j.(*ssa.Store); isSt {
				if _, denyAll, _ := c12RulesStore(st); denyAll && dominatesInstr(j, r) {
					dominated = true
				}
			}
			if call, isCall := j.(*ssa.Call); isCall && dominatesInstr(j, r) {
				if cl, op := c12ClosesRules(call, 0); cl && !op {
					dominated = true
				}
			}
		})
		if !dominated {
			parserCloses = false
		}
	})
	n := 0
	for _, s := range gSites[par] {
		call, ok := s.(*ssa.Call)
		fn := s.Parent()
		if !ok || fn == nil || rootPkg(fn) != c.spkg("route") {
			continue
		}
		n++
		key := "route.(*Route).addTarget"
		if parserCloses {
			c.check("C12.F2", key+"|rule error => deny-all", call.Pos(), true, "ProcessAccessRules installs a deny-all rule set before every failing return")
			continue
		}
		// blocks where err != nil is known for this call's result
		var errBlocks []*ssa.BasicBlock
		for _, b := range fn.Blocks {
			for _, f := range localFactsAt(b) {
				if nn, ok := nilFact(f, func(v ssa.Value) bool { return derivesErrOf(v, call) }); ok && nn {
					errBlocks = append(errBlocks, b)
					break
				}
			}
		}
		if len(errBlocks) == 0 {
			// the error is handed on to the caller?
			propagated := false
			eachInstr(fn, func(i ssa.Instruction) {
				if r, isR := i.(*ssa.Return); isR {
					for _, res := range r.Results {
						if derivesErrOf(res, call) {
							propagated = true
						}
					}
				}
			})
			c.check("C12.F2", key+"|ProcessAccessRules error ignored", call.Pos(), propagated, "the error of ProcessAccessRules is not examined: an unparsable rule leaves the target unrestricted")
			continue
		}
		// On the error edge there must be an instruction making the target deny-all, or the function must give the
		// target up (return without publishing it / hand the error to its caller).
		ok2, opened := false, false
		appends := fnStoresField(fn, "route.Route", "Targets")
		for _, b := range errBlocks {
			for _, in := range b.Instrs {
				cl, op := c12ClosesRules(in, 0)
				ok2, opened = ok2 || cl, opened || op
				if r, isR := in.(*ssa.Return); isR {
					if appends {
						ok2 = true
					}
					for _, res := range r.Results {
						if derivesErrOf(res, call) || c12NonNil(res) && types.Identical(res.Type(), types.Universe.Lookup("error").Type()) {
							ok2 = true
						}
					}
				}
			}
		}
		c.check("C12.F2", key+"|rule error => deny-all", call.Pos(), ok2 && !opened,
			"on the error edge of ProcessAccessRules (e.g. allow=ip:10.0.0.0/33) the target is still published with empty or partial rules => unrestricted; the edge must install a deny-all rule set (an allow list without blocks) or reject the target")
	}
	c.atLeast("C12.F2", "ProcessAccessRules calls in package route", n, 1)
}

func derivesErrOf(v ssa.Value, call *ssa.Call) bool {
	if v == call {
		return true
	}
	return derives(v, func(x ssa.Value) bool { return x == call })
}

// c12MayCall: instruction i calls fn: statically, through a function value that can denote fn (a callback parameter
// fed with the method value t.denyByIP, a local closure variable), or through an interface that fn's receiver
// implements (`type judge interface{ denyByIP(net.IP) bool }`).
func c12MayCall(i ssa.Instruction, fn *ssa.Function) bool {
	cc := callCommon(i)
	if cc == nil || fn == nil {
		return false
	}
	if sc := cc.StaticCallee(); sc != nil {
		return sc == fn || unwrap(sc) == fn
	}
	if cc.IsInvoke() {
		recv := fn.Signature.Recv()
		if recv == nil || cc.Method.Name() != fn.Name() {
			return false
		}
		iface, ok := cc.Value.Type().Underlying().(*types.Interface)
		return ok && types.Implements(recv.Type(), iface)
	}
	denotes := func(v ssa.Value) bool {
		for _, g := range funcsOf(v) {
			if g == fn {
				return true
			}
		}
		return false
	}
	if denotes(cc.Value) {
		return true
	}
	if p, ok := cc.Value.(*ssa.Parameter); ok && p.Parent() != nil {
		for k, q := range p.Parent().Params {
			if q != p {
				continue
			}
			for _, s := range gSites[p.Parent()] {
				if a := s.Common().Args; k < len(a) && denotes(a[k]) {
					return true
				}
			}
		}
	}
	return false
}
