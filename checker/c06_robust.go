package main

// Helpers of the C06 rules that make them independent of how the code is cut into functions and of the names of
// unexported things (DESIGN 11.8). Everything here is prefixed c06; other files do not depend on it.

import (
	"fmt"
	"go/token"
	"go/types"
	"os"
	"strings"

	"golang.org/x/tools/go/ssa"
)

// c06path renders a value like accessPath, but a root parameter / captured variable is rendered by its type instead
// of its name: the same field chain then compares equal across a helper boundary (receiver renamed, the object passed
// on as an argument). Used where one object of the type is in play (the methods of the glob cache).
func c06path(v ssa.Value) string {
	return c06pathWith(v, func(r ssa.Value) string {
		if k := typeKey(r.Type()); k != "" {
			return "<" + strings.TrimPrefix(k, repoMod+"/") + ">"
		}
		return r.Name()
	})
}

// c06pathIn renders v, a value of a helper, as the access path it has in function target, which calls the helper
// (directly or through further single-call-site helpers): a root parameter is replaced by the argument passed at the
// helper's only static call site. ok is false when a root cannot be traced to target that way.
func c06pathIn(v ssa.Value, target *ssa.Function) (string, bool) {
	ok := true
	var render func(r ssa.Value, depth int) string
	render = func(r ssa.Value, depth int) string {
		p, isP := r.(*ssa.Parameter)
		if !isP {
			return r.Name() // captured variable: the same identifier in the enclosing function
		}
		f := p.Parent()
		if f == target {
			return p.Name()
		}
		sites := gSites[f]
		if depth > maxHops || len(sites) != 1 || !onlyStaticallyCalled(f) {
			ok = false
			return p.Name()
		}
		for k, q := range f.Params {
			if q == p && k < len(sites[0].Common().Args) {
				return c06pathWith(sites[0].Common().Args[k], func(r2 ssa.Value) string { return render(r2, depth+1) })
			}
		}
		ok = false
		return p.Name()
	}
	s := c06pathWith(v, func(r ssa.Value) string { return render(r, 0) })
	return s, ok
}

// c06pathWith is accessPath with the rendering of root parameters and captured variables left to root.
func c06pathWith(v ssa.Value, root func(ssa.Value) string) string {
	switch x := v.(type) {
	case *ssa.Parameter:
		return root(x)
	case *ssa.FreeVar:
		return root(x)
	case *ssa.Global:
		return x.Pkg.Pkg.Name() + "." + x.Name()
	case *ssa.UnOp:
		if x.Op == token.MUL {
			return c06pathWith(x.X, root)
		}
		if x.Op == token.NOT {
			return "!" + c06pathWith(x.X, root)
		}
	case *ssa.FieldAddr:
		return c06pathWith(x.X, root) + "." + fieldName(x.X.Type(), x.Field)
	case *ssa.Field:
		return c06pathWith(x.X, root) + "." + fieldName(x.X.Type(), x.Field)
	case *ssa.Alloc:
		if x.Comment != "" {
			return x.Comment
		}
	case *ssa.Const:
		return x.String()
	case *ssa.ChangeType:
		return c06pathWith(x.X, root)
	case *ssa.Convert:
		return c06pathWith(x.X, root)
	case *ssa.MakeInterface:
		return c06pathWith(x.X, root)
	case *ssa.Extract:
		return fmt.Sprintf("%s#%d", c06pathWith(x.Tuple, root), x.Index)
	case *ssa.Call:
		if n := calleeName(&x.Call); n != "" {
			var as []string
			if x.Call.IsInvoke() {
				as = append(as, c06pathWith(x.Call.Value, root))
			}
			for _, a := range x.Call.Args {
				as = append(as, c06pathWith(a, root))
			}
			return n + "(" + strings.Join(as, ",") + ")"
		}
	case *ssa.IndexAddr:
		return c06pathWith(x.X, root) + "[" + c06pathWith(x.Index, root) + "]"
	case *ssa.Lookup:
		return c06pathWith(x.X, root) + "[" + c06pathWith(x.Index, root) + "]"
	case *ssa.Phi:
		return "phi:" + x.Comment + "@" + x.Name()
	}
	return v.Name()
}

// c06rootPkg: the package of f (of the outermost enclosing function, for a closure).
func c06rootPkg(f *ssa.Function) *ssa.Package {
	for f != nil && f.Parent() != nil {
		f = f.Parent()
	}
	if f == nil {
		return nil
	}
	return f.Pkg
}

// c06fnOf: the function a value belongs to (nil for constants, globals, functions).
func c06fnOf(v ssa.Value) *ssa.Function {
	switch x := v.(type) {
	case *ssa.Parameter:
		return x.Parent()
	case *ssa.FreeVar:
		return x.Parent()
	}
	if i, ok := v.(ssa.Instruction); ok {
		return i.Parent()
	}
	return nil
}

// c06samePath: comparison by access path. A value of a calling function (a branch fact a helper inherits from its
// only call site) is compared with the path v has there: the helper's parameters replaced by the call's arguments.
func c06samePath(v ssa.Value) func(ssa.Value) bool {
	p, fn := accessPath(v), c06fnOf(v)
	return func(o ssa.Value) bool {
		if o == v || accessPath(o) == p {
			return true
		}
		if of := c06fnOf(o); of != nil && fn != nil && of != fn {
			if tp, ok := c06pathIn(v, of); ok {
				return accessPath(o) == tp
			}
		}
		return false
	}
}

// c06stripConv removes numeric conversions and type changes.
func c06stripConv(v ssa.Value) ssa.Value {
	for {
		switch x := v.(type) {
		case *ssa.Convert:
			v = x.X
			continue
		case *ssa.ChangeType:
			v = x.X
			continue
		}
		return v
	}
}

// c06lenOf: v is len(x) (through conversions), or the result of a repository helper whose only return is len(x)
// (`func (r *Route) size() int { return len(r.wTargets) }`); returns x.
func c06lenOf(v ssa.Value) (ssa.Value, bool) {
	call, ok := c06stripConv(v).(*ssa.Call)
	if !ok {
		return nil, false
	}
	if calleeName(&call.Call) == "builtin.len" && len(call.Call.Args) == 1 {
		return call.Call.Args[0], true
	}
	if res := c06onlyResult(call); res != nil {
		if inner, ok := c06stripConv(res).(*ssa.Call); ok && calleeName(&inner.Call) == "builtin.len" && len(inner.Call.Args) == 1 {
			return inner.Call.Args[0], true
		}
	}
	return nil, false
}

// c06onlyResult: call is a static call of a repository function with one result and a single return statement;
// returns the returned value (in the callee's terms).
func c06onlyResult(call *ssa.Call) ssa.Value {
	sc := call.Call.StaticCallee()
	if sc == nil {
		return nil
	}
	g := unwrap(sc)
	if !isRepoFn(g) || len(g.Blocks) == 0 || g.Signature.Results().Len() != 1 {
		return nil
	}
	var res ssa.Value
	n := 0
	eachInstr(g, func(i ssa.Instruction) {
		if r, ok := i.(*ssa.Return); ok && len(r.Results) == 1 {
			n++
			res = r.Results[0]
		}
	})
	if n != 1 {
		return nil
	}
	return res
}

// c06expandFacts adds, for every fact that is the boolean result of a one-line repository predicate
// (`func (r *Route) empty() bool { return len(r.wTargets) == 0 }`), the comparison the predicate returns.
func c06expandFacts(facts []Fact) []Fact {
	out := append([]Fact{}, facts...)
	for k := 0; k < len(out) && k < 64; k++ {
		call, ok := out[k].Cond.(*ssa.Call)
		if !ok {
			continue
		}
		res := c06onlyResult(call)
		truth := out[k].Truth
		for res != nil {
			u, isNot := res.(*ssa.UnOp)
			if !isNot || u.Op != token.NOT {
				break
			}
			res, truth = u.X, !truth
		}
		switch res.(type) {
		case *ssa.BinOp, *ssa.Call:
			out = append(out, Fact{res, truth})
		}
	}
	return out
}

// c06zeroLenFact: the fact states len(x) == 0 for an x accepted by isX, in whatever spelling
// (len(x) == 0, !(len(x) != 0), len(x) < 1, len(x) <= 0, !(len(x) > 0), !(len(x) >= 1), and the mirrored forms).
func c06zeroLenFact(f Fact, isX func(ssa.Value) bool) bool {
	b, ok := f.Cond.(*ssa.BinOp)
	if !ok {
		return false
	}
	op, x, y := b.Op, b.X, b.Y
	if _, isLen := c06lenOf(y); isLen {
		// mirror: k OP len(x)  ==  len(x) OP' k
		x, y = y, x
		switch op {
		case token.LSS:
			op = token.GTR
		case token.GTR:
			op = token.LSS
		case token.LEQ:
			op = token.GEQ
		case token.GEQ:
			op = token.LEQ
		}
	}
	arg, isLen := c06lenOf(x)
	if !isLen || !isX(arg) {
		return false
	}
	k, isK := constInt(c06stripConv(y))
	if !isK {
		return false
	}
	switch {
	case k == 0 && op == token.EQL, k == 0 && op == token.LEQ, k == 1 && op == token.LSS:
		return f.Truth
	case k == 0 && op == token.NEQ, k == 0 && op == token.GTR, k == 1 && op == token.GEQ:
		return !f.Truth
	}
	return false
}

// c06lessThanLenFact: the fact states idx < len(x) for an idx accepted by isIdx and an x accepted by isX
// (idx < len(x), len(x) > idx, !(idx >= len(x)), !(len(x) <= idx)).
func c06lessThanLenFact(f Fact, isIdx, isX func(ssa.Value) bool) bool {
	b, ok := f.Cond.(*ssa.BinOp)
	if !ok {
		return false
	}
	op, x, y := b.Op, b.X, b.Y
	if _, isLen := c06lenOf(x); isLen {
		x, y = y, x
		switch op {
		case token.LSS:
			op = token.GTR
		case token.GTR:
			op = token.LSS
		case token.LEQ:
			op = token.GEQ
		case token.GEQ:
			op = token.LEQ
		}
	}
	arg, isLen := c06lenOf(y)
	if !isLen || !isX(arg) || !isIdx(c06stripConv(x)) {
		return false
	}
	switch op {
	case token.LSS:
		return f.Truth
	case token.GEQ:
		return !f.Truth
	}
	return false
}

// ---- results of a function, wherever they are computed -----------------------------------------------------------

// c06result is one value a function can return, with the block in which that choice is made (the block whose branch
// facts describe when this value is returned).
type c06result struct {
	v    ssa.Value
	blk  *ssa.BasicBlock
	pos  token.Pos
	edge *Fact // the branch condition of the edge on which a merged value is chosen, if any
}

// facts: the branch conditions under which this result is returned.
func (r c06result) facts() []Fact {
	out := factsAt(r.blk)
	if r.edge != nil {
		out = append(out, *r.edge)
	}
	return c06expandFacts(out)
}

// c06edgeFact: the condition that holds on the edge from -> to when from ends in a two-way branch.
func c06edgeFact(from, to *ssa.BasicBlock) *Fact {
	if from == nil || len(from.Instrs) == 0 || len(from.Succs) != 2 || from.Succs[0] == from.Succs[1] {
		return nil
	}
	iff, ok := from.Instrs[len(from.Instrs)-1].(*ssa.If)
	if !ok {
		return nil
	}
	cond, truth := iff.Cond, from.Succs[0] == to
	for {
		u, isNot := cond.(*ssa.UnOp)
		if !isNot || u.Op != token.NOT {
			break
		}
		cond, truth = u.X, !truth
	}
	return &Fact{cond, truth}
}

// c06results enumerates the values f's single result can take: the operands of its returns, split at phis (the
// predecessor block of each edge decides), at local variable cells (each store decides) and through static calls of
// repository helpers (the helper's own returns decide) — depth-bounded.
func c06results(f *ssa.Function) []c06result {
	var out []c06result
	seen := map[ssa.Value]bool{}
	var expand func(v ssa.Value, blk *ssa.BasicBlock, edge *Fact, pos token.Pos, depth int)
	returnsOf := func(g *ssa.Function, depth int) {
		eachInstr(g, func(i ssa.Instruction) {
			if r, ok := i.(*ssa.Return); ok && len(r.Results) == 1 {
				expand(r.Results[0], r.Block(), nil, r.Pos(), depth)
			}
		})
	}
	expand = func(v ssa.Value, blk *ssa.BasicBlock, edge *Fact, pos token.Pos, depth int) {
		switch x := v.(type) {
		case *ssa.Phi:
			if seen[x] {
				return
			}
			seen[x] = true
			for k, e := range x.Edges {
				pred := x.Block().Preds[k]
				expand(e, pred, c06edgeFact(pred, x.Block()), pos, depth)
			}
			return
		case *ssa.UnOp:
			if a, ok := x.X.(*ssa.Alloc); ok && x.Op == token.MUL && !seen[x] {
				seen[x] = true
				n := 0
				for _, r := range *a.Referrers() {
					if st, ok := r.(*ssa.Store); ok && st.Addr == a {
						n++
						expand(st.Val, st.Block(), nil, st.Pos(), depth)
					}
				}
				if n > 0 {
					return
				}
			}
		case *ssa.Call:
			if sc := x.Call.StaticCallee(); sc != nil && depth < 3 && !seen[x] {
				if g := unwrap(sc); isRepoFn(g) && len(g.Blocks) > 0 && g.Signature.Results().Len() == 1 {
					seen[x] = true
					returnsOf(g, depth+1)
					return
				}
			}
		}
		if !pos.IsValid() {
			pos = v.Pos()
		}
		out = append(out, c06result{v, blk, pos, edge})
	}
	returnsOf(f, 0)
	return out
}

// ---- atomics by role ----------------------------------------------------------------------------------------------

// c06atomicSite is one sync/atomic operation (any spelling) on a field or package variable.
type c06atomicSite struct {
	instr ssa.Instruction
	kind  string // atomicOp kind
	key   string // "route.Route.total", "route.table"
}

func c06atomicSiteOf(i ssa.Instruction) (c06atomicSite, bool) {
	cc := callCommon(i)
	kind, cell, _, ok := atomicOp(cc)
	if !ok {
		return c06atomicSite{}, false
	}
	k, ok := atomicTargetKey(cell)
	if !ok {
		return c06atomicSite{}, false
	}
	return c06atomicSite{i, kind, k}, true
}

func c06isRMW(kind string) bool {
	switch kind {
	case "add", "swap", "cas", "and", "or":
		return true
	}
	return false
}

// ---- the weighted ring, by role -----------------------------------------------------------------------------------

// c06ringField: v is (a load of) a field of route.Route that holds a ring of targets: a []*Target field other than the
// exported, configuration-facing list Route.Targets. (Today: wTargets; the name of the unexported field is not relied on.)
func c06ringField(v ssa.Value) bool {
	return c06routeTargetsField(v, false)
}

// c06plainTargetsField: v is (a load of) Route.Targets, the unweighted list.
func c06plainTargetsField(v ssa.Value) bool {
	return c06routeTargetsField(v, true)
}

func c06routeTargetsField(v ssa.Value, wantExportedList bool) bool {
	if u, isU := v.(*ssa.UnOp); isU && u.Op == token.MUL {
		v = u.X
	}
	var base types.Type
	var idx int
	switch x := v.(type) {
	case *ssa.FieldAddr:
		base, idx = x.X.Type(), x.Field
	case *ssa.Field:
		base, idx = x.X.Type(), x.Field
	default:
		return false
	}
	if !namedIs(base, "route.Route") {
		return false
	}
	bt := base
	if p, ok := bt.Underlying().(*types.Pointer); ok {
		bt = p.Elem()
	}
	st, ok := bt.Underlying().(*types.Struct)
	if !ok || idx >= st.NumFields() {
		return false
	}
	fld := st.Field(idx)
	sl, ok := fld.Type().Underlying().(*types.Slice)
	if !ok || !namedIs(sl.Elem(), "route.Target") {
		return false
	}
	return (fld.Name() == "Targets") == wantExportedList
}

// ---- call summaries over static calls ------------------------------------------------------------------------------

// c06calleesOf: the repository functions a call instruction can enter when that is visible: its static callee, or
// the functions a function-typed operand denotes (`install := route.SetTable; install(t)`).
func c06calleesOf(cc *ssa.CallCommon) []*ssa.Function {
	if cc == nil || cc.IsInvoke() {
		return nil
	}
	if sc := cc.StaticCallee(); sc != nil {
		if g := unwrap(sc); isRepoFn(g) {
			return []*ssa.Function{g}
		}
		return nil
	}
	var out []*ssa.Function
	for _, g := range funcsOf(cc.Value) {
		if isRepoFn(g) {
			out = append(out, g)
		}
	}
	return out
}

// c06publishedParts: the values made visible by publishing val: what publishedValue finds (the boxed value, the value
// whose copy's address is stored) and, when a freshly built holder struct is published, the values stored in its fields.
func c06publishedParts(val ssa.Value) []ssa.Value {
	out := publishedValue(val)
	for _, v := range out {
		a, ok := v.(*ssa.Alloc)
		if !ok {
			continue
		}
		for _, r := range *a.Referrers() {
			if fa, ok := r.(*ssa.FieldAddr); ok && fa.X == a {
				for _, r2 := range *fa.Referrers() {
					if st, ok := r2.(*ssa.Store); ok && st.Addr == fa {
						if _, basic := st.Val.Type().Underlying().(*types.Basic); !basic {
							out = append(out, st.Val)
						}
					}
				}
			}
		}
	}
	return out
}

// c06flowsFromParam: v is parameter k of f, possibly converted, boxed, merged or read back from its own cell.
func c06flowsFromParam(v ssa.Value, f *ssa.Function) (int, bool) {
	seen := map[ssa.Value]bool{}
	var walk func(v ssa.Value) (int, bool)
	walk = func(v ssa.Value) (int, bool) {
		if v == nil || seen[v] {
			return 0, false
		}
		seen[v] = true
		switch x := v.(type) {
		case *ssa.Parameter:
			for k, p := range f.Params {
				if p == x {
					return k, true
				}
			}
		case *ssa.ChangeType:
			return walk(x.X)
		case *ssa.Convert:
			return walk(x.X)
		case *ssa.MakeInterface:
			return walk(x.X)
		case *ssa.Phi:
			for _, e := range x.Edges {
				if k, ok := walk(e); ok {
					return k, true
				}
			}
		case *ssa.UnOp:
			if a, ok := x.X.(*ssa.Alloc); ok && x.Op == token.MUL {
				for _, r := range *a.Referrers() {
					if st, ok := r.(*ssa.Store); ok && st.Addr == a {
						if k, ok := walk(st.Val); ok {
							return k, true
						}
					}
				}
			}
		}
		return 0, false
	}
	return walk(v)
}

// ---- debugging aid --------------------------------------------------------------------------------------------------

// c06dump prints every obligation when VERIF_DUMP_OBS is set (development only; the verdict does not depend on it).
func c06dump(c *Ctx) {
	if os.Getenv("VERIF_DUMP_OBS") == "" {
		return
	}
	for _, o := range c.Obs {
		fmt.Fprintf(os.Stderr, "OB %s [%s] %s %s\n", o.Rule, o.Construct, o.Pos, o.Status)
	}
}
