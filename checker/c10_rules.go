package main

import (
	"fmt"
	"go/ast"
	"go/token"
	"go/types"
	"path/filepath"
	"strings"

	"golang.org/x/tools/go/packages"
	"golang.org/x/tools/go/ssa"
)

// ---- the compiler's report, attributed to expressions -------------------------------------------------------------------

type c10pos struct {
	file      string
	line, col int
}

// c10bce indexes the bounds checks the compiler could not eliminate. The compiler reports the position of the
// opening bracket; a report is ATTRIBUTED when an index or slice expression of the package has its bracket there.
// An unattributed report (an implicit check, or a position convention we do not know) taints its whole line.
type c10bce struct {
	c        *Ctx
	reports  map[c10pos]string       // exact position -> kind
	byLine   map[c10pos][]c10pos     // (file,line,0) -> reports on that line
	brackets map[c10pos]bool         // brackets of index/slice expressions in the package
	used     map[c10pos]bool         // reports that were matched to an obligation
	fileOf   map[*ast.File]string    // absolute file names
	declOf   map[token.Pos]*ast.File // FuncDecl pos -> file
	funcs    map[token.Pos]ast.Node  // pos of FuncDecl / FuncLit -> node
	pp       *packages.Package
	lineSpan map[string][][2]int // file -> [from,to] line spans of functions that were checked
}

func newC10BCE(c *Ctx, pp *packages.Package, reps []bceReport) *c10bce {
	b := &c10bce{c: c, pp: pp, reports: map[c10pos]string{}, byLine: map[c10pos][]c10pos{}, brackets: map[c10pos]bool{},
		used: map[c10pos]bool{}, funcs: map[token.Pos]ast.Node{}, lineSpan: map[string][][2]int{}}
	for _, r := range reps {
		f := r.file
		if !filepath.IsAbs(f) {
			f = filepath.Join(c.Dir, f)
		}
		p := c10pos{f, r.line, r.col}
		b.reports[p] = r.kind
		l := c10pos{f, r.line, 0}
		b.byLine[l] = append(b.byLine[l], p)
	}
	known := map[string]bool{}
	for _, file := range pp.Syntax {
		known[c.Fset.Position(file.Pos()).Filename] = true
	}
	for p := range b.reports {
		if !known[p.file] {
			// a report we cannot place must not be lost silently: every expression would count as proved
			c.undecided("C10.M1", "anchor|compiler report for "+filepath.Base(p.file), "the compiler reports an unproved bounds check in a file that is not among the sources of the package as loaded: "+p.file)
		}
	}
	for _, file := range pp.Syntax {
		ast.Inspect(file, func(n ast.Node) bool {
			switch x := n.(type) {
			case *ast.IndexExpr:
				b.brackets[b.posOf(x.Lbrack)] = true
			case *ast.SliceExpr:
				b.brackets[b.posOf(x.Lbrack)] = true
			case *ast.FuncDecl:
				b.funcs[x.Pos()] = x
			case *ast.FuncLit:
				b.funcs[x.Pos()] = x
			}
			return true
		})
	}
	return b
}

func (b *c10bce) posOf(p token.Pos) c10pos {
	ps := b.c.Fset.Position(p)
	return c10pos{ps.Filename, ps.Line, ps.Column}
}

// unproved: did the compiler leave a bounds check at the bracket p (or an unattributed one on p's line)?
func (b *c10bce) unproved(p token.Pos) (string, bool) {
	if !p.IsValid() {
		return "no position", true
	}
	ps := b.posOf(p)
	if k, ok := b.reports[ps]; ok {
		b.used[ps] = true
		return k, true
	}
	for _, r := range b.byLine[c10pos{ps.file, ps.line, 0}] {
		if !b.brackets[r] {
			b.used[r] = true
			return b.reports[r] + " (reported at column " + fmt.Sprint(r.col) + " of this line)", true
		}
	}
	return "", false
}

// ---- M1: every index and slice expression of the parser region ---------------------------------------------------------

// c10boundsInstrs indexes the bounds-checked instructions of f and its closures by source position.
func c10boundsInstrs(f *ssa.Function) map[token.Pos][]ssa.Instruction {
	out := map[token.Pos][]ssa.Instruction{}
	for _, g := range withAnon(f) {
		eachInstr(g, func(i ssa.Instruction) {
			switch x := i.(type) {
			case *ssa.IndexAddr, *ssa.Index, *ssa.Slice, *ssa.SliceToArrayPointer:
				out[i.Pos()] = append(out[i.Pos()], i)
			case *ssa.Lookup:
				if c10hasLen(x.X.Type()) {
					out[i.Pos()] = append(out[i.Pos()], i)
				}
			}
		})
	}
	return out
}

func runC10M1(c *Ctx, e *c10env, bce *c10bce, px *c10prover) {
	nIdx, nResidual := 0, 0
	for _, f := range e.pfns {
		if f.Parent() != nil {
			continue // closures are walked with the function that contains them
		}
		var body *ast.BlockStmt
		if fd, ok := f.Syntax().(*ast.FuncDecl); ok {
			body = fd.Body
		}
		if body == nil {
			c.undecided("C10.M1", fnKey(f)+"|source of a parser function", "no syntax")
			continue
		}
		instrs := c10boundsInstrs(f)
		key := fnKey(f)
		from, to := c.Fset.Position(body.Pos()), c.Fset.Position(body.End())
		bce.lineSpan[from.Filename] = append(bce.lineSpan[from.Filename], [2]int{from.Line, to.Line})
		ast.Inspect(body, func(n ast.Node) bool {
			var kind string
			var br token.Pos
			switch x := n.(type) {
			case *ast.IndexExpr:
				kind, br = "index", x.Lbrack
				if tv, ok := bce.pp.TypesInfo.Types[x.X]; ok {
					if _, isMap := tv.Type.Underlying().(*types.Map); isMap || tv.IsType() {
						return true // map lookups and instantiations have no bounds
					}
					if _, isSig := tv.Type.Underlying().(*types.Signature); isSig {
						return true
					}
				}
			case *ast.SliceExpr:
				kind, br = "slice", x.Lbrack
			default:
				return true
			}
			nIdx++
			why, bad := bce.unproved(br)
			ok, detail := !bad, ""
			if bad {
				// residual: what the compiler leaves open is proved from the facts that dominate the instruction
				// (lengths guaranteed by every caller, lengths of slices cut to a known size, bounds of helper results)
				nResidual++
				ins := instrs[br]
				if len(ins) == 0 {
					detail = "no instruction at this position"
				} else {
					ok = true
					for _, in := range ins {
						if good, w := px.boundsOK(in); !good {
							ok, detail = false, w
						}
					}
				}
			}
			c.check("C10.M1", key+"|"+kind+" expression proved in bounds", n.Pos(), ok,
				"neither the compiler's prove pass ("+why+") nor the length facts that dominate this "+kind+" expression ("+detail+") show it in bounds: some ClientHello bytes make the parser read out of range and panic inside the connection handler")
			return true
		})
	}
	// a report inside a checked function that belongs to no expression seen above
	for p, kind := range bce.reports {
		if bce.used[p] {
			continue
		}
		for _, span := range bce.lineSpan[p.file] {
			if p.line >= span[0] && p.line <= span[1] {
				c.ob("C10.M1", fmt.Sprintf("proxy/tcp|bounds check reported by the compiler at %s:%d:%d", filepath.Base(p.file), p.line, p.col), token.NoPos, Viol,
					"the compiler reports an unproved bounds check ("+kind+") in the parser that matches no index or slice expression")
			}
		}
	}
	// vacuity: the region must have been found (two roots) and must index its input somewhere
	c.atLeast("C10.M1", "functions parsing bytes read before routing (parser roots called by the SNI handler)", len(e.roots), 2)
	// (a parser written with the cryptobyte cursor has reads instead of index expressions)
	nReads := 0
	eachInstrOf(e.pfns, func(_ *ssa.Function, i ssa.Instruction) {
		if call, ok := i.(*ssa.Call); ok && !call.Call.IsInvoke() && c10isTotalReader(calleeName(&call.Call)) {
			nReads++
		}
	})
	c.atLeast("C10.M1", "index/slice expressions (or length-checked cursor reads) in the ClientHello parser", nIdx+nReads, 4)
	_ = nResidual
}

// ---- M2: no other panic source -----------------------------------------------------------------------------------------

// total functions: cannot panic whatever their arguments are.
var c10total = map[string]bool{
	"errors.New": true, "fmt.Errorf": true, "fmt.Sprintf": true, "fmt.Sprint": true,
	"builtin.len": true, "builtin.cap": true, "builtin.append": true, "builtin.copy": true, "builtin.min": true, "builtin.max": true,
	"bytes.Equal": true, "bytes.HasPrefix": true, "bytes.HasSuffix": true, "bytes.IndexByte": true, "bytes.Index": true, "bytes.Contains": true,
	"bytes.TrimSpace": true, "bytes.Compare": true, "bytes.Cut": true, "bytes.LastIndexByte": true,
	"strings.HasPrefix": true, "strings.HasSuffix": true, "strings.IndexByte": true, "strings.Index": true, "strings.Contains": true,
	"strings.ToLower": true, "strings.ToUpper": true, "strings.TrimSuffix": true, "strings.TrimPrefix": true, "strings.TrimSpace": true,
	"strings.TrimRight": true, "strings.TrimLeft": true, "strings.Trim": true, "strings.EqualFold": true, "strings.Cut": true, "strings.LastIndexByte": true,
	"unicode/utf8.Valid": true, "unicode/utf8.ValidString": true, "unicode/utf8.RuneCount": true, "unicode/utf8.RuneCountInString": true,
	"log.Print": true, "log.Printf": true, "log.Println": true,
	"slices.Contains": true, "slices.Index": true, "slices.Equal": true,
	// (round 2) more functions that are total on every argument
	"strings.Clone": true, "bytes.Clone": true, "bytes.TrimRight": true, "bytes.TrimLeft": true, "bytes.Trim": true, "bytes.TrimSuffix": true, "bytes.TrimPrefix": true,
	"bytes.ToLower": true, "bytes.ToUpper": true, "bytes.EqualFold": true, "bytes.LastIndex": true, "bytes.Count": true, "strings.LastIndex": true, "strings.Count": true,
	"strings.IndexAny": true, "strings.ContainsAny": true, "strings.ContainsRune": true, "strings.IndexRune": true, "strings.Fields": true, "strings.Split": true,
	"unicode/utf8.DecodeRune": true, "unicode/utf8.DecodeRuneInString": true, "unicode/utf8.DecodeLastRune": true, "unicode/utf8.FullRune": true,
	"errors.Is": true, "errors.Unwrap": true, "errors.Join": true, "fmt.Sprintln": true, "net.ParseIP": true,
}

// c10totalReaders: the reading methods of golang.org/x/crypto/cryptobyte.String (the cursor crypto/tls itself parses
// hostile handshakes with): each checks the remaining length and reports false instead of reading out of range.
var c10totalReaders = map[string]bool{
	"Skip": true, "Empty": true, "ReadUint8": true, "ReadUint16": true, "ReadUint24": true, "ReadUint32": true, "ReadUint64": true,
	"ReadBytes": true, "CopyBytes": true, "ReadUint8LengthPrefixed": true, "ReadUint16LengthPrefixed": true, "ReadUint24LengthPrefixed": true,
}

func c10isTotalReader(name string) bool {
	for _, recv := range []string{"(*golang.org/x/crypto/cryptobyte.String).", "(golang.org/x/crypto/cryptobyte.String)."} {
		if strings.HasPrefix(name, recv) && c10totalReaders[strings.TrimPrefix(name, recv)] {
			return true
		}
	}
	return false
}

// functions that are total under a minimum length of their byte-slice argument (argument index, minimum)
var c10minLen = map[string][2]int64{
	"(encoding/binary.bigEndian).Uint16": {1, 2}, "(encoding/binary.bigEndian).Uint32": {1, 4}, "(encoding/binary.bigEndian).Uint64": {1, 8},
	"(encoding/binary.littleEndian).Uint16": {1, 2}, "(encoding/binary.littleEndian).Uint32": {1, 4}, "(encoding/binary.littleEndian).Uint64": {1, 8},
}

// c10nonNil: the pointer v cannot be nil at block b: it is an address taken in place, was tested, or is a parameter
// to which every caller passes such a pointer.
func c10nonNil(v ssa.Value, b *ssa.BasicBlock, depth int) bool {
	switch x := v.(type) {
	case *ssa.Alloc, *ssa.Global, *ssa.FieldAddr, *ssa.IndexAddr, *ssa.Function, *ssa.MakeClosure:
		return true
	case *ssa.SliceToArrayPointer:
		// the conversion itself is an obligation (len(slice) >= N); once it has succeeded with N > 0 the slice holds
		// at least one element, so it is not nil and neither is the pointer to its backing array
		if p, ok := x.Type().Underlying().(*types.Pointer); ok {
			if a, ok := p.Elem().Underlying().(*types.Array); ok && a.Len() > 0 {
				return true
			}
		}
		return false
	case *ssa.Phi:
		if depth > 3 {
			return false
		}
		for k, e := range x.Edges {
			if e == v || k >= len(x.Block().Preds) {
				continue
			}
			if !c10nonNil(e, x.Block().Preds[k], depth+1) {
				return false
			}
		}
		return true
	case *ssa.FreeVar:
		// a captured variable: the address of the variable in the maker of the closure
		f := x.Parent()
		if depth > 3 || f == nil || f.Parent() == nil {
			return false
		}
		idx := -1
		for k, fv := range f.FreeVars {
			if fv == x {
				idx = k
			}
		}
		okAll, n := true, 0
		eachInstr(f.Parent(), func(i ssa.Instruction) {
			if mc, ok := i.(*ssa.MakeClosure); ok && mc.Fn == f {
				n++
				if idx < 0 || idx >= len(mc.Bindings) || !c10nonNil(mc.Bindings[idx], mc.Block(), depth+1) {
					okAll = false
				}
			}
		})
		return okAll && n > 0
	case *ssa.Parameter:
		if b != nil && c10knownNonNil(b, sameVal(v)) {
			return true
		}
		f := x.Parent()
		sites := gSites[f]
		if depth > 3 || f == nil || len(sites) == 0 || !c10allCallersKnown(f) {
			return false
		}
		idx := -1
		for k, p := range f.Params {
			if p == x {
				idx = k
			}
		}
		for _, s := range sites {
			args := s.Common().Args
			if idx < 0 || idx >= len(args) || s.Block() == nil || !c10nonNil(args[idx], s.Block(), depth+1) {
				return false
			}
		}
		return true
	case *ssa.Call, *ssa.Extract:
		// a constructor of the repository: non-nil when every return hands out a non-nil pointer
		if b != nil && c10knownNonNil(b, sameVal(v)) {
			return true
		}
		r, ok := c10resOf(v)
		if !ok || depth > 3 {
			return false
		}
		g := r.call.Call.StaticCallee()
		if g == nil || !isRepoFn(g) || len(g.Blocks) == 0 {
			return false
		}
		okAll, n := true, 0
		eachInstr(g, func(i ssa.Instruction) {
			if ret, isR := i.(*ssa.Return); isR {
				n++
				if r.idx >= len(ret.Results) || !c10nonNil(ret.Results[r.idx], ret.Block(), depth+1) {
					okAll = false
				}
			}
		})
		return okAll && n > 0
	}
	return b != nil && c10knownNonNil(b, sameVal(v))
}

func runC10M2(c *Ctx, e *c10env, px *c10prover) {
	// static recursion inside the region (a hostile length must not drive the stack)
	callees := map[*ssa.Function][]*ssa.Function{}
	for _, f := range e.pfns {
		ff := f
		eachInstr(f, func(i ssa.Instruction) {
			if cc := callCommon(i); cc != nil {
				if g := cc.StaticCallee(); g != nil && e.inP[g] {
					callees[ff] = append(callees[ff], g)
				}
			}
		})
	}
	recursive := func(f *ssa.Function) bool {
		seen := map[*ssa.Function]bool{}
		stack := append([]*ssa.Function{}, callees[f]...)
		for len(stack) > 0 {
			g := stack[len(stack)-1]
			stack = stack[:len(stack)-1]
			if g == f {
				return true
			}
			if seen[g] {
				continue
			}
			seen[g] = true
			stack = append(stack, callees[g]...)
		}
		return false
	}
	for _, f := range e.pfns {
		okAll := true
		detail := ""
		bad := func(s string) {
			if okAll {
				okAll, detail = false, s
			}
		}
		key := fnKey(f)
		if recursive(f) {
			bad("recursion")
		}
		eachInstr(f, func(i ssa.Instruction) {
			d := func() *c10dbm { return px.at(i.Block(), 0) }
			switch x := i.(type) {
			case *ssa.MapUpdate, *ssa.Panic, *ssa.Go, *ssa.Defer, *ssa.Send, *ssa.Select:
				bad(fmt.Sprintf("%T", x))
			case *ssa.TypeAssert:
				if !x.CommaOk {
					bad("type assertion without the comma-ok form")
				}
			case *ssa.BinOp:
				switch x.Op {
				case token.QUO, token.REM:
					if !isIntType(x.Type()) {
						return
					}
					if k, ok := constInt(x.Y); ok {
						c.check("C10.M2", key+"|division by a constant", x.Pos(), k != 0, "division by zero")
						return
					}
					lo, ok1 := d().lower(c10termOf(x.Y))
					hi, ok2 := d().upper(c10termOf(x.Y), c10term{})
					c.check("C10.M2", key+"|integer division by a computed value", x.Pos(), (ok1 && lo >= 1) || (ok2 && hi <= -1),
						"division by a value taken from the input can panic (divide by zero): the divisor is not proved non-zero here")
				case token.SHL, token.SHR:
					if _, ok := constInt(x.Y); ok {
						return
					}
					if b, ok := x.Y.Type().Underlying().(*types.Basic); ok && b.Info()&types.IsUnsigned != 0 {
						return
					}
					lo, ok1 := d().lower(c10termOf(x.Y))
					c.check("C10.M2", key+"|shift by a computed signed count", x.Pos(), ok1 && lo >= 0,
						"a negative shift count panics: the count is not proved non-negative here")
				}
			case *ssa.MakeSlice:
				lo, ok1 := d().lower(c10termOf(x.Len))
				hi, ok2 := d().upper(c10termOf(x.Len), c10term{})
				c.check("C10.M2", key+"|allocation size within bounds", x.Pos(), ok1 && lo >= 0 && ok2 && hi <= 1<<31,
					fmt.Sprintf("make with a length computed from the input panics when it is negative or huge; proved range: [%s, %s]", boundStr(lo, ok1), boundStr(hi, ok2)))
			case *ssa.SliceToArrayPointer:
				good, why := px.boundsOK(x)
				c.check("C10.M2", key+"|conversion of a slice to an array", x.Pos(), good,
					"converting a slice to an array (pointer) panics when the slice is shorter than the array: "+why)
			case *ssa.FieldAddr:
				if !c10nonNil(x.X, x.Block(), 0) {
					bad("field access through a pointer that may be nil (" + x.X.Name() + ")")
				}
			case *ssa.IndexAddr:
				if _, isPtr := x.X.Type().Underlying().(*types.Pointer); isPtr && !c10nonNil(x.X, x.Block(), 0) {
					bad("array access through a pointer that may be nil (" + x.X.Name() + ")")
				}
			case *ssa.UnOp:
				if x.Op == token.MUL && !c10nonNil(x.X, x.Block(), 0) {
					bad("load through a pointer that may be nil (" + x.X.Name() + ")")
				}
			case *ssa.Store:
				if !c10nonNil(x.Addr, x.Block(), 0) {
					bad("store through a pointer that may be nil (" + x.Addr.Name() + ")")
				}
			case *ssa.Call:
				name := typeArgs.ReplaceAllString(calleeName(&x.Call), "")
				if g := x.Call.StaticCallee(); g != nil && e.inP[g] {
					return // checked as a member of the region; what it needs of its arguments is proved at its own instructions
				}
				if c10total[name] {
					return
				}
				if c10isTotalReader(name) {
					// out-parameters must be real variables
					for _, a := range x.Call.Args {
						if c10deref(a.Type()) != nil && !c10nonNil(a, x.Block(), 0) {
							bad("call to " + name + " with a pointer that may be nil")
						}
					}
					return
				}
				if pre, ok := c10minLen[name]; ok && int(pre[0]) < len(x.Call.Args) {
					arg := x.Call.Args[pre[0]]
					c.check("C10.M2", key+"|"+name+" on a slice of sufficient length", x.Pos(), d().proveLE(c10k(pre[1]), c10len(arg), 0),
						fmt.Sprintf("%s panics on a slice shorter than %d bytes and the length of its argument is not proved here", name, pre[1]))
					return
				}
				if name == "" {
					// a func value: fine when it can only denote functions of the region
					fs := funcsOf(x.Call.Value)
					okF := len(fs) > 0 && !x.Call.IsInvoke()
					for _, g := range fs {
						if !e.inP[g] {
							okF = false
						}
					}
					if okF {
						return
					}
					bad("call of a function value")
					return
				}
				bad("call to " + name)
			}
		})
		c.check("C10.M2", key+"|no panic source besides the proved bounds checks", f.Pos(), okAll,
			"the parser must stay free of constructs that can panic on hostile input ("+detail+")")
	}
	c.atLeast("C10.M2", "functions of the ClientHello parser region", len(e.pfns), 2)
}

// ---- S1 / M3: bounds of the buffer size -------------------------------------------------------------------------------

// c10sizeBody: the function in which the size is computed: the size function, or - when that merely forwards to one
// same-package helper - the helper. inputs maps the byte-carrying parameters of f (slices, arrays, pointers to arrays)
// to the offset of their first byte within the bytes the handler gave to the size function; nil at the top.
func c10sizeBody(e *c10env, f *ssa.Function, inputs map[ssa.Value]int64, depth int) (*ssa.Function, []c10term) {
	if inputs == nil {
		inputs = map[ssa.Value]int64{}
		for _, p := range f.Params {
			if c10isByteSlice(p.Type()) {
				inputs[p] = 0
			}
		}
	}
	var cands []c10term
	eachInstr(f, func(i ssa.Instruction) {
		v, ok := i.(ssa.Value)
		if !ok {
			return
		}
		if call, isCall := v.(*ssa.Call); isCall {
			if tup, isTuple := v.Type().(*types.Tuple); isTuple {
				// a result of a helper that the size function does not name (`_, msgLen, err := parseHeader(data)`)
				for k := 0; k < tup.Len(); k++ {
					if !isIntType(tup.At(k).Type()) || c10extractOf(call, k) != nil {
						continue
					}
					if parts, ok := c10callParts(call, k, nil, 0); ok && len(parts) == 1 && parts[0].shift == 0 && parts[0].ref.n == 2 {
						if base, isIn := inputs[parts[0].ref.root]; isIn && base+parts[0].ref.off == 3 {
							cands = append(cands, c10resultTerm(call, k))
						}
					}
				}
				return
			}
		}
		if st := c10structOrPointee(v.Type()); st != nil {
			// the header decoded into a struct that a helper returns (by value, or a pointer to it): the field
			// assembled from bytes 3-4
			switch v.(type) {
			case *ssa.Call, *ssa.Extract:
			default:
				return
			}
			for k := 0; k < st.NumFields(); k++ {
				if ref, ok := c10fieldBytes(v, k, nil, 0); ok && ref.n == 2 {
					if base, isIn := inputs[ref.root]; isIn && base+ref.off == 3 {
						cands = append(cands, c10term{v: v, fld: k + 1})
					}
				}
			}
			return
		}
		if !isIntType(v.Type()) {
			return
		}
		switch v.(type) {
		case *ssa.BinOp, *ssa.Call, *ssa.Convert, *ssa.Extract:
		default:
			return
		}
		ref, ok := c10beBytes(v, nil, 0)
		if !ok || ref.n != 2 {
			return
		}
		if base, isIn := inputs[ref.root]; isIn && base+ref.off == 3 {
			cands = append(cands, c10termOf(v))
		}
	})
	if len(cands) > 0 || depth > 2 {
		return f, cands
	}
	// forwarder: every nil-error return hands on the results of one call of a region function
	var inner *ssa.Function
	var innerCall *ssa.Call
	okFwd := true
	eachInstr(f, func(i ssa.Instruction) {
		r, ok := i.(*ssa.Return)
		if !ok || len(r.Results) != 2 || !c10maySucceed(r, 1) {
			return
		}
		ex, ok := r.Results[0].(*ssa.Extract)
		if !ok {
			okFwd = false
			return
		}
		call, ok := ex.Tuple.(*ssa.Call)
		if !ok || call.Call.StaticCallee() == nil || !e.inP[call.Call.StaticCallee()] || (innerCall != nil && innerCall != call) {
			okFwd = false
			return
		}
		inner, innerCall = call.Call.StaticCallee(), call
	})
	if okFwd && inner != nil && inner != f {
		// which bytes of the input the helper's parameters hold
		in2 := map[ssa.Value]int64{}
		for k, p := range inner.Params {
			if k >= len(innerCall.Call.Args) || !c10byteLike(p.Type()) {
				continue
			}
			root, off, ok := c10sliceBase(innerCall.Call.Args[k], nil, 0)
			if base, isIn := inputs[root]; ok && isIn {
				in2[p] = base + off
			}
		}
		return c10sizeBody(e, inner, in2, depth+1)
	}
	return f, nil
}

func runC10S1(c *Ctx, e *c10env, px *c10prover) {
	if e.sizeFn == nil {
		c.undecided("C10.S1", "proxy/tcp|size function", "no function of the parser region returns (int, error) to the SNI handler as the size of its capture buffer")
		return
	}
	// the bytes the size function is given start at the first byte of the stream: the peeked (or captured) bytes
	// themselves, not a slice of them that starts later ("bytes 3-4" must be bytes 3-4 of the TLS record)
	for _, sc := range e.sizeCalls {
		for _, a := range sc.Call.Args {
			if !c10carriesBytes(a.Type(), 0) {
				continue
			}
			root, off, ok := c10sliceBase(a, nil, 0)
			if !ok {
				continue
			}
			start := false
			o := c10origin(root)
			if r, isRes := e.resOf(o); isRes {
				for _, pk := range e.peeks {
					if pk == r.call {
						start = true
					}
				}
			}
			for _, mk := range e.buffers {
				if o == ssa.Value(mk) {
					start = true
				}
			}
			if start {
				c.check("C10.S1", fnKey(e.h)+"|size function reads the record header at the start of the stream", sc.Pos(), off == 0,
					fmt.Sprintf("the size function is given the peeked bytes from offset %d on: what it takes for the record length is not bytes 3-4 of the TLS record", off))
			}
		}
	}
	body, recs := c10sizeBody(e, e.sizeFn, nil, 0)
	key := fnKey(body)
	if len(recs) == 0 {
		c.undecided("C10.S1", key+"|record length", "the value built from header bytes 3-4 was not found")
		return
	}
	nRet := 0
	eachInstr(body, func(i ssa.Instruction) {
		r, ok := i.(*ssa.Return)
		if !ok || len(r.Results) != 2 || !c10maySucceed(r, 1) {
			return
		}
		// every return that may carry a nil error (a constant nil, or an error value not known to be set)
		nRet++
		d := px.at(r.Block(), 0)
		res := c10termOf(r.Results[0])
		ubRel, ok1 := int64(0), false
		for _, rec := range recs {
			if u, ok := d.upper(res, rec); ok && (!ok1 || u < ubRel) {
				ubRel, ok1 = u, true
			}
		}
		ubAbs, ok2 := d.upper(res, c10term{})
		lb, ok3 := d.lower(res)
		c.check("C10.S1", key+"|result - recordLength <= 5", r.Pos(), ok1 && ubRel <= 5,
			fmt.Sprintf("the buffer size must not exceed the first TLS record (5 header bytes + recordLength); proved bound: result - recordLength <= %s", boundStr(ubRel, ok1)))
		c.check("C10.S1", key+"|result <= 16389", r.Pos(), ok2 && ubAbs <= 16389,
			fmt.Sprintf("the buffer size must not exceed a maximal TLS record (16384 + 5); proved bound: result <= %s", boundStr(ubAbs, ok2)))
		c.check("C10.M3", key+"|result >= 10", r.Pos(), ok3 && lb >= 10,
			fmt.Sprintf("the SNI handler slices data[5:] of a buffer of this size and the parser needs the 4-byte handshake header; proved bound: result >= %s", boundStr(lb, ok3)))
	})
	c.atLeast("C10.S1", "nil-error returns of the size function", nRet, 1)
}

// ---- S2 / M3: the handler ---------------------------------------------------------------------------------------------------

func runC10S2(c *Ctx, e *c10env, bce *c10bce, px *c10prover) {
	hk := fnKey(e.h)
	if e.sizeFn == nil || len(e.sizeCalls) == 0 || len(e.parseCalls) == 0 {
		c.undecided("C10.S2", hk+"|calls of the size function and the parser", "not found")
	}
	isSizeCall := func(call *ssa.Call) bool {
		for _, s := range e.sizeCalls {
			if s == call {
				return true
			}
		}
		return false
	}
	// the capture buffer: make([]byte, n), n the nil-error result of the size function
	var mk *ssa.MakeSlice
	okMk := false
	for _, m := range e.buffers {
		mk = m
		okMk = false
		if sz, ok := e.resOf(m.Len); ok && sz.idx == 0 && isSizeCall(sz.call) {
			okMk = e.successKnown(m.Block(), sz.call, 1)
		}
		if !okMk {
			break
		}
	}
	pos := e.h.Pos()
	if mk != nil {
		pos = mk.Pos()
	}
	c.check("C10.S2", hk+"|buffer length is exactly the computed size", pos, mk != nil && okMk,
		"the capture buffer must be make([]byte, n) with n the nil-error result of clientHelloBufferSize: a larger buffer reads beyond the first TLS record (blocking on data the client has not sent, or swallowing application data)")
	if mk == nil {
		return
	}
	// the consuming read: io.ReadFull(reader, buffer); no other consuming read can execute before a lookup
	nFull := 0
	for _, r := range e.reads {
		name := calleeName(&r.Call)
		if (name != "io.ReadFull" && name != "io.ReadAtLeast") || len(r.Call.Args) < 2 {
			continue
		}
		// the whole buffer, however it is spelled (data, data[:], data[0:n]): same base, same length
		arg := r.Call.Args[1]
		o := c10origin(arg)
		whole := o == ssa.Value(mk)
		if sl, isSl := o.(*ssa.Slice); isSl && !whole {
			root, off, ok := c10sliceBase(sl, nil, 0)
			ds := px.at(sl.Block(), 0)
			whole = ok && off == 0 && c10origin(root) == ssa.Value(mk) && ds.proveLE(c10len(sl), c10len(root), 0) && ds.proveLE(c10len(root), c10len(sl), 0)
		}
		if name == "io.ReadAtLeast" {
			// ReadAtLeast(r, buf, len(buf)) is ReadFull
			whole = whole && len(r.Call.Args) == 3 && px.at(r.Block(), 0).proveLE(c10len(arg), c10termOf(r.Call.Args[2]), 0)
		}
		if whole {
			nFull++
		}
	}
	c.check("C10.S2", hk+"|the only consuming read before routing is io.ReadFull into that buffer", pos, nFull == 1 && len(e.reads) == 1 && len(e.buffers) == 1,
		"exactly one consuming read (io.ReadFull into the sized buffer) may precede the route lookup; Peek is non-consuming")

	// M3: whatever the handler functions themselves cut out of the captured bytes (data[5:]) must be in bounds:
	// proved by the compiler, or by the prover from the size function's nil-error returns
	nArg := 0
	for _, pc := range e.parseCalls {
		for _, a := range pc.Call.Args {
			if c10carriesBytes(a.Type(), 0) && e.derivesMem(a, func(v ssa.Value) bool { return v == ssa.Value(mk) }) {
				nArg++
			}
		}
	}
	if nArg == 0 {
		c.undecided("C10.M3", hk+"|argument of the parser", "the parser is not given (a slice of) the capture buffer")
	}
	for _, f := range e.hfns {
		ff := f
		eachInstr(f, func(i ssa.Instruction) {
			var x ssa.Value
			what := ""
			switch in := i.(type) {
			case *ssa.IndexAddr:
				x, what = in.X, "index"
			case *ssa.Index:
				x, what = in.X, "index"
			case *ssa.Lookup:
				if !c10hasLen(in.X.Type()) {
					return
				}
				x, what = in.X, "index"
			case *ssa.Slice:
				x, what = in.X, "slice"
			case *ssa.SliceToArrayPointer:
				x, what = in.X, "conversion"
			default:
				return
			}
			if !c10byteLike(x.Type()) || !e.hostile(x) {
				return
			}
			why, bad := bce.unproved(i.Pos())
			ok, detail := !bad, ""
			if bad {
				ok, detail = px.boundsOK(i)
			}
			c.check("C10.M3", fnKey(ff)+"|"+what+" of the captured bytes within the buffer", i.Pos(), ok,
				"the handler cuts the bytes it captured before routing; neither the compiler ("+why+") nor the bounds of the size function on its nil-error path ("+detail+") show this "+what+" expression in bounds")
		})
	}

	// lookup key = parser output, under success and name != ""
	for _, lk := range e.lookups {
		okKey, okFlag, nonEmpty := false, false, false
		var key ssa.Value
		var pc *ssa.Call
		if len(lk.Call.Args) == 1 {
			key = c10origin(lk.Call.Args[0])
			pc = c10parserOutput(e, key)
			okKey = pc != nil
		}
		if okKey {
			facts := c10factsAt(lk.Block())
			okFlag = c10parseSucceeded(e, pc, facts)
			if lo, ok := px.at(lk.Block(), 0).lower(c10len(lk.Call.Args[0])); ok && lo >= 1 {
				nonEmpty = true
			}
			same := samePath(key)
			for _, f := range facts {
				if b, isB := f.Cond.(*ssa.BinOp); isB {
					x, y := c10origin(b.X), b.Y
					if s, isS := constString(x); isS && s == "" {
						x, y = c10origin(b.Y), b.X
					}
					if s, isS := constString(y); isS && s == "" && (x == key || same(x)) && ((b.Op == token.EQL && !f.Truth) || (b.Op == token.NEQ && f.Truth)) {
						nonEmpty = true
					}
				}
			}
		}
		c.check("C10.S2", hk+"|route looked up under the parsed server name only", lk.Pos(), okKey && okFlag && nonEmpty,
			"the route lookup must use the name returned by the parser, on the edge where parsing succeeded (ok) and the name is not empty; malformed or SNI-less hellos are rejected before any lookup or dial")
	}
	c.atLeast("C10.S2", "route lookups in the SNI handler", len(e.lookups), 1)
}

// c10byteLike: a string, or a slice / array / pointer to an array of bytes.
func c10byteLike(t types.Type) bool {
	u := t.Underlying()
	if p, ok := u.(*types.Pointer); ok {
		u = p.Elem().Underlying()
	}
	var elem types.Type
	switch x := u.(type) {
	case *types.Basic:
		return x.Info()&types.IsString != 0
	case *types.Slice:
		elem = x.Elem()
	case *types.Array:
		elem = x.Elem()
	default:
		return false
	}
	b, ok := elem.Underlying().(*types.Basic)
	return ok && b.Kind() == types.Uint8
}

// c10parserOutput: key is what a parser call hands back: one of its results, or a field of a struct the handler
// allocated and passed to it. Returns that call.
func c10parserOutput(e *c10env, key ssa.Value) *ssa.Call {
	isPC := func(v ssa.Value) *ssa.Call {
		for _, pc := range e.parseCalls {
			if ssa.Value(pc) == v {
				return pc
			}
		}
		return nil
	}
	if r, ok := e.resOf(key); ok {
		return isPC(r.call)
	}
	switch x := key.(type) {
	case *ssa.Field:
		// a field of a struct the parser returned by value
		if r, ok := e.structResult(x); ok {
			return isPC(r.call)
		}
	case *ssa.Phi:
		// "" on the paths that did not parse, the parser's output on the other: the lookup must be under name != ""
		// anyway, which singles out the parser's edge
		var pc *ssa.Call
		for _, ed := range x.Edges {
			if str, isK := constString(ed); isK && str == "" {
				continue
			}
			p2 := c10parserOutput(e, c10origin(ed))
			if p2 == nil || (pc != nil && p2 != pc) {
				return nil
			}
			pc = p2
		}
		return pc
	case *ssa.UnOp:
		if r, ok := e.structResult(x); ok {
			if pc := isPC(r.call); pc != nil {
				return pc
			}
		}
		if fa, ok := x.X.(*ssa.FieldAddr); ok && x.Op == token.MUL {
			// a field of a struct the parser returned a pointer to
			if r, ok := e.resOf(fa.X); ok {
				if pc := isPC(r.call); pc != nil {
					return pc
				}
			}
		}
		if fa, ok := x.X.(*ssa.FieldAddr); ok && x.Op == token.MUL {
			if a, ok := fa.X.(*ssa.Alloc); ok {
				for _, pc := range e.parseCalls {
					for _, arg := range pc.Call.Args {
						if arg == ssa.Value(a) && dominatesInstr(pc, x) {
							return pc
						}
					}
				}
			}
		}
	}
	return nil
}

// c10parseSucceeded: the facts say the parser call reported success: its bool result is true, or its error result is nil.
// A parser without such a result reports failure through the empty name alone.
func c10parseSucceeded(e *c10env, pc *ssa.Call, facts []Fact) bool {
	res := pc.Call.Signature().Results()
	need := false
	for k := 0; k < res.Len(); k++ {
		t := res.At(k).Type()
		isBool := false
		if b, ok := t.Underlying().(*types.Basic); ok && b.Kind() == types.Bool {
			isBool = true
		}
		isErr := typeStr(t) == "error"
		isStruct := false
		if st, ok := t.Underlying().(*types.Struct); ok {
			nBool := 0
			for i := 0; i < st.NumFields(); i++ {
				if c10isBool(st.Field(i).Type()) {
					nBool++
				}
			}
			isStruct = nBool == 1 // a result struct with ONE flag: that flag is the verdict
		}
		if !isBool && !isErr && !isStruct {
			continue
		}
		need = true
		is := func(v ssa.Value) bool {
			r, ok := e.resOf(v)
			return ok && r.call == pc && r.idx == k
		}
		for _, f := range facts {
			if isBool && is(f.Cond) && f.Truth {
				return true
			}
			if isStruct && f.Truth && c10isBool(f.Cond.Type()) {
				if r, ok := e.structResult(f.Cond); ok && r.call == pc && r.idx == k {
					return true // the ok field of a result struct
				}
			}
			if isErr {
				if nn, ok := nilFact(f, is); ok && !nn {
					return true
				}
			}
		}
	}
	return !need
}
