package main

// C16.P1 .. P3: the connection pool. The pool's table is recognised by its role — a map whose elements are
// *grpc.ClientConn, in package proxy — not by the name of the struct, the field, or the methods around it.

import (
	"go/token"
	"go/types"

	"golang.org/x/tools/go/ssa"
)

// ---- pool keys ---------------------------------------------------------------------------------------------------------

type c16keys struct {
	keyFns map[*ssa.Function]bool // repository functions that compute a pool key from a *route.Target
}

// c16rangeKey: v is the key variable of a `range` over the connection table.
func c16rangeKey(v ssa.Value) bool {
	e, ok := v.(*ssa.Extract)
	if !ok {
		return false
	}
	nx, ok := e.Tuple.(*ssa.Next)
	if !ok {
		return false
	}
	rg, ok := nx.Iter.(*ssa.Range)
	return ok && c16isConnMap(rg.X)
}

// c16wholeURL: v is target.URL.String().
func c16wholeURL(v ssa.Value) bool {
	call, ok := v.(*ssa.Call)
	if !ok || calleeName(&call.Call) != "(*net/url.URL).String" {
		return false
	}
	_, isURL := fieldOf(call.Call.Args[0], "route.Target", "URL")
	return isURL
}

// c16keyFnCall: v is the result of a repository function that maps a *route.Target to a string.
func c16keyFnCall(v ssa.Value) *ssa.Function {
	call, ok := v.(*ssa.Call)
	if !ok {
		return nil
	}
	sc := call.Call.StaticCallee()
	if sc == nil || !isRepoFn(sc) || len(sc.Blocks) == 0 {
		return nil
	}
	if res := sc.Signature.Results(); res.Len() != 1 || typeStr(res.At(0).Type().Underlying()) != "string" {
		return nil
	}
	for _, a := range call.Call.Args {
		if c16isTargetT(a.Type()) {
			return sc
		}
	}
	return nil
}

// all: every definition merged into v (phi edges, stores into a local cell, arguments at the static call sites of a
// helper's parameter, bindings of a captured variable) satisfies leaf.
func c16allDefs(v ssa.Value, leaf func(ssa.Value) bool) bool {
	seen := map[ssa.Value]bool{}
	var walk func(x ssa.Value, d int) bool
	walk = func(x ssa.Value, d int) bool {
		if x == nil || d > 8 {
			return false
		}
		if seen[x] {
			return true
		}
		seen[x] = true
		if leaf(x) {
			return true
		}
		switch y := x.(type) {
		case *ssa.Phi:
			for _, e := range y.Edges {
				if !walk(e, d+1) {
					return false
				}
			}
			return len(y.Edges) > 0
		case *ssa.ChangeType:
			return walk(y.X, d+1)
		case *ssa.Convert:
			return walk(y.X, d+1)
		case *ssa.Field:
			// the key carried in a field of a small repository struct (an endpoint / request value built from the target
			// and handed from step to step): every store of the repository into that field
			return c16allFieldStores(y.X.Type(), y.Field, func(s ssa.Value) bool { return walk(s, d+1) })
		case *ssa.UnOp:
			if y.Op != token.MUL {
				return false
			}
			if fa, ok := y.X.(*ssa.FieldAddr); ok {
				return c16allFieldStores(deref(fa.X.Type()), fa.Field, func(s ssa.Value) bool { return walk(s, d+1) })
			}
			var cell ssa.Value = y.X
			if fv, ok := cell.(*ssa.FreeVar); ok {
				cell = c16binding(fv)
			}
			a, ok := cell.(*ssa.Alloc)
			if !ok {
				return false
			}
			n := 0
			for _, r := range *a.Referrers() {
				if st, ok := r.(*ssa.Store); ok && st.Addr == a {
					n++
					if !walk(st.Val, d+1) {
						return false
					}
				}
			}
			return n > 0
		case *ssa.FreeVar:
			b := c16binding(y)
			return b != nil && walk(b, d+1)
		case *ssa.Parameter:
			fn := y.Parent()
			if fn == nil {
				return false
			}
			idx := c16paramIndex(y)
			if idx < 0 {
				return false
			}
			if dyn, ok := c16dynSites(fn); ok && len(dyn) > 0 {
				// a closure handed to a wrapper that calls it (per entry, under the lock ...): what the wrapper passes
				for _, s := range dyn {
					cc := s.Common()
					if idx >= len(cc.Args) || !walk(cc.Args[idx], d+1) {
						return false
					}
				}
				return true
			}
			if !c16onlyStatic(fn) {
				return false
			}
			sites := gSites[fn]
			if len(sites) == 0 {
				return false
			}
			for _, s := range sites {
				cc := s.Common()
				if idx >= len(cc.Args) || !walk(cc.Args[idx], d+1) {
					return false
				}
			}
			return true
		}
		return false
	}
	return walk(v, 0)
}

// c16allFieldStores: field idx of t belongs to a named struct of the repository, something is stored into it somewhere,
// and every value the repository stores into it (struct literals included) satisfies ok. Type-based and flow-insensitive:
// it does not matter how the struct travels (by value, by pointer, through a helper's result or parameter).
func c16allFieldStores(t types.Type, idx int, ok func(ssa.Value) bool) bool {
	named, isN := types.Unalias(t).(*types.Named)
	if !isN || idx < 0 || c16cache.c == nil || named.Obj().Pkg() == nil || !isRepoPkgPath(named.Obj().Pkg().Path()) {
		return false
	}
	n := 0
	for _, s := range c16storesToField(named, idx) {
		n++
		if !ok(s.Val) {
			return false
		}
	}
	return n > 0
}

// c16binding: the value bound to a closure's captured variable where the closure is made.
func c16binding(fv *ssa.FreeVar) ssa.Value {
	fn := fv.Parent()
	if fn == nil || fn.Parent() == nil {
		return nil
	}
	idx := -1
	for k, x := range fn.FreeVars {
		if x == fv {
			idx = k
		}
	}
	var out ssa.Value
	eachInstr(fn.Parent(), func(i ssa.Instruction) {
		if mc, ok := i.(*ssa.MakeClosure); ok && mc.Fn == fn && idx >= 0 && idx < len(mc.Bindings) {
			out = mc.Bindings[idx]
		}
	})
	return out
}

// ok: v is a pool key on every path: the key variable of a range over the table, target.URL.String(), or the result of a
// key function (recorded; P4 judges what it returns).
func (k *c16keys) ok(v ssa.Value) bool {
	return c16allDefs(v, func(x ssa.Value) bool {
		if c16rangeKey(x) || c16wholeURL(x) {
			return true
		}
		if f := c16keyFnCall(x); f != nil {
			k.keyFns[f] = true
			return true
		}
		return false
	})
}

// ---- P1 / P2 / P3 ---------------------------------------------------------------------------------------------------------

func runC16P(c *Ctx) {
	c16resolve(c)
	keys := c16poolKeys(c)
	fresh := func(m ssa.Value) bool {
		// constructor initialisation of a fresh pool is not shared yet
		if fa, ok := stripLoad(m).(*ssa.FieldAddr); ok {
			if _, isAlloc := fa.X.(*ssa.Alloc); isAlloc {
				return true
			}
		}
		return false
	}
	// the pool is wherever a map of client connections is used: package proxy today, possibly a package of its own
	var pfns []*ssa.Function
	for _, f := range c.AllFns {
		if isRepoFn(f) && c16grpcPkg(rootPkg(f)) {
			pfns = append(pfns, f)
		}
	}
	nRead, nIns, nDel := 0, 0, 0
	eachInstrOf(pfns, func(f *ssa.Function, i ssa.Instruction) {
		var m, k ssa.Value
		write := false
		switch x := i.(type) {
		case *ssa.Lookup:
			m, k = x.X, x.Index
		case *ssa.MapUpdate:
			m, k, write = x.Map, x.Key, true
		case *ssa.Range:
			m = x.X
		case *ssa.Call:
			if calleeName(&x.Call) == "builtin.delete" {
				m, k, write = x.Call.Args[0], x.Call.Args[1], true
			}
		}
		if m == nil || !c16isConnMap(m) || fresh(m) {
			return
		}
		switch i.(type) {
		case *ssa.Lookup:
			nRead++
		case *ssa.MapUpdate:
			nIns++
		case *ssa.Call:
			nDel++
		}
		c.check("C16.P1", fnKey(f)+"|pool map accessed under its lock", i.Pos(), c16locked(i, write, 0), "grpcConnectionPool.connections is read and written by concurrent calls and by cleanup(); every access must hold p.lock (write lock for updates)")
		if k != nil {
			c.check("C16.P1", fnKey(f)+"|pool key is makeGRPCTargetKey(target)", i.Pos(), keys.ok(k), "every key of the pool map must come from makeGRPCTargetKey (or from ranging over the map): a differently built key makes Get miss what Set stored, so every call dials again, and cleanup never finds the entry")
		}
	})
	c.atLeast("C16.P1", "reads of the pool map by key", nRead, 1)
	c.atLeast("C16.P1", "inserts into the pool map", nIns, 1)
	c.atLeast("C16.P1", "deletes from the pool map", nDel, 1)

	// P2: the insert is preceded, under the same write lock, by a look at the same key, and the loser is closed
	isConnLookup := func(j ssa.Instruction) bool {
		lk, ok := j.(*ssa.Lookup)
		return ok && c16isConnMap(lk.X)
	}
	sameKey := func(a, b ssa.Value) bool {
		return a == b || accessPath(a) == accessPath(b) || derives(b, func(x ssa.Value) bool { return x == a })
	}
	var rechecked func(at ssa.Instruction, key ssa.Value, depth int) bool
	rechecked = func(at ssa.Instruction, key ssa.Value, depth int) bool {
		f := at.Parent()
		found := false
		eachInstr(f, func(j ssa.Instruction) {
			if found || !dominatesInstr(j, at) || !c16locked(j, true, 0) {
				return
			}
			if lk, ok := j.(*ssa.Lookup); ok && c16isConnMap(lk.X) {
				found = sameKey(lk.Index, key)
				return
			}
			if call, ok := j.(*ssa.Call); ok && call.Call.StaticCallee() != nil && c16mayDo(j, isConnLookup) {
				for _, a := range call.Call.Args {
					if typeStr(a.Type().Underlying()) == "string" || c16isTargetT(a.Type()) {
						found = found || sameKey(a, key)
					}
				}
			}
		})
		if found || depth >= 2 {
			return found
		}
		// the insert sits in a helper: the re-check may be at its (static) call sites
		p, isP := key.(*ssa.Parameter)
		if !isP || p.Parent() != f || !c16onlyStatic(f) || len(gSites[f]) == 0 {
			return false
		}
		idx := -1
		for k, q := range f.Params {
			if q == p {
				idx = k
			}
		}
		for _, s := range gSites[f] {
			if _, isCall := s.(*ssa.Call); !isCall || idx >= len(s.Common().Args) || !rechecked(s, s.Common().Args[idx], depth+1) {
				return false
			}
		}
		return true
	}
	closesIn := func(f *ssa.Function) bool {
		hit := false
		var up func(g *ssa.Function, d int)
		up = func(g *ssa.Function, d int) {
			eachInstrOf(c16syncRegion(g), func(_ *ssa.Function, j ssa.Instruction) {
				if cc := callCommon(j); cc != nil && calleeName(cc) == "(*google.golang.org/grpc.ClientConn).Close" {
					hit = true
				}
			})
			if hit || d >= 2 || !c16onlyStatic(g) {
				return
			}
			for _, s := range gSites[g] {
				if s.Parent() != g {
					up(s.Parent(), d+1)
				}
			}
		}
		up(f, 0)
		return hit
	}
	eachInstrOf(pfns, func(f *ssa.Function, i ssa.Instruction) {
		mu, ok := i.(*ssa.MapUpdate)
		if !ok || !c16isConnMap(mu.Map) || fresh(mu.Map) {
			return
		}
		c.check("C16.P2", fnKey(f)+"|insert re-checks the pool under the write lock and closes the surplus connection", i.Pos(), rechecked(i, mu.Key, 0) && closesIn(f),
			"Get drops the read lock before dialling; two first calls to one backend both dial, and an unconditional insert overwrites the first connection, which is then never closed (leak) — the insert must look the key up again under the write lock and close the connection that lost")
	})
	c.atLeast("C16.P2", "inserts into the pool map", nIns, 1)

	runC16P3(c, pfns, keys)
}

var c16keysCache struct {
	c *Ctx
	k *c16keys
}

func c16poolKeys(c *Ctx) *c16keys {
	if c16keysCache.c != c || c16keysCache.k == nil {
		c16keysCache.c, c16keysCache.k = c, &c16keys{keyFns: map[*ssa.Function]bool{}}
	}
	return c16keysCache.k
}

// ---- P3: the janitor ------------------------------------------------------------------------------------------------------

func c16isSleepLike(i ssa.Instruction) bool {
	switch x := i.(type) {
	case *ssa.Call:
		return calleeName(&x.Call) == "time.Sleep"
	case *ssa.UnOp:
		return x.Op == token.ARROW
	case *ssa.Select:
		return x.Blocking
	}
	return false
}

func runC16P3(c *Ctx, pfns []*ssa.Function, keys *c16keys) {
	isSweepStep := func(i ssa.Instruction) bool {
		rg, ok := i.(*ssa.Range)
		return ok && c16isConnMap(rg.X)
	}
	// the sweep: where the table is ranged over
	var sweeps []*ssa.Function
	for _, f := range pfns {
		if fnHas(f, isSweepStep) {
			sweeps = append(sweeps, f)
		}
	}
	if len(sweeps) == 0 {
		c.undecided("C16.P3", "anchor|proxy.grpcConnectionPool.cleanup", "no function of package proxy ranges over the connection table: nothing sweeps the pool")
		return
	}
	// the janitor loops: loops that perform a sweep in every round (directly or through a helper)
	type jl struct {
		f *ssa.Function
		l *loop
	}
	var janitors []jl
	for _, f := range pfns {
		for _, l := range loopsOf(f) {
			hit := false
			for b := range l.Body {
				for _, i := range b.Instrs {
					if c16mayDo(i, isSweepStep) {
						hit = true
					}
				}
			}
			if hit {
				janitors = append(janitors, jl{f, l})
			}
		}
	}
	if len(janitors) == 0 {
		c.undecided("C16.P3", "anchor|proxy.grpcConnectionPool.cleanup loop", "the sweep over the connection table is not run in a loop: connections of backends that left the table are dropped at most once")
		return
	}
	old := extraPacing
	extraPacing = func(i ssa.Instruction, _ *loop) bool {
		// a helper that sleeps / waits on all of its paths paces the loop like the sleep itself
		call, ok := i.(*ssa.Call)
		if !ok {
			return false
		}
		sc := call.Call.StaticCallee()
		return sc != nil && isRepoFn(sc) && mustExec(unwrap(sc), c16isSleepLike, 1)
	}
	for _, j := range janitors {
		c.check("C16.P3", "proxy.(*grpcConnectionPool).cleanup|loop paced", j.l.Head.Instrs[0].Pos(), spinCycle(j.l) == nil, "the cleanup loop must sleep between sweeps")
	}
	extraPacing = old
	nPause := 0
	seenF := map[*ssa.Function]bool{}
	for _, j := range janitors {
		for _, g := range c16syncRegion(j.f) {
			if seenF[g] {
				continue
			}
			seenF[g] = true
			eachInstr(g, func(i ssa.Instruction) {
				if !c16mayDo(i, c16isSleepLike) {
					return
				}
				nPause++
				c.check("C16.P3", "proxy.(*grpcConnectionPool).cleanup|lock released before sleeping", i.Pos(), !c16mayHold(i, 0),
					"sleeping while holding the pool lock blocks every gRPC call for the whole cleanup interval")
			})
		}
	}
	// started with the pool
	started := false
	eachInstrOf(pfns, func(_ *ssa.Function, i ssa.Instruction) {
		g, ok := i.(*ssa.Go)
		if !ok {
			return
		}
		var cands []*ssa.Function
		if sc := g.Call.StaticCallee(); sc != nil {
			cands = append(cands, unwrap(sc))
		} else if !g.Call.IsInvoke() {
			cands = funcsOf(g.Call.Value)
		}
		for _, cf := range cands {
			for _, j := range janitors {
				if c16reaches(cf, j.f) {
					started = true
				}
			}
		}
	})
	c.check("C16.P3", "proxy.newGrpcConnectionPool|cleanup started", janitors[0].f.Pos(), started, "connections to backends that left the table are dropped only by cleanup(); it must be started with the pool")
	// deletes entries whose target left the table — at once, in the sweep, under the lock
	delUnderMiss := false
	for _, s := range sweeps {
		for _, g := range c16syncRegion(s) {
			eachInstr(g, func(i ssa.Instruction) {
				cc := callCommon(i)
				if cc == nil || calleeName(cc) != "builtin.delete" || !c16isConnMap(cc.Args[0]) {
					return
				}
				if _, isCall := i.(*ssa.Call); !isCall {
					return
				}
				for _, m := range c16memberFacts(i.Block(), keys) {
					if m.truth == m.miss && m.miss != m.has {
						delUnderMiss = true
						for n := range m.other {
							c.check("C16.P3", fnKey(m.where(n))+"|table membership is tested with the pool key", m.pos[n], keys.ok(m.other[n]),
								"whether a pooled connection's target is still in the table must be decided by comparing the entry's key with the pool key of the table's targets; compared with anything else no entry ever matches and every connection is dropped at each sweep (no reuse), or stale ones are kept")
						}
					}
				}
			})
		}
	}
	if !delUnderMiss {
		// the two drops (shut down / vanished) merged into one delete: no branch fact names the miss at the delete, but
		// every path from the miss edge of the membership test to the next entry passes a delete
		isDel := func(i ssa.Instruction) bool {
			call, ok := i.(*ssa.Call)
			return ok && calleeName(&call.Call) == "builtin.delete" && c16isConnMap(call.Call.Args[0])
		}
		lifted := liftMust(isDel, 1)
		for _, s := range sweeps {
			eachInstr(s, func(i ssa.Instruction) {
				iff, ok := i.(*ssa.If)
				if !ok || delUnderMiss {
					return
				}
				cond, neg := iff.Cond, false
				for {
					u, isNot := cond.(*ssa.UnOp)
					if !isNot || u.Op != token.NOT {
						break
					}
					cond, neg = u.X, !neg
				}
				for _, m := range c16memberOf([]Fact{{cond, true}}, keys) {
					// successor on which the entry's target is NOT in the table
					if m.miss == m.has {
						continue // the test does not tell the two cases apart
					}
					missIdx := 1 // Succs[0] is taken when the condition is true
					if m.miss != neg {
						missIdx = 0
					}
					start := iff.Block().Succs[missIdx]
					escaped := false
					seen := map[*ssa.BasicBlock]bool{start: true}
					stack := []*ssa.BasicBlock{start}
					for len(stack) > 0 && !escaped {
						b := stack[len(stack)-1]
						stack = stack[:len(stack)-1]
						blocked := false
						for _, in := range b.Instrs {
							if lifted(in) {
								blocked = true
								break
							}
							if _, isNext := in.(*ssa.Next); isNext {
								escaped = true
							}
							if _, isRet := in.(*ssa.Return); isRet {
								escaped = true
							}
						}
						if blocked {
							continue
						}
						for _, nb := range b.Succs {
							if !seen[nb] {
								seen[nb] = true
								stack = append(stack, nb)
							}
						}
					}
					if !escaped {
						delUnderMiss = true
						for n := range m.other {
							c.check("C16.P3", fnKey(m.where(n))+"|table membership is tested with the pool key", m.pos[n], keys.ok(m.other[n]),
								"whether a pooled connection's target is still in the table must be decided by comparing the entry's key with the pool key of the table's targets")
						}
					}
				}
			})
		}
	}
	c.check("C16.P3", "proxy.(*grpcConnectionPool).cleanup|connections of vanished targets are dropped", sweeps[0].Pos(), delUnderMiss, "an entry whose target is no longer in the table must be deleted (and closed)")
}

// fnHas: some instruction of f satisfies pred.
func fnHas(f *ssa.Function, pred func(ssa.Instruction) bool) bool {
	hit := false
	eachInstr(f, func(i ssa.Instruction) {
		if pred(i) {
			hit = true
		}
	})
	return hit
}

// c16setMembership: the fact is "key is (not) in S" for a set S of strings built from the routing table: `_, ok := S[key]`,
// `S[key]` on a map[string]bool, or slices.Contains(S, key) — the hand-written scan of the table replaced by a set that
// is computed once per sweep. The keys put into S are what the entry's key is compared with.
func c16setMembership(ft Fact, keys *c16keys) (c16membership, bool) {
	var set, key ssa.Value
	switch x := ft.Cond.(type) {
	case *ssa.Extract:
		if lk, ok := x.Tuple.(*ssa.Lookup); ok && lk.CommaOk && x.Index == 1 {
			set, key = lk.X, lk.Index
		}
	case *ssa.Lookup:
		if typeStr(x.Type().Underlying()) == "bool" {
			set, key = x.X, x.Index
		}
	case *ssa.Call:
		if n := typeArgs.ReplaceAllString(calleeName(&x.Call), ""); n == "slices.Contains" && len(x.Call.Args) == 2 {
			set, key = x.Call.Args[0], x.Call.Args[1]
		}
	}
	if set == nil || key == nil || typeStr(key.Type().Underlying()) != "string" || c16isConnMap(set) || !keys.ok(key) {
		return c16membership{}, false
	}
	// where the set is filled
	m := c16membership{truth: ft.Truth, has: true, miss: false}
	tableSeen := false
	seen := map[ssa.Value]bool{}
	var walk func(v ssa.Value, d int)
	note := func(f *ssa.Function) {
		if f == nil {
			return
		}
		m.fn = f
		for _, p := range f.Params {
			if namedIs(p.Type(), "route.Table") {
				tableSeen = true
			}
		}
		eachInstr(f, func(i ssa.Instruction) {
			if cc := callCommon(i); cc != nil && calleeName(cc) == repoMod+"/route.GetTable" {
				tableSeen = true
			}
			if rg, ok := i.(*ssa.Range); ok && namedIs(rg.X.Type(), "route.Table") {
				tableSeen = true
			}
		})
	}
	walk = func(v ssa.Value, d int) {
		if v == nil || seen[v] || d > 6 {
			return
		}
		seen[v] = true
		switch y := v.(type) {
		case *ssa.MakeMap:
			for _, r := range *y.Referrers() {
				if mu, ok := r.(*ssa.MapUpdate); ok && mu.Map == y {
					m.other = append(m.other, mu.Key)
					m.cmp = append(m.cmp, nil)
					m.pos = append(m.pos, mu.Pos())
					note(mu.Parent())
				}
			}
		case *ssa.Phi:
			for _, e := range y.Edges {
				walk(e, d+1)
			}
		case *ssa.ChangeType:
			walk(y.X, d+1)
		case *ssa.Extract:
			walk(y.Tuple, d+1)
		case *ssa.Slice:
			walk(y.X, d+1)
		case *ssa.Call:
			if n := calleeName(&y.Call); n == "builtin.append" {
				walk(y.Call.Args[0], d+1)
				// append(s, k): the varargs slice holds the element
				if len(y.Call.Args) == 2 {
					derives(y.Call.Args[1], func(x ssa.Value) bool {
						if ia, ok := x.(*ssa.IndexAddr); ok {
							for _, r := range *ia.Referrers() {
								if st, ok := r.(*ssa.Store); ok && st.Addr == ia {
									m.other = append(m.other, st.Val)
									m.cmp = append(m.cmp, nil)
									m.pos = append(m.pos, st.Pos())
									note(st.Parent())
								}
							}
						}
						return false
					})
				}
				return
			}
			if sc := y.Call.StaticCallee(); sc != nil && isRepoFn(sc) {
				eachInstr(sc, func(i ssa.Instruction) {
					if r, ok := i.(*ssa.Return); ok {
						for _, res := range r.Results {
							if types.Identical(res.Type(), v.Type()) || d == 0 {
								walk(res, d+1)
							}
						}
					}
				})
			}
		case *ssa.Parameter:
			fn := y.Parent()
			for k, p := range fn.Params {
				if p != y {
					continue
				}
				for _, st := range gSites[fn] {
					if cc := st.Common(); k < len(cc.Args) {
						walk(cc.Args[k], d+1)
					}
				}
			}
		case *ssa.UnOp:
			if a, ok := y.X.(*ssa.Alloc); ok && y.Op == token.MUL {
				for _, r := range *a.Referrers() {
					if st, ok := r.(*ssa.Store); ok && st.Addr == a {
						walk(st.Val, d+1)
					}
				}
			}
		}
	}
	walk(set, 0)
	if len(m.other) == 0 || !tableSeen {
		return c16membership{}, false
	}
	return m, true
}
