package main

// Rules of C18 added after the rounds of independently authored breaking changes (DESIGN 11.6, 11.7).

import (
	"go/token"
	"go/types"

	"golang.org/x/tools/go/ssa"
)

// c18Section: where the lock that protects instruction i is held: i itself when a mutex is (must-)held at it,
// otherwise the single static call site of the helper i sits in (a helper called with the lock held).
func c18Section(i ssa.Instruction, depth int) ssa.Instruction {
	if len(heldAt(i, false)) > 0 {
		return i
	}
	f := i.Parent()
	if depth >= 2 || f == nil || !c18OnlyStatic(f) || len(gSites[f]) != 1 {
		return nil
	}
	s := gSites[f][0]
	if _, isCall := s.(*ssa.Call); !isCall || s.Parent() == f {
		return nil
	}
	return c18Section(s, depth+1)
}

// c18SameHold: a and b (instructions of one function, both under a lock) lie in one critical section: no
// non-deferred unlock can run between them.
func c18SameHold(a, b ssa.Instruction) bool {
	if a == nil || b == nil || a.Parent() != b.Parent() {
		return false
	}
	if a == b {
		return true
	}
	ok := true
	eachInstr(a.Parent(), func(u ssa.Instruction) {
		if _, k := lockCallKind(u); k != "unlock" && k != "runlock" {
			return
		}
		if (canReach(a, u) && canReach(u, b)) || (canReach(b, u) && canReach(u, a)) {
			ok = false
		}
	})
	return ok
}

func runC18R3(c *Ctx) {
	sd := c.fn("proxy", "Shutdown") // exported API
	if !c.need("C18.R3", sd, "proxy.Shutdown") {
		return
	}
	srvT, _ := c18ServerIface(c)
	regs := c18Registries(c, srvT)
	if regs.n == 0 {
		c.undecided("C18.R3", "proxy.servers|registry", "no package-level map of Server (the registry of running servers) found in package proxy")
		return
	}
	isRegistry := regs.addr
	// what proxy.Shutdown runs synchronously (the per-server goroutines come after the snapshot)
	sync := c18SyncRegion(sd, 3)
	var empties, reads []ssa.Instruction
	skip := map[ssa.Value]bool{}
	eachInstrOf(sync, func(f *ssa.Function, i ssa.Instruction) {
		switch x := i.(type) {
		case *ssa.Store:
			if isRegistry(x.Addr) && derives(x.Val, func(v ssa.Value) bool { _, isMake := v.(*ssa.MakeMap); return isMake }) {
				empties = append(empties, i)
			}
		default:
			cc := callCommon(i)
			if cc == nil || len(cc.Args) == 0 || !regs.load(cc.Args[0]) {
				return
			}
			switch calleeName(cc) {
			case "builtin.clear":
				empties = append(empties, i)
				skip[cc.Args[0]] = true
			case "builtin.delete":
				// delete inside a loop that ranges over the registry itself
				for _, l := range loopsOf(f) {
					if !l.Body[i.Block()] {
						continue
					}
					for b := range l.Body {
						for _, in := range b.Instrs {
							if nx, ok := in.(*ssa.Next); ok {
								if rg, ok := nx.Iter.(*ssa.Range); ok && regs.load(rg.X) {
									empties = append(empties, i)
									skip[cc.Args[0]] = true
								}
							}
						}
					}
				}
			}
		}
	})
	eachInstrOf(sync, func(_ *ssa.Function, i ssa.Instruction) {
		if v, ok := i.(ssa.Value); ok && regs.load(v) && !skip[v] {
			reads = append(reads, i)
		}
	})
	if len(reads) == 0 {
		c.undecided("C18.R3", "proxy.Shutdown|snapshot of the registry", "proxy.Shutdown (with its helpers) does not read the registry of running servers")
		return
	}
	emptied := false
	for _, e := range empties {
		se := c18Section(e, 0)
		if se == nil {
			continue
		}
		all := true
		for _, r := range reads {
			if !c18SameHold(c18Section(r, 0), se) {
				all = false
			}
		}
		if all {
			emptied = true
		}
	}
	c.check("C18.R3", "proxy.Shutdown|registry emptied in the critical section that snapshots it", sd.Pos(), emptied,
		"Shutdown must take the servers out of the registry under the same lock that snapshots them: a server that stays registered while it drains is still found by CloseProxy (the tcp-dynamic loop closes a listener's proxy whenever its route disappears) and by Close, which cut its open tunnels at once — in-flight work that would have finished within the wait is broken")
}

func runC18X1(c *Ctx) {
	pkg := c.spkg("exit")
	if pkg == nil {
		c.undecided("C18.X1", "exit|package", "package exit not loaded")
		return
	}
	// the exit handler call: a call of a function value (parameter, captured or stored) taking an os.Signal
	isHandler := func(i ssa.Instruction) bool {
		cc := callCommon(i)
		if cc == nil {
			return false
		}
		if cc.IsInvoke() {
			// the handler as a small interface: a method taking the signal
			ms := cc.Method.Type().(*types.Signature)
			return ms.Params().Len() == 1 && typeStr(ms.Params().At(0).Type()) == "os.Signal"
		}
		if cc.StaticCallee() != nil {
			return false
		}
		if _, isB := cc.Value.(*ssa.Builtin); isB {
			return false
		}
		s, ok := cc.Value.Type().Underlying().(*types.Signature)
		return ok && s.Params().Len() == 1 && typeStr(s.Params().At(0).Type()) == "os.Signal"
	}
	// releasing the registration now (a deferred release runs after the handler returned)
	isRelease := func(i ssa.Instruction) bool {
		call, ok := i.(*ssa.Call)
		if !ok {
			return false
		}
		switch calleeName(&call.Call) {
		case "os/signal.Stop", "os/signal.Reset", "os/signal.Ignore":
			return true
		}
		return false
	}
	isNotify := func(i ssa.Instruction) bool {
		call, ok := i.(*ssa.Call)
		if !ok {
			return false
		}
		n := calleeName(&call.Call)
		return n == "os/signal.Notify" || n == "os/signal.NotifyContext"
	}
	mayHandle, mayRelease := c18LiftMay(isHandler), c18LiftMay(isRelease)
	nHandler := 0
	for _, f := range c.AllFns {
		if rootPkg(f) != pkg {
			continue
		}
		var handlerCalls []ssa.Instruction
		eachInstr(f, func(i ssa.Instruction) {
			if isHandler(i) {
				nHandler++
			}
			if _, isGo := i.(*ssa.Go); !isGo && mayHandle(i) {
				handlerCalls = append(handlerCalls, i)
			}
		})
		eachInstr(f, func(i ssa.Instruction) {
			if !mayRelease(i) {
				return
			}
			before := false
			for _, h := range handlerCalls {
				// on some path the handler runs after the release without the signals having been captured again
				if h != i && pathAvoiding(i, h, isNotify) {
					before = true
				}
			}
			name := "the signal registration is released"
			if cc := callCommon(i); cc != nil && isRelease(i) {
				name = calleeName(cc)
			}
			c.check("C18.X1", fnKey(f)+"|signals stay captured while the exit handler runs", i.Pos(), !before,
				name+" before the exit handler restores the default disposition of SIGINT/SIGTERM/SIGHUP: the handler is where the drain happens (deregister, grace period, proxy.Shutdown(wait)); a second signal during it — double Ctrl-C, a supervisor re-sending TERM, a reload tool's HUP — then kills the process and cuts every in-flight request")
		})
	}
	c.atLeast("C18.X1", "exit handler invocations in package exit", nHandler, 1)
	c.ob("C18.X1", "exit|signal registration not released before the handler", token.NoPos, OK, "scanned package exit for signal.Stop/Reset/Ignore ahead of the handler call")
}
