package main

// Rules of C18 added after the rounds of independently authored breaking changes (DESIGN 11.6, 11.7).

import (
	"go/token"
	"go/types"

	"golang.org/x/tools/go/ssa"
)

func runC18R3(c *Ctx) {
	sd := c.fn("proxy", "Shutdown")
	servers := c.global("proxy", "servers")
	if !c.need("C18.R3", sd, "proxy.Shutdown") || servers == nil {
		if servers == nil {
			c.undecided("C18.R3", "proxy.servers|registry", "package variable servers not found")
		}
		return
	}
	var lock, unlock ssa.Instruction
	eachInstr(sd, func(i ssa.Instruction) {
		if cc := callCommon(i); cc != nil {
			switch calleeName(cc) {
			case "(*sync.Mutex).Lock", "(*sync.RWMutex).Lock":
				if lock == nil {
					lock = i
				}
			case "(*sync.Mutex).Unlock", "(*sync.RWMutex).Unlock":
				if unlock == nil {
					if _, isDefer := i.(*ssa.Defer); !isDefer {
						unlock = i
					}
				}
			}
		}
	})
	emptied := false
	eachInstr(sd, func(i ssa.Instruction) {
		inRegion := lock != nil && dominatesInstr(lock, i) && (unlock == nil || !canReach(unlock, i))
		if !inRegion {
			return
		}
		if st, ok := i.(*ssa.Store); ok && st.Addr == servers {
			if _, isMake := st.Val.(*ssa.MakeMap); isMake {
				emptied = true
			}
		}
		if cc := callCommon(i); cc != nil && (calleeName(cc) == "builtin.clear" || calleeName(cc) == "builtin.delete") && len(cc.Args) > 0 {
			if u, ok := cc.Args[0].(*ssa.UnOp); ok && u.X == servers {
				if calleeName(cc) == "builtin.clear" {
					emptied = true
				} else {
					// delete inside the snapshot loop over the registry itself
					for _, l := range loopsOf(sd) {
						if l.Body[i.Block()] {
							emptied = true
						}
					}
				}
			}
		}
	})
	c.check("C18.R3", "proxy.Shutdown|registry emptied in the critical section that snapshots it", sd.Pos(), emptied,
		"Shutdown must take the servers out of the registry under the same lock that snapshots them: a server that stays registered while it drains is still found by CloseProxy (the tcp-dynamic loop closes a listener's proxy whenever its route disappears) and by Close, which cut its open tunnels at once — in-flight work that would have finished within the wait is broken")
}

func runC18X1(c *Ctx) {
	pkg := c.spkg("exit")
	if pkg == nil {
		c.undecided("C18.X1", "exit|package", "package exit not loaded")
		return
	}
	nFn, nHandler := 0, 0
	for _, f := range c.AllFns {
		if rootPkg(f) != pkg {
			continue
		}
		nFn++
		// the exit handler call: a call of a function-typed parameter / free variable taking os.Signal
		var handlerCalls []ssa.Instruction
		eachInstr(f, func(i ssa.Instruction) {
			cc := callCommon(i)
			if cc == nil || cc.IsInvoke() || cc.StaticCallee() != nil {
				return
			}
			if s, ok := cc.Value.Type().Underlying().(*types.Signature); ok && s.Params().Len() == 1 && typeStr(s.Params().At(0).Type()) == "os.Signal" {
				handlerCalls = append(handlerCalls, i)
			}
		})
		nHandler += len(handlerCalls)
		eachInstr(f, func(i ssa.Instruction) {
			cc := callCommon(i)
			if cc == nil {
				return
			}
			switch calleeName(cc) {
			case "os/signal.Stop", "os/signal.Reset", "os/signal.Ignore":
			default:
				return
			}
			before := false
			for _, h := range handlerCalls {
				if canReach(i, h) {
					before = true
				}
			}
			c.check("C18.X1", fnKey(f)+"|signals stay captured while the exit handler runs", i.Pos(), !before,
				calleeName(cc)+" before the exit handler restores the default disposition of SIGINT/SIGTERM/SIGHUP: the handler is where the drain happens (deregister, grace period, proxy.Shutdown(wait)); a second signal during it — double Ctrl-C, a supervisor re-sending TERM, a reload tool's HUP — then kills the process and cuts every in-flight request")
		})
	}
	c.atLeast("C18.X1", "exit handler invocations in package exit", nHandler, 1)
	c.ob("C18.X1", "exit|signal registration not released before the handler", token.NoPos, OK, "scanned package exit for signal.Stop/Reset/Ignore ahead of the handler call")
}

// ---- C19.D1 / C19.T4 -------------------------------------------------------------------------------------------
