package main

// Small engines shared by the rules added after the third round of seeded changes (DESIGN 11.10).

import (
	"go/token"

	"golang.org/x/tools/go/ssa"
)

// ---- shared small engines ---------------------------------------------------------------------------------------

// edgeFacts: the conditions that hold when control goes from pred to succ: the facts at pred plus the outcome of
// pred's own branch.
func edgeFacts(pred, succ *ssa.BasicBlock) []Fact {
	out := factsAt(pred)
	if len(pred.Instrs) == 0 || len(pred.Succs) != 2 || pred.Succs[0] == pred.Succs[1] {
		return out
	}
	if iff, ok := pred.Instrs[len(pred.Instrs)-1].(*ssa.If); ok {
		out = appendCondFacts(out, iff.Cond, pred.Succs[0] == succ, 0)
	}
	return out
}

// valueLeaves: the values an expression can take, expanded through merges, local cells and the results of repository
// helpers (all returns; result index respected for tuples). Bounded; unknown shapes are leaves themselves.
func valueLeaves(v ssa.Value) []ssa.Value {
	var out []ssa.Value
	seen := map[ssa.Value]bool{}
	var walk func(x ssa.Value, d int)
	walk = func(x ssa.Value, d int) {
		if x == nil || seen[x] {
			return
		}
		seen[x] = true
		if d > 10 {
			out = append(out, x)
			return
		}
		switch y := x.(type) {
		case *ssa.Phi:
			for _, e := range y.Edges {
				walk(e, d+1)
			}
			return
		case *ssa.UnOp:
			if y.Op == token.MUL {
				if a, ok := y.X.(*ssa.Alloc); ok {
					n := 0
					for _, r := range *a.Referrers() {
						if st, ok := r.(*ssa.Store); ok && st.Addr == a {
							walk(st.Val, d+1)
							n++
						}
					}
					if n > 0 {
						return
					}
				}
			}
		case *ssa.Extract:
			if call, ok := y.Tuple.(*ssa.Call); ok {
				if sc := call.Call.StaticCallee(); sc != nil && isRepoFn(sc) && len(sc.Blocks) > 0 {
					eachInstr(sc, func(i ssa.Instruction) {
						if r, ok := i.(*ssa.Return); ok && y.Index < len(r.Results) {
							walk(r.Results[y.Index], d+1)
						}
					})
					return
				}
			}
		case *ssa.Call:
			if sc := y.Call.StaticCallee(); sc != nil && isRepoFn(sc) && len(sc.Blocks) > 0 && sc.Signature.Results().Len() == 1 {
				eachInstr(sc, func(i ssa.Instruction) {
					if r, ok := i.(*ssa.Return); ok && len(r.Results) == 1 {
						walk(r.Results[0], d+1)
					}
				})
				return
			}
		}
		out = append(out, x)
	}
	walk(v, 0)
	return out
}

// int64LowerBound: a lower bound of an integer (duration) value at the point where it is used in block at: constants,
// merges (per incoming edge), and comparisons with constants among the dominating / edge facts.
func int64LowerBound(v ssa.Value, facts []Fact, depth int) (int64, bool) {
	if k, ok := constInt(v); ok {
		return k, true
	}
	if depth > 6 {
		return 0, false
	}
	best, have := int64(0), false
	same := samePath(v)
	for _, f := range facts {
		b, ok := f.Cond.(*ssa.BinOp)
		if !ok {
			continue
		}
		x, y, op := b.X, b.Y, b.Op
		if k, isK := constInt(x); isK && !same(x) {
			// k op v  ->  v op' k
			_ = k
			x, y = y, x
			switch op {
			case token.LSS:
				op = token.GTR
			case token.GTR:
				op = token.LSS
			case token.LEQ:
				op = token.GEQ
			case token.GEQ:
				op = token.LEQ
			}
		}
		k, isK := constInt(y)
		if !isK || !(x == v || same(x)) {
			continue
		}
		if !f.Truth {
			switch op {
			case token.LSS:
				op = token.GEQ
			case token.LEQ:
				op = token.GTR
			case token.GTR:
				op = token.LEQ
			case token.GEQ:
				op = token.LSS
			case token.EQL:
				op = token.NEQ
			case token.NEQ:
				op = token.EQL
			}
		}
		lb, ok2 := int64(0), false
		switch op {
		case token.GEQ, token.EQL:
			lb, ok2 = k, true
		case token.GTR:
			lb, ok2 = k+1, true
		}
		if ok2 && (!have || lb > best) {
			best, have = lb, true
		}
	}
	if have {
		return best, true
	}
	if p, ok := v.(*ssa.Parameter); ok && p.Parent() != nil {
		fn := p.Parent()
		sites := gSites[fn]
		if len(sites) > 0 && len(sites) <= maxHelperSites && onlyStaticallyCalled(fn) {
			idx := -1
			for k, q := range fn.Params {
				if q == p {
					idx = k
				}
			}
			lo, all := int64(0), true
			for k, s := range sites {
				args := s.Common().Args
				if idx < 0 || idx >= len(args) || s.Block() == nil {
					all = false
					break
				}
				l, ok := int64LowerBound(args[idx], factsAt(s.Block()), depth+1)
				if !ok {
					all = false
					break
				}
				if k == 0 || l < lo {
					lo = l
				}
			}
			if all {
				return lo, true
			}
		}
	}
	if phi, ok := v.(*ssa.Phi); ok {
		lo, all := int64(0), true
		for k, e := range phi.Edges {
			if e == phi {
				continue
			}
			pred := phi.Block().Preds[k]
			l, ok := int64LowerBound(e, edgeFacts(pred, phi.Block()), depth+1)
			if !ok {
				all = false
				break
			}
			if k == 0 || l < lo {
				lo = l
			}
		}
		if all && len(phi.Edges) > 0 {
			return lo, true
		}
	}
	return 0, false
}
